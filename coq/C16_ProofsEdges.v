(* C16 — the alive-transition callback log of every step consists exactly of actual flips of alive flags. *)
From Coq Require Import List NArith ZArith Bool Lia.
From Dae Require Import C16_Spec C16_Model C16_Proofs.
From Dae.gen Require Import C16_Consts.
From Dae Require Import C16_ProofsHealth.
Import ListNotations.  Open Scope N_scope.

(* ---------- walking a log ---------- *)
Lemma walk_ext : forall l a a', (forall n d, a n d = a' n d) ->
  match walk_log a l, walk_log a' l with
  | Some f, Some f' => forall n d, f n d = f' n d
  | None, None => True
  | _, _ => False
  end.
Proof.
  induction l as [|[[n d] b] r IH]; intros a a' H; cbn [walk_log].
  - exact H.
  - rewrite (H n d). destruct (Bool.eqb (a' n d) b); [exact I|].
    apply IH. intros n' d'. cbv beta. rewrite H. reflexivity.
Qed.

Lemma walk_app : forall l1 l2 a,
  walk_log a (l1 ++ l2) = match walk_log a l1 with Some f => walk_log f l2 | None => None end.
Proof.
  induction l1 as [|[[n d] b] r IH]; intros; cbn [walk_log app]; [reflexivity|].
  destruct (Bool.eqb (a n d) b); [reflexivity|apply IH].
Qed.

(* ---------- flags and point writes ---------- *)
Definition flags (m : mstate) : N -> dom -> bool := fun n d => d_alive (m_d m n) d.
Definition wr (D : N -> dom -> bool) (n : N) (d : dom) (v : bool) : N -> dom -> bool :=
  fun n' d' => if (n' =? n) && dom_eqb d' d then v else D n' d'.

Lemma flags_write : forall (md : N -> mdialer) n d v f t n' d',
  d_alive (upd md n {| md_alive := upd (md_alive (md n)) (canon (index_of d)) v; md_fail := f; md_traffic := t |} n') d'
  = wr (fun n d => d_alive (md n) d) n d v n' d'.
Proof.
  intros. unfold wr. unfold upd at 1. destruct (n' =? n) eqn:E; cbn [andb]; [|reflexivity].
  apply N.eqb_eq in E; subst n'. apply point_alive.
Qed.

Lemma wr_same : forall D n d v n' d', v = D n d -> wr D n d v n' d' = D n' d'.
Proof.
  intros. unfold wr. destruct ((n' =? n) && dom_eqb d' d) eqn:E; [|reflexivity].
  apply andb_prop in E. destruct E as [E1 E2]. apply N.eqb_eq in E1. apply dom_eqb_eq in E2. now subst.
Qed.

Definition LCp (a0 : N -> dom -> bool) (D : N -> dom -> bool) (log : tlog) : Prop :=
  exists f, walk_log a0 log = Some f /\ forall n d, f n d = D n d.

Lemma LCp_ext : forall a0 D D' log log', (forall n d, D' n d = D n d) -> log' = log -> LCp a0 D log -> LCp a0 D' log'.
Proof. intros a0 D D' log log' H -> (f & A & B). exists f. split; [exact A|]. intros. now rewrite H. Qed.

Lemma LCp_write : forall a0 D log n d v,
  LCp a0 D log -> LCp a0 (wr D n d v) (log ++ if xorb (D n d) v then [(n, d, v)] else []).
Proof.
  intros a0 D log n d v (f & Hw & Hf). unfold LCp. rewrite walk_app, Hw.
  destruct (xorb (D n d) v) eqn:Ex.
  - cbn [walk_log]. rewrite Hf.
    assert (E : Bool.eqb (D n d) v = false) by (destruct (D n d), v; try discriminate Ex; reflexivity).
    rewrite E. eexists; split; [reflexivity|]. intros n' d'; cbv beta. unfold wr. now rewrite Hf.
  - exists f. split; [reflexivity|]. intros n' d'. rewrite wr_same; [apply Hf|].
    destruct (D n d), v; try discriminate Ex; reflexivity.
Qed.

Lemma fold_pres : forall A B (Q : A -> Prop) (F : A -> B -> A), (forall a b, Q a -> Q (F a b)) ->
  forall l a, Q a -> Q (fold_left F l a).
Proof. intros A B Q F HF. induction l as [|b r IH]; intros a H; cbn [fold_left]; [exact H|]. apply IH, HF, H. Qed.

(* ---------- invariants on (flags, log) that survive "flag := false, log iff it was true" ---------- *)
Section Kill.
  Variable P : (N -> dom -> bool) -> tlog -> Prop.
  Hypothesis P_ext : forall D D' log, (forall n d, D' n d = D n d) -> P D log -> P D' log.
  Hypothesis P_kill : forall D log n d,
    P D log -> P (wr D n d false) (log ++ if D n d then [(n, d, false)] else []).

  Definition PM (m : mstate) : Prop := P (flags m) (m_tlog m).

  Lemma PM_pt : forall m m', (forall n d, flags m' n d = flags m n d) -> m_tlog m' = m_tlog m -> PM m -> PM m'.
  Proof. intros m m' A E H. unfold PM. rewrite E. eapply P_ext; [exact A|exact H]. Qed.

  Lemma PM_same : forall m m', m_d m' = m_d m -> m_tlog m' = m_tlog m -> PM m -> PM m'.
  Proof. intros m m' A E H. apply (PM_pt m m'); [|exact E|exact H]. intros. unfold flags. now rewrite A. Qed.

  Lemma PM_health : forall m m', health_eq m m' -> PM m -> PM m'.
  Proof. intros m m' (A & _ & _ & _ & E). now apply PM_same. Qed.

  Lemma PM_kill : forall m m' n d f t, PM m ->
    m_d m' = upd (m_d m) n {| md_alive := upd (md_alive (m_d m n)) (canon (index_of d)) false; md_fail := f; md_traffic := t |} ->
    m_tlog m' = m_tlog m ++ (if md_alive (m_d m n) (canon (index_of d)) then [(n, d, false)] else []) ->
    PM m'.
  Proof.
    intros m m' n d f t H A E. unfold PM. rewrite E.
    eapply P_ext; [|apply (P_kill _ _ n d H)].
    intros n' d'. unfold flags at 1. rewrite A. apply flags_write.
  Qed.

  Lemma mark_forced_PM : forall cfg m n d l, PM m -> PM (mark_forced cfg m n d l).
  Proof.
    intros. unfold mark_forced; cbv zeta. eapply PM_health; [apply inform_health|].
    eapply PM_kill with (n := n) (d := d); [exact H| |];
      destruct (md_alive (m_d m n) (canon (index_of d))); try reflexivity.
    symmetry; apply app_nil_r.
  Qed.

  Lemma escalate_PM : forall cfg m n l, PM m -> PM (escalate cfg m n l).
  Proof. intros. unfold escalate. apply fold_pres; [|exact H]. intros. now apply mark_forced_PM. Qed.

  Lemma notify_failure_PM : forall cfg m n l, PM m -> PM (notify_failure cfg m n l).
  Proof.
    intros. unfold notify_failure; cbv zeta.
    destruct (c_addr cfg n =? 0); [exact H|]. destruct (m_suppressed m); [exact H|].
    destruct (max_consecutive_failures <=? _).
    - apply escalate_PM. exact H.
    - exact H.
  Qed.

  Lemma unavail_tail_PM : forall cfg m n d l (keep : bool) f t, PM m ->
    let cur := md_alive (m_d m n) (canon (index_of d)) in
    let alive := if keep then cur else false in
    let x2 := {| md_alive := upd (md_alive (m_d m n)) (canon (index_of d)) alive; md_fail := f; md_traffic := t |} in
    let m1 := set_dialer m n x2 in
    let m2 := if xorb cur alive then log_transition m1 n d alive else m1 in
    let m3 := if cur && negb alive then notify_failure cfg m2 n l else m2 in
    PM (inform cfg m3 n d alive l).
  Proof.
    intros cfg m n d l keep f t H cur alive x2 m1 m2 m3.
    eapply PM_health; [apply inform_health|].
    destruct keep; subst alive.
    - assert (E3 : m3 = m1).
      { subst m3 m2. rewrite xorb_nilpotent, andb_negb_r. reflexivity. }
      rewrite E3. apply (PM_pt m m1); [|reflexivity|exact H].
      intros n' d'. unfold flags at 1. subst m1 x2. cbn [set_dialer m_d]. rewrite flags_write.
      apply wr_same. reflexivity.
    - assert (H2 : PM m2).
      { eapply PM_kill with (n := n) (d := d); [exact H| |]; subst m2 m1 x2; fold cur;
          rewrite xorb_false_r; destruct cur; try reflexivity. symmetry; apply app_nil_r. }
      subst m3. destruct (cur && negb false); [apply notify_failure_PM|]; exact H2.
  Qed.

  Lemma mark_unavail_PM : forall cfg m n d t l, PM m -> PM (mark_unavail cfg m n d t l).
  Proof.
    intros. unfold mark_unavail. destruct (m_suppressed m); [exact H|].
    destruct t; cbv beta iota zeta; cbn [md_alive md_fail md_traffic].
    - exact (unavail_tail_PM cfg m n d l (md_traffic (m_d m n) (index_of d) + 1 <? threshold d true) _ _ H).
    - exact (unavail_tail_PM cfg m n d l (md_fail (m_d m n) (index_of d) + 1 <? threshold d false) _ _ H).
  Qed.
End Kill.

(* ---------- log consistency ---------- *)
Definition LC (a0 : N -> dom -> bool) (m : mstate) : Prop := PM (LCp a0) m.

Lemma LCp_P_ext : forall a0 D D' log, (forall n d, D' n d = D n d) -> LCp a0 D log -> LCp a0 D' log.
Proof. intros. eapply LCp_ext; eauto. Qed.
Lemma LCp_P_kill : forall a0 D log n d,
  LCp a0 D log -> LCp a0 (wr D n d false) (log ++ if D n d then [(n, d, false)] else []).
Proof. intros. pose proof (LCp_write a0 D log n d false H) as W. now rewrite xorb_false_r in W. Qed.

Lemma LC_write : forall a0 m m' n d v f t, LC a0 m ->
  m_d m' = upd (m_d m) n {| md_alive := upd (md_alive (m_d m n)) (canon (index_of d)) v; md_fail := f; md_traffic := t |} ->
  m_tlog m' = m_tlog m ++ (if xorb (md_alive (m_d m n) (canon (index_of d))) v then [(n, d, v)] else []) ->
  LC a0 m'.
Proof.
  intros a0 m m' n d v f t H A E. unfold LC, PM. rewrite E.
  eapply LCp_ext; [|reflexivity|apply (LCp_write a0 _ _ n d v H)].
  intros n' d'. unfold flags at 1. rewrite A. apply flags_write.
Qed.

Lemma mark_avail_LC : forall a0 cfg m n d l, LC a0 m -> LC a0 (mark_avail cfg m n d l).
Proof.
  intros. unfold mark_avail; cbv zeta. eapply PM_health; [apply LCp_P_ext|apply inform_health|].
  eapply LC_write with (n := n) (d := d) (v := true); [exact H| |];
    destruct (c_addr cfg n =? 0); destruct (md_alive (m_d m n) (canon (index_of d))); try reflexivity;
    symmetry; apply app_nil_r.
Qed.

Lemma traffic_ok_LC : forall a0 cfg m n d l, LC a0 m -> LC a0 (traffic_ok cfg m n d l).
Proof.
  intros. unfold traffic_ok; cbv zeta.
  match goal with |- context [set_dialer m n ?X] => set (x' := X) end.
  assert (H1 : LC a0 (set_dialer m n x')).
  { apply (PM_pt _ (LCp_P_ext a0) m); [|reflexivity|exact H].
    intros n' d'. unfold flags, set_dialer; cbn [m_d]. unfold upd. destruct (n' =? n) eqn:E; [|reflexivity].
    apply N.eqb_eq in E; subst n' x'. destruct (md_traffic (m_d m n) (index_of d) =? 0); reflexivity. }
  destruct (is_data d && _); [apply mark_avail_LC|]; exact H1.
Qed.

Lemma mark_alive_fallback_LC : forall a0 cfg m n d l, LC a0 m -> LC a0 (mark_alive_fallback cfg m n d l).
Proof.
  intros. unfold mark_alive_fallback; cbv zeta.
  match goal with |- context [inform cfg ?M n d true l] =>
    destruct (inform_health cfg M n d true l) as (A & _ & _ & _ & E) end.
  eapply LC_write with (n := n) (d := d) (v := true); [exact H| |];
    destruct (md_alive (m_d m n) (canon (index_of d))); cbn [log_transition m_d m_tlog]; rewrite ?A, ?E; try reflexivity.
  symmetry; apply app_nil_r.
Qed.

(* second loop of restore *)
Definition loop2_body (cfg : config) (n : N) (l : latmap) (m : mstate) (u : N * bool * bool) : mstate :=
  match u with (i, was, al) =>
    let m' := inform cfg m n (dom_of_idx i) al l in
    if xorb was al then log_transition m' n (dom_of_idx i) al else m'
  end.
Definition loop2_log (n : N) (u : N * bool * bool) : tlog :=
  match u with (i, was, al) => if xorb was al then [(n, dom_of_idx i, al)] else [] end.

Lemma restore_loop2 : forall cfg n l ups m,
  m_d (fold_left (loop2_body cfg n l) ups m) = m_d m /\
  m_tlog (fold_left (loop2_body cfg n l) ups m) = m_tlog m ++ flat_map (loop2_log n) ups.
Proof.
  induction ups as [|[[i was] al] r IH]; intros; cbn [fold_left flat_map].
  - split; [reflexivity|symmetry; apply app_nil_r].
  - destruct (IH (loop2_body cfg n l m (i, was, al))) as [A B]. rewrite A, B.
    destruct (inform_health cfg m n (dom_of_idx i) al l) as (E & _ & _ & _ & T).
    unfold loop2_body, loop2_log.
    destruct (xorb was al); cbn [log_transition m_d m_tlog]; rewrite E, T; split; try reflexivity.
    rewrite <- app_assoc. reflexivity.
Qed.

Definition loop1_body (old : mdialer) (acc : mdialer * list (N * bool * bool)) (i : N) :=
  let x := fst acc in
  let was := md_alive x (canon i) in
  let al := md_alive old (canon i) in
  ({| md_alive := upd (md_alive x) (canon i) al; md_fail := upd (md_fail x) i 0;
      md_traffic := upd (md_traffic x) i 0 |}, snd acc ++ [(i, was, al)]).

Lemma restore_eq : forall cfg old m n l,
  restore cfg old m n l =
  fold_left (loop2_body cfg n l) (snd (fold_left (loop1_body old) all_idx (m_d m n, [])))
            (set_dialer m n (fst (fold_left (loop1_body old) all_idx (m_d m n, [])))).
Proof.
  intros. unfold restore. fold (loop1_body old).
  change (fun (m0 : mstate) (u : N * bool * bool) => let (y, al) := u in let (i, was) := y in
           let m' := inform cfg m0 n (dom_of_idx i) al l in
           if xorb was al then log_transition m' n (dom_of_idx i) al else m') with (loop2_body cfg n l).
  destruct (fold_left (loop1_body old) all_idx (m_d m n, [])). reflexivity.
Qed.

Definition ent (n : N) (d : dom) (was al : bool) : tlog := if xorb was al then [(n, d, al)] else [].

Lemma loop1_flags : forall old x0 d, d_alive (fst (fold_left (loop1_body old) all_idx (x0, []))) d = d_alive old d.
Proof. intros. destruct d; reflexivity. Qed.

Lemma loop1_log : forall old x0 n,
  flat_map (loop2_log n) (snd (fold_left (loop1_body old) all_idx (x0, []))) =
  ent n Tcp4 (d_alive x0 Tcp4) (d_alive old Tcp4) ++ ent n Tcp6 (d_alive x0 Tcp6) (d_alive old Tcp6) ++
  ent n DnsUdp4 (d_alive x0 DnsUdp4) (d_alive old DnsUdp4) ++ ent n DnsUdp6 (d_alive x0 DnsUdp6) (d_alive old DnsUdp6) ++
  ent n Tcp4 (d_alive old Tcp4) (d_alive old Tcp4) ++ ent n Tcp6 (d_alive old Tcp6) (d_alive old Tcp6) ++
  ent n DataUdp4 (d_alive x0 DataUdp4) (d_alive old DataUdp4) ++ ent n DataUdp6 (d_alive x0 DataUdp6) (d_alive old DataUdp6) ++ [].
Proof. intros. reflexivity. Qed.

Lemma ent_same : forall n d b, ent n d b b = [].
Proof. intros. unfold ent. now rewrite xorb_nilpotent. Qed.

Lemma wr_node : forall D n d v d', wr D n d v n d' = if dom_eqb d' d then v else D n d'.
Proof. intros. unfold wr. now rewrite N.eqb_refl. Qed.

Lemma restore_LC : forall a0 cfg old m n l, LC a0 m -> LC a0 (restore cfg old m n l).
Proof.
  intros a0 cfg old m n l H. rewrite restore_eq.
  set (r := fold_left (loop1_body old) all_idx (m_d m n, [])).
  destruct (restore_loop2 cfg n l (snd r) (set_dialer m n (fst r))) as [A B].
  unfold LC, PM. rewrite B. cbn [set_dialer m_tlog]. subst r. rewrite loop1_log, !ent_same. cbn [app].
  unfold LC, PM in H.
  pose proof (LCp_write a0 _ _ n Tcp4 (d_alive old Tcp4) H) as H1.
  pose proof (LCp_write a0 _ _ n Tcp6 (d_alive old Tcp6) H1) as H2.
  pose proof (LCp_write a0 _ _ n DnsUdp4 (d_alive old DnsUdp4) H2) as H3.
  pose proof (LCp_write a0 _ _ n DnsUdp6 (d_alive old DnsUdp6) H3) as H4.
  pose proof (LCp_write a0 _ _ n DataUdp4 (d_alive old DataUdp4) H4) as H5.
  pose proof (LCp_write a0 _ _ n DataUdp6 (d_alive old DataUdp6) H5) as H6.
  clear H1 H2 H3 H4 H5.
  eapply LCp_ext; [| |exact H6].
  - intros n' d'. unfold flags at 1. rewrite A. cbn [set_dialer m_d]. unfold upd at 1.
    destruct (n' =? n) eqn:E.
    + apply N.eqb_eq in E; subst n'. rewrite loop1_flags. rewrite !wr_node.
      destruct d'; reflexivity.
    + unfold wr. rewrite E. reflexivity.
  - rewrite !wr_node. cbn [dom_eqb dom_code N.eqb Pos.eqb]. fold (ent n Tcp4). unfold ent, flags.
    rewrite <- !app_assoc, app_nil_r. reflexivity.
Qed.

Lemma ensure_floor_LC : forall a0 cfg m gi g fb l, LC a0 m -> LC a0 (ensure_floor cfg m gi g fb l).
Proof.
  intros. unfold ensure_floor. destruct (keeps_sets g); [|exact H].
  apply fold_pres; [|exact H]. intros m' d H'.
  destruct (negb _); [exact H'|].
  destruct (match fb d with Some c => Some c | None => _ end); [apply mark_alive_fallback_LC|]; exact H'.
Qed.

Lemma inherit_LC : forall a0 cfg old l gs m gi, LC a0 m -> LC a0 (inherit cfg old m gi gs l).
Proof.
  induction gs as [|g r IH]; intros m gi H; cbn [inherit]; [exact H|].
  apply IH. apply ensure_floor_LC. apply fold_pres; [|exact H]. intros. now apply restore_LC.
Qed.

Lemma m_reload_LC : forall cfg m l, LC (fun _ _ => true) (m_reload cfg (clear_logs m) l).
Proof.
  intros. unfold m_reload. apply inherit_LC. unfold m_fresh_generation.
  eapply PM_health; [apply LCp_P_ext|apply new_groups_health|].
  exists (fun _ _ => true). split; reflexivity.
Qed.

Lemma clear_LC : forall m, LC (flags m) (clear_logs m).
Proof. intros. exists (flags m). split; reflexivity. Qed.

Lemma step_LC : forall cfg m e, LC (if no_reload e then flags m else fun _ _ => true) (m_step cfg m e).
Proof.
  intros. pose proof (clear_LC m) as H0.
  destruct e; cbn [no_reload m_step].
  - destruct k; try (destruct ign; [exact H0|apply mark_unavail_PM; [apply LCp_P_ext|apply LCp_P_kill|exact H0]]).
    apply mark_forced_PM; [apply LCp_P_ext|apply LCp_P_kill|exact H0].
  - apply mark_avail_LC, H0.
  - exact H0.
  - apply traffic_ok_LC, H0.
  - exact H0.
  - destruct (m_supp (clear_logs m) =? 0); exact H0.
  - exact H0.
  - exact H0.
  - apply m_reload_LC.
Qed.

Lemma C16_edge_triggered_proof : forall cfg h e,
  valid_log (if no_reload e then model_alive cfg h else (fun _ _ => true))
            (m_tlog (m_run cfg (h ++ [e]))) (model_alive cfg (h ++ [e])).
Proof.
  intros. unfold model_alive at 2. rewrite m_run_snoc. exact (step_LC cfg (m_run cfg h) e).
Qed.

(* ---------- each (node, type) is reported at most once per non-reload step ---------- *)
Definition key (t : N * dom * bool) : N * N := (fst (fst t), dom_code (snd (fst t))).
Definition Dead (D : N -> dom -> bool) (log : tlog) : Prop :=
  NoDup (map key log) /\ forall t, In t log -> D (fst (fst t)) (snd (fst t)) = false.

Lemma dom_code_inj : forall a b, dom_code a = dom_code b -> a = b.
Proof. destruct a, b; cbv; congruence. Qed.

Lemma NoDup_snoc : forall A (l : list A) x, NoDup l -> ~ In x l -> NoDup (l ++ [x]).
Proof.
  intros A l x H. induction H as [|y l Hy Hl IH]; intros Hx; cbn [app].
  - constructor; [intros []|constructor].
  - constructor.
    + rewrite in_app_iff. intros [Hin|[->|[]]]; [now apply Hy|]. apply Hx. now left.
    + apply IH. intros Hin. apply Hx. now right.
Qed.

Lemma Dead_ext : forall D D' log, (forall n d, D' n d = D n d) -> Dead D log -> Dead D' log.
Proof. intros D D' log H [A B]. split; [exact A|]. intros t Ht. rewrite H. now apply B. Qed.

Lemma Dead_kill : forall D log n d,
  Dead D log -> Dead (wr D n d false) (log ++ if D n d then [(n, d, false)] else []).
Proof.
  intros D log n d [A B]. destruct (D n d) eqn:E.
  - split.
    + rewrite map_app. cbn [map]. apply NoDup_snoc; [exact A|].
      intros Hin. apply in_map_iff in Hin. destruct Hin as ([[n' d'] b] & Hk & Hin).
      unfold key in Hk; cbn [fst snd] in Hk. injection Hk as Hn Hd. apply dom_code_inj in Hd. subst n' d'.
      specialize (B _ Hin). cbn [fst snd] in B. congruence.
    + intros t Ht. apply in_app_iff in Ht. destruct Ht as [Ht|[<-|[]]].
      * unfold wr. destruct (_ && _); [reflexivity|now apply B].
      * cbn [fst snd]. unfold wr. now rewrite N.eqb_refl, dom_eqb_refl.
  - rewrite app_nil_r. split; [exact A|].
    intros t Ht. unfold wr. destruct (_ && _); [reflexivity|now apply B].
Qed.

Lemma Dead_clear : forall m, PM Dead (clear_logs m).
Proof. intros. split; cbn [clear_logs m_tlog map]; [constructor|intros t []]. Qed.

Lemma mark_avail_log : forall cfg m n d l, m_tlog m = [] ->
  NoDup (map key (m_tlog (mark_avail cfg m n d l))).
Proof.
  intros cfg m n d l H. unfold mark_avail; cbv zeta.
  match goal with |- context [inform cfg ?M n d true l] =>
    destruct (inform_health cfg M n d true l) as (_ & _ & _ & _ & E); rewrite E end.
  destruct (c_addr cfg n =? 0); destruct (md_alive (m_d m n) (canon (index_of d)));
    cbn [log_transition set_tracker set_dialer m_tlog]; rewrite H; cbn [app map];
    repeat constructor; intros [].
Qed.

Lemma step_once : forall cfg m e, no_reload e = true -> NoDup (map key (m_tlog (m_step cfg m e))).
Proof.
  intros cfg m e He. pose proof (Dead_clear m) as H0.
  destruct e; cbn [m_step]; try discriminate He; try (cbn; constructor).
  - destruct k; try (destruct ign; [cbn; constructor|apply (mark_unavail_PM Dead Dead_ext Dead_kill), H0]).
    apply (mark_forced_PM Dead Dead_ext Dead_kill), H0.
  - apply mark_avail_log. reflexivity.
  - unfold traffic_ok; cbv zeta. destruct (is_data d && _); [apply mark_avail_log; reflexivity|cbn; constructor].
  - destruct (m_supp (clear_logs m) =? 0); cbn; constructor.
Qed.

Lemma C16_edge_once_proof : forall cfg h e, no_reload e = true ->
  NoDup (map (fun t => (fst (fst t), dom_code (snd (fst t)))) (m_tlog (m_run cfg (h ++ [e])))).
Proof. intros. rewrite m_run_snoc. exact (step_once cfg (m_run cfg h) e H). Qed.

Print Assumptions C16_edge_triggered_proof.
Print Assumptions C16_edge_once_proof.
