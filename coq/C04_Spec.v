(* C04 — rule normalisation never changes what the rules mean.
   Spec: the meaning of a rule list, read directly on the configuration AST the user wrote
   (pkg/config_parser: RoutingRule / Function / Param), knowing nothing of optimizers.

     a value (Param) means whatever [atom_sem] says about one packet / DNS question;
     a condition  [!]f(v1,...,vn)  holds  iff  (some vi holds) xor negated;
     a rule matches iff all its conditions hold;
     the decision is the outbound of the first matching rule; a matching rule whose outbound is
     `must_rules` only raises the `must` flag and the scan goes on; no rule -> the fallback.

   The meaning of single values ([atom_sem]) and of outbounds ([out_sem]) are parameters: the property is
   about the structure of the list.  They are only required to respect what the user documentation says
   about aliases and geodata references (the two predicates at the end). *)
From Coq Require Import List String Bool.
Import ListNotations.
Open Scope string_scope.

Record param := { p_key : string; p_val : string }.
Record func := { f_name : string; f_not : bool; f_params : list param }.
(* the outbound of a rule is itself a Function in the AST:  proxy(mark: 1, must) *)
Record rule := { r_funcs : list func; r_out : func }.

Section Decide.
  Variable packet : Type.
  Variable D : Type.                                              (* what an outbound means *)
  Variable atom_sem : string -> string -> string -> packet -> bool. (* function, key, value *)
  Variable out_sem : func -> option D.                            (* None: `must_rules` *)

  Definition param_holds (fname : string) (pk : packet) (p : param) : bool :=
    atom_sem fname (p_key p) (p_val p) pk.

  Definition func_holds (pk : packet) (f : func) : bool :=
    xorb (f_not f) (existsb (param_holds (f_name f) pk) (f_params f)).

  Definition rule_matches (pk : packet) (r : rule) : bool :=
    forallb (func_holds pk) (r_funcs r).

  (* result: (Some meaning-of-outbound | None = fallback,  must flag collected on the way) *)
  Fixpoint decide_ast (rules : list rule) (pk : packet) (must : bool) : option D * bool :=
    match rules with
    | [] => (None, must)
    | r :: rs =>
        if rule_matches pk r then
          match out_sem (r_out r) with
          | Some d => (Some d, must)
          | None => decide_ast rs pk true
          end
        else decide_ast rs pk must
    end.

  Definition decide (rules : list rule) (pk : packet) : option D * bool := decide_ast rules pk false.

  (* ---- what the documentation promises about aliases (docs: dip = ip, dport = port; for domain():
          no key or `domain` = suffix, `contains` = keyword) ---- *)
  Definition canon_fname (f : string) : string :=
    if f =? "dport" then "port" else if f =? "dip" then "ip" else f.

  Definition canon_key (canonical_fname k : string) : string :=
    if canonical_fname =? "domain" then
      (if (k =? "") || (k =? "domain") then "suffix" else if k =? "contains" then "keyword" else k)
    else k.

  Definition alias_respecting : Prop :=
    forall f k v pk, atom_sem f k v pk = atom_sem (canon_fname f) (canon_key (canon_fname f) k) v pk.

  (* ---- geodata references: a value that names a list means "any value of that list".
          [expand f p = Some ps]: under function f the value p is a reference that stands for ps. ---- *)
  Definition geo_respecting (expand : string -> param -> option (list param)) : Prop :=
    forall f p ps pk, expand f p = Some ps ->
                      param_holds f pk p = existsb (param_holds f pk) ps.
End Decide.
