(* C13 — proofs about the ingress buffer hand-off model (C13_Ingress.v):
   ownership of the per-packet buffers over every interleaving of ReadBatch / Take / task run / Close. *)
From Coq Require Import List Arith Bool Lia Permutation.
From Dae Require Import C13_Model C13_Proofs C13_Ingress.
Import ListNotations.

(* ------------------------------------------------------------------------------------------ *)
(* generic facts                                                                               *)
(* ------------------------------------------------------------------------------------------ *)
Lemma ing_In_upd {A} (l : list A) i x y : In y (upd l i x) -> y = x \/ In y l.
Proof.
  revert i; induction l as [|z r IH]; intros i H; destruct i; cbn in *; auto.
  - destruct H; auto.
  - destruct H as [H|H]; auto. destruct (IH _ H); auto.
Qed.

Lemma ing_map_upd_same {A B} (f : A -> B) (l : list A) i x y :
  nth_error l i = Some x -> f y = f x -> map f (upd l i y) = map f l.
Proof.
  revert i; induction l as [|z r IH]; intros i H E; destruct i; cbn in *; try discriminate.
  - inversion H; subst. now rewrite E.
  - f_equal. now apply IH.
Qed.

Lemma ing_NoDup_app_inv {A} (l1 l2 : list A) :
  NoDup (l1 ++ l2) -> NoDup l1 /\ NoDup l2 /\ (forall x, In x l1 -> ~ In x l2).
Proof.
  induction l1 as [|a r IH]; cbn; intros H.
  - repeat split; auto. constructor.
  - inversion H as [|? ? Hn Hr]; subst. destruct (IH Hr) as (N1 & N2 & D).
    split; [|split]; auto.
    + constructor; auto. intro; apply Hn, in_or_app; auto.
    + intros x [->|Hx]; auto. intro; apply Hn, in_or_app; auto.
Qed.

(* permutations of lists of numbers by counting *)
Ltac perm_hyps x :=
  repeat match goal with
  | H : Permutation ?a ?b |- _ =>
      let H' := fresh "C" in
      pose proof (proj1 (Permutation_count_occ Nat.eq_dec a b) H x) as H'; clear H
  end.
Ltac perm_solve :=
  let x := fresh "x" in
  apply (Permutation_count_occ Nat.eq_dec); intro x; perm_hyps x;
  repeat rewrite count_occ_app in *;
  try change (count_occ Nat.eq_dec (@nil nat) x) with 0 in *;
  lia.

(* ------------------------------------------------------------------------------------------ *)
(* the invariant                                                                               *)
(* ------------------------------------------------------------------------------------------ *)
Definition sbufs (l : list islot) : list nat :=
  flat_map (fun sl => match s_buf sl with Some b => [b] | None => [] end) l.
Definition pbufs (l : list itask) : list nat :=
  flat_map (fun tk => if t_done tk then [] else [t_buf tk]) l.

(* the three owner classes (running tasks, slots, pool) partition the buffers allocated so far;
   a delivered and not yet taken slot holds its datagram; a pending task's buffer holds its datagram *)
Definition Inv (s : istate) : Prop :=
  Permutation (pbufs (i_tasks s) ++ sbufs (i_slots s) ++ i_puts s) (seq 0 (i_next s))
  /\ (forall sl p v b, In sl (i_slots s) -> s_msg sl = Some (p, v) -> s_buf sl = Some b -> i_content s b = p)
  /\ (forall tk, In tk (i_tasks s) -> t_done tk = false -> i_content s (t_buf tk) = t_expect tk)
  /\ (forall tk, In tk (i_tasks s) -> t_done tk = true -> t_handled tk = t_expect tk)
  /\ map t_expect (i_tasks s) = i_taken s.

Lemma sbufs_repeat_empty n : sbufs (repeat (mkIS None None None) n) = [].
Proof. induction n; cbn; auto. Qed.

Lemma Inv_init n : Inv (i_init n).
Proof.
  unfold Inv, i_init; cbn [i_slots i_content i_next i_tasks i_puts i_taken].
  rewrite sbufs_repeat_empty. cbn. repeat split; auto; try contradiction.
  intros sl p v b H Hm. apply repeat_spec in H. subst. discriminate.
Qed.

(* ------------------------------------------------------------------------------------------ *)
(* ReadBatch                                                                                   *)
(* ------------------------------------------------------------------------------------------ *)
Lemma attach_spec : forall sl n sl' n', attach sl n = (sl', n') ->
  n <= n' /\ Permutation (sbufs sl') (sbufs sl ++ seq n (n' - n))
  /\ Forall (fun s => s_b0 s = s_buf s /\ s_msg s = None) sl'.
Proof.
  induction sl as [|s r IH]; intros n sl' n' H; cbn in H.
  - inversion H; subst. rewrite Nat.sub_diag. cbn. repeat split; auto.
  - destruct (s_buf s) as [b|] eqn:Eb.
    + destruct (attach r n) as [r' n''] eqn:E. inversion H; subst.
      destruct (IH _ _ _ E) as (L & P & F).
      split; [lia|]. split.
      * unfold sbufs; cbn. rewrite Eb. cbn. constructor. exact P.
      * constructor; auto.
    + destruct (attach r (S n)) as [r' n''] eqn:E. inversion H; subst.
      destruct (IH _ _ _ E) as (L & P & F).
      split; [lia|]. split.
      * unfold sbufs; cbn. rewrite Eb. cbn.
        replace (n' - n) with (S (n' - S n)) by lia. cbn.
        apply Permutation_cons_app. exact P.
      * constructor; auto.
Qed.

Lemma deliver_spec : forall sl dgs c sl' c',
  Forall (fun s => s_b0 s = s_buf s /\ s_msg s = None) sl -> NoDup (sbufs sl) ->
  deliver sl dgs c = (sl', c') ->
  sbufs sl' = sbufs sl
  /\ (forall b, ~ In b (sbufs sl) -> c' b = c b)
  /\ (forall s p v b, In s sl' -> s_msg s = Some (p, v) -> s_buf s = Some b -> c' b = p).
Proof.
  induction sl as [|s r IH]; intros dgs c sl' c' F ND H.
  - cbn in H. inversion H; subst. repeat split; auto. intros; contradiction.
  - destruct dgs as [|d ds]; cbn in H.
    + inversion H; subst. split; auto. split; auto.
      intros s0 p v b Hin Hm. rewrite Forall_forall in F. destruct (F _ Hin) as (_ & Hn). congruence.
    + inversion F as [|? ? [Hb0 Hm] Fr]; subst.
      rewrite Hb0 in H.
      destruct (s_buf s) as [b|] eqn:Eb.
      * destruct (deliver r ds (cset c b (fst d))) as [r' c''] eqn:E. inversion H; subst; clear H.
        unfold sbufs in ND; cbn in ND; rewrite Eb in ND; cbn in ND. fold (sbufs r) in ND.
        inversion ND as [|? ? Hnb NDr]; subst.
        destruct (IH _ _ _ _ Fr NDr E) as (ES & CK & CW).
        split; [|split].
        -- unfold sbufs; cbn. rewrite Eb. cbn. f_equal. exact ES.
        -- intros b0 Hb0'. unfold sbufs in Hb0'; cbn in Hb0'; rewrite Eb in Hb0'; cbn in Hb0'.
           rewrite CK by (intro; apply Hb0'; right; assumption).
           unfold cset. destruct (b0 =? b) eqn:Eq; auto.
           apply Nat.eqb_eq in Eq. exfalso; apply Hb0'; left; auto.
        -- intros s0 p v b0 [<-|Hin] Hm' Hb'.
           ++ cbn in Hm', Hb'. inversion Hm'; inversion Hb'; subst.
              rewrite CK by assumption. unfold cset. now rewrite Nat.eqb_refl.
           ++ eapply CW; eauto.
      * destruct (deliver r ds c) as [r' c''] eqn:E. inversion H; subst; clear H.
        unfold sbufs in ND; cbn in ND; rewrite Eb in ND; cbn in ND. fold (sbufs r) in ND.
        destruct (IH _ _ _ _ Fr ND E) as (ES & CK & CW).
        split; [|split].
        -- unfold sbufs; cbn. rewrite Eb. cbn. exact ES.
        -- intros b0 Hb0'. unfold sbufs in Hb0'; cbn in Hb0'; rewrite Eb in Hb0'; cbn in Hb0'.
           apply CK. exact Hb0'.
        -- intros s0 p v b0 [<-|Hin] Hm' Hb'.
           ++ cbn in Hb'. congruence.
           ++ eapply CW; eauto.
Qed.

Lemma step_read s dgs : Inv s -> Inv (istep true true s (IRead dgs)).
Proof.
  intros (P & I3 & I4 & I5 & I6). unfold istep.
  destruct (attach (i_slots s) (i_next s)) as [sl n'] eqn:EA.
  destruct (attach_spec _ _ _ _ EA) as (L & PA & FA).
  assert (P' : Permutation (pbufs (i_tasks s) ++ sbufs sl ++ i_puts s) (seq 0 n')).
  { replace n' with (i_next s + (n' - i_next s)) by lia.
    rewrite seq_app. cbn [plus]. replace (i_next s + (n' - i_next s) - i_next s) with (n' - i_next s) in PA by lia.
    perm_solve. }
  assert (ND := Permutation_NoDup (Permutation_sym P') (seq_NoDup _ _)).
  apply ing_NoDup_app_inv in ND as (_ & ND2 & D1).
  apply ing_NoDup_app_inv in ND2 as (NDS & _ & _).
  destruct (deliver sl dgs (i_content s)) as [sl2 c2] eqn:ED.
  destruct (deliver_spec _ _ _ _ _ FA NDS ED) as (ES & CK & CW).
  unfold Inv; cbn [i_slots i_content i_next i_tasks i_puts i_taken].
  split; [rewrite ES; exact P'|]. split; [exact CW|]. split; [|split; assumption].
  intros tk Hin Hd. rewrite CK; [apply I4; assumption|].
  intro Hs. apply (D1 (t_buf tk)).
  - unfold pbufs. apply in_flat_map. exists tk. split; auto. rewrite Hd. left; reflexivity.
  - apply in_or_app. left. exact Hs.
Qed.

(* ------------------------------------------------------------------------------------------ *)
(* Take                                                                                        *)
(* ------------------------------------------------------------------------------------------ *)
Lemma step_take s i : Inv s -> Inv (istep true true s (ITake i)).
Proof.
  intros HI. pose proof HI as (P & I3 & I4 & I5 & I6). unfold istep.
  destruct (nth_error (i_slots s) i) as [sl|] eqn:En; [|exact HI].
  destruct (s_buf sl) as [b|] eqn:Eb; [|exact HI].
  assert (Hin := nth_error_In _ _ En).
  assert (PS : Permutation (sbufs (upd (i_slots s) i (mkIS None None (s_msg sl))) ++ [b]) (sbufs (i_slots s) ++ [])).
  { pose proof (flat_map_upd_perm (fun sl => match s_buf sl with Some b => [b] | None => [] end)
                  (i_slots s) i sl (mkIS None None (s_msg sl)) En) as Q.
    cbn in Q. rewrite Eb in Q. exact Q. }
  assert (I3' : forall sl0 p v b0, In sl0 (upd (i_slots s) i (mkIS None None (s_msg sl))) ->
            s_msg sl0 = Some (p, v) -> s_buf sl0 = Some b0 -> i_content s b0 = p).
  { intros sl0 p v b0 H0 Hm Hb. apply ing_In_upd in H0 as [->|H0]; [discriminate|]. eapply I3; eauto. }
  assert (INV : Inv (mkI (upd (i_slots s) i (mkIS None None (s_msg sl))) (i_content s) (i_next s) (i_tasks s)
                     (i_puts s ++ [b]) (i_taken s))).
  { unfold Inv; cbn [i_slots i_content i_next i_tasks i_puts i_taken].
    split; [|repeat split; assumption].
    etransitivity; [|exact P]. clear P. perm_solve. }
  destruct (s_msg sl) as [[payload [|]]|] eqn:Em; try exact INV.
  clear INV.
  unfold Inv; cbn [i_slots i_content i_next i_tasks i_puts i_taken].
  split; [|split; [exact I3'|split; [|split]]].
  - unfold pbufs. rewrite flat_map_app. cbn. fold (pbufs (i_tasks s)).
    etransitivity; [|exact P]. clear P. perm_solve.
  - intros tk H0 Hd. apply in_app_or in H0 as [H0|[<-|[]]]; [apply I4; assumption|].
    cbn. eapply I3; eauto.
  - intros tk H0 Hd. apply in_app_or in H0 as [H0|[<-|[]]]; [apply I5; assumption|]. discriminate.
  - rewrite map_app. cbn. now rewrite I6.
Qed.

(* ------------------------------------------------------------------------------------------ *)
(* a task runs                                                                                 *)
(* ------------------------------------------------------------------------------------------ *)
Lemma step_run s t : Inv s -> Inv (istep true true s (IRun t)).
Proof.
  intros HI. pose proof HI as (P & I3 & I4 & I5 & I6). unfold istep.
  destruct (nth_error (i_tasks s) t) as [tk|] eqn:En; [|exact HI].
  destruct (t_done tk) eqn:Ed; [exact HI|].
  assert (Hin := nth_error_In _ _ En).
  set (tk' := mkIT (t_buf tk) (t_expect tk) true (i_content s (t_buf tk))).
  assert (PT : Permutation (pbufs (upd (i_tasks s) t tk') ++ [t_buf tk]) (pbufs (i_tasks s) ++ [])).
  { pose proof (flat_map_upd_perm (fun tk => if t_done tk then [] else [t_buf tk])
                  (i_tasks s) t tk tk' En) as Q.
    cbn in Q. rewrite Ed in Q. exact Q. }
  unfold Inv; cbn [i_slots i_content i_next i_tasks i_puts i_taken].
  split; [|split; [exact I3|split; [|split]]].
  - etransitivity; [|exact P]. clear P. perm_solve.
  - intros tk0 H0 Hd. apply ing_In_upd in H0 as [->|H0]; [discriminate|]. apply I4; assumption.
  - intros tk0 H0 Hd. apply ing_In_upd in H0 as [->|H0]; [|apply I5; assumption].
    cbn. apply I4; assumption.
  - rewrite (ing_map_upd_same t_expect (i_tasks s) t tk tk' En); auto.
Qed.

(* ------------------------------------------------------------------------------------------ *)
(* Close                                                                                       *)
(* ------------------------------------------------------------------------------------------ *)
Lemma sbufs_detached l : sbufs (map (fun sl => mkIS None None (s_msg sl)) l) = [].
Proof. induction l; cbn; auto. Qed.

Lemma step_close s : Inv s -> Inv (istep true true s IClose).
Proof.
  intros (P & I3 & I4 & I5 & I6).
  replace (istep true true s IClose)
    with (mkI (map (fun sl => mkIS None None (s_msg sl)) (i_slots s)) (i_content s) (i_next s) (i_tasks s)
              (i_puts s ++ sbufs (i_slots s)) (i_taken s)).
  2:{ unfold istep, sbufs. f_equal. f_equal. apply flat_map_ext.
      intro a. destruct (s_buf a); reflexivity. }
  unfold Inv; cbn [i_slots i_content i_next i_tasks i_puts i_taken].
  rewrite sbufs_detached.
  split; [|split; [|repeat split; assumption]].
  - etransitivity; [|exact P]. clear P. perm_solve.
  - intros sl p v b H Hm Hb. apply in_map_iff in H as (sl0 & <- & _). discriminate.
Qed.

(* ------------------------------------------------------------------------------------------ *)
(* every interleaving                                                                          *)
(* ------------------------------------------------------------------------------------------ *)
Lemma Inv_step s o : Inv s -> Inv (istep true true s o).
Proof.
  destruct o; [apply step_read|apply step_take|apply step_run|apply step_close].
Qed.

Lemma Inv_run : forall ops s, Inv s -> Inv (fold_left (istep true true) ops s).
Proof. induction ops as [|o r IH]; intros s H; cbn; auto. apply IH, Inv_step, H. Qed.

Lemma at_rest_empty s : at_rest s = true -> sbufs (i_slots s) = [] /\ pbufs (i_tasks s) = [].
Proof.
  unfold at_rest. intros H. apply andb_true_iff in H as [H1 H2]. split.
  - revert H1. generalize (i_slots s) as l. induction l as [|a l IH]; cbn; auto.
    destruct (s_buf a); cbn; [discriminate|]. exact IH.
  - revert H2. generalize (i_tasks s) as l. induction l as [|a l IH]; cbn; auto.
    destruct (t_done a); cbn; [|discriminate]. exact IH.
Qed.

Lemma Inv_ingress_ok s : Inv s -> ingress_ok s.
Proof.
  intros (P & I3 & I4 & I5 & I6).
  assert (ND := Permutation_NoDup (Permutation_sym P) (seq_NoDup _ _)).
  rewrite app_assoc in ND. apply ing_NoDup_app_inv in ND as (ND1 & ND2 & D).
  unfold ingress_ok.
  change (pending_bufs s) with (pbufs (i_tasks s)). change (slot_bufs s) with (sbufs (i_slots s)).
  repeat split; auto.
  intros R b Hb. destruct (at_rest_empty _ R) as (E1 & E2). rewrite E1, E2 in P. cbn in P.
  apply (Permutation_in _ (Permutation_sym P)). apply in_seq. lia.
Qed.

Lemma C13_ingress_buffer_ownership_proof :
  forall (nslots : nat) (ops : list iop), ingress_ok (irun true true nslots ops).
Proof. intros. apply Inv_ingress_ok. unfold irun. apply Inv_run, Inv_init. Qed.

(* ------------------------------------------------------------------------------------------ *)
(* the "Take keeps slot.buf" variant: the same buffer is handed to two tasks                    *)
(* ------------------------------------------------------------------------------------------ *)
Lemma C13_ingress_take_keeps_buf_refuted_proof :
  exists nslots ops, let s := irun false false nslots ops in
    ~ NoDup (i_puts s) /\ exists tk, In tk (i_tasks s) /\ t_done tk = true /\ t_handled tk <> t_expect tk.
Proof.
  exists 2, [IRead [(1,true)]; ITake 0; IRead [(2,true)]; ITake 0; IRun 0; IRun 1; IClose].
  vm_compute. split.
  - intro H. inversion H as [|? ? Hn _]. apply Hn. left; reflexivity.
  - exists (mkIT 0 1 true 2). split; [left; reflexivity|]. split; [reflexivity|discriminate].
Qed.

Print Assumptions C13_ingress_buffer_ownership_proof.
Print Assumptions C13_ingress_take_keeps_buf_refuted_proof.
