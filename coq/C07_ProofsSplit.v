(* C07 — lemmas about the sub/node/subnode split of the request list (request_rule_split.go). *)
From Coq Require Import List NArith Bool String Ascii Arith Lia ZifyBool ZifyN ZifyNat.
From Dae Require Import C07_Spec C07_Model C07_Proofs.
From Dae.gen Require Import C07_Consts.
Import ListNotations.
Open Scope N_scope.

Lemma classify_go_int k : forall fs,
  classify_go fs (Some k) false false = if forallb (is_int_cond k) fs then Ok (Some k) else Err E_MIXED.
Proof.
  induction fs as [|f fs IH]; [reflexivity|]. destruct f as [c|k' s]; cbn [classify_go forallb is_int_cond].
  - destruct (is_qfunc c); reflexivity.
  - destruct (ikind_eqb k k'); cbn [andb]; [exact IH|reflexivity].
Qed.

Lemma classify_go_dns : forall fs hd ho, hd || ho = true ->
  classify_go fs None hd ho = if forallb is_dns_cond fs then Ok None else Err E_MIXED.
Proof.
  induction fs as [|f fs IH]; intros hd ho H; [reflexivity|]. destruct f as [c|k' s]; cbn [classify_go forallb is_dns_cond andb].
  - destruct (is_qfunc c); apply IH; [reflexivity|now rewrite orb_true_r].
  - destruct hd; [reflexivity|]. destruct ho; [reflexivity|discriminate].
Qed.

Lemma ikind_eqb_refl k : ikind_eqb k k = true.
Proof. destruct k; reflexivity. Qed.
Lemma ikind_eqb_eq a b : ikind_eqb a b = true -> a = b.
Proof. destruct a, b; cbn; congruence. Qed.

(* the classifier computes the shape; a mixed rule is an error *)
Lemma classify_shape r :
  classify r = match shape_of r with ShDns => Ok None | ShInt k => Ok (Some k) | ShMixed => Err E_MIXED end.
Proof.
  unfold classify, shape_of. destruct (rr_conds r) as [|f fs]; [reflexivity|]. destruct f as [c|k s].
  - cbn [classify_go forallb is_dns_cond is_int_cond andb].
    destruct (is_qfunc c); rewrite classify_go_dns by reflexivity; destruct (forallb is_dns_cond fs); reflexivity.
  - cbn [classify_go forallb is_dns_cond is_int_cond andb orb]. rewrite classify_go_int.
    destruct k; cbn [ikind_eqb andb]; destruct (forallb _ fs); reflexivity.
Qed.

Definition has_shape (s : shape) (r : rrule) : bool := shape_eqb (shape_of r) s.

Lemma split_go_spec : forall rs acc,
  split_go rs acc =
  if existsb (has_shape ShMixed) rs then Err E_MIXED
  else Ok {| sp_dns := sp_dns acc ++ filter (has_shape ShDns) rs;
             sp_sub := sp_sub acc ++ filter (has_shape (ShInt ISub)) rs;
             sp_node := sp_node acc ++ filter (has_shape (ShInt INode)) rs;
             sp_subnode := sp_subnode acc ++ filter (has_shape (ShInt ISubNode)) rs |}.
Proof.
  induction rs as [|r rs IH]; intros acc.
  - cbn. rewrite !app_nil_r. destruct acc; reflexivity.
  - cbn [split_go existsb filter]. rewrite classify_shape.
    assert (Hs : forall s, has_shape s r = shape_eqb (shape_of r) s) by reflexivity. rewrite !Hs.
    destruct (shape_of r) as [|k|]; [| destruct k |]; cbn [shape_eqb ikind_eqb orb]; try reflexivity;
      rewrite IH; cbn [sp_dns sp_sub sp_node sp_subnode]; destruct (existsb (has_shape ShMixed) rs); try reflexivity;
      now rewrite <- !app_assoc.
Qed.

Lemma C07_split_partition_proof (rs : list rrule) :
  split_request_rules rs =
  if existsb (has_shape ShMixed) rs then Err E_MIXED
  else Ok {| sp_dns := filter (has_shape ShDns) rs;
             sp_sub := filter (has_shape (ShInt ISub)) rs;
             sp_node := filter (has_shape (ShInt INode)) rs;
             sp_subnode := filter (has_shape (ShInt ISubNode)) rs |}.
Proof. unfold split_request_rules. now rewrite split_go_spec. Qed.

(* every rule has exactly one shape: nothing is dropped, nothing duplicated *)
Lemma C07_split_nothing_dropped_proof (rs : list rrule) (sp : split) :
  split_request_rules rs = Ok sp ->
  (forall r, In r rs <-> In r (sp_dns sp) \/ In r (sp_sub sp) \/ In r (sp_node sp) \/ In r (sp_subnode sp)) /\
  (List.length rs = List.length (sp_dns sp) + List.length (sp_sub sp) + List.length (sp_node sp) + List.length (sp_subnode sp))%nat.
Proof.
  rewrite C07_split_partition_proof. destruct (existsb (has_shape ShMixed) rs) eqn:E; [discriminate|].
  intros H. inversion H; subst sp; clear H. cbn [sp_dns sp_sub sp_node sp_subnode]. split.
  - intros r. rewrite !filter_In. split.
    + intros Hin. assert (Hm : has_shape ShMixed r = false).
      { destruct (has_shape ShMixed r) eqn:Em; [|reflexivity]. rewrite <- E. symmetry. apply existsb_exists. now exists r. }
      unfold has_shape in *. destruct (shape_of r) as [|k|]; [|destruct k|]; cbn in *; try discriminate; tauto.
    + tauto.
  - induction rs as [|r rs IH]; [reflexivity|]. cbn [existsb] in E. apply orb_false_iff in E. destruct E as [E1 E2].
    specialize (IH E2). cbn [filter List.length]. unfold has_shape in *.
    destruct (shape_of r) as [|k|]; [|destruct k|]; cbn [shape_eqb ikind_eqb] in *; try discriminate; cbn [List.length]; lia.
Qed.

(* an ordinary question never satisfies a rule that holds an internal selector *)
Lemma rrule_holds_nondns ups r x : forallb is_dns_cond (rr_conds r) = false -> rrule_holds ups r x = false.
Proof.
  unfold rrule_holds. induction (rr_conds r) as [|c cs IH]; [discriminate|]. cbn [forallb]. destruct c as [c|k s]; cbn [is_dns_cond rcond_holds andb].
  - intros H. rewrite (IH H). apply andb_false_r.
  - reflexivity.
Qed.

Lemma rrule_holds_dns ups r x : forallb is_dns_cond (rr_conds r) = true -> rrule_holds ups r x = rule_holds ups (to_rule r) x.
Proof.
  unfold rrule_holds, rule_holds, to_rule, dns_conds. cbn [r_conds]. induction (rr_conds r) as [|c cs IH]; [reflexivity|].
  cbn [forallb flat_map]. destruct c as [c|k s]; cbn [is_dns_cond andb]; [|discriminate].
  intros H. cbn [app forallb rcond_holds]. now rewrite (IH H).
Qed.

Lemma shape_dns_iff r : has_shape ShDns r = forallb is_dns_cond (rr_conds r).
Proof.
  unfold has_shape, shape_of. destruct (forallb is_dns_cond (rr_conds r)); [reflexivity|].
  destruct (forallb (is_int_cond ISub) (rr_conds r)); [reflexivity|].
  destruct (forallb (is_int_cond INode) (rr_conds r)); [reflexivity|].
  destruct (forallb (is_int_cond ISubNode) (rr_conds r)); reflexivity.
Qed.

(* the split preserves first-match semantics for ordinary questions (holds for every list, mixed rules or not) *)
Lemma C07_split_preserves_first_match_proof ups fb x : forall rs,
  first_target_raw ups rs fb x = first_target ups (map to_rule (filter (has_shape ShDns) rs)) fb x.
Proof.
  induction rs as [|r rs IH]; [reflexivity|]. cbn [first_target_raw filter]. rewrite shape_dns_iff.
  destruct (forallb is_dns_cond (rr_conds r)) eqn:E.
  - cbn [map first_target]. rewrite (rrule_holds_dns ups r x E). cbn [to_rule r_target]. now rewrite IH.
  - now rewrite (rrule_holds_nondns ups r x E).
Qed.

(* --- the written section through dns.New --- *)
Lemma rrule_ok_not_mixed ups r : rrule_ok ups r = true -> has_shape ShMixed r = false.
Proof. unfold rrule_ok, has_shape. destruct (shape_of r); [reflexivity|reflexivity|discriminate]. Qed.

Lemma wf_no_mixed ups rs : forallb (rrule_ok ups) rs = true -> existsb (has_shape ShMixed) rs = false.
Proof.
  induction rs as [|r rs IH]; [reflexivity|]. cbn [forallb existsb]. intros H. apply andb_true_iff in H. destruct H as [H1 H2].
  now rewrite (rrule_ok_not_mixed ups r H1), IH.
Qed.

Lemma wf_dns_rules ups rs : forallb (rrule_ok ups) rs = true ->
  forallb (rule_ok false ups) (map to_rule (filter (has_shape ShDns) rs)) = true.
Proof.
  induction rs as [|r rs IH]; [reflexivity|]. cbn [forallb filter]. intros H. apply andb_true_iff in H. destruct H as [H1 H2].
  destruct (has_shape ShDns r) eqn:E; [|now apply IH]. cbn [map forallb]. rewrite (IH H2), andb_true_r.
  unfold rrule_ok in H1. unfold has_shape in E. destruct (shape_of r); try discriminate. exact H1.
Qed.

Definition split_of (rs : list rrule) : split :=
  {| sp_dns := filter (has_shape ShDns) rs; sp_sub := filter (has_shape (ShInt ISub)) rs;
     sp_node := filter (has_shape (ShInt INode)) rs; sp_subnode := filter (has_shape (ShInt ISubNode)) rs |}.

Lemma wf_rconfig_parts rc : wf_rconfig rc = true ->
  wf_upstreams (rc_upstreams rc) = true /\ forallb (rrule_ok (rc_upstreams rc)) (rc_request rc) = true /\
  target_ok false (rc_upstreams rc) (rc_fallback rc) = true /\ routing_ok true (rc_upstreams rc) (rc_response rc) = true.
Proof.
  unfold wf_rconfig. intros H. apply andb_true_iff in H. destruct H as [H _].
  apply andb_true_iff in H. destruct H as [H H4]. apply andb_true_iff in H. destruct H as [H H3].
  apply andb_true_iff in H. tauto.
Qed.

Lemma wf_rconfig_tags rc : wf_rconfig rc = true -> forallb (fun t => negb (String.eqb t "")) (rc_upstreams rc) = true.
Proof. unfold wf_rconfig. intros H. apply andb_true_iff in H. now destruct H. Qed.

Lemma wf_rconfig_split rc : wf_rconfig rc = true ->
  split_request_rules (rc_request rc) = Ok (split_of (rc_request rc)) /\ wf_config (cfg_of rc (split_of (rc_request rc))) = true.
Proof.
  intros H. destruct (wf_rconfig_parts rc H) as [Hw [Hr [Hf Hp]]]. split.
  - rewrite C07_split_partition_proof, (wf_no_mixed _ _ Hr). reflexivity.
  - unfold wf_config, cfg_of. cbn [cf_upstreams cf_request cf_response]. rewrite Hw, Hp. unfold routing_ok at 1.
    cbn [rt_rules rt_fallback split_of sp_dns]. now rewrite (wf_dns_rules _ _ Hr), Hf.
Qed.

Lemma C07_rconfig_accepted_proof rc : wf_rconfig rc = true -> exists d, dns_new_raw rc = Ok d.
Proof.
  intros H. destruct (wf_rconfig_split rc H) as [Hs Hc]. destruct (dns_new_total _ Hc) as [rq [rp [_ [_ Hn]]]].
  eexists. unfold dns_new_raw. rewrite Hs, Hn.
  destruct (wf_rconfig_parts rc H) as [Hw _]. unfold wf_upstreams in Hw. apply andb_true_iff in Hw. destruct Hw as [_ Hl].
  replace (DnsRequestOutboundIndex_UserDefinedMax <? N.of_nat (List.length (rc_upstreams rc))) with false
    by (unfold DnsRequestOutboundIndex_UserDefinedMax; lia). reflexivity.
Qed.

Lemma C07_request_first_match_raw_proof rc d bm q :
  wf_rconfig rc = true -> dns_new_raw rc = Ok d ->
  (q_name q = ""%string -> q_regex_hits q = []) ->
  (q_name q <> ""%string -> oracle_agrees (d_req d) bm q) ->
  exists v, request_route_raw rc q = Some v /\ request_select d bm q = Ok v.
Proof.
  intros H Hd Hnohit Hor. destruct (wf_rconfig_split rc H) as [Hs Hc].
  unfold dns_new_raw in Hd. rewrite Hs in Hd.
  destruct (DnsRequestOutboundIndex_UserDefinedMax <? N.of_nat (List.length (rc_upstreams rc))); [discriminate|].
  destruct (request_select_refines _ d bm q Hc Hd Hnohit Hor) as [v [Hv Hsel]]. exists v. split; [|exact Hsel].
  unfold request_route_raw. rewrite C07_split_preserves_first_match_proof. exact Hv.
Qed.
