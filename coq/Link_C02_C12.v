(* Link C02 + C12 — the kernel routing program of C02 with the REAL LPM-trie lookup of C12.

   C02_Model models BPF_MAP_TYPE_LPM_TRIE as CIDR containment computed on the big-endian value of the stored key
   bytes (`lpm_lookup` = existsb of `lpm_entry_matches`: prefixlen <= 128 and equal leading bits by N.shiftr).
   C12_Model models what the kernel does (kernel/bpf/lpm_trie.c): longest_prefix_match's byte loop with fls over
   node and key data, and trie_lookup_elem returning the longest stored key all of whose prefixlen bits agree; and
   what the control plane writes (cidrToBpfLpmKey + Ipv6ByteSliceToUint32Array, either byte order).

   Here the two are composed.  `k_route_real` is C02's route() in which route_match_lpm looks the stored struct lpm_key
   bytes up with C12_Model.lpm_lookup; `Link_kscan_with_real_lpm` is C02_kscan_scan for that kernel, and
   `Link_kernel_real_lpm_vs_userspace_real_trie` has C12 on BOTH sides (kernel LPM keys, userspace trie). *)
From Coq Require Import ZArith List NArith Bool String Arith Lia ZifyBool ZifyN ZifyNat.
From Dae Require Import C01_Spec C01_Model C02_Spec C02_Model C02_Proofs C02_ProofsScan C02_Props.
From Dae Require C12_Spec C12_Model C12_Proofs C12_Props.
From Dae Require C01_Props.
From Dae Require Import Link_C01_C12.
From Dae.gen Require Import C01_Consts C02_Consts.
Import ListNotations.
Open Scope N_scope.
Ltac Zify.zify_post_hook ::= Z.div_mod_to_equations.

(* ------------------------------------------------------------------------------------------------ *)
(* Part 1: the two developments write the same key bytes                                              *)
(* ------------------------------------------------------------------------------------------------ *)

(* netip.Addr.As16: C02 computes the bytes by div/mod from the low end, C12 by shift/mask from the high end *)
Lemma bytes_be12_snoc : forall k a,
  C12_Model.bytes_be (S k) a = C12_Model.bytes_be k (a / 256) ++ [a mod 256].
Proof.
  induction k as [|k IH]; intros a.
  - cbn [C12_Model.bytes_be app]. change (8 * N.of_nat 0) with 0. rewrite N.shiftr_0_r, C12_Proofs.land_255_mod. reflexivity.
  - change (C12_Model.bytes_be (S (S k)) a)
      with (N.land (N.shiftr a (8 * N.of_nat (S k))) 255 :: C12_Model.bytes_be (S k) a).
    rewrite IH.
    change (C12_Model.bytes_be (S k) (a / 256))
      with (N.land (N.shiftr (a / 256) (8 * N.of_nat k)) 255 :: C12_Model.bytes_be k (a / 256)).
    cbn [app]. f_equal. f_equal.
    change 256 with (2 ^ 8). rewrite <- N.shiftr_div_pow2, N.shiftr_shiftr. f_equal. lia.
Qed.

Lemma bytes_be_same : forall k a, C12_Model.bytes_be k a = C02_Model.bytes_be k a.
Proof.
  induction k as [|k IH]; intros a; [reflexivity|].
  rewrite bytes_be12_snoc. cbn [C02_Model.bytes_be]. now rewrite IH.
Qed.

(* a stored / looked-up struct lpm_key as the kernel sees it: prefixlen and the data bytes *)
Definition node_of_key (e : list N) : C12_Model.lpm_node :=
  C12_Model.Build_lpm_node (key_prefixlen e) (key_data e).
Definition probe_node (klen : N) (kdata : list N) : C12_Model.lpm_node := C12_Model.Build_lpm_node klen kdata.

Lemma px_ok_wf_prefix p : px_ok p = true -> wf_prefix p = true.
Proof.
  unfold px_ok, wf_prefix. rewrite !andb_true_iff. intros [Ha Hb]. split; [exact Ha|].
  destruct (px_v4 p); [apply andb_true_iff in Hb; tauto|exact Hb].
Qed.

Lemma px_ok_len p : px_ok p = true -> (if px_v4 p then px_bits p + 96 else px_bits p) <= 128.
Proof. intros H. apply px_ok_facts in H. destruct H as [_ H]. destruct (px_v4 p); lia. Qed.

(* the bytes C02 installs for a prefix are the in-memory image of the key C12's cidr_to_lpm_key emits (the data part
   for either byte order of the host; the prefixlen part as C02 fixes it, little-endian / bpfel) *)
Theorem Link_key_bytes_same :
  forall (big : bool) (p : prefix128), px_ok p = true ->
    let k := C12_Model.cidr_to_lpm_key big (to12 p) in
    key_of_prefix p = le32_bytes (C12_Model.lk_prefixlen k) ++ C12_Model.key_bytes big k.
Proof.
  intros big p Hp k. unfold key_of_prefix. f_equal.
  - subst k. unfold C12_Model.cidr_to_lpm_key. cbn [C12_Model.lk_prefixlen]. unfold to12.
    destruct (px_v4 p); reflexivity.
  - subst k. unfold C12_Model.cidr_to_lpm_key, C12_Model.as16.
    rewrite C12_Proofs.key_bytes_words; [|apply C12_Proofs.bytes_be_lt|apply C12_Proofs.bytes_be_length].
    now rewrite to12_addr128, bytes_be_same.
Qed.

(* ... hence the kernel's view of an installed key is C12's node for the same prefix *)
Lemma node_of_installed_key big p : px_ok p = true ->
  node_of_key (key_of_prefix p) = C12_Model.lpm_node_of_key big (C12_Model.cidr_to_lpm_key big (to12 p)).
Proof.
  intros Hp. rewrite C12_Proofs.node_of_prefix, to12_len128, to12_addr128, bytes_be_same by exact Hp.
  unfold node_of_key, key_prefixlen, key_data, key_of_prefix.
  pose proof (px_ok_len p Hp) as Hn. set (n := if px_v4 p then px_bits p + 96 else px_bits p) in *.
  rewrite le32_bytes_le32 by lia.
  change (skipn 4 (le32_bytes n ++ C02_Model.bytes_be 16 (px_addr p))) with (C02_Model.bytes_be 16 (px_addr p)).
  reflexivity.
Qed.

Lemma probe_node_is_probe_key big x :
  probe_node 128 (C02_Model.bytes_be 16 x) = C12_Model.lpm_node_of_key big (C12_Model.probe_key big x).
Proof. rewrite C12_Proofs.node_of_probe, bytes_be_same. reflexivity. Qed.

(* C02's quantifier (wf_prefix) is wider than C01's value_ok: it does not ask an IPv4 prefix's 128-bit address to be in
   ::ffff:0:0/96.  Such a prefix is no netip.Prefix, but it still is the 128-bit prefix  addr/(bits+96) ; reading every
   C02 prefix that way gives an adapter that needs C02's own side condition only, and the SAME key as to12: *)
Definition to12g (p : prefix128) : C12_Spec.prefix :=
  C12_Spec.Build_prefix false (px_addr p) (if px_v4 p then px_bits p + 96 else px_bits p).

Lemma to12g_wf p : wf_prefix p = true -> C12_Spec.wf_prefix (to12g p) = true.
Proof.
  intros H. destruct (wf_prefix_facts p H) as [Ha Hn]. unfold to12g, C12_Spec.wf_prefix.
  cbn [C12_Spec.p_is4 C12_Spec.p_addr C12_Spec.p_bits]. lia.
Qed.

Lemma to12g_contains p x : C12_Spec.contains (to12g p) x = px_covers x p.
Proof. unfold C12_Spec.contains, C12_Spec.top, px_covers. cbn. apply N.eqb_sym. Qed.

Lemma to12g_set_contains t x : C12_Spec.set_contains (map to12g t) x = existsb (px_covers x) t.
Proof.
  unfold C12_Spec.set_contains. induction t as [|p t IH]; [reflexivity|]. cbn [map existsb].
  now rewrite to12g_contains, IH.
Qed.

Lemma to12g_all_wf t : forallb wf_prefix t = true -> forallb C12_Spec.wf_prefix (map to12g t) = true.
Proof.
  induction t as [|p t IH]; [reflexivity|]. cbn [forallb map]. rewrite !andb_true_iff. intros [Hp Hl].
  split; [now apply to12g_wf|now apply IH].
Qed.

Lemma to12g_same_key big p : px_ok p = true ->
  C12_Model.cidr_to_lpm_key big (to12g p) = C12_Model.cidr_to_lpm_key big (to12 p).
Proof.
  intros Hp. unfold C12_Model.cidr_to_lpm_key, C12_Model.as16. rewrite to12_addr128 by exact Hp. unfold to12g, to12.
  destruct (px_v4 p); reflexivity.
Qed.

Lemma node_of_installed_key_g big p : wf_prefix p = true ->
  node_of_key (key_of_prefix p) = C12_Model.lpm_node_of_key big (C12_Model.cidr_to_lpm_key big (to12g p)).
Proof.
  intros Hp. rewrite C12_Proofs.node_of_prefix. unfold to12g, C12_Spec.len128, C12_Spec.addr128.
  cbn [C12_Spec.p_is4 C12_Spec.p_addr C12_Spec.p_bits]. rewrite bytes_be_same.
  unfold node_of_key, key_prefixlen, key_data, key_of_prefix.
  destruct (wf_prefix_facts p Hp) as [_ Hn]. set (n := if px_v4 p then px_bits p + 96 else px_bits p) in *.
  rewrite le32_bytes_le32 by lia.
  change (skipn 4 (le32_bytes n ++ C02_Model.bytes_be 16 (px_addr p))) with (C02_Model.bytes_be 16 (px_addr p)).
  reflexivity.
Qed.

(* ------------------------------------------------------------------------------------------------ *)
(* Part 2: the pointwise link — C12's kernel lookup on the installed bytes = C02's containment lookup  *)
(* ------------------------------------------------------------------------------------------------ *)

(* bpf_map_lookup_elem on an inner LPM trie holding these struct lpm_key bytes: trie_lookup_elem of C12 *)
Definition lpm_lookup_real (trie : list (list N)) (klen : N) (kdata : list N) : bool :=
  C12_Model.is_some (C12_Model.lpm_lookup (map node_of_key trie) (probe_node klen kdata)).

Lemma lpm_lookup_real_is_kernel_match big t x : forallb px_ok t = true ->
  lpm_lookup_real (map key_of_prefix t) 128 (C02_Model.bytes_be 16 x) = C12_Model.kernel_match big (map to12 t) x.
Proof.
  intros Ht. unfold lpm_lookup_real, C12_Model.kernel_match, C12_Model.kernel_lookup, C12_Model.lpm_map_of.
  rewrite (probe_node_is_probe_key big). rewrite !map_map. f_equal. f_equal.
  apply map_ext_in. intros p Hp. apply node_of_installed_key. rewrite forallb_forall in Ht. now apply Ht.
Qed.

Lemma lpm_lookup_real_is_kernel_match_g big t x : forallb wf_prefix t = true ->
  lpm_lookup_real (map key_of_prefix t) 128 (C02_Model.bytes_be 16 x) = C12_Model.kernel_match big (map to12g t) x.
Proof.
  intros Ht. unfold lpm_lookup_real, C12_Model.kernel_match, C12_Model.kernel_lookup, C12_Model.lpm_map_of.
  rewrite (probe_node_is_probe_key big). rewrite !map_map. f_equal. f_equal.
  apply map_ext_in. intros p Hp. apply node_of_installed_key_g. rewrite forallb_forall in Ht. now apply Ht.
Qed.

(* under C02's own side conditions *)
Theorem Link_lpm_real_is_covers :
  forall (t : list prefix128) (x : N), forallb wf_prefix t = true -> x < 2 ^ 128 ->
    lpm_lookup_real (map key_of_prefix t) 128 (C02_Model.bytes_be 16 x) = existsb (px_covers x) t.
Proof.
  intros t x Ht Hx. rewrite (lpm_lookup_real_is_kernel_match_g false) by exact Ht.
  rewrite C12_Props.C12_lpm_key_contains.
  - apply to12g_set_contains.
  - now apply to12g_all_wf.
  - unfold C12_Spec.wf_addr. lia.
Qed.

Theorem Link_lpm_real_is_model :
  forall (t : list prefix128) (x : N), forallb wf_prefix t = true -> x < 2 ^ 128 ->
    lpm_lookup_real (map key_of_prefix t) 128 (C02_Model.bytes_be 16 x)
    = C02_Model.lpm_lookup (map key_of_prefix t) 128 (C02_Model.bytes_be 16 x).
Proof.
  intros t x Ht Hx. rewrite Link_lpm_real_is_covers by assumption. symmetry. now apply C02_lpm_keys.
Qed.

(* the userspace trie and the installed kernel keys of one stored set answer alike (C12_userspace_kernel_same_set,
   transported to C01/C02's representations) *)
Theorem Link_trie_and_installed_keys_same_set :
  forall (t : list prefix128) (x : N), forallb px_ok t = true -> x < 2 ^ 128 ->
    lookup_trie (trie_of t) x = lpm_lookup_real (map key_of_prefix t) 128 (C02_Model.bytes_be 16 x).
Proof.
  intros t x Ht Hx. rewrite (lpm_lookup_real_is_kernel_match false) by exact Ht.
  unfold lookup_trie, trie_of.
  change (C12_Model.has_prefix (C12_Model.new_trie_from_prefixes (map to12 t)) (C12_Model.probe_bin x))
    with (C12_Model.trie_match (map to12 t) x).
  apply C12_Props.C12_userspace_kernel_same_set; [now apply to12_all_wf|unfold C12_Spec.wf_addr; lia].
Qed.

(* ------------------------------------------------------------------------------------------------ *)
(* Part 3: C02's kernel path with the real LPM lookup                                                 *)
(* ------------------------------------------------------------------------------------------------ *)

(* route_match_lpm: bpf_map_lookup_elem(lpm_array_map, index) then bpf_map_lookup_elem(inner trie, key) *)
Definition k_match_lpm_real (km : kmaps) (c : kctx) (e : list N) (kdata : list N) : kctx + kret :=
  match (if ms_index e <? K_MAX_LPM_NUM then km_lpm km (ms_index e) else None) with
  | None => inr (KErrno K_EFAULT)
  | Some trie => inl (if lpm_lookup_real trie 128 kdata then setf c K_ROUTE_STATE_GOOD_SUBRULE else c)
  end.

(* route_eval_match, as C02_Model.k_eval except for the first branch *)
Definition k_eval_real (km : kmaps) (a : kargs) (hsport hdport : N) (c : kctx) (index : N) (e : list N) : kctx + kret :=
  let t := ms_type e in
  let flag := ka_flag a in
  let good := setf c K_ROUTE_STATE_GOOD_SUBRULE in
  if (t =? K_MatchType_Mac) || (t =? K_MatchType_IpSet) || (t =? K_MatchType_SourceIpSet) then
    k_match_lpm_real km c e (if t =? K_MatchType_Mac then ka_mac a else if t =? K_MatchType_IpSet then ka_daddr a else ka_saddr a)
  else if (t =? K_MatchType_Port) || (t =? K_MatchType_SourcePort) then
    let p := if t =? K_MatchType_Port then hdport else hsport in
    inl (if (ms_port_start e <=? p) && (p <=? ms_port_end e) then good else c)
  else if (t =? K_MatchType_L4Proto) || (t =? K_MatchType_IpVersion) then
    let value := (if t =? K_MatchType_L4Proto then byte_at flag 0 else byte_at flag 1) mod 256 in
    let mask := (if t =? K_MatchType_L4Proto then ms_l4proto_type e else ms_ip_version e) mod 256 in
    inl (if negb (N.land value mask =? 0) then good else c)
  else if t =? K_MatchType_DomainSet then k_match_domain km a c index
  else if t =? K_MatchType_ProcessName then
    inl (if negb (byte_at flag 7 mod 256 =? 0) && negb (byte_at flag 2 mod 256 =? 0) &&
            equal16 (le64 e 0) (le64 e 8)
                    (byte_at flag 2 + 4294967296 * byte_at flag 3) (byte_at flag 4 + 4294967296 * byte_at flag 5)
         then good else c)
  else if t =? K_MatchType_Dscp then
    inl (if byte_at flag 6 mod 256 =? ms_dscp e then good else c)
  else if t =? K_MatchType_Fallback then inl good
  else inr (KErrno K_EINVAL).

Definition k_cb_real (km : kmaps) (a : kargs) (hsport hdport : N) (c : kctx) (index : N) : kctx + kret :=
  if K_MAX_MATCH_SET_LEN <=? index then inr (KErrno K_EFAULT)
  else
    let e := nth (N.to_nat index) (km_routing km) (zeros 24) in
    match (if has (c_state c) (N.lor K_ROUTE_STATE_BAD_RULE K_ROUTE_STATE_GOOD_SUBRULE) then inl c
           else k_eval_real km a hsport hdport c index e) with
    | inr r => inr r
    | inl c1 => k_finalize c1 e
    end.

Fixpoint k_loop_real (km : kmaps) (a : kargs) (hsport hdport : N) (fuel : nat) (index : N) (c : kctx) : option kret :=
  match fuel with
  | O => None
  | S f => match k_cb_real km a hsport hdport c index with
           | inr r => Some r
           | inl c1 => k_loop_real km a hsport hdport f (index + 1) c1
           end
  end.

Definition k_route_real (km : kmaps) (a : kargs) : kret :=
  let l4 := byte_at (ka_flag a) 0 in
  let hdport := be16 (ka_l4hdr a) 2 in
  let hsport := be16 (ka_l4hdr a) 0 in
  let st0 := if (hdport =? 53) && ((l4 =? K_L4ProtoType_UDP) || (l4 =? K_L4ProtoType_TCP)) then K_ROUTE_STATE_DNS_QUERY else 0 in
  let n := if km_meta km <=? K_MAX_MATCH_SET_LEN then km_meta km else K_MAX_MATCH_SET_LEN in
  match k_loop_real km a hsport hdport (N.to_nat n) 0 {| c_state := st0; c_dw_cached := false; c_dw_idx := 0; c_dw_bits := 0 |} with
  | Some (KWord w) => KWord w
  | Some (KErrno _) => KErrno K_EPERM
  | None => KErrno K_EPERM
  end.

Definition kernel_decides_real (prev : kmaps) (ms : list mset) (tries : list (list prefix128)) (alloc : N)
           (dom : option (list N)) (pk : packet) (wan : bool) : res (option decision) :=
  match install prev ms tries alloc with
  | Err e => Err e
  | Ok km =>
    let km' := {| km_routing := km_routing km; km_meta := km_meta km; km_lpm := km_lpm km;
                  km_domain := fun k => if list_eqb k (C02_Model.bytes_be 16 (p_dst pk)) then dom else km_domain km k |} in
    Ok (decode_word (k_route_real km' (kargs_of pk wan)))
  end.

(* --- the two kernels agree whenever every LPM slot an active rule names holds installed keys --- *)

Definition is_lpm_ktype (t : N) : bool := (t =? K_MatchType_Mac) || (t =? K_MatchType_IpSet) || (t =? K_MatchType_SourceIpSet).
Definition good_trie (trie : list (list N)) : Prop := exists t, forallb wf_prefix t = true /\ trie = map key_of_prefix t.
Definition entry_ok (lpm : N -> option (list (list N))) (e : list N) : Prop :=
  is_lpm_ktype (ms_type e) = true -> forall trie, lpm (ms_index e) = Some trie -> good_trie trie.
Definition kargs_ok (a : kargs) : Prop :=
  exists xm xd xs, xm < 2 ^ 128 /\ xd < 2 ^ 128 /\ xs < 2 ^ 128 /\
    ka_mac a = C02_Model.bytes_be 16 xm /\ ka_daddr a = C02_Model.bytes_be 16 xd /\ ka_saddr a = C02_Model.bytes_be 16 xs.

Lemma k_eval_real_eq km a hs hd c index e : kargs_ok a -> entry_ok (km_lpm km) e ->
  k_eval_real km a hs hd c index e = k_eval km a hs hd c index e.
Proof.
  intros (xm & xd & xs & Hm & Hd & Hs & Em & Ed & Es) He. unfold k_eval_real, k_eval.
  destruct ((ms_type e =? K_MatchType_Mac) || (ms_type e =? K_MatchType_IpSet) || (ms_type e =? K_MatchType_SourceIpSet)) eqn:Et;
    [|reflexivity].
  unfold k_match_lpm_real, k_match_lpm.
  destruct (ms_index e <? K_MAX_LPM_NUM); [|reflexivity].
  destruct (km_lpm km (ms_index e)) as [trie|] eqn:El; [|reflexivity].
  destruct (He Et trie El) as [t [Ht ->]]. rewrite Em, Ed, Es.
  destruct (ms_type e =? K_MatchType_Mac); [now rewrite Link_lpm_real_is_model|].
  destruct (ms_type e =? K_MatchType_IpSet); now rewrite Link_lpm_real_is_model.
Qed.

Lemma k_cb_real_eq km a hs hd c index : kargs_ok a ->
  entry_ok (km_lpm km) (nth (N.to_nat index) (km_routing km) (zeros 24)) ->
  k_cb_real km a hs hd c index = k_cb km a hs hd c index.
Proof.
  intros Ha He. unfold k_cb_real, k_cb. destruct (K_MAX_MATCH_SET_LEN <=? index); [reflexivity|].
  cbv zeta. now rewrite k_eval_real_eq.
Qed.

Lemma k_loop_real_eq km a hs hd : kargs_ok a -> forall fuel index c,
  (forall j, index <= j < index + N.of_nat fuel -> entry_ok (km_lpm km) (nth (N.to_nat j) (km_routing km) (zeros 24))) ->
  k_loop_real km a hs hd fuel index c = k_loop km a hs hd fuel index c.
Proof.
  intros Ha. induction fuel as [|f IH]; intros index c H; [reflexivity|].
  cbn [k_loop_real k_loop]. rewrite k_cb_real_eq by (exact Ha || (apply H; lia)).
  destruct (k_cb km a hs hd c index) as [c1|r]; [|reflexivity]. apply IH. intros j Hj. apply H. lia.
Qed.

Theorem Link_k_route_real_eq :
  forall (km : kmaps) (a : kargs), kargs_ok a ->
    (forall j, j < km_meta km -> entry_ok (km_lpm km) (nth (N.to_nat j) (km_routing km) (zeros 24))) ->
    k_route_real km a = k_route km a.
Proof.
  intros km a Ha H. unfold k_route_real, k_route. cbv zeta. rewrite k_loop_real_eq; [reflexivity|exact Ha|].
  intros j Hj. apply H. destruct (km_meta km <=? K_MAX_MATCH_SET_LEN) eqn:E; lia.
Qed.

(* ------------------------------------------------------------------------------------------------ *)
(* Part 4: after buildRoutingKernspace every active rule names a slot with installed keys             *)
(* ------------------------------------------------------------------------------------------------ *)

Lemma is_lpm_ktype_type t : is_lpm_ktype t = is_lpm_type t.
Proof.
  unfold is_lpm_ktype, is_lpm_type.
  change K_MatchType_Mac with MatchType_Mac. change K_MatchType_IpSet with MatchType_IpSet.
  change K_MatchType_SourceIpSet with MatchType_SourceIpSet.
  destruct (t =? MatchType_Mac), (t =? MatchType_IpSet), (t =? MatchType_SourceIpSet); reflexivity.
Qed.

Lemma installed_entries_ok prev ms tries alloc km :
  install prev ms tries alloc = Ok km ->
  forallb (wf_mset (N.of_nat (List.length tries))) ms = true ->
  forallb (forallb wf_prefix) tries = true ->
  forall j, j < km_meta km -> entry_ok (km_lpm km) (nth (N.to_nat j) (km_routing km) (zeros 24)).
Proof.
  intros Hinst Hwf Hto j Hj.
  destruct (install_facts _ _ _ _ _ Hinst Hwf) as (Hr & Hmeta & Hl & _ & Hct & _ & _).
  rewrite Hmeta in Hj. rewrite Hr, Hl.
  assert (Hjn : (N.to_nat j < List.length ms)%nat) by lia.
  rewrite app_nth1 by (rewrite map_length; exact Hjn).
  destruct (nth_error ms (N.to_nat j)) as [m|] eqn:Em; [|apply nth_error_None in Em; lia].
  rewrite (nth_indep _ (zeros 24) (kentry alloc m)) by (rewrite map_length; exact Hjn).
  rewrite map_nth. rewrite (nth_error_nth _ _ m Em).
  assert (Hm : wf_mset (N.of_nat (List.length tries)) m = true).
  { rewrite forallb_forall in Hwf. apply Hwf. eapply nth_error_In; eauto. }
  pose proof (encode_decode alloc _ m Hm) as (Dt & _ & _ & _ & _ & Dlpm & _).
  destruct (wf_mset_facts _ _ Hm) as (_ & _ & _ & _ & _ & _ & _ & _ & _ & Hlt).
  intros Hty trie Hs. rewrite is_lpm_ktype_type, Dt in Hty. specialize (Dlpm Hty). specialize (Hlt Hty).
  destruct (nth_error tries (N.to_nat (m_lpm m))) as [t|] eqn:Et; [|apply nth_error_None in Et; lia].
  rewrite Dlpm in Hs.
  pose proof (install_tries_get tries (km_lpm prev) alloc 0 (N.to_nat (m_lpm m)) t) as Hg.
  rewrite N.add_0_l, N2Nat.id in Hg. rewrite Hg in Hs; [|change MaxMatchSetLen with 1024; exact Hct|exact Et].
  inversion Hs; subst. exists t. split; [|reflexivity].
  rewrite forallb_forall in Hto. apply Hto. eapply nth_error_In; eauto.
Qed.

Lemma kargs_of_ok pk wan : wf_packet pk = true -> kargs_ok (kargs_of pk wan).
Proof.
  intros Hpk. destruct (wf_packet_args pk Hpk) as (Hs & Hd & Hm). cbn [args_of_packet a_src a_dst a_mac16] in *.
  exists (p_mac pk), (p_dst pk), (p_src pk). repeat split; assumption.
Qed.

Theorem Link_kernel_decides_real_eq :
  forall (prev : kmaps) (ms : list mset) (tries : list (list prefix128)) (alloc : N) (dom : option (list N))
         (pk : packet) (wan : bool),
    forallb (wf_mset (N.of_nat (List.length tries))) ms = true -> forallb (forallb wf_prefix) tries = true ->
    wf_packet pk = true ->
    kernel_decides_real prev ms tries alloc dom pk wan = kernel_decides prev ms tries alloc dom pk wan.
Proof.
  intros prev ms tries alloc dom pk wan Hwf Hto Hpk. unfold kernel_decides_real, kernel_decides.
  destruct (install prev ms tries alloc) as [km|e] eqn:Hinst; [|reflexivity].
  f_equal. f_equal. apply Link_k_route_real_eq; [now apply kargs_of_ok|].
  cbn [km_meta km_lpm km_routing]. now apply (installed_entries_ok prev ms tries alloc km).
Qed.

(* ------------------------------------------------------------------------------------------------ *)
(* Part 5: the composed theorems                                                                      *)
(* ------------------------------------------------------------------------------------------------ *)

Lemma tries_ok_wf_prefix tries : tries_ok tries = true -> forallb (forallb wf_prefix) tries = true.
Proof.
  unfold tries_ok. rewrite !forallb_forall. intros H t Ht. specialize (H t Ht). rewrite forallb_forall in *.
  intros p Hp. apply px_ok_wf_prefix. now apply H.
Qed.

(* C02_kscan_scan for the kernel whose route_match_lpm is C12's trie_lookup_elem over the installed key bytes; the
   hypotheses are exactly those of C02_kscan_scan *)
Theorem Link_kscan_with_real_lpm :
  forall (prev : kmaps) (ms : list mset) (tries : list (list prefix128)) (alloc : N) (dm : string -> list N)
         (pk : packet) (wan : bool) (km : kmaps),
    forallb (wf_mset (N.of_nat (List.length tries))) ms = true ->
    forallb (forallb wf_prefix) tries = true ->
    probe_ok pk wan = true ->
    bitmap_ok (dm (p_domain pk)) = true ->
    install prev ms tries alloc = Ok km ->
    let bm := if String.eqb (p_domain pk) "" then None else Some (dm (p_domain pk)) in
    kernel_decides_real prev ms tries alloc (dom_entry bm) pk wan
    = Ok (expected (p_dport pk) (user_answer (match_sets {| mt_sets := ms; mt_tries := tries |} dm (args_of_packet pk)))).
Proof.
  intros prev ms tries alloc dm pk wan km Hwf Hto Hprobe Hbm Hinst bm.
  assert (Hpk : wf_packet pk = true) by (unfold probe_ok in Hprobe; apply andb_true_iff in Hprobe; tauto).
  rewrite Link_kernel_decides_real_eq by assumption.
  now apply (C02_kscan_scan prev ms tries alloc dm pk wan km).
Qed.

(* C12 on both sides: the kernel with the real LPM lookup over cidrToBpfLpmKey's bytes against the userspace matcher
   with the real Prefix2bin128 tries *)
Theorem Link_kernel_real_lpm_vs_userspace_real_trie :
  forall (prev : kmaps) (ms : list mset) (tries : list (list prefix128)) (alloc : N) (dm : string -> list N)
         (pk : packet) (wan : bool) (km : kmaps),
    forallb (wf_mset (N.of_nat (List.length tries))) ms = true ->
    tries_ok tries = true ->
    probe_ok pk wan = true ->
    bitmap_ok (dm (p_domain pk)) = true ->
    install prev ms tries alloc = Ok km ->
    let bm := if String.eqb (p_domain pk) "" then None else Some (dm (p_domain pk)) in
    kernel_decides_real prev ms tries alloc (dom_entry bm) pk wan
    = Ok (expected (p_dport pk)
            (user_answer (match_sets_trie {| mtt_sets := ms; mtt_lpm := C12_Model.build_userspace (map (map to12) tries) |}
                                          dm (args_of_packet pk)))).
Proof.
  intros prev ms tries alloc dm pk wan km Hwf Hto Hprobe Hbm Hinst bm.
  assert (Hpk : wf_packet pk = true) by (unfold probe_ok in Hprobe; apply andb_true_iff in Hprobe; tauto).
  subst bm. pose proof (Link_kscan_with_real_lpm prev ms tries alloc dm pk wan km Hwf (tries_ok_wf_prefix _ Hto) Hprobe Hbm Hinst) as H.
  cbv zeta in H. rewrite H. clear H.
  do 3 f_equal. unfold match_sets, match_sets_trie. cbn [mt_sets mt_tries mtt_sets mtt_lpm].
  destruct ms as [|m0 ms0]; [reflexivity|]. symmetry. apply match_loop_trie_eq; [exact Hto|now apply wf_packet_args].
Qed.


(* C01 + C02 + C12: for a well-formed program the kernel with the real LPM lookup answers dns_adjust of the
   first-matching-rule decision.  Remaining, explicitly named: `lowered_msets_in_range` (the match-sets the builder
   emits are within C02's field ranges and name one of the generation's tries — C02 assumes it of its input, C01
   does not state it of its output; it belongs to a C01/C02 link), and C01's domain oracle hypothesis. *)
Definition lowered_msets_in_range (b : builder) : Prop :=
  forallb (wf_mset (N.of_nat (List.length (b_tries b)))) (b_rules b) = true.

Theorem Link_kernel_real_decides_program :
  forall (p : program) (b : builder) (prev : kmaps) (alloc : N) (dm : string -> list N) (pk : packet) (wan : bool) (km : kmaps),
    wf_program p = true -> lower_program p = Ok b ->
    lowered_msets_in_range b ->
    probe_ok pk wan = true ->
    bitmap_ok (dm (p_domain pk)) = true ->
    install prev (b_rules b) (b_tries b) alloc = Ok km ->
    C01_Props.C01_domain_oracle_agrees p dm pk ->
    let bm := if String.eqb (p_domain pk) "" then None else Some (dm (p_domain pk)) in
    kernel_decides_real prev (b_rules b) (b_tries b) alloc (dom_entry bm) pk wan
    = Ok (Some (dns_adjust (p_dport pk) (decide p pk))).
Proof.
  intros p b prev alloc dm pk wan km Hwf Hl Hms Hprobe Hbm Hinst Hdom bm. subst bm.
  pose proof (Link_lowered_tries_ok p b Hwf Hl) as Hto.
  pose proof (Link_kscan_with_real_lpm prev (b_rules b) (b_tries b) alloc dm pk wan km Hms (tries_ok_wf_prefix _ Hto)
                Hprobe Hbm Hinst) as H.
  cbv zeta in H. rewrite H. clear H. f_equal.
  pose proof (C01_Props.C01_scan_lower p pk dm Hwf Hdom) as Hr. unfold model_route in Hr. rewrite Hl in Hr.
  unfold build_userspace in Hr.
  destruct (last (map m_type (b_rules b)) 255 =? MatchType_Fallback); [|discriminate].
  rewrite Hr. reflexivity.
Qed.

(* ------------------------------------------------------------------------------------------------ *)
(* Part 6: non-vacuity                                                                                *)
(* ------------------------------------------------------------------------------------------------ *)

(* C02's example generation (an IPv4 /8, an IPv6 /32 and a MAC set at ring offset 1022, wrapping) satisfies the
   hypotheses; the kernel with the real LPM lookup decides its probes; the installed bytes of 10.0.0.0/8 are the
   struct lpm_key {104, 00..00 ff ff 0a 00 00 00}; the byte-loop lookup on them answers like the Prefix2bin128 trie *)
Example Link_C02_C12_nonvacuous :
  forallb (wf_mset 3) ex_msets = true /\ tries_ok ex_tries = true /\
  (exists km, install empty_kmaps ex_msets ex_tries 1022 = Ok km) /\
  kernel_decides_real empty_kmaps ex_msets ex_tries 1022 None (ex_pk 0xffff0a010203 443 0 "") false = Ok (Some (2, 7, false)) /\
  kernel_decides_real empty_kmaps ex_msets ex_tries 1022 None (ex_pk 0xffff0a010203 53 0 "") false = Ok (Some (2, 7, true)) /\
  kernel_decides_real empty_kmaps ex_msets ex_tries 1022 None (ex_pk 0xffff08080808 443 0x0242ac110002 "") false
    = Ok (Some (3, 0xffffffff, true)) /\
  kernel_decides_real empty_kmaps ex_msets ex_tries 1022 None (ex_pk 0xffff08080808 53 0 "") false = Ok (Some (0, 0, true)) /\
  key_of_prefix {| px_v4 := true; px_addr := 0xffff0a000000; px_bits := 8 |}
    = [104; 0; 0; 0; 0; 0; 0; 0; 0; 0; 0; 0; 0; 0; 255; 255; 10; 0; 0; 0] /\
  map (fun x => lpm_lookup_real (map key_of_prefix (nth 0 ex_tries [])) 128 (C02_Model.bytes_be 16 x))
      [0xffff0a010203; 0xffff0b010203; 0x0a010203] = [true; false; false] /\
  map (lookup_trie (trie_of (nth 0 ex_tries []))) [0xffff0a010203; 0xffff0b010203; 0x0a010203] = [true; false; false].
Proof.
  split; [vm_compute; reflexivity|]. split; [vm_compute; reflexivity|].
  split; [eexists; vm_compute; reflexivity|].
  repeat split; vm_compute; reflexivity.
Qed.

Print Assumptions Link_key_bytes_same.
Print Assumptions Link_lpm_real_is_covers.
Print Assumptions Link_lpm_real_is_model.
Print Assumptions Link_trie_and_installed_keys_same_set.
Print Assumptions Link_k_route_real_eq.
Print Assumptions Link_kscan_with_real_lpm.
Print Assumptions Link_kernel_real_lpm_vs_userspace_real_trie.
Print Assumptions Link_kernel_real_decides_program.

(* WHAT IS DISCHARGED / WHAT REMAINS
   Discharged: C02_Model's shortcut "BPF_MAP_TYPE_LPM_TRIE lookup = existsb lpm_entry_matches (N.shiftr on the
     big-endian value of the key bytes)".  k_route_real / kernel_decides_real are C02's route() / pipeline with
     route_match_lpm answered by C12_Model.lpm_lookup (longest_prefix_match's byte loop + trie_lookup_elem) over the
     struct lpm_key bytes C02 installs; Link_kscan_with_real_lpm is C02_kscan_scan for that kernel under exactly
     C02_kscan_scan's hypotheses (every earlier content `prev` of the maps included: only slots named by active rules
     are compared, installed_entries_ok).
   Representation links: Link_key_bytes_same (C02.key_of_prefix p = le32 prefixlen ++ the memory image of
     C12.cidr_to_lpm_key big (to12 p), either byte order of the data words), bytes_be_same (the two As16 models),
     node_of_installed_key(_g), probe_node_is_probe_key (the /128 probe key).
   Adapters: to12 (faithful, IPv4 as Is4 prefix; needs px_ok = C01's value_ok) and to12g (every C02 prefix as the 128-bit
     prefix addr/(bits+96); needs C02's wf_prefix only); to12g_same_key: both give the same key.
   Used as stated: C02_Props.C02_kscan_scan, C02_lpm_keys; C12_Props.C12_lpm_key_contains,
     C12_userspace_kernel_same_set; C01_Props.C01_scan_lower.  From Proofs files (helper lemmas, not property statements):
     C12_Proofs.node_of_prefix, node_of_probe, key_bytes_words, bytes_be_lt, bytes_be_length, land_255_mod;
     C02_Proofs.le32_bytes_le32, wf_prefix_facts, install_tries_get, encode_decode, wf_mset_facts;
     C02_ProofsScan.install_facts.
   Remaining hypotheses: those of C02_kscan_scan (wf_mset of the array, wf_prefix of the sets, probe_ok, bitmap_ok,
     install succeeds; dom_entry is the interface to C10/C11); Link_kernel_real_lpm_vs_userspace_real_trie asks px_ok
     (tries_ok) of the sets because the userspace trie side uses the faithful adapter; Link_kernel_real_decides_program
     has `lowered_msets_in_range b` (not proved by C01 or C02) and C01_domain_oracle_agrees.
   Not linked: C12_rules_kernel / C12_rules_userspace (C12's own three-role rule lists with its builder `run`): C01
     and C02 have the general match loop, so the link is made at the lookup (has_prefix / lpm_lookup), below those
     theorems; C12_lpm_longest (which key is returned) is not observable in route(), which only tests presence. *)
