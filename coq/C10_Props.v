(* C10 — property theorems only.  Each is closed by `exact` of a lemma of C10_Proofs.v. *)
From Coq Require Import List NArith Bool.
From Dae Require Import C10_Spec C10_Model C10_Proofs.
Import ListNotations.
Open Scope N_scope.

(* For every finite history of owner snapshots (any owners, overlapping address sets, zero bitmaps,
   empty snapshots, repeated addresses) the kernel map obtained by applying, in order, the batches the
   tracker emits equals the table of the spec at every address: no stale, missing or prematurely
   deleted entry. *)
Theorem C10_mirror :
  forall (h : list op) (ip : N), snd (run h) ip = table_entry h ip.
Proof. exact C10_mirror_proof. Qed.
Print Assumptions C10_mirror.

(* The tracker's reverse index stays the exact inverse of its owner table and caches the OR. *)
Theorem C10_internal_consistent :
  forall (h : list op), tracker_consistent h (fst (run h)).
Proof. exact C10_internal_consistent_proof. Qed.
Print Assumptions C10_internal_consistent.

(* A kernel write is issued only for an address whose table value changes. *)
Theorem C10_minimal_batches :
  forall (h : list op) (o : op) (ip : N),
    let b := fst (sync_owner (fst (run h)) (fst o) (snd o)) in
    (In ip (map fst (b_updates b)) \/ In ip (b_deletes b)) ->
    table_entry (h ++ [o]) ip <> table_entry h ip.
Proof. exact C10_minimal_batches_proof. Qed.
Print Assumptions C10_minimal_batches.

(* Non-vacuity: a history with two owners sharing an address, a replacement and a removal. *)
Example C10_nonvacuous :
  let h := [ (1, {| s_bitmap := 5; s_ips := [10; 11] |});
             (2, {| s_bitmap := 2; s_ips := [11; 12] |});
             (1, {| s_bitmap := 8; s_ips := [11] |});
             (2, empty_snapshot) ] in
  map (snd (run h)) [10; 11; 12] = [None; Some 8; None]
  /\ map (snd (run (firstn 2 h))) [10; 11; 12] = [Some 5; Some 7; Some 2].
Proof. exact C10_nonvacuous_proof. Qed.
