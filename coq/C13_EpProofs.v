(* C13 — lemmas about the endpoint pool model (C13_EpModel.v). *)
From Coq Require Import List Arith Bool Lia.
From Dae Require Import C13_Spec C13_Model C13_EpModel C13_Proofs.
Import ListNotations.

(* ------------------------------------------------------------------------------------------ *)
(* auxiliary calls leave pool / endpoint list / dial counter / epochs untouched                  *)
(* ------------------------------------------------------------------------------------------ *)
Definition same_core (s s' : pstate) : Prop :=
  p_pool s' = p_pool s /\ p_eps s' = p_eps s /\ p_handles s' = p_handles s /\ p_epoch s' = p_epoch s
  /\ p_dials s' = p_dials s /\ p_now s' = p_now s.

Lemma same_core_refl s : same_core s s.
Proof. repeat split. Qed.
Lemma same_core_trans a b c : same_core a b -> same_core b c -> same_core a c.
Proof. intros (A1&A2&A3&A4&A5&A6) (B1&B2&B3&B4&B5&B6). repeat split; congruence. Qed.

Lemma release_all_core s g ts : same_core s (release_all s g ts).
Proof.
  unfold release_all. revert s. induction ts as [|t r IH]; intros s; cbn; [apply same_core_refl|].
  eapply same_core_trans; [|apply IH].
  destruct (tr_begin_release (p_tr s g) t) as [m del]. repeat split.
Qed.
Lemma retain_all_core s g ts : same_core s (retain_all s g ts).
Proof. repeat split. Qed.
Lemma forget_all_core s g ts : same_core s (forget_all s g ts).
Proof. repeat split. Qed.

(* ------------------------------------------------------------------------------------------ *)
(* representation invariant of pool and endpoint list                                           *)
(* ------------------------------------------------------------------------------------------ *)
Definition ei (pl : nat -> option nat) (eps : list uep) : Prop :=
  (forall k e, pl k = Some e -> exists u, nth_error eps e = Some u /\ u_key u = k /\ u_closed u = false /\ u_dead u = false)
  /\ (forall e u, nth_error eps e = Some u ->
        u_conn_closes u = (if u_failed u then 0 else if u_closed u then 1 else 0)
        /\ (u_closed u = false -> pl (u_key u) = Some e)).

Definition EI (s : pstate) : Prop := ei (p_pool s) (p_eps s).

Definition same_shape (u u' : uep) : Prop :=
  u_key u' = u_key u /\ u_failed u' = u_failed u /\ u_closed u' = u_closed u /\ u_dead u' = u_dead u
  /\ u_conn_closes u' = u_conn_closes u.

Lemma ei_benign pl eps e u u' :
  nth_error eps e = Some u -> same_shape u u' -> ei pl eps -> ei pl (upd eps e u').
Proof.
  intros Hn (K&F&C&D&N) (A&B). split.
  - intros k e0 Hk. destruct (A k e0 Hk) as (u0&H0&H1&H2&H3).
    rewrite nth_error_upd. destruct (e0 =? e) eqn:E.
    + apply Nat.eqb_eq in E; subst e0. rewrite Hn. rewrite Hn in H0. inversion H0; subst u0.
      exists u'. repeat split; congruence.
    + exists u0. auto.
  - intros e0 u0. rewrite nth_error_upd. destruct (e0 =? e) eqn:E.
    + apply Nat.eqb_eq in E; subst e0. rewrite Hn. intros H; inversion H; subst u0.
      destruct (B e u Hn) as (B1&B2). rewrite N, F, C, K. split; auto.
    + apply B.
Qed.

Lemma ei_close pl eps e u :
  nth_error eps e = Some u -> u_closed u = false -> ei pl eps ->
  ei (fset pl (u_key u) None) (upd eps e (u_with_close u (if u_failed u then u_conn_closes u else S (u_conn_closes u)))).
Proof.
  intros Hn Hc (A&B). destruct (B e u Hn) as (B1&B2). specialize (B2 Hc). split.
  - intros k e0. unfold fset. destruct (k =? u_key u) eqn:Ek; [discriminate|]. intros Hk.
    destruct (A k e0 Hk) as (u0&H0&H1&H2&H3).
    rewrite nth_error_upd. destruct (e0 =? e) eqn:E.
    + apply Nat.eqb_eq in E; subst e0. rewrite Hn in H0. inversion H0; subst u0.
      rewrite H1, Nat.eqb_refl in Ek. discriminate.
    + exists u0. auto.
  - intros e0 u0. rewrite nth_error_upd. destruct (e0 =? e) eqn:E.
    + apply Nat.eqb_eq in E; subst e0. rewrite Hn. intros H; inversion H; subst u0. cbn.
      rewrite B1, Hc. destruct (u_failed u); split; auto; discriminate.
    + intros H0. destruct (B e0 u0 H0) as (C1&C2). split; auto.
      intros Hc0. specialize (C2 Hc0). unfold fset. destruct (u_key u0 =? u_key u) eqn:Ek; auto.
      apply Nat.eqb_eq in Ek. rewrite Ek in C2. rewrite B2 in C2. inversion C2; subst. rewrite Nat.eqb_refl in E. discriminate.
Qed.

Lemma ei_dead_closed pl eps e u :
  nth_error eps e = Some u -> u_closed u = true -> ei pl eps -> ei pl (upd eps e (u_with_dead u)).
Proof.
  intros Hn Hc (A&B). split.
  - intros k e0 Hk. destruct (A k e0 Hk) as (u0&H0&H1&H2&H3).
    rewrite nth_error_upd. destruct (e0 =? e) eqn:E.
    + apply Nat.eqb_eq in E; subst e0. rewrite Hn in H0. inversion H0; subst u0. congruence.
    + exists u0. auto.
  - intros e0 u0. rewrite nth_error_upd. destruct (e0 =? e) eqn:E.
    + apply Nat.eqb_eq in E; subst e0. rewrite Hn. intros H; inversion H; subst u0. cbn.
      destruct (B e u Hn) as (B1&B2). split; auto.
    + apply B.
Qed.

Lemma ei_create pl eps k u :
  pl k = None -> u_key u = k -> u_closed u = false -> u_dead u = false -> u_conn_closes u = 0 ->
  ei pl eps -> ei (fset pl k (Some (length eps))) (eps ++ [u]).
Proof.
  intros Hk K C D N (A&B). split.
  - intros k0 e0. unfold fset. destruct (k0 =? k) eqn:Ek.
    + intros H; inversion H; subst e0. apply Nat.eqb_eq in Ek; subst k0.
      exists u. rewrite nth_error_app2 by lia. rewrite Nat.sub_diag. cbn. auto.
    + intros H. destruct (A k0 e0 H) as (u0&H0&H1). exists u0. split; auto.
      rewrite nth_error_app1; auto. apply nth_error_Some. congruence.
  - intros e0 u0 H0. destruct (Nat.lt_ge_cases e0 (length eps)) as [Hlt|Hge].
    + rewrite nth_error_app1 in H0 by auto. destruct (B e0 u0 H0) as (B1&B2). split; auto.
      intros Hc. specialize (B2 Hc). unfold fset. destruct (u_key u0 =? k) eqn:Ek; auto.
      apply Nat.eqb_eq in Ek. congruence.
    + rewrite nth_error_app2 in H0 by auto. destruct (e0 - length eps) as [|n] eqn:En; cbn in H0.
      * inversion H0; subst u0. rewrite N, C. split; [destruct (u_failed u); reflexivity|].
        intros _. unfold fset. rewrite K, Nat.eqb_refl. f_equal. lia.
      * destruct n; discriminate.
Qed.

(* ------------------------------------------------------------------------------------------ *)
(* the calls preserve the invariant                                                             *)
(* ------------------------------------------------------------------------------------------ *)
Lemma EI_core s s' : same_core s s' -> EI s -> EI s'.
Proof. intros (A&B&_) H. unfold EI. now rewrite A, B. Qed.

Lemma EI_set_ep_core s0 s2 e u' :
  same_core s0 s2 -> ei (p_pool s0) (upd (p_eps s0) e u') -> EI (set_ep s2 e u').
Proof.
  intros (P1&P2&_) H. unfold EI, set_ep, set_eps. cbn [p_pool p_eps]. now rewrite P1, P2.
Qed.

Lemma close_tail_core s0 (u : uep) :
  same_core s0
    (match u_drain u with
     | Some g => set_drainc (if u_cs_closed u then s0 else release_all s0 (u_owner u) (u_tuples u))
                   (fset (p_drainc (if u_cs_closed u then s0 else release_all s0 (u_owner u) (u_tuples u))) g
                      (pred (p_drainc (if u_cs_closed u then s0 else release_all s0 (u_owner u) (u_tuples u)) g)))
     | None => if u_cs_closed u then s0 else release_all s0 (u_owner u) (u_tuples u)
     end).
Proof.
  assert (C1 : same_core s0 (if u_cs_closed u then s0 else release_all s0 (u_owner u) (u_tuples u))).
  { destruct (u_cs_closed u); [apply same_core_refl|apply release_all_core]. }
  destruct (u_drain u); [eapply same_core_trans; [exact C1|repeat split]|exact C1].
Qed.

(* Close of an endpoint that has just been removed from the pool (or of a closed one) *)
Lemma EI_remove_close s e u :
  EI s -> nth_error (p_eps s) e = Some u -> u_closed u = false ->
  EI (ep_close (set_pool s (fset (p_pool s) (u_key u) None)) e).
Proof.
  intros H Hn Hc. unfold ep_close. cbn [p_eps set_pool]. rewrite Hn, Hc.
  eapply EI_set_ep_core; [apply close_tail_core|].
  cbn [p_pool p_eps set_pool]. apply ei_close; auto.
Qed.

Lemma ep_close_closed s e u : nth_error (p_eps s) e = Some u -> u_closed u = true -> ep_close s e = s.
Proof. intros Hn Hc. unfold ep_close. now rewrite Hn, Hc. Qed.

Lemma EI_retire s e : EI s -> EI (ep_retire s e).
Proof.
  intros H. unfold ep_retire. destruct (nth_error (p_eps s) e) as [u|] eqn:Hn; [|exact H].
  destruct (u_closed u) eqn:Hc.
  - (* already closed: not in the pool; only the dead flag changes *)
    assert (Hnp : opt_is (p_pool s (u_key u)) e = false).
    { unfold opt_is. destruct (p_pool s (u_key u)) as [e0|] eqn:Hk; auto.
      destruct (e0 =? e) eqn:E; auto. apply Nat.eqb_eq in E; subst e0.
      destruct H as (A&_). destruct (A _ _ Hk) as (u0&H0&_&H2&_). rewrite Hn in H0. inversion H0; subst. congruence. }
    cbn [p_pool set_ep set_eps]. rewrite Hnp.
    rewrite (ep_close_closed _ e (u_with_dead u)).
    + unfold EI, set_ep, set_eps; cbn. now apply ei_dead_closed.
    + unfold set_ep, set_eps; cbn. rewrite nth_error_upd, Nat.eqb_refl, Hn. reflexivity.
    + exact Hc.
  - (* open: it is in the pool under its key *)
    assert (Hp : p_pool s (u_key u) = Some e) by (destruct H as (_&B); now apply (B e u Hn)).
    cbn [p_pool set_ep set_eps]. unfold opt_is. rewrite Hp, Nat.eqb_refl.
    (* first the dead flag on an endpoint that is about to leave the pool: go through the closed state *)
    set (s1 := set_ep s e (u_with_dead u)).
    assert (Hn1 : nth_error (p_eps s1) e = Some (u_with_dead u)).
    { unfold s1, set_ep, set_eps; cbn. rewrite nth_error_upd, Nat.eqb_refl, Hn. reflexivity. }
    unfold ep_close. cbn [p_eps set_pool]. rewrite Hn1. cbn [u_closed u_with_dead]. rewrite Hc.
    eapply EI_set_ep_core; [apply close_tail_core|].
    unfold s1. cbn [p_pool p_eps set_pool set_ep set_eps u_with_dead u_failed u_conn_closes u_key].
    (* upd (upd eps e dead-u) e closed-u = upd eps e closed-u' : prove ei directly *)
    destruct H as (A&B). destruct (B e u Hn) as (B1&_). split.
    + intros k e0. unfold fset. destruct (k =? u_key u) eqn:Ek; [discriminate|]. intros Hk.
      destruct (A k e0 Hk) as (u0&H0&H1&H2&H3).
      rewrite !nth_error_upd. destruct (e0 =? e) eqn:E.
      * apply Nat.eqb_eq in E; subst e0. rewrite Hn in H0. inversion H0; subst u0.
        rewrite H1, Nat.eqb_refl in Ek. discriminate.
      * exists u0. auto.
    + intros e0 u0. rewrite !nth_error_upd. destruct (e0 =? e) eqn:E.
      * apply Nat.eqb_eq in E; subst e0. rewrite Nat.eqb_refl, Hn. intros H; inversion H; subst u0. cbn.
        rewrite B1, Hc. destruct (u_failed u); split; auto; discriminate.
      * intros H0. destruct (B e0 u0 H0) as (C1'&C2'). split; auto.
        intros Hc0. specialize (C2' Hc0). unfold fset. destruct (u_key u0 =? u_key u) eqn:Ek; auto.
        apply Nat.eqb_eq in Ek. rewrite Ek in C2'. rewrite Hp in C2'. inversion C2'; subst. rewrite Nat.eqb_refl in E. discriminate.
Qed.
