(* C13 — lemmas about the endpoint pool model (C13_EpModel.v). *)
From Coq Require Import List Arith Bool Lia.
From Dae Require Import C13_Spec C13_Model C13_EpModel C13_Proofs.
From Dae.gen Require Import C13_Consts.
Import ListNotations.

(* ------------------------------------------------------------------------------------------ *)
(* auxiliary calls leave pool / endpoint list / dial counter / epochs untouched                  *)
(* ------------------------------------------------------------------------------------------ *)
Definition same_core (s s' : pstate) : Prop :=
  p_pool s' = p_pool s /\ p_eps s' = p_eps s /\ p_handles s' = p_handles s /\ p_epoch s' = p_epoch s
  /\ p_dials s' = p_dials s /\ p_now s' = p_now s.

Lemma same_core_refl s : same_core s s.
Proof. repeat split. Qed.
Lemma same_core_trans a b c : same_core a b -> same_core b c -> same_core a c.
Proof. intros (A1&A2&A3&A4&A5&A6) (B1&B2&B3&B4&B5&B6). repeat split; congruence. Qed.

Lemma release_all_core s g ts : same_core s (release_all s g ts).
Proof.
  unfold release_all. revert s. induction ts as [|t r IH]; intros s; cbn; [apply same_core_refl|].
  eapply same_core_trans; [|apply IH].
  destruct (tr_begin_release (p_tr s g) t) as [m del]. repeat split.
Qed.
Lemma retain_all_core s g ts : same_core s (retain_all s g ts).
Proof. repeat split. Qed.
Lemma forget_all_core s g ts : same_core s (forget_all s g ts).
Proof. repeat split. Qed.

(* ------------------------------------------------------------------------------------------ *)
(* representation invariant of pool and endpoint list                                           *)
(* ------------------------------------------------------------------------------------------ *)
Definition ei (pl : nat -> option nat) (eps : list uep) : Prop :=
  (forall k e, pl k = Some e -> exists u, nth_error eps e = Some u /\ u_key u = k /\ u_closed u = false /\ u_dead u = false)
  /\ (forall e u, nth_error eps e = Some u ->
        u_conn_closes u = (if u_failed u then 0 else if u_closed u then 1 else 0)
        /\ (u_closed u = false -> pl (u_key u) = Some e)).

Definition EI (s : pstate) : Prop := ei (p_pool s) (p_eps s).

Definition same_shape (u u' : uep) : Prop :=
  u_key u' = u_key u /\ u_failed u' = u_failed u /\ u_closed u' = u_closed u /\ u_dead u' = u_dead u
  /\ u_conn_closes u' = u_conn_closes u.

Lemma ei_benign pl eps e u u' :
  nth_error eps e = Some u -> same_shape u u' -> ei pl eps -> ei pl (upd eps e u').
Proof.
  intros Hn (K&F&C&D&N) (A&B). split.
  - intros k e0 Hk. destruct (A k e0 Hk) as (u0&H0&H1&H2&H3).
    rewrite nth_error_upd. destruct (e0 =? e) eqn:E.
    + apply Nat.eqb_eq in E; subst e0. rewrite Hn. rewrite Hn in H0. inversion H0; subst u0.
      exists u'. repeat split; congruence.
    + exists u0. auto.
  - intros e0 u0. rewrite nth_error_upd. destruct (e0 =? e) eqn:E.
    + apply Nat.eqb_eq in E; subst e0. rewrite Hn. intros H; inversion H; subst u0.
      destruct (B e u Hn) as (B1&B2). rewrite N, F, C, K. split; auto.
    + apply B.
Qed.

Lemma ei_close pl eps e u :
  nth_error eps e = Some u -> u_closed u = false -> ei pl eps ->
  ei (fset pl (u_key u) None) (upd eps e (u_with_close u (if u_failed u then u_conn_closes u else S (u_conn_closes u)))).
Proof.
  intros Hn Hc (A&B). destruct (B e u Hn) as (B1&B2). specialize (B2 Hc). split.
  - intros k e0. unfold fset. destruct (k =? u_key u) eqn:Ek; [discriminate|]. intros Hk.
    destruct (A k e0 Hk) as (u0&H0&H1&H2&H3).
    rewrite nth_error_upd. destruct (e0 =? e) eqn:E.
    + apply Nat.eqb_eq in E; subst e0. rewrite Hn in H0. inversion H0; subst u0.
      rewrite H1, Nat.eqb_refl in Ek. discriminate.
    + exists u0. auto.
  - intros e0 u0. rewrite nth_error_upd. destruct (e0 =? e) eqn:E.
    + apply Nat.eqb_eq in E; subst e0. rewrite Hn. intros H; inversion H; subst u0. cbn.
      rewrite B1, Hc. destruct (u_failed u); split; auto; discriminate.
    + intros H0. destruct (B e0 u0 H0) as (C1&C2). split; auto.
      intros Hc0. specialize (C2 Hc0). unfold fset. destruct (u_key u0 =? u_key u) eqn:Ek; auto.
      apply Nat.eqb_eq in Ek. rewrite Ek in C2. rewrite B2 in C2. inversion C2; subst. rewrite Nat.eqb_refl in E. discriminate.
Qed.

Lemma ei_dead_closed pl eps e u :
  nth_error eps e = Some u -> u_closed u = true -> ei pl eps -> ei pl (upd eps e (u_with_dead u)).
Proof.
  intros Hn Hc (A&B). split.
  - intros k e0 Hk. destruct (A k e0 Hk) as (u0&H0&H1&H2&H3).
    rewrite nth_error_upd. destruct (e0 =? e) eqn:E.
    + apply Nat.eqb_eq in E; subst e0. rewrite Hn in H0. inversion H0; subst u0. congruence.
    + exists u0. auto.
  - intros e0 u0. rewrite nth_error_upd. destruct (e0 =? e) eqn:E.
    + apply Nat.eqb_eq in E; subst e0. rewrite Hn. intros H; inversion H; subst u0. cbn.
      destruct (B e u Hn) as (B1&B2). split; auto.
    + apply B.
Qed.

Lemma ei_create pl eps k u :
  pl k = None -> u_key u = k -> u_closed u = false -> u_dead u = false -> u_conn_closes u = 0 ->
  ei pl eps -> ei (fset pl k (Some (length eps))) (eps ++ [u]).
Proof.
  intros Hk K C D N (A&B). split.
  - intros k0 e0. unfold fset. destruct (k0 =? k) eqn:Ek.
    + intros H; inversion H; subst e0. apply Nat.eqb_eq in Ek; subst k0.
      exists u. rewrite nth_error_app2 by lia. rewrite Nat.sub_diag. cbn. auto.
    + intros H. destruct (A k0 e0 H) as (u0&H0&H1). exists u0. split; auto.
      rewrite nth_error_app1; auto. apply nth_error_Some. congruence.
  - intros e0 u0 H0. destruct (Nat.lt_ge_cases e0 (length eps)) as [Hlt|Hge].
    + rewrite nth_error_app1 in H0 by auto. destruct (B e0 u0 H0) as (B1&B2). split; auto.
      intros Hc. specialize (B2 Hc). unfold fset. destruct (u_key u0 =? k) eqn:Ek; auto.
      apply Nat.eqb_eq in Ek. congruence.
    + rewrite nth_error_app2 in H0 by auto. destruct (e0 - length eps) as [|n] eqn:En; cbn in H0.
      * inversion H0; subst u0. rewrite N, C. split; [destruct (u_failed u); reflexivity|].
        intros _. unfold fset. rewrite K, Nat.eqb_refl. f_equal. lia.
      * destruct n; discriminate.
Qed.

(* ------------------------------------------------------------------------------------------ *)
(* the calls preserve the invariant                                                             *)
(* ------------------------------------------------------------------------------------------ *)
Lemma EI_core s s' : same_core s s' -> EI s -> EI s'.
Proof. intros (A&B&_) H. unfold EI. now rewrite A, B. Qed.

Lemma EI_set_ep_core s0 s2 e u' :
  same_core s0 s2 -> ei (p_pool s0) (upd (p_eps s0) e u') -> EI (set_ep s2 e u').
Proof.
  intros (P1&P2&_) H. unfold EI, set_ep, set_eps. cbn [p_pool p_eps]. now rewrite P1, P2.
Qed.

Lemma close_tail_core s0 (u : uep) :
  same_core s0
    (match u_drain u with
     | Some g => set_drainc (if u_cs_closed u then s0 else release_all s0 (u_owner u) (u_tuples u))
                   (fset (p_drainc (if u_cs_closed u then s0 else release_all s0 (u_owner u) (u_tuples u))) g
                      (pred (p_drainc (if u_cs_closed u then s0 else release_all s0 (u_owner u) (u_tuples u)) g)))
     | None => if u_cs_closed u then s0 else release_all s0 (u_owner u) (u_tuples u)
     end).
Proof.
  assert (C1 : same_core s0 (if u_cs_closed u then s0 else release_all s0 (u_owner u) (u_tuples u))).
  { destruct (u_cs_closed u); [apply same_core_refl|apply release_all_core]. }
  destruct (u_drain u); [eapply same_core_trans; [exact C1|repeat split]|exact C1].
Qed.

(* Close of an endpoint that has just been removed from the pool (or of a closed one) *)
Lemma EI_remove_close s e u :
  EI s -> nth_error (p_eps s) e = Some u -> u_closed u = false ->
  EI (ep_close (set_pool s (fset (p_pool s) (u_key u) None)) e).
Proof.
  intros H Hn Hc. unfold ep_close. cbn [p_eps set_pool]. rewrite Hn, Hc.
  eapply EI_set_ep_core; [apply close_tail_core|].
  cbn [p_pool p_eps set_pool]. apply ei_close; auto.
Qed.

Lemma ep_close_closed s e u : nth_error (p_eps s) e = Some u -> u_closed u = true -> ep_close s e = s.
Proof. intros Hn Hc. unfold ep_close. now rewrite Hn, Hc. Qed.

Lemma EI_retire s e : EI s -> EI (ep_retire s e).
Proof.
  intros H. unfold ep_retire. destruct (nth_error (p_eps s) e) as [u|] eqn:Hn; [|exact H].
  destruct (u_closed u) eqn:Hc.
  - (* already closed: not in the pool; only the dead flag changes *)
    assert (Hnp : opt_is (p_pool s (u_key u)) e = false).
    { unfold opt_is. destruct (p_pool s (u_key u)) as [e0|] eqn:Hk; auto.
      destruct (e0 =? e) eqn:E; auto. apply Nat.eqb_eq in E; subst e0.
      destruct H as (A&_). destruct (A _ _ Hk) as (u0&H0&_&H2&_). rewrite Hn in H0. inversion H0; subst. congruence. }
    cbn [p_pool set_ep set_eps]. rewrite Hnp.
    rewrite (ep_close_closed _ e (u_with_dead u)).
    + unfold EI, set_ep, set_eps; cbn. now apply ei_dead_closed.
    + unfold set_ep, set_eps; cbn. rewrite nth_error_upd, Nat.eqb_refl, Hn. reflexivity.
    + exact Hc.
  - (* open: it is in the pool under its key *)
    assert (Hp : p_pool s (u_key u) = Some e) by (destruct H as (_&B); now apply (B e u Hn)).
    cbn [p_pool set_ep set_eps]. unfold opt_is. rewrite Hp, Nat.eqb_refl.
    (* first the dead flag on an endpoint that is about to leave the pool: go through the closed state *)
    set (s1 := set_ep s e (u_with_dead u)).
    assert (Hn1 : nth_error (p_eps s1) e = Some (u_with_dead u)).
    { unfold s1, set_ep, set_eps; cbn. rewrite nth_error_upd, Nat.eqb_refl, Hn. reflexivity. }
    unfold ep_close. cbn [p_eps set_pool]. rewrite Hn1. cbn [u_closed u_with_dead]. rewrite Hc.
    eapply EI_set_ep_core; [apply close_tail_core|].
    unfold s1. cbn [p_pool p_eps set_pool set_ep set_eps u_with_dead u_failed u_conn_closes u_key].
    (* upd (upd eps e dead-u) e closed-u = upd eps e closed-u' : prove ei directly *)
    destruct H as (A&B). destruct (B e u Hn) as (B1&_). split.
    + intros k e0. unfold fset. destruct (k =? u_key u) eqn:Ek; [discriminate|]. intros Hk.
      destruct (A k e0 Hk) as (u0&H0&H1&H2&H3).
      rewrite !nth_error_upd. destruct (e0 =? e) eqn:E.
      * apply Nat.eqb_eq in E; subst e0. rewrite Hn in H0. inversion H0; subst u0.
        rewrite H1, Nat.eqb_refl in Ek. discriminate.
      * exists u0. auto.
    + intros e0 u0. rewrite !nth_error_upd. destruct (e0 =? e) eqn:E.
      * apply Nat.eqb_eq in E; subst e0. rewrite Nat.eqb_refl, Hn. intros H; inversion H; subst u0. cbn.
        rewrite B1, Hc. destruct (u_failed u); split; auto; discriminate.
      * intros H0. destruct (B e0 u0 H0) as (C1'&C2'). split; auto.
        intros Hc0. specialize (C2' Hc0). unfold fset. destruct (u_key u0 =? u_key u) eqn:Ek; auto.
        apply Nat.eqb_eq in Ek. rewrite Ek in C2'. rewrite Hp in C2'. inversion C2'; subst. rewrite Nat.eqb_refl in E. discriminate.
Qed.

Lemma EI_set_ep_benign s e u u' :
  EI s -> nth_error (p_eps s) e = Some u -> same_shape u u' -> EI (set_ep s e u').
Proof. intros H Hn Hs. unfold EI, set_ep, set_eps; cbn. eapply ei_benign; eauto. Qed.

Lemma same_shape_refl u : same_shape u u.
Proof. repeat split. Qed.

Lemma adopt_core_eps s e g :
  p_pool (ep_adopt s e g) = p_pool s /\ p_dials (ep_adopt s e g) = p_dials s /\ p_epoch (ep_adopt s e g) = p_epoch s
  /\ p_now (ep_adopt s e g) = p_now s /\ p_handles (ep_adopt s e g) = p_handles s
  /\ (forall u, nth_error (p_eps s) e = Some u ->
        exists u', same_shape u u' /\ u_sent u' = u_sent u /\ u_gen u' = u_gen u /\ u_dialer u' = u_dialer u
                   /\ p_eps (ep_adopt s e g) = upd (p_eps s) e u').
Proof.
  unfold ep_adopt. destruct (nth_error (p_eps s) e) as [u|] eqn:Hn.
  2:{ repeat split. intros u H; discriminate. }
  destruct (u_cs_closed u).
  { repeat split. intros u0 H; inversion H; subst u0. exists u. repeat split.
    clear -Hn. revert e Hn. induction (p_eps s) as [|x r IH]; intros [|e] H; cbn in *; try discriminate.
    - inversion H; reflexivity.
    - f_equal. now apply IH. }
  set (s1 := if negb (u_owner u =? g) && negb match u_tuples u with [] => true | _ :: _ => false end
             then forget_all (retain_all s g (u_tuples u)) (u_owner u) (u_tuples u) else s).
  assert (C1 : same_core s s1).
  { unfold s1. destruct (negb (u_owner u =? g) && _); [repeat split|apply same_core_refl]. }
  destruct C1 as (P1&P2&P3&P4&P5&P6).
  destruct (match u_drain u with Some g' => g' =? g | None => false end).
  - cbn. rewrite P1, P2, P3, P4, P5, P6. repeat split.
    intros u0 H; inversion H; subst u0. eexists. split; [|split; [|split; [|split; [|reflexivity]]]]; repeat split.
  - destruct (u_drain u); cbn; rewrite ?P1, ?P2, ?P3, ?P4, ?P5, ?P6; repeat split;
      intros u0 H; inversion H; subst u0; (eexists; split; [|split; [|split; [|split; [|reflexivity]]]]; repeat split).
Qed.

Lemma EI_adopt s e g : EI s -> EI (ep_adopt s e g).
Proof.
  intros H. destruct (adopt_core_eps s e g) as (P&_&_&_&_&E).
  destruct (nth_error (p_eps s) e) as [u|] eqn:Hn.
  - destruct (E u eq_refl) as (u'&Hs&_&_&_&Eq). unfold EI. rewrite P, Eq. eapply ei_benign; eauto.
  - unfold ep_adopt. now rewrite Hn.
Qed.

Lemma EI_create s k d g out : EI s -> p_pool s k = None -> EI (fst (ep_create s k d g out)).
Proof.
  intros H Hk. unfold ep_create. destruct out as [|[|[|n]]]; cbn; try exact H;
    (unfold EI; cbn; apply ei_create; auto).
Qed.

Lemma EI_reuse s e g u : EI s -> nth_error (p_eps s) e = Some u -> EI (fst (ep_reuse s e g u)).
Proof.
  intros H Hn. unfold ep_reuse. cbn [fst]. apply EI_adopt. eapply EI_set_ep_benign; eauto. repeat split.
Qed.

Lemma pool_after_remove_close s e k :
  p_pool (ep_close (set_pool s (fset (p_pool s) k None)) e) k = None.
Proof.
  unfold ep_close. cbn [p_eps set_pool]. destruct (nth_error (p_eps s) e) as [u|]; [|cbn; unfold fset; now rewrite Nat.eqb_refl].
  destruct (u_closed u); [cbn; unfold fset; now rewrite Nat.eqb_refl|].
  destruct (close_tail_core (set_pool s (fset (p_pool s) k None)) u) as (P1&_).
  unfold set_ep, set_eps. cbn [p_pool]. rewrite P1. cbn. unfold fset. now rewrite Nat.eqb_refl.
Qed.

Lemma EI_goc s k d g out : EI s -> EI (fst (ep_goc s k d g out)).
Proof.
  intros H. unfold ep_goc.
  destruct (p_pool s k) as [e|] eqn:Hk.
  2:{ now apply EI_create. }
  destruct (nth_error (p_eps s) e) as [u|] eqn:Hn.
  2:{ destruct H as (A&_). destruct (A k e Hk) as (u&H0&_). congruence. }
  assert (Hku : u_key u = k /\ u_closed u = false).
  { destruct H as (A&_). destruct (A k e Hk) as (u0&H0&H1&H2&_). rewrite Hn in H0. inversion H0; subst. auto. }
  destruct Hku as (Hku&Hcl).
  assert (Hrm : EI (fst (ep_create (ep_close (set_pool s (fset (p_pool s) k None)) e) k d g out))).
  { apply EI_create; [|apply pool_after_remove_close]. rewrite <- Hku. now apply EI_remove_close. }
  destruct (u_failed u).
  - destruct (is_expired u (p_now s)); [exact Hrm|exact H].
  - destruct (stale s u); [exact Hrm|]. now apply EI_reuse.
Qed.

(* Remove(own key, handle): the pooled endpoint is removed and closed; a stale handle is already closed
   (it is not the pool entry of its key), so nothing happens *)
Lemma ep_remove_stale s h e u :
  EI s -> nth_error (p_handles s) h = Some e -> nth_error (p_eps s) e = Some u ->
  p_pool s (u_key u) <> Some e -> ep_remove true s h = s.
Proof.
  intros H Hh Hn Hp. unfold ep_remove. rewrite Hh, Hn.
  assert (Ho : opt_is (p_pool s (u_key u)) e = false).
  { unfold opt_is. destruct (p_pool s (u_key u)) as [e0|] eqn:Hk; auto.
    destruct (e0 =? e) eqn:E; auto. apply Nat.eqb_eq in E; subst. congruence. }
  rewrite Ho. destruct (u_closed u) eqn:Hc; [now apply (ep_close_closed s e u)|].
  exfalso. apply Hp. destruct H as (_&B). now apply (B e u Hn).
Qed.

Lemma EI_remove s h : EI s -> EI (ep_remove remove_checks_identity s h).
Proof.
  intros H. change remove_checks_identity with true. unfold ep_remove.
  destruct (nth_error (p_handles s) h) as [e|] eqn:Hh; [|exact H].
  destruct (nth_error (p_eps s) e) as [u|] eqn:Hn; [|exact H].
  destruct (opt_is (p_pool s (u_key u)) e) eqn:Ho.
  - apply EI_remove_close; auto.
    destruct H as (A&_). unfold opt_is in Ho. destruct (p_pool s (u_key u)) as [e0|] eqn:Hk; [|discriminate].
    apply Nat.eqb_eq in Ho; subst e0. destruct (A _ _ Hk) as (u0&H0&_&H2&_). rewrite Hn in H0. inversion H0; subst. exact H2.
  - destruct (u_closed u) eqn:Hc; [now rewrite (ep_close_closed s e u)|].
    exfalso. destruct H as (_&B). destruct (B e u Hn) as (_&B2). specialize (B2 Hc).
    unfold opt_is in Ho. rewrite B2, Nat.eqb_refl in Ho. discriminate.
Qed.

Lemma EI_fold_eps (f : pstate -> nat -> pstate) :
  (forall s e, EI s -> EI (f s e)) -> forall l s, EI s -> EI (fold_left f l s).
Proof. intros Hf l. induction l as [|x r IH]; intros s H; cbn; auto. Qed.

Lemma EI_pstep s o : EI s -> EI (fst (pstep s o)).
Proof.
  intros H. destruct o as [k d g out|h out|h t|d| | |dt|h]; cbn [pstep].
  - now apply EI_goc.
  - destruct (nth_error (p_handles s) h) as [e|]; [|exact H].
    destruct (nth_error (p_eps s) e) as [u|] eqn:Hn; [|exact H].
    destruct (u_dead u); [exact H|].
    destruct ((0 <? u_conn_closes u) || (out =? 1)); cbn [fst].
    + apply EI_retire. eapply EI_set_ep_benign; eauto. repeat split.
    + eapply EI_set_ep_benign; eauto. repeat split.
  - destruct (nth_error (p_handles s) h) as [e|]; [|exact H].
    destruct (nth_error (p_eps s) e) as [u|] eqn:Hn; [|exact H].
    destruct (u_cs_closed u); [exact H|]. cbn [fst].
    eapply EI_core; [apply retain_all_core|]. eapply EI_set_ep_benign; eauto. repeat split.
  - cbn [fst]. apply EI_fold_eps.
    + intros s0 e H0. destruct (nth_error (p_eps s0) e) as [u|]; auto.
      destruct (u_registered u && (u_dialer u =? d) && negb (survives u)); auto. now apply EI_retire.
    + exact H.
  - cbn [fst].
    set (s1 := fold_left _ _ s).
    assert (H1 : EI s1).
    { unfold s1. apply EI_fold_eps; auto.
      intros s0 e H0. destruct (nth_error (p_eps s0) e) as [u|] eqn:Hn; auto.
      destruct (opt_is (p_pool s0 (u_key u)) e) eqn:Ho; auto.
      apply EI_remove_close; auto.
      destruct H0 as (A&_). unfold opt_is in Ho. destruct (p_pool s0 (u_key u)) as [e0|] eqn:Hk; [|discriminate].
      apply Nat.eqb_eq in Ho; subst e0. destruct (A _ _ Hk) as (u0&H0&_&H2&_). rewrite Hn in H0. inversion H0; subst. exact H2. }
    unfold EI; cbn. destruct H1 as (A&B). split.
    + intros k e Hk. destruct (A k e Hk) as (u&H0&H1&H2&H3).
      rewrite nth_error_map, H0. cbn. eexists. split; [reflexivity|]. cbn. auto.
    + intros e u0. rewrite nth_error_map. destruct (nth_error (p_eps s1) e) as [u|] eqn:Hn; cbn; [|discriminate].
      intros Hu; inversion Hu; subst u0. cbn. apply (B e u Hn).
  - cbn [fst]. apply EI_fold_eps; auto.
    intros s0 e H0. destruct (nth_error (p_eps s0) e) as [u|] eqn:Hn; auto.
    destruct (opt_is (p_pool s0 (u_key u)) e) eqn:Ho; cbn [andb]; auto.
    destruct (is_expired u (p_now s0) || negb (gen_current s0 u) && negb (survives u)); auto.
    apply EI_remove_close; auto.
    destruct H0 as (A&_). unfold opt_is in Ho. destruct (p_pool s0 (u_key u)) as [e0|] eqn:Hk; [|discriminate].
    apply Nat.eqb_eq in Ho; subst e0. destruct (A _ _ Hk) as (u0&H0&_&H2&_). rewrite Hn in H0. inversion H0; subst. exact H2.
  - exact H.
  - cbn [fst]. now apply EI_remove.
Qed.

Lemma EI_p0 : EI p0.
Proof. split; [intros k e H; discriminate|intros [|e] u H; discriminate]. Qed.

Lemma EI_prun ops : EI (prun ops).
Proof.
  unfold prun. generalize EI_p0. generalize p0. induction ops as [|o r IH]; intros s H; cbn; auto.
  apply IH. now apply EI_pstep.
Qed.

(* ------------------------------------------------------------------------------------------ *)
(* the property theorems                                                                        *)
(* ------------------------------------------------------------------------------------------ *)
(* every dialled endpoint: transport closed at most once, exactly when the endpoint is closed; an endpoint
   that is no longer in the pool under its key has been closed *)
Lemma C13_close_once_proof :
  forall ops e u, nth_error (p_eps (prun ops)) e = Some u -> u_failed u = false ->
    u_conn_closes u <= 1
    /\ (u_conn_closes u = 1 <-> u_closed u = true)
    /\ (p_pool (prun ops) (u_key u) <> Some e -> u_conn_closes u = 1).
Proof.
  intros ops e u Hn Hf. destruct (EI_prun ops) as (_&B). destruct (B e u Hn) as (B1&B2).
  rewrite Hf in B1. destruct (u_closed u) eqn:Hc; rewrite B1.
  - repeat split; auto.
  - repeat split; try lia; try discriminate. intros Hp. exfalso. apply Hp. now apply B2.
Qed.

(* what a call may hand out *)
Definition handed_ok (s : pstate) (e : nat) : Prop :=
  exists u, nth_error (p_eps s) e = Some u
            /\ u_failed u = false /\ u_dead u = false /\ u_closed u = false /\ u_conn_closes u = 0
            /\ (gen_current s u || survives u) = true
            /\ p_pool s (u_key u) = Some e.

Lemma reuse_handed s e g u :
  EI s -> nth_error (p_eps s) e = Some u -> p_pool s (u_key u) = Some e ->
  u_failed u = false -> stale s u = false ->
  handed_ok (fst (ep_reuse s e g u)) e.
Proof.
  intros H Hn Hp Hf Hst. unfold ep_reuse. cbn [fst].
  set (s1 := set_ep s e (u_with_exp u (p_now s + nat_timeout))).
  assert (Hn1 : nth_error (p_eps s1) e = Some (u_with_exp u (p_now s + nat_timeout))).
  { unfold s1, set_ep, set_eps; cbn. rewrite nth_error_upd, Nat.eqb_refl, Hn. reflexivity. }
  destruct (adopt_core_eps s1 e g) as (P&_&Ep&_&_&E).
  destruct (E _ Hn1) as (u'&(K&F&C&D&N)&Se&Ge&Di&Eq).
  destruct H as (A&B). destruct (A _ _ Hp) as (u0&H0&_&Hc&Hd). rewrite Hn in H0. inversion H0; subst u0.
  destruct (B e u Hn) as (B1&_). rewrite Hf, Hc in B1.
  exists u'. rewrite Eq, nth_error_upd, Nat.eqb_refl, Hn1. split; [reflexivity|].
  cbn in K, F, C, D, N, Se, Ge, Di. rewrite F, D, C, N, K, P. repeat split; auto.
  unfold stale in Hst. rewrite Hd in Hst. cbn in Hst.
  unfold gen_current, survives in *. rewrite Ep, Ge, Di, Se. unfold s1; cbn.
  destruct (match u_gen u with 0 => false | 1 => true | S (S n) => n =? p_epoch s (u_dialer u) end); cbn in *; auto.
  destruct (u_sent u); cbn in *; auto.
Qed.

Lemma create_handed s k d g out e :
  r_ret (snd (ep_create s k d g out)) = Some e -> handed_ok (fst (ep_create s k d g out)) e.
Proof.
  unfold ep_create, handed_ok. destruct out as [|[|[|n]]]; cbn [fst snd r_ret p_eps p_pool]; try discriminate;
    (intros H; inversion H; subst e; eexists; rewrite nth_error_app2 by lia; rewrite Nat.sub_diag; cbn;
     split; [reflexivity|]; cbn; unfold gen_current, fset; cbn; rewrite !Nat.eqb_refl; repeat split).
Qed.

Lemma C13_never_resurrect_proof :
  forall ops o e,
    r_ret (snd (pstep (prun ops) o)) = Some e -> handed_ok (fst (pstep (prun ops) o)) e.
Proof.
  intros ops o e. pose proof (EI_prun ops) as H. set (s := prun ops) in *.
  destruct o as [k d g out|h out|h t|d| | |dt|h]; cbn [pstep].
  2:{ destruct (nth_error (p_handles s) h) as [e0|]; [|discriminate].
      destruct (nth_error (p_eps s) e0) as [u|]; [|discriminate].
      destruct (u_dead u); [discriminate|]. destruct ((0 <? u_conn_closes u) || (out =? 1)); discriminate. }
  2:{ destruct (nth_error (p_handles s) h) as [e0|]; [|discriminate].
      destruct (nth_error (p_eps s) e0) as [u|]; [|discriminate].
      destruct (u_cs_closed u); discriminate. }
  2-6: discriminate.
  unfold ep_goc.
  destruct (p_pool s k) as [e0|] eqn:Hk; [|apply create_handed].
  destruct (nth_error (p_eps s) e0) as [u|] eqn:Hn; [|apply create_handed].
  assert (Hku : u_key u = k).
  { destruct H as (A&_). destruct (A k e0 Hk) as (u0&H0&H1&_). rewrite Hn in H0. inversion H0; subst. auto. }
  destruct (u_failed u) eqn:Hf.
  - destruct (is_expired u (p_now s)); [apply create_handed|discriminate].
  - destruct (stale s u) eqn:Hst; [apply create_handed|].
    unfold ep_reuse at 1. cbn [snd r_ret]. intros He; inversion He; subst e0.
    apply reuse_handed; auto. now rewrite Hku.
Qed.

(* a key whose dial failed less than failure_ttl ago: error, no dial, nothing changes *)
Lemma C13_failed_recently_proof :
  forall s k d g out e u,
    p_pool s k = Some e -> nth_error (p_eps s) e = Some u -> u_failed u = true -> is_expired u (p_now s) = false ->
    pstep s (PGoc k d g out) = (s, mkER None false 1).
Proof.
  intros s k d g out e u Hk Hn Hf He. cbn [pstep]. unfold ep_goc. now rewrite Hk, Hn, Hf, He.
Qed.

(* while the endpoint of a key is alive, a call for the key returns it and dials nothing *)
Lemma C13_endpoint_stable_proof :
  forall s k d g out e u,
    p_pool s k = Some e -> nth_error (p_eps s) e = Some u -> u_failed u = false -> stale s u = false ->
    let r := pstep s (PGoc k d g out) in
    snd r = mkER (Some e) false 0 /\ p_dials (fst r) = p_dials s /\ p_pool (fst r) = p_pool s.
Proof.
  intros s k d g out e u Hk Hn Hf Hst. cbn [pstep]. unfold ep_goc. rewrite Hk, Hn, Hf, Hst.
  unfold ep_reuse. cbn [fst snd]. split; [reflexivity|].
  destruct (adopt_core_eps (set_ep s e (u_with_exp u (p_now s + nat_timeout))) e g) as (P&D&_). rewrite P, D. split; reflexivity.
Qed.

(* a first use dials exactly once (or not at all when no dialer is available) *)
Lemma C13_single_dial_proof :
  forall s o, p_dials (fst (pstep s o)) <= S (p_dials s).
Proof.
  intros s o.
  assert (Hc : forall s k d g out, p_dials (fst (ep_create s k d g out)) <= S (p_dials s)).
  { intros s0 k d g out. unfold ep_create. destruct out as [|[|[|n]]]; cbn; lia. }
  assert (Hcl : forall s e, p_dials (ep_close s e) = p_dials s).
  { intros s0 e. unfold ep_close. destruct (nth_error (p_eps s0) e) as [u|]; auto. destruct (u_closed u); auto.
    destruct (close_tail_core s0 u) as (_&_&_&_&D&_). unfold set_ep, set_eps. cbn [p_dials]. exact D. }
  assert (Hrt : forall s e, p_dials (ep_retire s e) = p_dials s).
  { intros s0 e. unfold ep_retire. destruct (nth_error (p_eps s0) e) as [u|]; auto. rewrite Hcl.
    destruct (opt_is _ e); reflexivity. }
  assert (Hfold : forall (f : pstate -> nat -> pstate), (forall s e, p_dials (f s e) = p_dials s) ->
                  forall l s, p_dials (fold_left f l s) = p_dials s).
  { intros f Hf l. induction l as [|x r IH]; intros s0; cbn; auto. now rewrite IH, Hf. }
  destruct o as [k d g out|h out|h t|d| | |dt|h]; cbn [pstep].
  - unfold ep_goc.
    destruct (p_pool s k) as [e0|]; [|apply Hc].
    destruct (nth_error (p_eps s) e0) as [u|]; [|apply Hc].
    assert (Hr : p_dials (fst (ep_create (ep_close (set_pool s (fset (p_pool s) k None)) e0) k d g out)) <= S (p_dials s)).
    { etransitivity; [apply Hc|]. rewrite Hcl. cbn. lia. }
    assert (Hu : p_dials (fst (ep_reuse s e0 g u)) <= S (p_dials s)).
    { unfold ep_reuse. cbn [fst]. destruct (adopt_core_eps (set_ep s e0 (u_with_exp u (p_now s + nat_timeout))) e0 g) as (_&D&_).
      rewrite D. cbn. lia. }
    destruct (u_failed u).
    + destruct (is_expired u (p_now s)); [exact Hr|cbn; lia].
    + destruct (stale s u); [exact Hr|exact Hu].
  - destruct (nth_error (p_handles s) h) as [e|]; [|cbn; lia].
    destruct (nth_error (p_eps s) e) as [u|]; [|cbn; lia].
    destruct (u_dead u); [cbn; lia|]. destruct ((0 <? u_conn_closes u) || (out =? 1)); cbn [fst]; [rewrite Hrt|]; cbn; lia.
  - destruct (nth_error (p_handles s) h) as [e|]; [|cbn; lia].
    destruct (nth_error (p_eps s) e) as [u|]; [|cbn; lia].
    destruct (u_cs_closed u); cbn; lia.
  - cbn [fst]. rewrite Hfold; [cbn; lia|].
    intros s0 e. destruct (nth_error (p_eps s0) e) as [u|]; auto.
    destruct (u_registered u && (u_dialer u =? d) && negb (survives u)); auto.
  - cbn [fst p_dials]. rewrite Hfold; [lia|].
    intros s0 e. destruct (nth_error (p_eps s0) e) as [u|]; auto.
    destruct (opt_is (p_pool s0 (u_key u)) e); auto. now rewrite Hcl.
  - cbn [fst]. rewrite Hfold; [lia|].
    intros s0 e. destruct (nth_error (p_eps s0) e) as [u|]; auto.
    destruct (opt_is (p_pool s0 (u_key u)) e && _); auto. now rewrite Hcl.
  - cbn; lia.
  - cbn [fst]. unfold ep_remove.
    destruct (nth_error (p_handles s) h) as [e|]; [|lia].
    destruct (nth_error (p_eps s) e) as [u|]; [|lia].
    destruct remove_checks_identity; [destruct (opt_is _ e)|]; rewrite Hcl; cbn; lia.
Qed.

(* ------------------------------------------------------------------------------------------ *)
(* Remove with a stale handle                                                                   *)
(* ------------------------------------------------------------------------------------------ *)
(* after any history (Remove calls from any flow at any time included): a Remove whose handle is not the
   pool's entry of its key changes nothing at all; one whose handle is the entry takes exactly that endpoint
   out of the pool and closes it *)
Lemma C13_remove_stale_handle_proof :
  forall ops h e u,
    nth_error (p_handles (prun ops)) h = Some e -> nth_error (p_eps (prun ops)) e = Some u ->
    (p_pool (prun ops) (u_key u) <> Some e -> fst (pstep (prun ops) (PRemove h)) = prun ops)
    /\ (forall k, k <> u_key u -> p_pool (fst (pstep (prun ops) (PRemove h))) k = p_pool (prun ops) k).
Proof.
  intros ops h e u Hh Hn. pose proof (EI_prun ops) as H. cbn [pstep fst]. change remove_checks_identity with true. split.
  - intros Hp. eapply ep_remove_stale; eauto.
  - intros k Hk. unfold ep_remove. rewrite Hh, Hn.
    assert (Hcl : forall s0, p_pool (ep_close s0 e) = p_pool s0).
    { intros s0. unfold ep_close. destruct (nth_error (p_eps s0) e) as [u0|]; auto. destruct (u_closed u0); auto.
      destruct (close_tail_core s0 u0) as (P1&_). unfold set_ep, set_eps. cbn [p_pool]. exact P1. }
    destruct (opt_is (p_pool (prun ops) (u_key u)) e); rewrite Hcl; cbn [p_pool set_pool]; auto.
    unfold fset. destruct (k =? u_key u) eqn:E; auto. apply Nat.eqb_eq in E. contradiction.
Qed.

(* the identity-less Remove (seeded defect): flow A's write on E1 fails and retires it, flow B dials E2 under
   the same key, flow A's late Remove(key, E1) evicts E2 without closing it: E2 is neither pooled nor closed
   (out of reach of janitor and Reset), and the next call dials a third endpoint while E2 is alive *)
Definition remove_noid_ops : list pop := [PGoc 0 0 0 0; PWrite 0 1; PGoc 0 0 0 0].
Lemma C13_remove_without_identity_refuted_proof :
  let s := ep_remove false (prun remove_noid_ops) 0 in
  (exists u, nth_error (p_eps s) 1 = Some u /\ u_failed u = false /\ u_closed u = false /\ u_dead u = false
             /\ p_pool s (u_key u) = None)
  /\ p_dials (fst (pstep s (PGoc 0 0 0 0))) = 3
  /\ (let s2 := fst (pstep (fst (pstep s (PGoc 0 0 0 0))) PReset) in
      exists u, nth_error (p_eps s2) 1 = Some u /\ u_conn_closes u = 0).
Proof. vm_compute. repeat split; eexists; repeat split. Qed.
