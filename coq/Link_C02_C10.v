(* Link C02 + C10 — the kernel's routing decision equals the userspace matcher's decision, with C02's interface
   hypothesis about the domain_routing_map entry (`dom_entry`) DISCHARGED from C10's tracker theorem.

   C02_kscan_scan (C02_Props.v) assumes that the domain_routing_map entry of the destination address is
   `dom_entry bm`, bm = the bitmap of the packet's domain.  C10_cache_mirror (C10_CacheProps.v) proves what that entry
   really is after any DNS-cache history: the OR of the bitmaps of the live cache entries that list the address, and
   no entry when that OR is empty.  This file composes the two:

     Link_C02_C10_or            kernel decision over the map the tracker leaves = userspace matcher run with the
                                OR-ed bitmap (whatever the packet's own domain is)
     Link_C02_C10_unlisted      no live entry lists the destination: no kernel entry; kernel = matcher without a domain
     Link_C02_C10_own_domain    every live entry listing the destination carries the bitmap of the packet's domain
                                (and there is one): kernel = matcher for the packet's own domain = C02's conclusion
     Link_C02_C10_single_owner  special case: exactly one live entry lists the destination
     Link_shared_address_diverges   the side condition of own_domain cannot be dropped (two names, one address)

   Representations.  C10: address = N (the 128-bit value, IPv4 as ::ffff:a.b.c.d), bitmap = N (bit i = domain set i),
   kernel map = N -> option N.  C02: key = the 16 address bytes in network order, value = the 128 bytes of struct
   domain_routing (32 little-endian u32 words), bitmap on the matcher side = list of 32 words.  Adapters below:
   words32 / of_words (inverse on the 1024-bit range), kernel_value, kernel_domain_map, with_domain_map.
   Existing theorems are USED, not restated: C02_kscan_scan, C10_cache_mirror (Props files); from the Proofs files
   only arithmetic helpers (be_bytes_be, pow256_16, bitmap_ok_facts, list_eqb_refl). *)
From Coq Require Import List NArith Bool String Lia ZifyBool ZifyN ZifyNat.
From Dae Require Import C10_Spec C10_Model C10_Cache C10_CacheProofs C10_CacheProps.
From Dae Require Import C01_Spec C01_Model C02_Spec C02_Model C02_Proofs C02_ProofsScan C02_Props.
From Dae.gen Require Import C01_Consts C02_Consts.
Import ListNotations.
Open Scope N_scope.

Fixpoint words_of (n : nat) (v : N) : list N :=
  match n with
  | O => []
  | S k => (v mod 2 ^ 32) :: words_of k (v / 2 ^ 32)
  end.
Definition words32 (v : N) : list N := words_of 32 v.

Fixpoint of_words (w : list N) : N :=
  match w with
  | [] => 0
  | x :: r => x + 2 ^ 32 * of_words r
  end.

Lemma length_words_of n : forall v, List.length (words_of n v) = n.
Proof. induction n as [|n IH]; intros v; cbn [words_of List.length]; [reflexivity|]. now rewrite IH. Qed.

Lemma words_of_lt n : forall v x, In x (words_of n v) -> x < 2 ^ 32.
Proof.
  induction n as [|n IH]; intros v x; cbn [words_of In]; [tauto|].
  intros [<-|H]; [apply N.mod_lt; discriminate | eauto].
Qed.

Lemma words32_ok v : bitmap_ok (words32 v) = true.
Proof.
  unfold bitmap_ok, words32. rewrite length_words_of. cbn [Nat.eqb andb].
  apply forallb_forall. intros x Hx. apply N.ltb_lt. exact (words_of_lt _ _ _ Hx).
Qed.

Lemma words_of_of_words : forall w, (forall x, In x w -> x < 2 ^ 32) -> words_of (List.length w) (of_words w) = w.
Proof.
  induction w as [|x r IH]; intros H; cbn [words_of of_words List.length]; [reflexivity|].
  assert (Hx : x < 2 ^ 32) by (apply H; now left).
  f_equal.
  - rewrite (N.mul_comm (2 ^ 32)), N.mod_add by discriminate. now apply N.mod_small.
  - rewrite (N.mul_comm (2 ^ 32)), N.div_add by discriminate.
    rewrite (N.div_small x) by exact Hx. rewrite N.add_0_l. apply IH. intros y Hy. apply H. now right.
Qed.

Lemma words32_of_words w : bitmap_ok w = true -> words32 (of_words w) = w.
Proof.
  intros H. destruct (bitmap_ok_facts w H) as [Hl Hb]. unfold words32. rewrite <- Hl at 1.
  apply words_of_of_words. intros x Hx. specialize (Hb x Hx). change (2 ^ 32) with 4294967296. exact Hb.
Qed.

Lemma of_words_words_of n : forall v, of_words (words_of n v) = v mod 2 ^ (32 * N.of_nat n).
Proof.
  induction n as [|n IH]; intros v; cbn [words_of of_words].
  - cbn. now rewrite N.mod_1_r.
  - rewrite IH. replace (32 * N.of_nat (S n)) with (32 + 32 * N.of_nat n) by lia.
    rewrite N.pow_add_r. rewrite N.mod_mul_r; [reflexivity| discriminate |].
    apply N.pow_nonzero. discriminate.
Qed.

Lemma of_words_words32 v : v < 2 ^ 1024 -> of_words (words32 v) = v.
Proof. intros H. unfold words32. rewrite of_words_words_of. apply N.mod_small. exact H. Qed.

Lemma of_words_zero : forall w, bitmap_zero w = true -> of_words w = 0.
Proof.
  induction w as [|x r IH]; cbn [bitmap_zero forallb of_words]; [reflexivity|].
  intros H. apply andb_true_iff in H as [H1 H2]. apply N.eqb_eq in H1. subst x.
  unfold bitmap_zero in IH. rewrite (IH H2). reflexivity.
Qed.

Lemma bitmap_zero_words_of n : bitmap_zero (words_of n 0) = true.
Proof.
  induction n as [|n IH]; cbn [words_of bitmap_zero forallb]; [reflexivity|].
  change (0 / 2 ^ 32) with 0. change (0 mod 2 ^ 32) with 0. cbn [N.eqb andb]. exact IH.
Qed.

Lemma bitmap_zero_words32 v : v < 2 ^ 1024 -> bitmap_zero (words32 v) = (v =? 0).
Proof.
  intros Hv. destruct (N.eqb_spec v 0) as [->|Hnz].
  - apply bitmap_zero_words_of.
  - destruct (bitmap_zero (words32 v)) eqn:Hz; [|reflexivity].
    exfalso. apply Hnz. rewrite <- (of_words_words32 v Hv). now apply of_words_zero.
Qed.

Lemma of_words_lt : forall w, (forall x, In x w -> x < 2 ^ 32) -> of_words w < 2 ^ (32 * N.of_nat (List.length w)).
Proof.
  induction w as [|x r IH]; intros H; cbn [of_words List.length].
  - cbn. lia.
  - assert (Hx : x < 2 ^ 32) by (apply H; now left).
    assert (Hr : of_words r < 2 ^ (32 * N.of_nat (List.length r))) by (apply IH; intros y Hy; apply H; now right).
    replace (32 * N.of_nat (S (List.length r))) with (32 + 32 * N.of_nat (List.length r)) by lia.
    rewrite N.pow_add_r. nia.
Qed.

Lemma of_words_lt_1024 w : bitmap_ok w = true -> of_words w < 2 ^ 1024.
Proof.
  intros H. destruct (bitmap_ok_facts w H) as [Hl Hb].
  pose proof (of_words_lt w) as L. rewrite Hl in L. apply L.
  intros x Hx. specialize (Hb x Hx). change (2 ^ 32) with 4294967296. exact Hb.
Qed.

(* bit i of the number = bit (i mod 32) of word (i / 32): the matcher's reading (C01 bm_bit) of the 32-word form *)
Lemma bm_bit_words_of n : forall v i, i < 32 * N.of_nat n -> bm_bit (words_of n v) i = N.testbit v i.
Proof.
  induction n as [|n IH]; intros v i Hi; [lia|].
  unfold bm_bit. cbn [words_of].
  destruct (N.ltb_spec i 32) as [Hlt|Hge].
  - rewrite (N.div_small i 32) by exact Hlt. cbn [N.to_nat nth_error].
    rewrite (N.mod_small i 32) by exact Hlt. apply N.mod_pow2_bits_low. exact Hlt.
  - assert (Hd : i / 32 = N.succ ((i - 32) / 32)).
    { replace i with ((i - 32) + 1 * 32) at 1 by lia. rewrite N.div_add by discriminate. lia. }
    assert (Hm : i mod 32 = (i - 32) mod 32).
    { replace i with ((i - 32) + 1 * 32) at 1 by lia. now rewrite N.mod_add by discriminate. }
    rewrite Hd, N2Nat.inj_succ. cbn [nth_error]. rewrite Hm.
    specialize (IH (v / 2 ^ 32) (i - 32)). unfold bm_bit in IH. rewrite IH by lia.
    rewrite N.div_pow2_bits. f_equal. lia.
Qed.

Lemma bm_bit_words32 v i : i < 1024 -> bm_bit (words32 v) i = N.testbit v i.
Proof. intros H. apply bm_bit_words_of. cbn. exact H. Qed.

(* ---------- C10 side: the table value as an OR over the live entries listing the address ---------- *)

Definition live_listing (h : list cache_op) (ip : N) : list N :=
  flat_map (fun o => match cache_live h o with
                     | Some e => if lists e ip then [e_bitmap e] else []
                     | None => []
                     end) (map cache_owner h).

Definition or_all (l : list N) : N := fold_right N.lor 0 l.

Lemma cache_table_or h ip : cache_table h ip = or_all (live_listing h ip).
Proof.
  unfold cache_table, live_listing, or_all.
  induction (map cache_owner h) as [|o os IH]; cbn [fold_right flat_map]; [reflexivity|].
  rewrite IH. destruct (cache_live h o) as [e|]; [destruct (lists e ip)|]; reflexivity.
Qed.

Lemma in_live_listing h ip b :
  In b (live_listing h ip) <-> exists o e, cache_live h o = Some e /\ lists e ip = true /\ e_bitmap e = b.
Proof.
  unfold live_listing. rewrite in_flat_map. split.
  - intros [o [Ho Hb]]. destruct (cache_live h o) as [e|] eqn:Hl; [|contradiction].
    destruct (lists e ip) eqn:Hls; [|contradiction]. destruct Hb as [<-|[]]. now exists o, e.
  - intros [o [e [Hl [Hls <-]]]]. exists o. split.
    + unfold cache_live in Hl.
      destruct (find _ (rev h)) as [c|] eqn:Hf; [|discriminate].
      apply find_some in Hf as [Hin Hk]. apply in_rev in Hin.
      apply in_map_iff. exists c. split; [|exact Hin].
      destruct c as [o' e'|o']; cbn [cache_owner]; now apply N.eqb_eq in Hk.
    + rewrite Hl, Hls. now left.
Qed.

Lemma cache_live_inserted h o e : cache_live h o = Some e -> In (CInsert o e) h.
Proof.
  unfold cache_live. destruct (find _ (rev h)) as [c|] eqn:Hf; [|discriminate].
  apply find_some in Hf as [Hin Hk]. apply in_rev in Hin.
  destruct c as [o' e'|o']; [|discriminate]. intros [= <-]. apply N.eqb_eq in Hk. now subst o'.
Qed.

Lemma lor_lt_pow2 a b n : a < 2 ^ n -> b < 2 ^ n -> N.lor a b < 2 ^ n.
Proof.
  intros Ha Hb. destruct (N.eq_dec (N.lor a b) 0) as [->|Hnz]; [apply N.neq_0_lt_0, N.pow_nonzero; discriminate|].
  apply N.log2_lt_pow2; [lia|]. rewrite N.log2_lor.
  destruct (N.eq_dec a 0) as [->|Ha0]; destruct (N.eq_dec b 0) as [->|Hb0].
  - exfalso. now apply Hnz.
  - cbn [N.log2]. rewrite N.max_r by lia. apply N.log2_lt_pow2; lia.
  - cbn [N.log2]. rewrite N.max_l by lia. apply N.log2_lt_pow2; lia.
  - apply N.max_lub_lt; apply N.log2_lt_pow2; lia.
Qed.

Lemma or_all_lt l n : (forall b, In b l -> b < 2 ^ n) -> or_all l < 2 ^ n.
Proof.
  induction l as [|x r IH]; intros H; cbn [or_all fold_right].
  - apply N.neq_0_lt_0, N.pow_nonzero. discriminate.
  - apply lor_lt_pow2; [apply H; now left | apply IH; intros b Hb; apply H; now right].
Qed.

Lemma or_all_same l b : l <> [] -> (forall x, In x l -> x = b) -> or_all l = b.
Proof.
  induction l as [|x r IH]; intros Hne H; [congruence|]. cbn [or_all fold_right].
  assert (Hx : x = b) by (apply H; now left). subst x.
  destruct r as [|y r']; [cbn; apply N.lor_0_r|].
  unfold or_all in IH. rewrite IH; [apply N.lor_diag | discriminate | intros z Hz; apply H; now right].
Qed.

(* the width side condition, on the whole history (decidable) and on what matters for one address *)
Definition cache_bitmaps_ok (h : list cache_op) : bool :=
  forallb (fun c => match c with CInsert _ e => e_bitmap e <? 2 ^ 1024 | CRemove _ => true end) h.

Definition listing_bounded (h : list cache_op) (ip : N) : Prop :=
  forall o e, cache_live h o = Some e -> lists e ip = true -> e_bitmap e < 2 ^ 1024.

Lemma cache_bitmaps_ok_listing h ip : cache_bitmaps_ok h = true -> listing_bounded h ip.
Proof.
  intros H o e Hl _. unfold cache_bitmaps_ok in H. rewrite forallb_forall in H.
  specialize (H _ (cache_live_inserted h o e Hl)). cbn in H. now apply N.ltb_lt in H.
Qed.

Lemma cache_table_lt h ip : listing_bounded h ip -> cache_table h ip < 2 ^ 1024.
Proof.
  intros H. rewrite cache_table_or. apply or_all_lt. intros b Hb.
  apply in_live_listing in Hb as [o [e [Hl [Hls <-]]]]. exact (H o e Hl Hls).
Qed.

(* all live entries listing the address carry the same bitmap b, and there is one: the table value is b *)
Lemma cache_table_same h ip b :
  (exists o e, cache_live h o = Some e /\ lists e ip = true) ->
  (forall o e, cache_live h o = Some e -> lists e ip = true -> e_bitmap e = b) ->
  cache_table h ip = b.
Proof.
  intros [o [e [Hl Hls]]] Hall. rewrite cache_table_or. apply or_all_same.
  - intros Hnil. assert (Hin : In (e_bitmap e) (live_listing h ip)) by (apply in_live_listing; now exists o, e).
    rewrite Hnil in Hin. contradiction.
  - intros x Hx. apply in_live_listing in Hx as [o' [e' [Hl' [Hls' <-]]]]. exact (Hall o' e' Hl' Hls').
Qed.

Lemma cache_table_none h ip :
  (forall o e, cache_live h o = Some e -> lists e ip = false) -> cache_table h ip = 0.
Proof.
  intros H. rewrite cache_table_or.
  assert (Hnil : live_listing h ip = []).
  { destruct (live_listing h ip) as [|b l] eqn:E; [reflexivity|].
    assert (Hin : In b (live_listing h ip)) by (rewrite E; now left).
    apply in_live_listing in Hin as [o [e [Hl [Hls _]]]]. rewrite (H o e Hl) in Hls. discriminate. }
  now rewrite Hnil.
Qed.

(* ---------- the kernel table: C10's shadow map (address number -> bitmap number) as C02's
   domain_routing_map (16 key bytes -> struct domain_routing bytes) ---------- *)

Definition kernel_value (v : N) : list N := enc_bitmap (words32 v).

Definition kernel_domain_map (m : C10_Model.kmap) : list N -> option (list N) :=
  fun key => option_map kernel_value (m (be key)).

Lemma kernel_domain_map_at m x : x < 2 ^ 128 ->
  kernel_domain_map m (bytes_be 16 x) = option_map kernel_value (m x).
Proof.
  intros Hx. unfold kernel_domain_map. rewrite be_bytes_be; [reflexivity|]. rewrite pow256_16. exact Hx.
Qed.

(* kept-vs-deleted: C10 deletes the entry exactly when C02's dom_entry expects none *)
Lemma entry_adapter v : v < 2 ^ 1024 ->
  option_map kernel_value (if v =? 0 then None else Some v) = dom_entry (Some (words32 v)).
Proof.
  intros Hv. unfold dom_entry. rewrite (bitmap_zero_words32 v Hv). destruct (v =? 0); reflexivity.
Qed.

Definition with_domain_map (km : kmaps) (d : list N -> option (list N)) : kmaps :=
  {| km_routing := km_routing km; km_meta := km_meta km; km_lpm := km_lpm km; km_domain := d |}.

(* C02's pipeline with the WHOLE domain_routing_map given (C02_Model.kernel_decides overrides one key) *)
Definition kernel_decides_table (prev : kmaps) (ms : list mset) (tries : list (list prefix128)) (alloc : N)
           (d : list N -> option (list N)) (pk : packet) (wan : bool) : res (option decision) :=
  match install prev ms tries alloc with
  | Err e => Err e
  | Ok km => Ok (decode_word (k_route (with_domain_map km d) (kargs_of pk wan)))
  end.

(* route() reads domain_routing_map only at the destination address *)
Lemma k_cb_domain_local km d1 d2 a hs hd c i :
  d1 (ka_daddr a) = d2 (ka_daddr a) ->
  k_cb (with_domain_map km d1) a hs hd c i = k_cb (with_domain_map km d2) a hs hd c i.
Proof.
  intros H. unfold k_cb, k_eval, k_match_domain, k_match_lpm, with_domain_map.
  cbn [km_routing km_lpm km_domain km_meta]. rewrite H. reflexivity.
Qed.

Lemma k_loop_domain_local km d1 d2 a hs hd :
  d1 (ka_daddr a) = d2 (ka_daddr a) ->
  forall fuel i c, k_loop (with_domain_map km d1) a hs hd fuel i c = k_loop (with_domain_map km d2) a hs hd fuel i c.
Proof.
  intros H. induction fuel as [|f IH]; intros i c; cbn [k_loop]; [reflexivity|].
  rewrite (k_cb_domain_local km d1 d2 a hs hd c i H).
  destruct (k_cb (with_domain_map km d2) a hs hd c i); [apply IH | reflexivity].
Qed.

Lemma k_route_domain_local km d1 d2 a :
  d1 (ka_daddr a) = d2 (ka_daddr a) -> k_route (with_domain_map km d1) a = k_route (with_domain_map km d2) a.
Proof.
  intros H. unfold k_route. change (km_meta (with_domain_map km d1)) with (km_meta km).
  change (km_meta (with_domain_map km d2)) with (km_meta km).
  now rewrite (k_loop_domain_local km d1 d2 a _ _ H).
Qed.

Lemma kernel_decides_table_at prev ms tries alloc d pk wan :
  kernel_decides_table prev ms tries alloc d pk wan
  = kernel_decides prev ms tries alloc (d (bytes_be 16 (p_dst pk))) pk wan.
Proof.
  unfold kernel_decides_table, kernel_decides. destruct (install prev ms tries alloc) as [km|e]; [|reflexivity].
  f_equal. f_equal.
  change {| km_routing := km_routing km; km_meta := km_meta km; km_lpm := km_lpm km;
            km_domain := fun k => if list_eqb k (bytes_be 16 (p_dst pk)) then d (bytes_be 16 (p_dst pk)) else km_domain km k |}
    with (with_domain_map km (fun k => if list_eqb k (bytes_be 16 (p_dst pk)) then d (bytes_be 16 (p_dst pk)) else km_domain km k)).
  apply k_route_domain_local. cbn [kargs_of ka_daddr]. now rewrite list_eqb_refl.
Qed.

(* ---------- userspace side: RoutingMatcher.Match with the bitmap made explicit ---------- *)

Definition match_sets_bm (mt : matcher) (bm : option (list N)) (a : margs) : res decision :=
  match mt_sets mt with
  | [] => Err E_NO_SETS
  | ms => match_loop (mt_tries mt) a bm ms 0 false false false
  end.

Lemma match_sets_is_bm mt dm a :
  match_sets mt dm a = match_sets_bm mt (if String.eqb (a_domain a) "" then None else Some (dm (a_domain a))) a.
Proof. reflexivity. Qed.

Definition with_domain (pk : packet) (d : string) : packet :=
  {| p_src := p_src pk; p_dst := p_dst pk; p_sport := p_sport pk; p_dport := p_dport pk; p_l4 := p_l4 pk;
     p_ipver := p_ipver pk; p_domain := d; p_regex_hits := p_regex_hits pk; p_pname := p_pname pk;
     p_mac := p_mac pk; p_dscp := p_dscp pk |}.

Lemma eval_mset_domain_irrelevant tries pk d bm i m :
  eval_mset tries (args_of_packet (with_domain pk d)) bm i m = eval_mset tries (args_of_packet pk) bm i m.
Proof. reflexivity. Qed.

Lemma match_loop_domain_irrelevant tries pk d bm :
  forall ms i good bad must,
    match_loop tries (args_of_packet (with_domain pk d)) bm ms i good bad must
    = match_loop tries (args_of_packet pk) bm ms i good bad must.
Proof.
  induction ms as [|m rest IH]; intros i good bad must; cbn [match_loop]; [reflexivity|].
  rewrite eval_mset_domain_irrelevant.
  destruct (if bad || good then Ok good else eval_mset tries (args_of_packet pk) bm i m) as [g1|e]; [|reflexivity].
  destruct (negb (m_out m =? OutboundLogicalOr)); rewrite !IH; reflexivity.
Qed.

Lemma match_sets_bm_domain_irrelevant mt pk d bm :
  match_sets_bm mt bm (args_of_packet (with_domain pk d)) = match_sets_bm mt bm (args_of_packet pk).
Proof. unfold match_sets_bm. destruct (mt_sets mt); [reflexivity|]. apply match_loop_domain_irrelevant. Qed.

Lemma kernel_decides_domain_irrelevant prev ms tries alloc dom pk d wan :
  kernel_decides prev ms tries alloc dom (with_domain pk d) wan = kernel_decides prev ms tries alloc dom pk wan.
Proof. reflexivity. Qed.

(* probe_ok contains C01's wf_packet, which (since the normalisation repair of C01_Spec) also asks the raw domain to be
   over the host-name alphabet: the domain can be replaced by any other name over the alphabet *)
Lemma probe_ok_with_domain pk d wan :
  domain_alphabet_ok d = true -> probe_ok pk wan = true -> probe_ok (with_domain pk d) wan = true.
Proof.
  intros Hd H. unfold probe_ok, wf_packet in *.
  cbn [with_domain p_domain p_src p_dst p_sport p_dport p_pname p_mac p_dscp]. rewrite Hd.
  destruct (domain_alphabet_ok (p_domain pk)); [exact H | cbn in H; discriminate H].
Qed.

(* C02_kscan_scan, re-read with the bitmap as the parameter (any 32-word bitmap, or none): the kernel side does not
   look at p_domain, the matcher looks at it only through the bitmap *)
Lemma kscan_scan_bm :
  forall prev ms tries alloc (bm : option (list N)) pk wan km,
    forallb (wf_mset (N.of_nat (List.length tries))) ms = true ->
    forallb (forallb wf_prefix) tries = true ->
    probe_ok pk wan = true ->
    match bm with Some w => bitmap_ok w = true | None => True end ->
    install prev ms tries alloc = Ok km ->
    kernel_decides prev ms tries alloc (dom_entry bm) pk wan
    = Ok (expected (p_dport pk) (user_answer (match_sets_bm {| mt_sets := ms; mt_tries := tries |} bm (args_of_packet pk)))).
Proof.
  intros prev ms tries alloc bm pk wan km Hwf Hpx Hprobe Hbm Hinst.
  destruct bm as [w|].
  - pose proof (C02_kscan_scan prev ms tries alloc (fun _ => w) (with_domain pk "d") wan km Hwf Hpx
                  (probe_ok_with_domain pk "d" wan eq_refl Hprobe) Hbm Hinst) as L.
    cbv zeta in L. rewrite match_sets_is_bm in L. cbn [args_of_packet a_domain with_domain p_domain] in L.
    change (("d" =? "")%string) with false in L. cbv iota in L.
    rewrite kernel_decides_domain_irrelevant in L. rewrite L.
    rewrite <- (match_sets_bm_domain_irrelevant _ pk "d"). reflexivity.
  - pose proof (C02_kscan_scan prev ms tries alloc (fun _ => words32 0) (with_domain pk "") wan km Hwf Hpx
                  (probe_ok_with_domain pk "" wan eq_refl Hprobe) (words32_ok 0) Hinst) as L.
    cbv zeta in L. rewrite match_sets_is_bm in L. cbn [args_of_packet a_domain with_domain p_domain] in L.
    change (("" =? "")%string) with true in L. cbv iota in L.
    rewrite kernel_decides_domain_irrelevant in L. rewrite L.
    rewrite <- (match_sets_bm_domain_irrelevant _ pk ""). reflexivity.
Qed.

(* ====================================================================================================== *)
(* the composition                                                                                          *)
(* ====================================================================================================== *)

(* the bitmap the kernel holds for an address after a cache history: the OR of the bitmaps of the live cache
   entries that list the address (C10_Cache.cache_table; = or_all (live_listing h ip) by cache_table_or), as 32 words *)
Definition or_bitmap (h : list cache_op) (ip : N) : list N := words32 (cache_table h ip).

(* the kernel's domain_routing_map after the tracker has processed the cache history h *)
Definition tracker_domain_map (h : list cache_op) : list N -> option (list N) :=
  kernel_domain_map (snd (run (map op_of_cache_op h))).

(* the interface, discharged: the entry the tracker leaves at the destination IS C02's dom_entry of the OR-ed bitmap *)
Lemma tracker_entry_is_dom_entry h x :
  x < 2 ^ 128 -> listing_bounded h x ->
  tracker_domain_map h (bytes_be 16 x) = dom_entry (Some (or_bitmap h x)).
Proof.
  intros Hx Hb. unfold tracker_domain_map. rewrite (kernel_domain_map_at _ x Hx).
  rewrite C10_cache_mirror. unfold cache_table_entry. cbv zeta.
  apply entry_adapter. exact (cache_table_lt h x Hb).
Qed.

Lemma probe_dst_lt pk wan : probe_ok pk wan = true -> p_dst pk < 2 ^ 128.
Proof.
  unfold probe_ok, wf_packet. rewrite !andb_true_iff. intros H. lia.
Qed.

Lemma link_or_proof :
  forall (prev : kmaps) (ms : list mset) (tries : list (list prefix128)) (alloc : N)
         (h : list cache_op) (pk : packet) (wan : bool) (km : kmaps),
    forallb (wf_mset (N.of_nat (List.length tries))) ms = true ->
    forallb (forallb wf_prefix) tries = true ->
    probe_ok pk wan = true ->
    listing_bounded h (p_dst pk) ->
    install prev ms tries alloc = Ok km ->
    kernel_decides_table prev ms tries alloc (tracker_domain_map h) pk wan
    = Ok (expected (p_dport pk)
            (user_answer (match_sets_bm {| mt_sets := ms; mt_tries := tries |}
                                        (Some (or_bitmap h (p_dst pk))) (args_of_packet pk)))).
Proof.
  intros prev ms tries alloc h pk wan km Hwf Hpx Hprobe Hb Hinst.
  rewrite kernel_decides_table_at.
  rewrite (tracker_entry_is_dom_entry h (p_dst pk) (probe_dst_lt pk wan Hprobe) Hb).
  exact (kscan_scan_bm prev ms tries alloc (Some (or_bitmap h (p_dst pk))) pk wan km Hwf Hpx Hprobe (words32_ok _) Hinst).
Qed.

(* no live entry lists the destination: no kernel entry, and the kernel decides as the matcher does without a domain *)
Lemma link_unlisted_proof :
  forall prev ms tries alloc (h : list cache_op) pk wan km,
    forallb (wf_mset (N.of_nat (List.length tries))) ms = true ->
    forallb (forallb wf_prefix) tries = true ->
    probe_ok pk wan = true ->
    (forall o e, cache_live h o = Some e -> lists e (p_dst pk) = false) ->
    install prev ms tries alloc = Ok km ->
    tracker_domain_map h (bytes_be 16 (p_dst pk)) = None /\
    kernel_decides_table prev ms tries alloc (tracker_domain_map h) pk wan
    = Ok (expected (p_dport pk)
            (user_answer (match_sets_bm {| mt_sets := ms; mt_tries := tries |} None (args_of_packet pk)))).
Proof.
  intros prev ms tries alloc h pk wan km Hwf Hpx Hprobe Hno Hinst.
  assert (He : tracker_domain_map h (bytes_be 16 (p_dst pk)) = None).
  { unfold tracker_domain_map. rewrite (kernel_domain_map_at _ _ (probe_dst_lt pk wan Hprobe)).
    rewrite C10_cache_mirror. unfold cache_table_entry. rewrite (cache_table_none h _ Hno). reflexivity. }
  split; [exact He|].
  rewrite kernel_decides_table_at, He.
  exact (kscan_scan_bm prev ms tries alloc None pk wan km Hwf Hpx Hprobe I Hinst).
Qed.

(* the packet has a domain, some live entry lists the destination, and every live entry listing it carries the
   bitmap of the packet's domain: C02's statement with `dom_entry` discharged *)
Lemma link_own_domain_proof :
  forall prev ms tries alloc (dm : string -> list N) (h : list cache_op) pk wan km,
    forallb (wf_mset (N.of_nat (List.length tries))) ms = true ->
    forallb (forallb wf_prefix) tries = true ->
    probe_ok pk wan = true ->
    bitmap_ok (dm (p_domain pk)) = true ->
    p_domain pk <> ""%string ->
    (exists o e, cache_live h o = Some e /\ lists e (p_dst pk) = true) ->
    (forall o e, cache_live h o = Some e -> lists e (p_dst pk) = true -> e_bitmap e = of_words (dm (p_domain pk))) ->
    install prev ms tries alloc = Ok km ->
    kernel_decides_table prev ms tries alloc (tracker_domain_map h) pk wan
    = Ok (expected (p_dport pk)
            (user_answer (match_sets {| mt_sets := ms; mt_tries := tries |} dm (args_of_packet pk)))).
Proof.
  intros prev ms tries alloc dm h pk wan km Hwf Hpx Hprobe Hbm Hdom Hex Hall Hinst.
  assert (Hb : listing_bounded h (p_dst pk)).
  { intros o e Hl Hls. rewrite (Hall o e Hl Hls). now apply of_words_lt_1024. }
  rewrite (link_or_proof prev ms tries alloc h pk wan km Hwf Hpx Hprobe Hb Hinst).
  unfold or_bitmap. rewrite (cache_table_same h (p_dst pk) _ Hex Hall).
  rewrite (words32_of_words _ Hbm). rewrite match_sets_is_bm. cbn [args_of_packet a_domain].
  destruct (String.eqb_spec (p_domain pk) ""); [contradiction|reflexivity].
Qed.

(* special case: exactly one live entry lists the destination, and it is the packet's domain's *)
Lemma link_single_owner_proof :
  forall prev ms tries alloc (dm : string -> list N) (h : list cache_op) pk wan km (o : N) (e : cache_entry),
    forallb (wf_mset (N.of_nat (List.length tries))) ms = true ->
    forallb (forallb wf_prefix) tries = true ->
    probe_ok pk wan = true ->
    bitmap_ok (dm (p_domain pk)) = true ->
    p_domain pk <> ""%string ->
    cache_live h o = Some e -> lists e (p_dst pk) = true -> e_bitmap e = of_words (dm (p_domain pk)) ->
    (forall o' e', cache_live h o' = Some e' -> lists e' (p_dst pk) = true -> o' = o) ->
    install prev ms tries alloc = Ok km ->
    kernel_decides_table prev ms tries alloc (tracker_domain_map h) pk wan
    = Ok (expected (p_dport pk)
            (user_answer (match_sets {| mt_sets := ms; mt_tries := tries |} dm (args_of_packet pk)))).
Proof.
  intros prev ms tries alloc dm h pk wan km o e Hwf Hpx Hprobe Hbm Hdom Hl Hls Hbe Huniq Hinst.
  apply (link_own_domain_proof prev ms tries alloc dm h pk wan km Hwf Hpx Hprobe Hbm Hdom); [| |exact Hinst].
  - now exists o, e.
  - intros o' e' Hl' Hls'. rewrite (Huniq o' e' Hl' Hls') in Hl'. rewrite Hl in Hl'. injection Hl' as <-. exact Hbe.
Qed.

(* computable form of the side conditions of own_domain, for concrete histories *)
Lemma link_own_domain_checked_proof :
  forall prev ms tries alloc (dm : string -> list N) (h : list cache_op) pk wan km,
    forallb (wf_mset (N.of_nat (List.length tries))) ms = true ->
    forallb (forallb wf_prefix) tries = true ->
    probe_ok pk wan = true ->
    bitmap_ok (dm (p_domain pk)) = true ->
    String.eqb (p_domain pk) "" = false ->
    negb (Nat.eqb (List.length (live_listing h (p_dst pk))) 0)
      && forallb (N.eqb (of_words (dm (p_domain pk)))) (live_listing h (p_dst pk)) = true ->
    install prev ms tries alloc = Ok km ->
    kernel_decides_table prev ms tries alloc (tracker_domain_map h) pk wan
    = Ok (expected (p_dport pk)
            (user_answer (match_sets {| mt_sets := ms; mt_tries := tries |} dm (args_of_packet pk)))).
Proof.
  intros prev ms tries alloc dm h pk wan km Hwf Hpx Hprobe Hbm Hdom Hchk Hinst.
  apply andb_true_iff in Hchk as [Hne Hall]. rewrite forallb_forall in Hall.
  apply (link_own_domain_proof prev ms tries alloc dm h pk wan km Hwf Hpx Hprobe Hbm); [| | |exact Hinst].
  - intros Heq. rewrite Heq in Hdom. discriminate.
  - destruct (live_listing h (p_dst pk)) as [|b l] eqn:E; [discriminate|].
    assert (Hin : In b (live_listing h (p_dst pk))) by (rewrite E; now left).
    apply in_live_listing in Hin as [o [e [Hl [Hls _]]]]. now exists o, e.
  - intros o e Hl Hls. symmetry. apply N.eqb_eq. apply Hall. apply in_live_listing. now exists o, e.
Qed.

Lemma link_kernel_decides_proof :
  forall prev ms tries alloc (h : list cache_op) pk wan km,
    forallb (wf_mset (N.of_nat (List.length tries))) ms = true ->
    forallb (forallb wf_prefix) tries = true ->
    probe_ok pk wan = true ->
    listing_bounded h (p_dst pk) ->
    install prev ms tries alloc = Ok km ->
    kernel_decides prev ms tries alloc (tracker_domain_map h (bytes_be 16 (p_dst pk))) pk wan
    = Ok (expected (p_dport pk)
            (user_answer (match_sets_bm {| mt_sets := ms; mt_tries := tries |}
                                        (Some (or_bitmap h (p_dst pk))) (args_of_packet pk)))).
Proof.
  intros prev ms tries alloc h pk wan km Hwf Hpx Hprobe Hb Hinst.
  rewrite <- kernel_decides_table_at. exact (link_or_proof prev ms tries alloc h pk wan km Hwf Hpx Hprobe Hb Hinst).
Qed.

(* ---------- concrete histories for the examples ---------- *)

(* 8.8.8.8 is listed by owner 1 (A record) and by owner 3 (an AAAA record carrying ::ffff:8.8.8.8: same key), both with
   bit 5; owner 1 also answers 0.0.0.0 (unspecified: not listed); owner 2 (bit 40, 1.1.1.1) is removed again *)
Definition ex_h : list cache_op :=
  [ CInsert 1 {| e_bitmap := 32; e_answers := [(true, 0xffff08080808); (true, 0xffff00000000)] |};
    CInsert 2 {| e_bitmap := 2 ^ 40; e_answers := [(true, 0xffff01010101)] |};
    CInsert 3 {| e_bitmap := 32; e_answers := [(false, 0xffff08080808)] |};
    CRemove 2 ].

(* two names behind one address: domain(a.org) -> 1, domain(b.org) -> 2, fallback 0 *)
Definition dv_msets : list mset :=
  [ ex_mk MatchType_DomainSet false 1 0 false 0 0 0 0;
    ex_mk MatchType_DomainSet false 2 0 false 0 0 0 0;
    ex_mk MatchType_Fallback false 0 0 false 0 0 0 0 ].
Definition dv_dm (s : string) : list N :=
  if String.eqb s "a.org" then 1 :: repeat 0 31 else if String.eqb s "b.org" then 2 :: repeat 0 31 else repeat 0 32.
Definition dv_h : list cache_op :=
  [ CInsert 1 {| e_bitmap := of_words (dv_dm "a.org"); e_answers := [(true, 0xffff08080808)] |};
    CInsert 2 {| e_bitmap := of_words (dv_dm "b.org"); e_answers := [(true, 0xffff08080808); (true, 0xffff08080404)] |} ].

(* ====================================================================================================== *)
(* THEOREMS                                                                                                 *)
(* ====================================================================================================== *)

(* ---- adapters ---- *)

(* the two bitmap representations are in bijection on the range both sides use (32 words of 32 bits = 1024 bits),
   and bit i of C10's number is the bit the matcher reads for domain set i *)
Theorem Link_bitmap_adapter :
  (forall w, bitmap_ok w = true -> words32 (of_words w) = w /\ of_words w < 2 ^ 1024) /\
  (forall v, v < 2 ^ 1024 -> of_words (words32 v) = v) /\
  (forall v, bitmap_ok (words32 v) = true) /\
  (forall v i, i < 1024 -> bm_bit (words32 v) i = N.testbit v i).
Proof.
  split; [|split; [|split]].
  - intros w H. split; [exact (words32_of_words w H) | exact (of_words_lt_1024 w H)].
  - exact of_words_words32.
  - exact words32_ok.
  - exact bm_bit_words32.
Qed.
Print Assumptions Link_bitmap_adapter.

(* kept vs deleted: C10's table has no entry exactly when C02's dom_entry expects none (all-zero bitmap) *)
Theorem Link_entry_adapter :
  forall v, v < 2 ^ 1024 ->
    option_map kernel_value (if v =? 0 then None else Some v) = dom_entry (Some (words32 v)).
Proof. exact entry_adapter. Qed.
Print Assumptions Link_entry_adapter.

(* route() consults domain_routing_map only at the destination: C02's one-entry pipeline = the whole-map pipeline *)
Theorem Link_kernel_reads_dst_only :
  forall prev ms tries alloc d pk wan,
    kernel_decides_table prev ms tries alloc d pk wan
    = kernel_decides prev ms tries alloc (d (bytes_be 16 (p_dst pk))) pk wan.
Proof. exact kernel_decides_table_at. Qed.
Print Assumptions Link_kernel_reads_dst_only.

(* ---- the interface hypothesis of C02, as a theorem about C10's tracker ---- *)

(* After ANY cache history, the domain_routing_map entry at a 128-bit address is C02's `dom_entry` of the OR of the
   bitmaps of the live cache entries listing that address. *)
Theorem Link_C02_C10_entry :
  forall (h : list cache_op) (x : N),
    x < 2 ^ 128 -> listing_bounded h x ->
    tracker_domain_map h (bytes_be 16 x) = dom_entry (Some (or_bitmap h x))
    /\ or_bitmap h x = words32 (or_all (live_listing h x)).
Proof.
  intros h x Hx Hb. split; [exact (tracker_entry_is_dom_entry h x Hx Hb)|].
  unfold or_bitmap. now rewrite cache_table_or.
Qed.
Print Assumptions Link_C02_C10_entry.

(* ---- the composed statement ---- *)

(* MAIN.  For every installed generation (C02's quantifier), every DNS-cache history h (C10's quantifier: any
   insertions, replacements, removals, overlapping address sets, zero bitmaps) whose bitmaps are 1024 bits wide, and
   every probe: route() over the installed rule bytes AND the domain_routing_map the tracker leaves after h answers
   dns_adjust of what RoutingMatcher.Match answers when run with
        bitmap = OR of the bitmaps of the live cache entries that list the destination address
   - NOT with the bitmap of the packet's own domain (the kernel never sees the name). *)
Theorem Link_C02_C10_or :
  forall (prev : kmaps) (ms : list mset) (tries : list (list prefix128)) (alloc : N)
         (h : list cache_op) (pk : packet) (wan : bool) (km : kmaps),
    forallb (wf_mset (N.of_nat (List.length tries))) ms = true ->
    forallb (forallb wf_prefix) tries = true ->
    probe_ok pk wan = true ->
    listing_bounded h (p_dst pk) ->
    install prev ms tries alloc = Ok km ->
    kernel_decides_table prev ms tries alloc (tracker_domain_map h) pk wan
    = Ok (expected (p_dport pk)
            (user_answer (match_sets_bm {| mt_sets := ms; mt_tries := tries |}
                                        (Some (or_bitmap h (p_dst pk))) (args_of_packet pk)))).
Proof. exact link_or_proof. Qed.
Print Assumptions Link_C02_C10_or.

(* the same, through C02's own `kernel_decides` (which takes the single entry at the destination) *)
Theorem Link_C02_C10_or_kernel_decides :
  forall prev ms tries alloc (h : list cache_op) pk wan km,
    forallb (wf_mset (N.of_nat (List.length tries))) ms = true ->
    forallb (forallb wf_prefix) tries = true ->
    probe_ok pk wan = true ->
    listing_bounded h (p_dst pk) ->
    install prev ms tries alloc = Ok km ->
    kernel_decides prev ms tries alloc (tracker_domain_map h (bytes_be 16 (p_dst pk))) pk wan
    = Ok (expected (p_dport pk)
            (user_answer (match_sets_bm {| mt_sets := ms; mt_tries := tries |}
                                        (Some (or_bitmap h (p_dst pk))) (args_of_packet pk)))).
Proof. exact link_kernel_decides_proof. Qed.
Print Assumptions Link_C02_C10_or_kernel_decides.

(* the width condition follows from the decidable whole-history one *)
Theorem Link_width_from_history :
  forall h ip, cache_bitmaps_ok h = true -> listing_bounded h ip.
Proof. exact cache_bitmaps_ok_listing. Qed.
Print Assumptions Link_width_from_history.

(* NO LIVE ENTRY lists the destination (never resolved, expired, removed, or only unspecified answers): the table
   holds no entry for it, route() reads zero words, and decides as the matcher does for a packet WITHOUT a domain
   (bitmap None) - whatever domain the packet actually carries. *)
Theorem Link_C02_C10_unlisted :
  forall prev ms tries alloc (h : list cache_op) pk wan km,
    forallb (wf_mset (N.of_nat (List.length tries))) ms = true ->
    forallb (forallb wf_prefix) tries = true ->
    probe_ok pk wan = true ->
    (forall o e, cache_live h o = Some e -> lists e (p_dst pk) = false) ->
    install prev ms tries alloc = Ok km ->
    tracker_domain_map h (bytes_be 16 (p_dst pk)) = None /\
    kernel_decides_table prev ms tries alloc (tracker_domain_map h) pk wan
    = Ok (expected (p_dport pk)
            (user_answer (match_sets_bm {| mt_sets := ms; mt_tries := tries |} None (args_of_packet pk)))).
Proof. exact link_unlisted_proof. Qed.
Print Assumptions Link_C02_C10_unlisted.

(* C02's CONCLUSION WITH `dom_entry` DISCHARGED.  The packet carries a domain; some live cache entry lists the
   destination; every live cache entry listing it carries the bitmap of the packet's domain
   (e_bitmap = of_words (dm (p_domain pk)): its own entry, or other names with the same bitmap).  Then the kernel's
   decision over the tracker's map = dns_adjust of RoutingMatcher.Match for the packet's own domain. *)
Theorem Link_C02_C10_own_domain :
  forall prev ms tries alloc (dm : string -> list N) (h : list cache_op) pk wan km,
    forallb (wf_mset (N.of_nat (List.length tries))) ms = true ->
    forallb (forallb wf_prefix) tries = true ->
    probe_ok pk wan = true ->
    bitmap_ok (dm (p_domain pk)) = true ->
    p_domain pk <> ""%string ->
    (exists o e, cache_live h o = Some e /\ lists e (p_dst pk) = true) ->
    (forall o e, cache_live h o = Some e -> lists e (p_dst pk) = true -> e_bitmap e = of_words (dm (p_domain pk))) ->
    install prev ms tries alloc = Ok km ->
    kernel_decides_table prev ms tries alloc (tracker_domain_map h) pk wan
    = Ok (expected (p_dport pk)
            (user_answer (match_sets {| mt_sets := ms; mt_tries := tries |} dm (args_of_packet pk)))).
Proof. exact link_own_domain_proof. Qed.
Print Assumptions Link_C02_C10_own_domain.

Theorem Link_C02_C10_single_owner :
  forall prev ms tries alloc (dm : string -> list N) (h : list cache_op) pk wan km (o : N) (e : cache_entry),
    forallb (wf_mset (N.of_nat (List.length tries))) ms = true ->
    forallb (forallb wf_prefix) tries = true ->
    probe_ok pk wan = true ->
    bitmap_ok (dm (p_domain pk)) = true ->
    p_domain pk <> ""%string ->
    cache_live h o = Some e -> lists e (p_dst pk) = true -> e_bitmap e = of_words (dm (p_domain pk)) ->
    (forall o' e', cache_live h o' = Some e' -> lists e' (p_dst pk) = true -> o' = o) ->
    install prev ms tries alloc = Ok km ->
    kernel_decides_table prev ms tries alloc (tracker_domain_map h) pk wan
    = Ok (expected (p_dport pk)
            (user_answer (match_sets {| mt_sets := ms; mt_tries := tries |} dm (args_of_packet pk)))).
Proof. exact link_single_owner_proof. Qed.
Print Assumptions Link_C02_C10_single_owner.

(* own_domain with its two cache conditions in computable form *)
Theorem Link_C02_C10_own_domain_checked :
  forall prev ms tries alloc (dm : string -> list N) (h : list cache_op) pk wan km,
    forallb (wf_mset (N.of_nat (List.length tries))) ms = true ->
    forallb (forallb wf_prefix) tries = true ->
    probe_ok pk wan = true ->
    bitmap_ok (dm (p_domain pk)) = true ->
    String.eqb (p_domain pk) "" = false ->
    negb (Nat.eqb (List.length (live_listing h (p_dst pk))) 0)
      && forallb (N.eqb (of_words (dm (p_domain pk)))) (live_listing h (p_dst pk)) = true ->
    install prev ms tries alloc = Ok km ->
    kernel_decides_table prev ms tries alloc (tracker_domain_map h) pk wan
    = Ok (expected (p_dport pk)
            (user_answer (match_sets {| mt_sets := ms; mt_tries := tries |} dm (args_of_packet pk)))).
Proof. exact link_own_domain_checked_proof. Qed.
Print Assumptions Link_C02_C10_own_domain_checked.

(* ---- non-vacuity and witnesses ---- *)

(* every hypothesis of Link_C02_C10_or and of Link_C02_C10_own_domain_checked holds on a concrete generation (C02's
   example: ring offset 1022, seven match-sets, domain set at index 5) and a concrete cache history (two live owners
   sharing 8.8.8.8 - one through an IPv4-mapped AAAA answer -, an unspecified answer, an insertion undone by a removal);
   the composed pipeline computes the domain rule's outbound for 8.8.8.8 and the fallback for the removed 1.1.1.1 and
   for the unspecified address *)
Example Link_nonvacuous :
  let pk := ex_pk 0xffff08080808 443 0 "x.org" in
  forallb (wf_mset (N.of_nat (List.length ex_tries))) ex_msets = true /\
  forallb (forallb wf_prefix) ex_tries = true /\
  probe_ok pk false = true /\
  cache_bitmaps_ok ex_h = true /\
  bitmap_ok (ex_dm (p_domain pk)) = true /\
  negb (Nat.eqb (List.length (live_listing ex_h (p_dst pk))) 0)
    && forallb (N.eqb (of_words (ex_dm (p_domain pk)))) (live_listing ex_h (p_dst pk)) = true /\
  (exists km, install empty_kmaps ex_msets ex_tries 1022 = Ok km) /\
  live_listing ex_h 0xffff08080808 = [32; 32] /\
  or_bitmap ex_h 0xffff08080808 = ex_dm "x.org" /\
  kernel_decides_table empty_kmaps ex_msets ex_tries 1022 (tracker_domain_map ex_h) pk false = Ok (Some (4, 0, false)) /\
  user_answer (match_sets {| mt_sets := ex_msets; mt_tries := ex_tries |} ex_dm (args_of_packet pk)) = Some (4, 0, false) /\
  tracker_domain_map ex_h (bytes_be 16 0xffff01010101) = None /\
  tracker_domain_map ex_h (bytes_be 16 0xffff00000000) = None /\
  kernel_decides_table empty_kmaps ex_msets ex_tries 1022 (tracker_domain_map ex_h) (ex_pk 0xffff01010101 443 0 "y.org") false
    = Ok (Some (0, 0, false)).
Proof. vm_compute. repeat split. eexists. reflexivity. Qed.

(* WITNESS that C02's `dom_entry` hypothesis is NOT a consequence of C10 in general: a.org and b.org are both live and
   both list 8.8.8.8 with different bitmaps.  All hypotheses of Link_C02_C10_or hold; the kernel decides with the OR
   (bits 0 and 1) and answers outbound 1 (the a.org rule) for a packet whose domain is b.org, for which
   RoutingMatcher.Match answers outbound 2.  For 8.8.4.4, listed by b.org alone, both answer 2. *)
Example Link_shared_address_diverges :
  let pk := ex_pk 0xffff08080808 443 0 "b.org" in
  let mt := {| mt_sets := dv_msets; mt_tries := [] |} in
  forallb (wf_mset 0) dv_msets = true /\ probe_ok pk false = true /\ cache_bitmaps_ok dv_h = true /\
  bitmap_ok (dv_dm "b.org") = true /\
  (exists km, install empty_kmaps dv_msets [] 0 = Ok km) /\
  or_bitmap dv_h (p_dst pk) = 3 :: repeat 0 31 /\
  kernel_decides_table empty_kmaps dv_msets [] 0 (tracker_domain_map dv_h) pk false = Ok (Some (1, 0, false)) /\
  expected (p_dport pk) (user_answer (match_sets_bm mt (Some (or_bitmap dv_h (p_dst pk))) (args_of_packet pk))) = Some (1, 0, false) /\
  expected (p_dport pk) (user_answer (match_sets mt dv_dm (args_of_packet pk))) = Some (2, 0, false) /\
  kernel_decides_table empty_kmaps dv_msets [] 0 (tracker_domain_map dv_h) (ex_pk 0xffff08080404 443 0 "b.org") false
    = Ok (Some (2, 0, false)).
Proof. vm_compute. repeat split. eexists. reflexivity. Qed.

(* WITNESS for the width condition (a difference between the two MODELS, not reachable in the Go code, which rejects
   a DomainBitmap whose length is not 32 words): C10 takes bitmaps as unbounded numbers, so a bitmap with bit 1024 set
   gives a present table entry Some (2^1024), whose 32-word struct is all-zero - for which C02's dom_entry says "no
   entry".  Hence `listing_bounded` / `cache_bitmaps_ok` in the statements above. *)
Example Link_width_corner :
  let h := [CInsert 1 {| e_bitmap := 2 ^ 1024; e_answers := [(false, 5)] |}] in
  cache_table_entry h 5 = Some (2 ^ 1024) /\
  tracker_domain_map h (bytes_be 16 5) = Some (repeat 0 128) /\
  dom_entry (Some (or_bitmap h 5)) = None /\
  cache_bitmaps_ok h = false.
Proof. vm_compute. repeat split. Qed.

(* DISCHARGED: C02_kscan_scan's interface hypothesis "the domain_routing_map entry of the destination is dom_entry of
   the bitmap" - the entry is now the one C10's tracker produces (C10_cache_mirror), for every cache history; also
   C02's restriction to a single overridden key (Link_kernel_reads_dst_only: the whole map may be the tracker's).
   REMAINING, all named in the statements:
   - C02's own quantifier conditions (wf_mset, wf_prefix, probe_ok, install = Ok);
   - listing_bounded h dst (bitmaps are 1024 bits wide; from cache_bitmaps_ok h; holds in the Go code by the length
     check of buildDomainRoutingOwnerSnapshot and the uint32 word type) - only for Link_C02_C10_or;
   - for the packet's OWN domain (own_domain / single_owner): a live cache entry lists the destination, and every live
     entry listing it has e_bitmap = of_words (dm (p_domain pk)).  The first half is the DNS controller's interface
     (the name was resolved through dae and the entry is still live), the second is C11's (DomainBitmap of a cache
     entry = the matcher's bitmap of its name) plus "names sharing the address agree".  Without them the kernel and
     the userspace matcher can decide differently (Link_shared_address_diverges; Link_C02_C10_unlisted). *)
