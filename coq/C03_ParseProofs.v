(* C03 — the two header parsers agree wherever the fast one does not ask for the fallback; the parse
   result handed to the hooks is coherent.  No axioms. *)
From Coq Require Import List NArith ZArith Bool Lia ZifyBool ZifyN ZifyNat.
From Dae Require Import C03_Spec C03_Model.
From Dae.gen Require Import C03_Consts.
Import ListNotations.
Open Scope N_scope.

(* ---------- loads ---------- *)
Lemma data_end_le : forall lin f, data_end lin f <= len f.
Proof. intros lin f. unfold data_end. generalize (len f). intro n. lia. Qed.

Lemma rdl_rd : forall lim f off n h, lim <= len f -> rdl lim f off n = Some h -> rd f off n = Some h.
Proof.
  intros lim f off n h Hlim. unfold rdl, rd.
  destruct (off + N.of_nat n <=? lim) eqn:E; [| discriminate].
  assert (off + N.of_nat n <=? len f = true) as -> by lia. exact (fun x => x).
Qed.

Lemma nth_firstn_lt : forall (l : list N) n i, (i < n)%nat -> nth i (firstn n l) 0 = nth i l 0.
Proof.
  induction l as [| a l IH]; intros n i Hi.
  - destruct n; destruct i; reflexivity.
  - destruct n; [lia |]. destruct i; [reflexivity |]. cbn [firstn nth]. apply IH. lia.
Qed.

Lemma nth_skipn_add : forall o (l : list N) i, nth i (skipn o l) 0 = nth (o + i) l 0.
Proof.
  induction o as [| o IH]; intros l i; [reflexivity |].
  destruct l as [| a l]; [destruct i; reflexivity |]. cbn [skipn Nat.add nth]. apply IH.
Qed.

Lemma byte_slice : forall f o n i, (i < n)%nat -> byte (slice f o n) i = nth (o + i) f 0.
Proof. intros f o n i Hi. unfold byte, slice. rewrite nth_firstn_lt by exact Hi. apply nth_skipn_add. Qed.

(* one 2-byte access below data_end = two 1-byte loads *)
Lemma rdl2_split : forall lim f off h, lim <= len f -> rdl lim f off 2 = Some h ->
  exists h0 h1, rd f off 1 = Some h0 /\ rd f (off + 1) 1 = Some h1 /\ byte h0 0 = byte h 0 /\ byte h1 0 = byte h 1.
Proof.
  intros lim f off h Hlim. unfold rdl, rd.
  change (N.of_nat 2) with 2. change (N.of_nat 1) with 1.
  destruct (off + 2 <=? lim) eqn:E; [| discriminate]. intro H. injection H as <-.
  assert (off + 1 <=? len f = true) as -> by lia.
  assert (off + 1 + 1 <=? len f = true) as -> by lia.
  eexists. eexists. split; [reflexivity |]. split; [reflexivity |].
  rewrite !byte_slice by lia.
  replace (N.to_nat (off + 1)) with (N.to_nat off + 1)%nat by lia.
  rewrite !Nat.add_0_r. split; reflexivity.
Qed.

(* ---------- the IPv6 extension-header loop ---------- *)
Definition sim (a b : xres) : Prop :=
  match a with
  | XRet r l4 => r = (-1)%Z \/ exists l4', b = XRet r l4' /\ ((r <? 0)%Z = true \/ l4' = l4)
  | XDone off nh l4 => l4 = nh /\ exists l4', b = XDone off nh l4'
  end.

Lemma v6_sim : forall fuel lim f off nh l4s, lim <= len f ->
  sim (v6_ext_fast fuel lim f off nh nh) (v6_ext_slow fuel f off nh l4s).
Proof.
  induction fuel as [| fuel IH]; intros lim f off nh l4s Hlim.
  - cbn [v6_ext_fast v6_ext_slow sim]. split; [reflexivity | eexists; reflexivity].
  - cbn [v6_ext_fast v6_ext_slow].
    destruct (nh =? IPPROTO_NONE).
    { cbn [sim]. right. exists l4s. split; [reflexivity | left; reflexivity]. }
    destruct (nh =? IPPROTO_FRAGMENT).
    { destruct (rdl lim f off 8) as [h |] eqn:E.
      - rewrite (rdl_rd lim f off 8 h Hlim E).
        destruct (negb (N.land (be16 h 2) 65528 =? 0)).
        + cbn [sim]. right. eexists. split; [reflexivity | right; reflexivity].
        + apply IH. exact Hlim.
      - cbn [sim]. left. reflexivity. }
    destruct (negb (is_extension_header nh)).
    { cbn [sim]. split; [reflexivity | eexists; reflexivity]. }
    destruct (rdl lim f off 2) as [h |] eqn:E.
    + destruct (rdl2_split lim f off h Hlim E) as (h0 & h1 & -> & -> & -> & ->).
      apply IH. exact Hlim.
    + cbn [sim]. left. reflexivity.
Qed.

Lemma v6_slow_ret_nz : forall fuel f off nh l4 r l4', v6_ext_slow fuel f off nh l4 = XRet r l4' -> r <> 0%Z.
Proof.
  induction fuel as [| fuel IH]; intros f off nh l4 r l4'; cbn [v6_ext_slow].
  - discriminate.
  - destruct (nh =? IPPROTO_NONE). { intro H; injection H as <- _. discriminate. }
    destruct (nh =? IPPROTO_FRAGMENT).
    { destruct (rd f off 8) as [h |]; [| intro H; injection H as <- _; discriminate].
      destruct (negb (N.land (be16 h 2) 65528 =? 0)); [intro H; injection H as <- _; discriminate |].
      apply IH. }
    destruct (negb (is_extension_header nh)); [discriminate |].
    destruct (rd f off 1) as [h0 |]; [| intro H; injection H as <- _; discriminate].
    destruct (rd f (off + 1) 1) as [h1 |]; [| intro H; injection H as <- _; discriminate].
    apply IH.
Qed.

(* ---------- 1. fast = slow unless the fast path asks for the fallback ---------- *)
Ltac bad := let H := fresh "H" in intro H; exfalso; apply H; reflexivity.
Ltac rdstep Hlim h :=
  match goal with
  | |- context [rdl ?lim ?f ?off ?n] =>
      let E := fresh "E" in
      destruct (rdl lim f off n) as [h |] eqn:E;
      [ rewrite (rdl_rd lim f off n h Hlim E); cbv beta iota | bad ]
  end.

Lemma body_eq : forall lim f (e : eth_t) (off : N), lim <= len f ->
  forall X Y : Z * pctx,
  X = (if eh_proto e =? ETH_P_IP then
        match rdl lim f off 20 with
        | None => ((-1)%Z, z_ctx)
        | Some h =>
            if lo4 (byte h 0) <? 5 then ((- EFAULT)%Z, z_ctx)
            else
              let ip := ip4_of h in
              let c0 := mk_pctx e ip z_ip6 0 z_tcp z_udp (i4_ihl ip) (i4_proto ip) 0 in
              let l4off := off + i4_ihl ip * 4 in
              if negb (ip4_frag h =? 0) then (Z.of_N PARSE_FRAGMENT, c0)
              else if i4_proto ip =? IPPROTO_TCP then
                match rdl lim f l4off 20 with
                | None => ((-1)%Z, z_ctx)
                | Some t => (0%Z, mk_pctx e ip z_ip6 0 (tcp_fast_of t) z_udp (i4_ihl ip) (i4_proto ip) (tcp_listener t))
                end
              else if i4_proto ip =? IPPROTO_UDP then
                match rdl lim f l4off 8 with
                | None => ((-1)%Z, z_ctx)
                | Some u => (0%Z, mk_pctx e ip z_ip6 0 z_tcp (udp_of u) (i4_ihl ip) (i4_proto ip) IPPROTO_UDP)
                end
              else (1%Z, c0)
        end
      else if eh_proto e =? ETH_P_IPV6 then
        match rdl lim f off 40 with
        | None => ((-1)%Z, z_ctx)
        | Some h =>
            let ip := ip6_of h in
            match v6_ext_fast (N.to_nat IPV6_MAX_EXTENSIONS) lim f (off + 40) (byte h 6) (byte h 6) with
            | XRet r l4 => if (r <? 0)%Z then (r, z_ctx) else (r, mk_pctx e z_ip4 ip 0 z_tcp z_udp 10 l4 0)
            | XDone off' nh l4 =>
                if is_extension_header nh then ((- EFAULT)%Z, z_ctx)
                else if nh =? IPPROTO_TCP then
                  match rdl lim f off' 20 with
                  | None => ((-1)%Z, z_ctx)
                  | Some t => (0%Z, mk_pctx e z_ip4 ip 0 (tcp_fast_of t) z_udp 10 l4 (tcp_listener t))
                  end
                else if nh =? IPPROTO_UDP then
                  match rdl lim f off' 8 with
                  | None => ((-1)%Z, z_ctx)
                  | Some u => (0%Z, mk_pctx e z_ip4 ip 0 z_tcp (udp_of u) 10 l4 IPPROTO_UDP)
                  end
                else if nh =? IPPROTO_ICMPV6 then
                  match rdl lim f off' 8 with
                  | None => ((-1)%Z, z_ctx)
                  | Some i => (0%Z, mk_pctx e z_ip4 ip (byte i 0) z_tcp z_udp 10 l4 0)
                  end
                else (1%Z, mk_pctx e z_ip4 ip 0 z_tcp z_udp 10 l4 0)
            end
        end
      else (1%Z, mk_pctx e z_ip4 z_ip6 0 z_tcp z_udp 0 0 0)) ->
  Y = (if eh_proto e =? ETH_P_IP then
        match rd f off 20 with
        | None => ((- EFAULT)%Z, z_ctx)
        | Some h =>
            if lo4 (byte h 0) <? 5 then ((- EFAULT)%Z, z_ctx)
            else
              let ip := ip4_of h in
              let c0 := mk_pctx e ip z_ip6 0 z_tcp z_udp (i4_ihl ip) (i4_proto ip) 0 in
              if negb (ip4_frag h =? 0) then (Z.of_N PARSE_FRAGMENT, c0)
              else
                let l4off := off + i4_ihl ip * 4 in
                if i4_proto ip =? IPPROTO_TCP then
                  match rd f l4off 20 with
                  | None => ((- EFAULT)%Z, z_ctx)
                  | Some t => (0%Z, mk_pctx e ip z_ip6 0 (tcp_slow_of t) z_udp (i4_ihl ip) (i4_proto ip) (tcp_listener t))
                  end
                else if i4_proto ip =? IPPROTO_UDP then
                  match rd f l4off 8 with
                  | None => ((- EFAULT)%Z, z_ctx)
                  | Some u => (0%Z, mk_pctx e ip z_ip6 0 z_tcp (udp_of u) (i4_ihl ip) (i4_proto ip) IPPROTO_UDP)
                  end
                else (1%Z, c0)
        end
      else if eh_proto e =? ETH_P_IPV6 then
        match rd f off 40 with
        | None => ((- EFAULT)%Z, z_ctx)
        | Some h =>
            let ip := ip6_of h in
            match v6_ext_slow (N.to_nat IPV6_MAX_EXTENSIONS) f (off + 40) (byte h 6) 0 with
            | XRet r l4 => if (r <? 0)%Z then (r, z_ctx) else (r, mk_pctx e z_ip4 ip 0 z_tcp z_udp 10 l4 0)
            | XDone off' nh _ =>
                if is_extension_header nh then ((- EFAULT)%Z, z_ctx)
                else if nh =? IPPROTO_TCP then
                  match rd f off' 20 with
                  | None => ((- EFAULT)%Z, z_ctx)
                  | Some t => (0%Z, mk_pctx e z_ip4 ip 0 (tcp_slow_of t) z_udp 10 nh (tcp_listener t))
                  end
                else if nh =? IPPROTO_UDP then
                  match rd f off' 8 with
                  | None => ((- EFAULT)%Z, z_ctx)
                  | Some u => (0%Z, mk_pctx e z_ip4 ip 0 z_tcp (udp_of u) 10 nh IPPROTO_UDP)
                  end
                else if nh =? IPPROTO_ICMPV6 then
                  match rd f off' 8 with
                  | None => ((- EFAULT)%Z, z_ctx)
                  | Some i => (0%Z, mk_pctx e z_ip4 ip (byte i 0) z_tcp z_udp 10 nh 0)
                  end
                else (1%Z, mk_pctx e z_ip4 ip 0 z_tcp z_udp 10 nh 0)
            end
        end
      else (1%Z, mk_pctx e z_ip4 z_ip6 0 z_tcp z_udp 0 0 0)) ->
  fst X <> (-1)%Z -> X = Y.
Proof.
  intros lim f e off Hlim X Y -> ->. cbv zeta.
  destruct (eh_proto e =? ETH_P_IP).
  { rdstep Hlim h.
    destruct (lo4 (byte h 0) <? 5); [intros _; reflexivity |].
    destruct (negb (ip4_frag h =? 0)); [intros _; reflexivity |].
    destruct (i4_proto (ip4_of h) =? IPPROTO_TCP); [rdstep Hlim t; intros _; reflexivity |].
    destruct (i4_proto (ip4_of h) =? IPPROTO_UDP); [rdstep Hlim u; intros _; reflexivity |].
    intros _; reflexivity. }
  destruct (eh_proto e =? ETH_P_IPV6); [| intros _; reflexivity].
  rdstep Hlim h.
  generalize (N.to_nat IPV6_MAX_EXTENSIONS). intro fuel.
  pose proof (v6_sim fuel lim f (off + 40) (byte h 6) 0 Hlim) as S.
  destruct (v6_ext_fast fuel lim f (off + 40) (byte h 6) (byte h 6)) as [r l4 | off' nh l4]; cbn [sim] in S.
  - destruct S as [-> | (l4' & -> & [Hneg | ->])].
    + bad.
    + rewrite Hneg. intros _; reflexivity.
    + intros _; reflexivity.
  - destruct S as (-> & l4' & ->).
    destruct (is_extension_header nh); [intros _; reflexivity |].
    destruct (nh =? IPPROTO_TCP); [rdstep Hlim t; intros _; reflexivity |].
    destruct (nh =? IPPROTO_UDP); [rdstep Hlim u; intros _; reflexivity |].
    destruct (nh =? IPPROTO_ICMPV6); [rdstep Hlim i; intros _; reflexivity |].
    intros _; reflexivity.
Qed.

Lemma parse_fast_eq_slow_proof : forall eth proto pf lin f,
  fst (parse_fast eth proto pf lin f) <> (-1)%Z -> parse_fast eth proto pf lin f = parse_slow eth proto f.
Proof.
  intros eth proto pf lin f.
  destruct pf; [unfold parse_fast; bad |].
  pose proof (data_end_le lin f) as Hlim.
  destruct eth.
  - unfold parse_fast, parse_slow. cbv zeta.
    destruct (rdl (data_end lin f) f 0 14) as [h |] eqn:E; [| bad].
    rewrite (rdl_rd _ f 0 14 h Hlim E).
    apply (body_eq (data_end lin f) f (eth_of h) 14 Hlim); reflexivity.
  - apply (body_eq (data_end lin f) f (mk_eth proto 0 0) 0 Hlim); reflexivity.
Qed.

(* ---------- 2. parse_transport is the slow parser ---------- *)
Lemma parse_transport_eq_proof : forall eth proto pf lin f,
  parse_transport eth proto pf lin f = parse_slow eth proto f.
Proof.
  intros eth proto pf lin f. unfold parse_transport. cbv zeta.
  destruct (fst (parse_fast eth proto pf lin f) =? -1)%Z eqn:E; [reflexivity |].
  apply parse_fast_eq_slow_proof. apply Z.eqb_neq. exact E.
Qed.

(* ---------- 3. what the hooks read agrees on both paths ---------- *)
Lemma parse_paths_agree_proof : parse_paths_agree_stmt proj.
Proof.
  intros eth proto pf lin f H. rewrite (parse_fast_eq_slow_proof eth proto pf lin f H). reflexivity.
Qed.

(* ---------- 4. coherence of the parse result ---------- *)
Lemma wf_nonzero : forall r c, r <> 0%Z -> wf_parse (r, c).
Proof. intros r c H H0. exfalso. exact (H H0). Qed.

Lemma wf_tcp : forall e i4 i6 ic t ihl l4,
  l4 = IPPROTO_TCP -> wf_parse (0%Z, mk_pctx e i4 i6 ic (tcp_slow_of t) z_udp ihl l4 (tcp_listener t)).
Proof.
  intros e i4 i6 ic t ihl l4 -> _. cbn [snd c_l4proto c_listener c_tcp].
  split; [left; reflexivity |]. split; [intros _; reflexivity | intro H; discriminate H].
Qed.

Lemma wf_udp : forall e i4 i6 ic t u ihl l4,
  l4 = IPPROTO_UDP -> wf_parse (0%Z, mk_pctx e i4 i6 ic t u ihl l4 IPPROTO_UDP).
Proof.
  intros e i4 i6 ic t u ihl l4 -> _. cbn [snd c_l4proto c_listener c_tcp].
  split; [right; left; reflexivity |]. split; [intro H; discriminate H | intros _; reflexivity].
Qed.

Lemma wf_icmp6 : forall e i4 i6 ic t u ihl l4,
  l4 = IPPROTO_ICMPV6 -> wf_parse (0%Z, mk_pctx e i4 i6 ic t u ihl l4 0).
Proof.
  intros e i4 i6 ic t u ihl l4 -> _. cbn [snd c_l4proto c_listener c_tcp].
  split; [right; right; reflexivity |]. split; intro H; discriminate H.
Qed.

Lemma parse_slow_wf_proof : forall eth proto f, wf_parse (parse_slow eth proto f).
Proof.
  intros eth proto f. unfold parse_slow. cbv zeta.
  assert (forall e off, wf_parse
    (if eh_proto e =? ETH_P_IP then
        match rd f off 20 with
        | None => ((- EFAULT)%Z, z_ctx)
        | Some h =>
            if lo4 (byte h 0) <? 5 then ((- EFAULT)%Z, z_ctx)
            else
              if negb (ip4_frag h =? 0)
              then (Z.of_N PARSE_FRAGMENT,
                    mk_pctx e (ip4_of h) z_ip6 0 z_tcp z_udp (i4_ihl (ip4_of h)) (i4_proto (ip4_of h)) 0)
              else
                if i4_proto (ip4_of h) =? IPPROTO_TCP then
                  match rd f (off + i4_ihl (ip4_of h) * 4) 20 with
                  | None => ((- EFAULT)%Z, z_ctx)
                  | Some t => (0%Z, mk_pctx e (ip4_of h) z_ip6 0 (tcp_slow_of t) z_udp (i4_ihl (ip4_of h))
                                            (i4_proto (ip4_of h)) (tcp_listener t))
                  end
                else if i4_proto (ip4_of h) =? IPPROTO_UDP then
                  match rd f (off + i4_ihl (ip4_of h) * 4) 8 with
                  | None => ((- EFAULT)%Z, z_ctx)
                  | Some u => (0%Z, mk_pctx e (ip4_of h) z_ip6 0 z_tcp (udp_of u) (i4_ihl (ip4_of h))
                                            (i4_proto (ip4_of h)) IPPROTO_UDP)
                  end
                else (1%Z, mk_pctx e (ip4_of h) z_ip6 0 z_tcp z_udp (i4_ihl (ip4_of h)) (i4_proto (ip4_of h)) 0)
        end
      else if eh_proto e =? ETH_P_IPV6 then
        match rd f off 40 with
        | None => ((- EFAULT)%Z, z_ctx)
        | Some h =>
            match v6_ext_slow (N.to_nat IPV6_MAX_EXTENSIONS) f (off + 40) (byte h 6) 0 with
            | XRet r l4 => if (r <? 0)%Z then (r, z_ctx) else (r, mk_pctx e z_ip4 (ip6_of h) 0 z_tcp z_udp 10 l4 0)
            | XDone off' nh _ =>
                if is_extension_header nh then ((- EFAULT)%Z, z_ctx)
                else if nh =? IPPROTO_TCP then
                  match rd f off' 20 with
                  | None => ((- EFAULT)%Z, z_ctx)
                  | Some t => (0%Z, mk_pctx e z_ip4 (ip6_of h) 0 (tcp_slow_of t) z_udp 10 nh (tcp_listener t))
                  end
                else if nh =? IPPROTO_UDP then
                  match rd f off' 8 with
                  | None => ((- EFAULT)%Z, z_ctx)
                  | Some u => (0%Z, mk_pctx e z_ip4 (ip6_of h) 0 z_tcp (udp_of u) 10 nh IPPROTO_UDP)
                  end
                else if nh =? IPPROTO_ICMPV6 then
                  match rd f off' 8 with
                  | None => ((- EFAULT)%Z, z_ctx)
                  | Some i => (0%Z, mk_pctx e z_ip4 (ip6_of h) (byte i 0) z_tcp z_udp 10 nh 0)
                  end
                else (1%Z, mk_pctx e z_ip4 (ip6_of h) 0 z_tcp z_udp 10 nh 0)
            end
        end
      else (1%Z, mk_pctx e z_ip4 z_ip6 0 z_tcp z_udp 0 0 0))) as Hbody.
  { intros e off.
    destruct (eh_proto e =? ETH_P_IP).
    { destruct (rd f off 20) as [h |]; [| apply wf_nonzero; discriminate].
      destruct (lo4 (byte h 0) <? 5); [apply wf_nonzero; discriminate |].
      destruct (negb (ip4_frag h =? 0)); [apply wf_nonzero; discriminate |].
      destruct (i4_proto (ip4_of h) =? IPPROTO_TCP) eqn:Et.
      { destruct (rd f _ 20) as [t |]; [| apply wf_nonzero; discriminate].
        apply wf_tcp. apply N.eqb_eq. exact Et. }
      destruct (i4_proto (ip4_of h) =? IPPROTO_UDP) eqn:Eu.
      { destruct (rd f _ 8) as [u |]; [| apply wf_nonzero; discriminate].
        apply wf_udp. apply N.eqb_eq. exact Eu. }
      apply wf_nonzero; discriminate. }
    destruct (eh_proto e =? ETH_P_IPV6); [| apply wf_nonzero; discriminate].
    destruct (rd f off 40) as [h |]; [| apply wf_nonzero; discriminate].
    destruct (v6_ext_slow (N.to_nat IPV6_MAX_EXTENSIONS) f (off + 40) (byte h 6) 0) as [r l4 | off' nh l4] eqn:Ex.
    { pose proof (v6_slow_ret_nz _ _ _ _ _ _ _ Ex) as Hr.
      destruct (r <? 0)%Z; apply wf_nonzero; exact Hr. }
    destruct (is_extension_header nh); [apply wf_nonzero; discriminate |].
    destruct (nh =? IPPROTO_TCP) eqn:Et.
    { destruct (rd f off' 20) as [t |]; [| apply wf_nonzero; discriminate].
      apply wf_tcp. apply N.eqb_eq. exact Et. }
    destruct (nh =? IPPROTO_UDP) eqn:Eu.
    { destruct (rd f off' 8) as [u |]; [| apply wf_nonzero; discriminate].
      apply wf_udp. apply N.eqb_eq. exact Eu. }
    destruct (nh =? IPPROTO_ICMPV6) eqn:Ei.
    { destruct (rd f off' 8) as [i |]; [| apply wf_nonzero; discriminate].
      apply wf_icmp6. apply N.eqb_eq. exact Ei. }
    apply wf_nonzero; discriminate. }
  destruct eth.
  - destruct (rd f 0 14) as [h |]; [| apply wf_nonzero; discriminate].
    apply Hbody.
  - apply Hbody.
Qed.

Lemma parse_transport_wf_proof : forall eth proto pf lin f, wf_parse (parse_transport eth proto pf lin f).
Proof. intros. rewrite parse_transport_eq_proof. apply parse_slow_wf_proof. Qed.

Print Assumptions parse_fast_eq_slow_proof.
Print Assumptions parse_transport_eq_proof.
Print Assumptions parse_paths_agree_proof.
Print Assumptions parse_slow_wf_proof.
Print Assumptions parse_transport_wf_proof.
