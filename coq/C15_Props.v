(* C15 — property theorems only.  Each is closed by `exact` of a lemma of C15_Proofs.v.
   Histories h are lists of events (latency summaries changing, health flags, alive / not-alive notifications
   per network type, policy switches); `run` is the model of the Go group, `spec_run` the spec's replay of the
   same history into per-type views; selections are queries on the state after any history (= interleaved
   anywhere). *)
From Coq Require Import List ZArith Bool Arith.
From Dae Require Import C15_Spec C15_Model C15_Proofs C15_Switch C15_SwitchProofs.
From Dae Require C15_Ring.
Import ListNotations.
Open Scope Z_scope.

(* C15_index_consistent: after every history, for every network type, dialerToIndex and aliveEntries are inverse
   bijections (the swap-remove invariant, no duplicates, every non-alive dialer has a negative code), and
   aliveEntries holds exactly the nodes of the spec's alive view of that type, with the measurement last
   told as cached sorting latency under a min policy.  (group_ok is defined in C15_Model.v.) *)
Theorem C15_index_consistent :
  forall (c : cfg) (p0 : gpol) (h : list op), group_ok c (run c p0 h) (spec_run c p0 h).
Proof. exact run_ok. Qed.
Print Assumptions C15_index_consistent.

(* the removal never hits the Go panic `index >= len(aliveEntries)` *)
Theorem C15_no_removal_panic :
  forall (c : cfg) (p0 : gpol) (h : list op) (sets : ntype -> aset) (t : ntype) (d i : nat),
    g_sets (run c p0 h) = Some sets -> a_idx (sets t) d = SAt i -> remove_panics (sets t) i = false.
Proof. exact C15_no_removal_panic_proof. Qed.
Print Assumptions C15_no_removal_panic.

(* fixed(i) always returns the i-th node: after every history, for every requested type, strict or not,
   whatever node is excluded. *)
Theorem C15_fixed_ith :
  forall (c : cfg) (p0 : gpol) (h : list op) (rq : reqtype) (strict : bool) (excl : option nat) (i : Z),
    c_n c <> O -> g_policy (run c p0 h) = GFixed i -> 0 <= i < Z.of_nat (c_n c) ->
    exists sel, select c (run c p0 h) rq strict excl = MOk [Z.to_nat i] 0 sel.
Proof. intros c p0 h. exact (C15_fixed_ith_proof c (run c p0 h)). Qed.
Print Assumptions C15_fixed_ith.

(* fixed policy against the spec checker (also: index out of range, empty group) *)
Theorem C15_select_fixed_ok :
  forall (c : cfg) (p0 : gpol) (h : list op) (rq : reqtype) (strict : bool) (excl : option nat) (i : Z) (r : sel_res),
    g_policy (run c p0 h) = GFixed i ->
    In r (results_of (select c (run c p0 h) rq strict excl)) ->
    select_ok c (spec_run c p0 h) (key_of rq) strict excl r = true.
Proof. exact C15_select_fixed_ok_proof. Qed.
Print Assumptions C15_select_fixed_ok.

(* random policy (C15_select_sound / _complete / _excluded_respected / _random_only_alive in one statement):
   every result the random selection can produce after any history is accepted by the spec: it is a node of
   the alive view of the first type, in the documented order data-UDP -> DNS-UDP -> TCP, then the other IP
   family when not strict, that has a non-excluded alive node; it is never the excluded node; `no alive
   node` is reported only when every type tried has no non-excluded alive node; the single node of a
   one-node group is handed out as a last resort (strict callers only, as in the code). *)
Theorem C15_select_random_ok :
  forall (c : cfg) (p0 : gpol) (h : list op) (rq : reqtype) (strict : bool) (excl : option nat) (r : sel_res),
    c_n c <> O -> g_policy (run c p0 h) = GSet SRandom ->
    In r (results_of (select c (run c p0 h) rq strict excl)) ->
    select_ok c (spec_run c p0 h) (key_of rq) strict excl r = true.
Proof. exact C15_select_random_ok_proof. Qed.
Print Assumptions C15_select_random_ok.

(* min policies, for every set state (reachable or not): the excluded node is never what the set hands out *)
Theorem C15_excluded_respected_min :
  forall (a : aset) (e d : nat) (l : Z), get_min a (Some e) = (Some d, l) -> d <> e.
Proof. exact C15_get_min_excluded_proof. Qed.
Print Assumptions C15_excluded_respected_min.

(* min policies (the three latency policies), selection at full strength: after every history every result
   of SelectWithExclusionResult is accepted by the spec checker select_ok: the node is alive (and not the
   excluded one) in the view of the first type, in the documented order, that has a non-excluded alive
   node; no alive measured node of that view beats it by the tolerance or more (within_tol); the reported
   latency is its measurement; `no alive node` only when every type tried is empty; one-node last resort. *)
Theorem C15_select_min :
  forall (c : cfg) (p0 : gpol) (h : list op) (rq : reqtype) (strict : bool) (excl : option nat) (m : mpol) (r : sel_res),
    c_n c <> O -> g_policy (run c p0 h) = GSet (SMin m) ->
    In r (results_of (select c (run c p0 h) rq strict excl)) ->
    select_ok c (spec_run c p0 h) (key_of rq) strict excl r = true.
Proof. exact C15_select_min_proof. Qed.
Print Assumptions C15_select_min.

(* C15_select_complete: under random and the three min policies, after every history, `no alive node` is
   reported IF AND ONLY IF every type tried in the documented order - the requested type, for data-UDP then
   DNS-UDP and TCP of the same family, and when the caller is not strict the same chain of the other IP
   family - has no non-excluded alive node (and the one-node last resort does not apply).  `tried`, `cands`
   are the spec's (C15_Spec.v): tried t strict = chain t, or chain t ++ chain (flip_t t). *)
Theorem C15_select_complete :
  forall (c : cfg) (p0 : gpol) (h : list op) (rq : reqtype) (strict : bool) (excl : option nat) (p : spol),
    c_n c <> O -> g_policy (run c p0 h) = GSet p ->
    ((exists l, In (RErr ENoAlive l) (results_of (select c (run c p0 h) rq strict excl))) <->
     ((forall t', In t' (tried (key_of rq) strict) -> cands excl (ss_views (spec_run c p0 h) t') = []) /\
      Nat.eqb (c_n c) 1 && strict = false)).
Proof. exact C15_select_complete_proof. Qed.
Print Assumptions C15_select_complete.

(* the standing choice (minLatency.dialer) of every type is an alive node, and exists whenever a node is alive *)
Theorem C15_best_is_alive :
  forall (c : cfg) (p0 : gpol) (h : list op) (m : mpol) (sets : ntype -> aset) (t : ntype),
    g_policy (run c p0 h) = GSet (SMin m) -> g_sets (run c p0 h) = Some sets ->
    (forall b, a_best (sets t) = Some b ->
               view_mem b (ss_views (spec_run c p0 h) t) = true /\ In b (map fst (a_entries (sets t)))) /\
    (ss_views (spec_run c p0 h) t <> [] -> a_best (sets t) <> None).
Proof. exact C15_best_is_alive_proof. Qed.
Print Assumptions C15_best_is_alive.

(* in every reachable state no alive node with a measurement beats the standing choice by the tolerance or more *)
Theorem C15_best_within_tolerance :
  forall (c : cfg) (p0 : gpol) (h : list op) (m : mpol) (sets : ntype -> aset) (t : ntype) (b : nat),
    g_policy (run c p0 h) = GSet (SMin m) -> g_sets (run c p0 h) = Some sets ->
    a_best (sets t) = Some b -> within_tol (c_tol c) (ss_views (spec_run c p0 h) t) b = true.
Proof. exact C15_best_within_tolerance_proof. Qed.
Print Assumptions C15_best_within_tolerance.

(* every step of every history moves the standing choice of a type only for an allowed reason (switch_ok):
   the new one is better by at least the tolerance, or not worse while the current latency is below the
   tolerance, or the current one has no measurement, or it stopped being alive, or the step is a policy switch *)
Theorem C15_switch_reasons :
  forall (c : cfg) (p0 : gpol) (h : list op) (o : op) (m : mpol) (sets sets' : ntype -> aset) (t : ntype),
    g_policy (run c p0 h) = GSet (SMin m) -> g_sets (run c p0 h) = Some sets ->
    g_sets (run c p0 (h ++ [o])) = Some sets' ->
    switch_ok (c_tol c) (ss_views (spec_run c p0 (h ++ [o])) t) (a_best (sets t)) (a_best (sets' t))
              (match o with OPolicy _ => true | _ => false end) = true.
Proof. exact C15_switch_reasons_proof. Qed.
Print Assumptions C15_switch_reasons.

(* "merely better" cannot be read strictly: with tolerance 30 ms and the current choice at 20 ms, a node that
   reports the same 20 ms takes over (the spec's switch_ok therefore allows ties). *)
Theorem C15_tie_switch_witness :
  let best h := match g_sets (run w2_cfg (GSet (SMin MLast)) h) with Some s => a_best (s (DTcp, V4)) | None => None end in
  best (firstn 2 w2_hist) = Some 1%nat /\ best w2_hist = Some 0%nat.
Proof. exact C15_tie_switch_witness_proof. Qed.

(* Non-vacuity: 3 nodes, random policy; data-UDP emptied, DNS-UDP left with node 1 only: excluding node 1 the
   selection falls through to TCP and offers {0, 2}; without exclusion it offers {1}; after a switch to
   fixed(2) it returns node 2 although node 2 is excluded. *)
Example C15_nonvacuous :
  let c := {| c_n := 3; c_off := fun _ => 0; c_tol := 0 |} in
  let h := [ONotify 1 (DDataUdp, V4) false; ONotify 0 (DDataUdp, V4) false; ONotify 2 (DDataUdp, V4) false;
            ONotify 0 (DDnsUdp, V4) false; ONotify 2 (DDnsUdp, V4) false] in
  let rq := {| rq_l4 := UDP; rq_ipv := V4; rq_isdns := false; rq_udpdom := UData |} in
  g_policy (run c (GSet SRandom) h) = GSet SRandom /\
  results_of (select c (run c (GSet SRandom) h) rq true (Some 1%nat)) = [ROk 0 0; ROk 2 0]
  /\ results_of (select c (run c (GSet SRandom) h) rq true None) = [ROk 1 0]
  /\ results_of (select c (run c (GSet SRandom) (h ++ [OPolicy (GFixed 2)])) rq true (Some 2%nat)) = [ROk 2 0].
Proof. exact C15_nonvacuous_proof. Qed.

(* Non-vacuity for the min policies: tolerance 30 ms; node 0 at 100 ms is the choice; node 1 at 80 ms does not
   take over (not better by 30 ms), at 60 ms it does; excluding it, the selection hands out node 0. *)
Example C15_min_nonvacuous :
  let best h := match g_sets (run w3_cfg (GSet (SMin MLast)) h) with Some s => a_best (s (DTcp, V4)) | None => None end in
  let rq := {| rq_l4 := TCP; rq_ipv := V4; rq_isdns := true; rq_udpdom := UUnset |} in
  best (firstn 4 w3_hist) = Some 0%nat /\ best w3_hist = Some 1%nat /\
  results_of (select w3_cfg (run w3_cfg (GSet (SMin MLast)) w3_hist) rq true None) = [ROk 1 60000000] /\
  results_of (select w3_cfg (run w3_cfg (GSet (SMin MLast)) w3_hist) rq true (Some 1%nat)) = [ROk 0 100000000].
Proof. exact C15_min_nonvacuous_proof. Qed.


(* ====================================================================================================== *)
(* Run-time policy switches as they really execute (C15_Switch.v): DialerGroup.SetSelectionPolicy switches  *)
(* the six shared sets one after the other and publishes the new group policy afterwards; selections read    *)
(* the published policy, notifications act on the sets, both may run between any two of those steps.         *)
(* Histories are lists of micro events (mop); they are not restricted to well-formed switches, so every      *)
(* combination (published policy, per-set policy, cached best nil / set) the code can expose - and more -    *)
(* is covered.  Selections are queries after any prefix = at any point inside a switch.                      *)
(* ====================================================================================================== *)

(* the invariant of every set under ITS OWN policy, after every micro history: index map / entries / view
   (set_ok), standing choice (min_inv) when the set's policy is a min policy, no cached best when it is random *)
Theorem C15_interleaved_invariant :
  forall (c : cfg) (p0 : gpol) (h : list mop), xgroup_ok c (xrun c p0 h) (xspec_run c p0 h).
Proof. exact xrun_ok. Qed.
Print Assumptions C15_interleaved_invariant.

(* selection at any point of any interleaving, whatever the published policy and the per-set policies: every
   result satisfies the spec checker (alive, not excluded, first non-empty type of the documented order in both
   families when allowed; `no alive node` only when all are empty; under a published min policy not beaten by the
   tolerance within its view).  No premise on the group size. *)
Theorem C15_select_interleaved :
  forall (c : cfg) (p0 : gpol) (h : list mop) (rq : reqtype) (strict : bool) (excl : option nat) (p : spol) (r : sel_res),
    g_policy (xrun c p0 h) = GSet p ->
    In r (results_of (select c (xrun c p0 h) rq strict excl)) ->
    select_ok c (sstate_of (xspec_run c p0 h)) (key_of rq) strict excl r = true.
Proof. exact C15_select_interleaved_proof. Qed.
Print Assumptions C15_select_interleaved.

(* ... in particular: whenever some type tried has a non-excluded alive node, the selection never reports
   `no alive node` (and conversely), at any point inside any policy switch *)
Theorem C15_select_interleaved_complete :
  forall (c : cfg) (p0 : gpol) (h : list mop) (rq : reqtype) (strict : bool) (excl : option nat) (p : spol),
    c_n c <> O -> g_policy (xrun c p0 h) = GSet p ->
    ((exists l, In (RErr ENoAlive l) (results_of (select c (xrun c p0 h) rq strict excl))) <->
     ((forall t', In t' (tried (key_of rq) strict) -> cands excl (x_views (xspec_run c p0 h) t') = []) /\
      Nat.eqb (c_n c) 1 && strict = false)).
Proof. exact C15_select_interleaved_complete_proof. Qed.
Print Assumptions C15_select_interleaved_complete.

(* GetMinLatency with no cached best falls back to the scan: it returns nil iff the set has no non-excluded alive
   node, and otherwise an alive non-excluded node - for every set of every reachable state of every interleaving,
   under any policy of that set *)
Theorem C15_get_min_nil_best :
  forall (c : cfg) (p0 : gpol) (h : list mop) (sets : ntype -> aset) (t : ntype) (excl : option nat),
    g_sets (xrun c p0 h) = Some sets -> a_best (sets t) = None ->
    (fst (get_min (sets t) excl) = None <-> cands excl (x_views (xspec_run c p0 h) t) = []) /\
    (forall d l, get_min (sets t) excl = (Some d, l) -> In d (cands excl (x_views (xspec_run c p0 h) t))).
Proof. exact C15_get_min_nil_best_proof. Qed.
Print Assumptions C15_get_min_nil_best.

(* the variant "no cached best means no alive dialer" (get_min_early) is wrong: 2 nodes, min policy published, the
   six sets already switched to random (first half of SetSelectionPolicy(random)): every node is alive, the cached
   best is nil, the early return yields nil where GetMinLatency yields node 0 and the selection succeeds *)
Theorem C15_get_min_early_refuted :
  let g := xrun w4_cfg (GSet (SMin MLast)) w4_hist in
  let a := match g_sets g with Some s => s (DTcp, V4) | None => new_set SRandom end in
  g_policy g = GSet (SMin MLast) /\ a_policy a = SRandom /\ a_best a = None /\
  cands None (x_views (xspec_run w4_cfg (GSet (SMin MLast)) w4_hist) (DTcp, V4)) = [0%nat; 1%nat] /\
  fst (get_min a None) = Some 0%nat /\ fst (get_min_early a None) = None /\
  results_of (select w4_cfg g w4_rq false None) = [ROk 0 0].
Proof. exact C15_get_min_early_refuted_proof. Qed.

(* the sequential development is the special case of micro histories made of atomic events only ... *)
Theorem C15_sequential_is_interleaved :
  forall (c : cfg) (p0 : gpol) (h : list op),
    xrun c p0 (map MOp h) = run c p0 h /\
    x_store (xspec_run c p0 (map MOp h)) = ss_store (spec_run c p0 h) /\
    x_pub (xspec_run c p0 (map MOp h)) = ss_policy (spec_run c p0 h) /\
    (forall t, x_views (xspec_run c p0 (map MOp h)) t = ss_views (spec_run c p0 h) t).
Proof. intros c p0 h. split; [apply xrun_seq|]. destruct (xspec_seq c p0 h) as (A & B & C & _). auto. Qed.
Print Assumptions C15_sequential_is_interleaved.

(* ... and the atomic policy switch of the sequential model is exactly the step-by-step execution
   (expand_policy: per-set switches in array order, then the publish) when nothing runs in between *)
Theorem C15_policy_switch_expands :
  forall (c : cfg) (g : group) (p p' : spol) (sets : ntype -> aset),
    g_policy g = GSet p -> g_sets g = Some sets -> (forall t, a_policy (sets t) = p) ->
    let g1 := fst (step c g (OPolicy (GSet p'))) in
    let g2 := fold_left (fun g m => fst (xstep c g m)) (expand_policy (GSet p) (GSet p')) g in
    g_store g2 = g_store g1 /\ g_policy g2 = g_policy g1 /\
    exists s1 s2, g_sets g1 = Some s1 /\ g_sets g2 = Some s2 /\ forall t, s2 t = s1 t.
Proof. exact expand_policy_refines. Qed.
Print Assumptions C15_policy_switch_expands.

(* random: every non-excluded alive node of the serving type can be returned, and only those *)
Theorem C15_select_random_complete :
  forall (c : cfg) (p0 : gpol) (h : list op) (rq : reqtype) (strict : bool) (excl : option nat) (t' : ntype),
    c_n c <> O -> g_policy (run c p0 h) = GSet SRandom ->
    first_nonempty (ss_views (spec_run c p0 h)) excl (tried (key_of rq) strict) = Some t' ->
    forall d, In d (cands excl (ss_views (spec_run c p0 h) t')) <->
              In (ROk d 0) (results_of (select c (run c p0 h) rq strict excl)).
Proof. exact C15_select_random_complete_proof. Qed.
Print Assumptions C15_select_random_complete.

(* C15_select_random_ok / C15_select_min without the premise c_n <> 0 (an empty group answers `no dialer`) *)
Theorem C15_select_set_ok :
  forall (c : cfg) (p0 : gpol) (h : list op) (rq : reqtype) (strict : bool) (excl : option nat) (p : spol) (r : sel_res),
    g_policy (run c p0 h) = GSet p ->
    In r (results_of (select c (run c p0 h) rq strict excl)) ->
    select_ok c (spec_run c p0 h) (key_of rq) strict excl r = true.
Proof. exact C15_select_set_ok_all_proof. Qed.
Print Assumptions C15_select_set_ok.

(* ---- notifications naming a dialer that is not a member (C15_Switch.v, notify_raw) ----
   The Go set has no membership guard; xrun_raw models what it does (an unregistered dialer reads as "alive at index
   0").  On histories that name members only - the only ones the group can produce, and the property's quantifier -
   the raw model IS the model all theorems above are about, and it never hits a panic. *)
Theorem C15_members_only_raw :
  forall (c : cfg) (p0 : gpol) (h : list mop),
    forallb (member_mop (c_n c)) h = true -> xrun_raw c p0 h = xrun c p0 h.
Proof. exact C15_members_only_raw_proof. Qed.
Print Assumptions C15_members_only_raw.

Theorem C15_member_notification_no_panic :
  forall (c : cfg) (p0 : gpol) (h : list mop) (m : mop),
    member_mop (c_n c) m = true -> xstep_raw_panics c (xrun c p0 h) m = false.
Proof. exact xstep_raw_member_no_panic. Qed.
Print Assumptions C15_member_notification_no_panic.

(* what the code does with a stranger (replayed on the Go code by the harness family `foreign`): 2 members, both
   alive; dialer 2, not a member, is reported not alive: member 0 is evicted from aliveEntries *)
Theorem C15_foreign_notification_witness :
  let g := xrun_raw w5_cfg (GSet SRandom) [MOp (ONotify 2 (DTcp, V4) false)] in
  let a := match g_sets g with Some s => s (DTcp, V4) | None => new_set SRandom end in
  map fst (a_entries a) = [1%nat] /\ a_idx a 0%nat = SAt 0 /\ a_idx a 1%nat = SAt 0 /\ a_idx a 2%nat = SNotAlive.
Proof. exact C15_foreign_notification_witness_proof. Qed.

(* ---- LatenciesN, the ring behind min_avg10 (C15_Ring.v) ----
   for every ring size N > 0 and every sequence of appends: the running sum is the sum of the samples the ring holds,
   it holds min(len, N) of them, and AvgLatency = that sum divided (truncating, as time.Duration divides) by their
   number.  That the held samples are the LAST min(len, N) fed (spec_avg / spec_last of C15_Ring.v) is compared on
   every run against both the ring model and the Go LatenciesN, not proved. *)
Theorem C15_avg_ring_exact :
  forall (n : nat) (h : list Z), (0 < n)%nat ->
    let r := C15_Ring.ring_run n h in
    C15_Ring.r_sum r = C15_Ring.zsum (C15_Ring.r_lats r) /\ C15_Ring.r_n r = n /\
    (length (C15_Ring.r_lats r) <= n)%nat /\ (C15_Ring.r_head r < n)%nat /\
    length (C15_Ring.r_lats r) = Nat.min (length h) n.
Proof. exact C15_Ring.ring_sum_inv. Qed.
Print Assumptions C15_avg_ring_exact.

(* the subtract-after-advance variant is wrong: N = 2, samples 10, 20, 60: it keeps sum 70 for contents {60, 20} *)
Theorem C15_avg_ring_bad_refuted :
  let r := fold_left C15_Ring.ring_append_bad [10; 20; 60] (C15_Ring.ring0 2) in
  C15_Ring.r_lats r = [60; 20] /\ C15_Ring.r_sum r = 70 /\ C15_Ring.zsum (C15_Ring.r_lats r) = 80 /\
  C15_Ring.ring_avg (C15_Ring.ring_run 2 [10; 20; 60]) = Some 40 /\ C15_Ring.spec_avg 2 [10; 20; 60] = Some 40.
Proof. exact C15_Ring.ring_bad_witness. Qed.
