(* C15 — property theorems only.  Each is closed by `exact` of a lemma of C15_Proofs.v.
   Histories h are lists of events (latency summaries changing, health flags, alive / not-alive notifications
   per network type, policy switches); `run` is the model of the Go group, `spec_run` the spec's replay of the
   same history into per-type views; selections are queries on the state after any history (= interleaved
   anywhere). *)
From Coq Require Import List ZArith Bool Arith.
From Dae Require Import C15_Spec C15_Model C15_Proofs.
Import ListNotations.
Open Scope Z_scope.

(* C15_index_consistent: after every history, for every network type, dialerToIndex and aliveEntries are inverse
   bijections (the swap-remove invariant, no duplicates, every non-alive dialer has a negative code), and
   aliveEntries holds exactly the nodes of the spec's alive view of that type, with the measurement last
   told as cached sorting latency under a min policy.  (group_ok is defined in C15_Model.v.) *)
Theorem C15_index_consistent :
  forall (c : cfg) (p0 : gpol) (h : list op), group_ok c (run c p0 h) (spec_run c p0 h).
Proof. exact run_ok. Qed.
Print Assumptions C15_index_consistent.

(* the removal never hits the Go panic `index >= len(aliveEntries)` *)
Theorem C15_no_removal_panic :
  forall (c : cfg) (p0 : gpol) (h : list op) (sets : ntype -> aset) (t : ntype) (d i : nat),
    g_sets (run c p0 h) = Some sets -> a_idx (sets t) d = SAt i -> remove_panics (sets t) i = false.
Proof. exact C15_no_removal_panic_proof. Qed.
Print Assumptions C15_no_removal_panic.

(* fixed(i) always returns the i-th node: after every history, for every requested type, strict or not,
   whatever node is excluded. *)
Theorem C15_fixed_ith :
  forall (c : cfg) (p0 : gpol) (h : list op) (rq : reqtype) (strict : bool) (excl : option nat) (i : Z),
    c_n c <> O -> g_policy (run c p0 h) = GFixed i -> 0 <= i < Z.of_nat (c_n c) ->
    exists sel, select c (run c p0 h) rq strict excl = MOk [Z.to_nat i] 0 sel.
Proof. intros c p0 h. exact (C15_fixed_ith_proof c (run c p0 h)). Qed.
Print Assumptions C15_fixed_ith.

(* fixed policy against the spec checker (also: index out of range, empty group) *)
Theorem C15_select_fixed_ok :
  forall (c : cfg) (p0 : gpol) (h : list op) (rq : reqtype) (strict : bool) (excl : option nat) (i : Z) (r : sel_res),
    g_policy (run c p0 h) = GFixed i ->
    In r (results_of (select c (run c p0 h) rq strict excl)) ->
    select_ok c (spec_run c p0 h) (key_of rq) strict excl r = true.
Proof. exact C15_select_fixed_ok_proof. Qed.
Print Assumptions C15_select_fixed_ok.

(* random policy (C15_select_sound / _complete / _excluded_respected / _random_only_alive in one statement):
   every result the random selection can produce after any history is accepted by the spec: it is a node of
   the alive view of the first type, in the documented order data-UDP -> DNS-UDP -> TCP, then the other IP
   family when not strict, that has a non-excluded alive node; it is never the excluded node; `no alive
   node` is reported only when every type tried has no non-excluded alive node; the single node of a
   one-node group is handed out as a last resort (strict callers only, as in the code). *)
Theorem C15_select_random_ok :
  forall (c : cfg) (p0 : gpol) (h : list op) (rq : reqtype) (strict : bool) (excl : option nat) (r : sel_res),
    c_n c <> O -> g_policy (run c p0 h) = GSet SRandom ->
    In r (results_of (select c (run c p0 h) rq strict excl)) ->
    select_ok c (spec_run c p0 h) (key_of rq) strict excl r = true.
Proof. exact C15_select_random_ok_proof. Qed.
Print Assumptions C15_select_random_ok.

(* min policies, part proved for every set state: the excluded node is never what the set hands out *)
Theorem C15_excluded_respected_min :
  forall (a : aset) (e d : nat) (l : Z), get_min a (Some e) = (Some d, l) -> d <> e.
Proof. exact C15_get_min_excluded_proof. Qed.
Print Assumptions C15_excluded_respected_min.

(*MINPROPS*)

(* "merely better" cannot be read strictly: with tolerance 30 ms and the current choice at 20 ms, a node that
   reports the same 20 ms takes over (the spec's switch_ok therefore allows ties). *)
Theorem C15_tie_switch_witness :
  let best h := match g_sets (run w2_cfg (GSet (SMin MLast)) h) with Some s => a_best (s (DTcp, V4)) | None => None end in
  best (firstn 2 w2_hist) = Some 1%nat /\ best w2_hist = Some 0%nat.
Proof. exact C15_tie_switch_witness_proof. Qed.

(* Non-vacuity: 3 nodes, random policy; data-UDP emptied, DNS-UDP left with node 1 only: excluding node 1 the
   selection falls through to TCP and offers {0, 2}; without exclusion it offers {1}; after a switch to
   fixed(2) it returns node 2 although node 2 is excluded. *)
Example C15_nonvacuous :
  let c := {| c_n := 3; c_off := fun _ => 0; c_tol := 0 |} in
  let h := [ONotify 1 (DDataUdp, V4) false; ONotify 0 (DDataUdp, V4) false; ONotify 2 (DDataUdp, V4) false;
            ONotify 0 (DDnsUdp, V4) false; ONotify 2 (DDnsUdp, V4) false] in
  let rq := {| rq_l4 := UDP; rq_ipv := V4; rq_isdns := false; rq_udpdom := UData |} in
  g_policy (run c (GSet SRandom) h) = GSet SRandom /\
  results_of (select c (run c (GSet SRandom) h) rq true (Some 1%nat)) = [ROk 0 0; ROk 2 0]
  /\ results_of (select c (run c (GSet SRandom) h) rq true None) = [ROk 1 0]
  /\ results_of (select c (run c (GSet SRandom) (h ++ [OPolicy (GFixed 2)])) rq true (Some 2%nat)) = [ROk 2 0].
Proof. exact C15_nonvacuous_proof. Qed.
