(* C09 — proofs about the pipelined-connection model (Part P of C09_Model.v). *)
From Coq Require Import List NArith Bool Lia.
From Dae Require Import C09_Spec C09_Model C09_Check.
Import ListNotations.
Open Scope N_scope.

(* ---------------- association-list helpers ---------------- *)
Lemma lookup_remove_key_neq : forall {V} k k' (l : list (N * V)), k' <> k -> lookup k' (remove_key k l) = lookup k' l.
Proof.
  induction l as [|[a v] t IH]; intros H; cbn; auto.
  destruct (a =? k) eqn:E; cbn.
  - apply N.eqb_eq in E; subst. destruct (k =? k') eqn:E2; [apply N.eqb_eq in E2; congruence|auto].
  - destruct (a =? k'); auto.
Qed.

Lemma lookup_remove_key_eq : forall {V} k (l : list (N * V)), lookup k (remove_key k l) = None.
Proof.
  induction l as [|[a v] t IH]; cbn; auto.
  destruct (a =? k) eqn:E; cbn; auto. rewrite E. auto.
Qed.

Lemma lookup_set_key_eq : forall {V} k (v : V) l, lookup k (set_key k v l) = Some v.
Proof. intros. unfold set_key. cbn. rewrite N.eqb_refl. auto. Qed.

Lemma lookup_set_key_neq : forall {V} k k' (v : V) l, k' <> k -> lookup k' (set_key k v l) = lookup k' l.
Proof.
  intros. unfold set_key. cbn. destruct (k =? k') eqn:E; [apply N.eqb_eq in E; congruence|].
  apply lookup_remove_key_neq; auto.
Qed.

Lemma lookup_cons_neq : forall {V} k k' (v : V) l, k' <> k -> lookup k' ((k, v) :: l) = lookup k' l.
Proof. intros. cbn. destruct (k =? k') eqn:E; [apply N.eqb_eq in E; congruence|auto]. Qed.

Lemma lookup_remove_key_some : forall {V} k k' (v : V) l,
  lookup k' (remove_key k l) = Some v -> k' <> k /\ lookup k' l = Some v.
Proof.
  intros V k k' v l H. destruct (N.eq_dec k' k) as [->|Hne].
  - rewrite lookup_remove_key_eq in H. discriminate.
  - rewrite lookup_remove_key_neq in H; auto.
Qed.

Lemma in_set_true : forall x l, in_set x l = true <-> In x l.
Proof.
  unfold in_set. intros. rewrite existsb_exists. split.
  - intros (y & Hy & E). apply N.eqb_eq in E. subst; auto.
  - intros H. exists x. rewrite N.eqb_refl. auto.
Qed.

Lemma in_remove_id : forall x y l, In x l -> x <> y -> In x (remove_id y l).
Proof.
  intros. unfold remove_id. apply filter_In. split; auto.
  apply negb_true_iff. apply N.eqb_neq; auto.
Qed.

Lemma word_free_bit_fresh : forall al w b, word_free_bit al w = Some b -> in_set (w * 64 + b) al = false.
Proof.
  unfold word_free_bit. intros al w b H. apply find_some in H as [_ H]. apply negb_true_iff in H. exact H.
Qed.

Lemma first_word_fresh : forall al sw is id, first_word al sw is = Some id -> in_set id al = false.
Proof.
  induction is as [|i r IH]; cbn [first_word]; intros id H; try discriminate.
  destruct (word_free_bit al ((sw + i) mod 64)) eqn:E.
  - inversion H; subst. eapply word_free_bit_fresh; eauto.
  - auto.
Qed.

Lemma alloc_id_fresh : forall al next id, alloc_id al next = Some id -> ~ In id al.
Proof.
  unfold alloc_id. intros al next id H Hin. apply first_word_fresh in H.
  apply in_set_true in Hin. congruence.
Qed.

(* fail_waiters keeps every client's key and wire id *)
Lemma lookup_fail_waiters : forall pend cl c,
  lookup c (fail_waiters pend cl) =
  match lookup c cl with
  | Some (CWait id) => if in_set c (map snd pend) then Some (CErr id) else Some (CWait id)
  | o => o
  end.
Proof.
  unfold fail_waiters. induction cl as [|[k st] t IH]; intros c; cbn [map lookup fst snd]; auto.
  destruct (k =? c) eqn:E2.
  - apply N.eqb_eq in E2; subst.
    destruct st; cbn [lookup fst snd]; rewrite ?N.eqb_refl; auto.
    destruct (in_set c (map snd pend)); cbn [lookup fst snd]; rewrite N.eqb_refl; auto.
  - destruct st; cbn [lookup fst snd]; rewrite ?E2; auto.
    destruct (in_set k (map snd pend)); cbn [lookup fst snd]; rewrite E2; auto.
Qed.

(* ---------------- invariant ---------------- *)
Definition deliv (st : cst) : option (N * message) :=
  match st with CGot id m | CDoneOk id m => Some (id, m) | _ => None end.

Definition PInv (s : pstate) : Prop :=
  (forall c1 c2 st1 st2 id, lookup c1 (p_clients s) = Some st1 -> lookup c2 (p_clients s) = Some st2 ->
      held_id st1 = Some id -> held_id st2 = Some id -> c1 = c2)
  /\ (forall c st id, lookup c (p_clients s) = Some st -> held_id st = Some id -> In id (p_alloc s) /\ In (c, id) (p_log s))
  /\ (forall id c, lookup id (p_pending s) = Some c -> lookup c (p_clients s) = Some (CWait id))
  /\ (forall c st id m, lookup c (p_clients s) = Some st -> deliv st = Some (id, m) -> m_id m = id /\ In (c, id) (p_log s)).

Lemma pinv_init : PInv pinit.
Proof. unfold PInv, pinit; cbn. repeat split; intros; discriminate. Qed.

Lemma lookup_cons_eq : forall {V} k (v : V) l, lookup k ((k, v) :: l) = Some v.
Proof. intros; cbn; rewrite N.eqb_refl; auto. Qed.

(* a client update that keeps (or drops) the wire id the client held *)
Lemma pinv_update : forall s c old new alloc' pend' closed' log',
  PInv s -> lookup c (p_clients s) = Some old ->
  (forall id, held_id new = Some id -> held_id old = Some id) ->
  (forall id m, deliv new = Some (id, m) -> (deliv old = Some (id, m)) \/ (held_id old = Some id /\ m_id m = id)) ->
  (forall x, In x (p_alloc s) -> (forall st c', c' <> c -> lookup c' (p_clients s) = Some st -> held_id st = Some x -> In x alloc')
                                 /\ (held_id new = Some x -> In x alloc')) ->
  (forall e, In e (p_log s) -> In e log') ->
  (forall id c', lookup id pend' = Some c' -> lookup id (p_pending s) = Some c' /\ (c' = c -> new = CWait id)) ->
  PInv {| p_alloc := alloc'; p_next := p_next s; p_pending := pend'; p_closed := closed';
          p_clients := set_key c new (p_clients s); p_log := log' |}.
Proof.
  intros s c old new alloc' pend' closed' log' (I1 & I2 & I3 & I4) Hc Hheld Hdel Hal Hlog Hpend.
  unfold PInv; cbn [p_alloc p_pending p_clients p_log].
  repeat split.
  - intros c1 c2 st1 st2 id H1 H2 E1 E2.
    destruct (N.eq_dec c1 c) as [->|N1]; destruct (N.eq_dec c2 c) as [->|N2]; auto.
    + rewrite lookup_set_key_eq in H1. inversion H1; subst. rewrite lookup_set_key_neq in H2 by auto.
      symmetry. eapply I1; eauto.
    + rewrite lookup_set_key_eq in H2. inversion H2; subst. rewrite lookup_set_key_neq in H1 by auto.
      eapply I1; eauto.
    + rewrite lookup_set_key_neq in H1, H2 by auto. eapply I1; eauto.
  - destruct (N.eq_dec c0 c) as [->|N0].
    + rewrite lookup_set_key_eq in H. inversion H; subst.
      destruct (I2 c old id Hc (Hheld _ H0)) as [A _]. apply (Hal id A); auto.
    + rewrite lookup_set_key_neq in H by auto.
      destruct (I2 c0 st id H H0) as [A _]. destruct (Hal id A) as [X _]. eapply X; eauto.
  - destruct (N.eq_dec c0 c) as [->|N0].
    + rewrite lookup_set_key_eq in H. inversion H; subst.
      apply Hlog. eapply I2; eauto.
    + rewrite lookup_set_key_neq in H by auto. apply Hlog. eapply I2; eauto.
  - intros id c' H. destruct (Hpend id c' H) as [H1 H2].
    destruct (N.eq_dec c' c) as [->|N0].
    + rewrite lookup_set_key_eq. rewrite (H2 eq_refl). auto.
    + rewrite lookup_set_key_neq by auto. apply I3; auto.
  - destruct (N.eq_dec c0 c) as [->|N0].
    + rewrite lookup_set_key_eq in H. inversion H; subst.
      destruct (Hdel id m H0) as [D|[D1 D2]].
      * eapply I4; eauto.
      * auto.
    + rewrite lookup_set_key_neq in H by auto. eapply I4; eauto.
  - destruct (N.eq_dec c0 c) as [->|N0].
    + rewrite lookup_set_key_eq in H. inversion H; subst.
      destruct (Hdel id m H0) as [D|[D1 D2]].
      * apply Hlog. eapply I4; eauto.
      * apply Hlog. eapply I2; eauto.
    + rewrite lookup_set_key_neq in H by auto. apply Hlog. eapply I4; eauto.
Qed.

Lemma pinv_add : forall s c new alloc' next' pend' closed' log',
  PInv s -> lookup c (p_clients s) = None ->
  (forall id, held_id new = Some id -> ~ In id (p_alloc s) /\ In id alloc' /\ In (c, id) log') ->
  deliv new = None ->
  (forall x, In x (p_alloc s) -> In x alloc') ->
  (forall e, In e (p_log s) -> In e log') ->
  (forall id c', lookup id pend' = Some c' -> (c' = c /\ new = CWait id) \/ lookup id (p_pending s) = Some c') ->
  PInv {| p_alloc := alloc'; p_next := next'; p_pending := pend'; p_closed := closed';
          p_clients := (c, new) :: p_clients s; p_log := log' |}.
Proof.
  intros s c new alloc' next' pend' closed' log' (I1 & I2 & I3 & I4) Hc Hheld Hdel Hal Hlog Hpend.
  unfold PInv; cbn [p_alloc p_pending p_clients p_log].
  repeat split.
  - intros c1 c2 st1 st2 id H1 H2 E1 E2.
    destruct (N.eq_dec c1 c) as [->|N1]; destruct (N.eq_dec c2 c) as [->|N2]; auto.
    + rewrite lookup_cons_eq in H1. inversion H1; subst. rewrite lookup_cons_neq in H2 by auto.
      destruct (Hheld id E1) as [F _]. destruct (I2 c2 st2 id H2 E2) as [A _]. contradiction.
    + rewrite lookup_cons_eq in H2. inversion H2; subst. rewrite lookup_cons_neq in H1 by auto.
      destruct (Hheld id E2) as [F _]. destruct (I2 c1 st1 id H1 E1) as [A _]. contradiction.
    + rewrite lookup_cons_neq in H1, H2 by auto. eapply I1; eauto.
  - destruct (N.eq_dec c0 c) as [->|N0].
    + rewrite lookup_cons_eq in H. inversion H; subst. apply Hheld; auto.
    + rewrite lookup_cons_neq in H by auto. apply Hal. eapply I2; eauto.
  - destruct (N.eq_dec c0 c) as [->|N0].
    + rewrite lookup_cons_eq in H. inversion H; subst. apply Hheld; auto.
    + rewrite lookup_cons_neq in H by auto. apply Hlog. eapply I2; eauto.
  - intros id c' H. destruct (Hpend id c' H) as [[-> ->]|H1].
    + apply lookup_cons_eq.
    + specialize (I3 id c' H1). destruct (N.eq_dec c' c) as [->|N0]; [congruence|].
      rewrite lookup_cons_neq by auto. auto.
  - destruct (N.eq_dec c0 c) as [->|N0].
    + rewrite lookup_cons_eq in H. inversion H; subst. congruence.
    + rewrite lookup_cons_neq in H by auto. eapply I4; eauto.
  - destruct (N.eq_dec c0 c) as [->|N0].
    + rewrite lookup_cons_eq in H. inversion H; subst. congruence.
    + rewrite lookup_cons_neq in H by auto. apply Hlog. eapply I4; eauto.
Qed.

Lemma fail_waiters_same : forall pend cl c st',
  lookup c (fail_waiters pend cl) = Some st' ->
  exists st, lookup c cl = Some st /\ held_id st' = held_id st /\ deliv st' = deliv st.
Proof.
  intros pend cl c st' H. rewrite lookup_fail_waiters in H.
  destruct (lookup c cl) as [st|]; try discriminate.
  destruct st; try (inversion H; subst; eexists; repeat split; eauto; fail).
  destruct (in_set c (map snd pend)); inversion H; subst; eexists; repeat split; eauto.
Qed.

Lemma pinv_timeout : forall s pend,
  PInv s ->
  PInv {| p_alloc := p_alloc s; p_next := p_next s; p_pending := []; p_closed := true;
          p_clients := fail_waiters pend (p_clients s); p_log := p_log s |}.
Proof.
  intros s pend (I1 & I2 & I3 & I4).
  unfold PInv; cbn [p_alloc p_pending p_clients p_log].
  repeat split.
  - intros c1 c2 st1 st2 id H1 H2 E1 E2.
    destruct (fail_waiters_same _ _ _ _ H1) as (s1 & L1 & A1 & _).
    destruct (fail_waiters_same _ _ _ _ H2) as (s2 & L2 & A2 & _).
    apply (I1 c1 c2 s1 s2 id L1 L2); congruence.
  - destruct (fail_waiters_same _ _ _ _ H) as (s1 & L1 & A1 & _). eapply I2; [exact L1|congruence].
  - destruct (fail_waiters_same _ _ _ _ H) as (s1 & L1 & A1 & _). eapply I2; [exact L1|congruence].
  - intros id c H; discriminate.
  - destruct (fail_waiters_same _ _ _ _ H) as (s1 & L1 & _ & D1). rewrite D1 in H0. exact (proj1 (I4 _ _ _ _ L1 H0)).
  - destruct (fail_waiters_same _ _ _ _ H) as (s1 & L1 & _ & D1). rewrite D1 in H0. exact (proj2 (I4 _ _ _ _ L1 H0)).
Qed.

Lemma pstep_inv : forall s e, PInv s -> PInv (pstep s e).
Proof.
  intros s e I. pose proof I as (I1 & I2 & I3 & I4). destruct e as [c|m|c|c]; cbn [pstep].
  - destruct (lookup c (p_clients s)) eqn:L; auto.
    destruct (p_closed s).
    + eapply pinv_add; eauto; cbn; intros; try discriminate; auto.
    + destruct (alloc_id (p_alloc s) (p_next s)) as [id|] eqn:A.
      * eapply pinv_add; eauto; cbn [held_id deliv]; auto.
        -- intros id0 H. inversion H; subst. repeat split; [eapply alloc_id_fresh; eauto|left; auto|left; auto].
        -- intros x Hx; right; auto.
        -- intros e He; right; auto.
        -- intros id0 c' H. cbn [lookup] in H. destruct (id =? id0) eqn:E.
           ++ apply N.eqb_eq in E; subst. inversion H; subst. left; auto.
           ++ right; auto.
      * eapply pinv_add; eauto; cbn; intros; try discriminate; auto.
  - destruct (p_closed s) eqn:C; auto.
    destruct (m_id m <? C09_Consts.dnsPipelineMaxIDs); auto.
    destruct (lookup (m_id m) (p_pending s)) as [c|] eqn:L; auto.
    pose proof (I3 _ _ L) as Lc.
    eapply pinv_update; eauto; cbn [held_id deliv].
    + intros id m0 H; inversion H; subst. right; auto.
    + intros id c' H. apply lookup_remove_key_some in H as [Hne H]. split; auto.
      intros ->. specialize (I3 _ _ H). rewrite Lc in I3. inversion I3; congruence.
  - destruct (lookup c (p_clients s)) as [[id|id m|id| |]|] eqn:L; auto.
    + (* CGot -> CDoneOk *)
      eapply pinv_update; eauto; cbn [held_id deliv]; try (intros; discriminate); auto.
      * intros x Hx; split; [|intros; discriminate].
        intros st c' Hne Hl Hh. apply in_remove_id; auto.
        intros ->. apply Hne. eapply (I1 c' c); eauto.
      * intros id0 c' H. split; auto. intros ->. specialize (I3 _ _ H). congruence.
    + (* CErr -> CDoneErr *)
      eapply pinv_update; eauto; cbn [held_id deliv]; try (intros; discriminate); auto.
      * intros x Hx; split; [|intros; discriminate].
        intros st c' Hne Hl Hh. apply in_remove_id; auto.
        intros ->. apply Hne. eapply (I1 c' c); eauto.
      * intros id0 c' H. split; auto. intros ->. specialize (I3 _ _ H). congruence.
  - destruct (lookup c (p_clients s)) as [[id|id m|id| |]|] eqn:L; auto.
    apply pinv_timeout; auto.
Qed.

Lemma pfold_inv : forall evs s, PInv s -> PInv (fold_left pstep evs s).
Proof. induction evs; cbn; intros; auto. apply IHevs, pstep_inv; auto. Qed.

Lemma C09_pipelined_ids_unique_proof : forall evs, let s := prun evs in
  (forall c1 c2 st1 st2 id, lookup c1 (p_clients s) = Some st1 -> lookup c2 (p_clients s) = Some st2 ->
      held_id st1 = Some id -> held_id st2 = Some id -> c1 = c2) /\
  (forall c id m, (lookup c (p_clients s) = Some (CGot id m) \/ lookup c (p_clients s) = Some (CDoneOk id m)) ->
      m_id m = id /\ In (c, id) (p_log s)) /\
  (forall m, p_closed s = true -> pstep s (PResp m) = s).
Proof.
  intros evs s. destruct (pfold_inv evs pinit pinv_init) as (I1 & I2 & I3 & I4). fold (prun evs) in *. fold s in I1, I2, I3, I4.
  split; [exact I1|split].
  - intros c id m [H|H]; eapply I4; eauto; reflexivity.
  - intros m C. cbn [pstep]. rewrite C. reflexivity.
Qed.

(* ---------------- every delivery answers the receiver's own question, for honest upstreams -------- *)
Definition okc (qs : list (N * question)) (kc : N * cst) : bool :=
  match snd kc with
  | CDoneOk id m | CGot id m => answers_own id (qof qs (fst kc)) m
  | _ => true
  end.

Lemma forallb_filter : forall {A} (P Q : A -> bool) l, forallb P l = true -> forallb P (filter Q l) = true.
Proof.
  induction l; cbn; intros H; auto. apply andb_true_iff in H as [Ha H].
  destruct (Q a); cbn; rewrite ?Ha; auto.
Qed.

Lemma forallb_set_key : forall {V} (P : N * V -> bool) c v l,
  P (c, v) = true -> forallb P l = true -> forallb P (set_key c v l) = true.
Proof. intros. unfold set_key, remove_key. cbn. rewrite H. apply forallb_filter; auto. Qed.

Lemma lookup_forallb : forall {V} (P : N * V -> bool) c v l,
  lookup c l = Some v -> forallb P l = true -> P (c, v) = true.
Proof.
  induction l as [|[k x] t IH]; cbn; intros H F; try discriminate.
  apply andb_true_iff in F as [Fa F].
  destruct (k =? c) eqn:E.
  - apply N.eqb_eq in E; subst. inversion H; subst; auto.
  - auto.
Qed.

Lemma okc_fail_waiters : forall qs pend cl, forallb (okc qs) cl = true -> forallb (okc qs) (fail_waiters pend cl) = true.
Proof.
  unfold fail_waiters. induction cl as [|[k st] t IH]; cbn [map forallb]; intros H; auto.
  apply andb_true_iff in H as [Ha H]. rewrite (IH H), andb_true_r.
  destruct st; cbn [snd fst]; auto.
  destruct (in_set k (map snd pend)); auto.
Qed.

Lemma pstep_ok : forall qs s e,
  forallb (okc qs) (p_clients s) = true ->
  pipe_honest qs s [e] = true ->
  forallb (okc qs) (p_clients (pstep s e)) = true.
Proof.
  intros qs s e F Hh. destruct e as [c|m|c|c]; cbn [pstep].
  - destruct (lookup c (p_clients s)); auto.
    destruct (p_closed s); [cbn; auto|].
    destruct (alloc_id (p_alloc s) (p_next s)); cbn; auto.
  - cbn [pipe_honest] in Hh. rewrite andb_true_r in Hh.
    destruct (p_closed s); auto.
    destruct (m_id m <? C09_Consts.dnsPipelineMaxIDs); auto.
    destruct (lookup (m_id m) (p_pending s)) as [c|]; auto.
    cbn [p_clients]. apply forallb_set_key; auto.
  - destruct (lookup c (p_clients s)) as [[id|id m|id| |]|] eqn:L; auto; cbn [p_clients].
    + apply forallb_set_key; auto. exact (lookup_forallb (okc qs) c _ _ L F).
    + apply forallb_set_key; auto.
  - destruct (lookup c (p_clients s)) as [[id|id m|id| |]|] eqn:L; auto; cbn [p_clients].
    apply okc_fail_waiters; auto.
Qed.

Lemma pipe_fold_ok : forall qs evs s,
  forallb (okc qs) (p_clients s) = true -> pipe_honest qs s evs = true ->
  forallb (okc qs) (p_clients (fold_left pstep evs s)) = true.
Proof.
  induction evs as [|e evs IH]; cbn [fold_left pipe_honest]; intros s F H; auto.
  apply andb_true_iff in H as [H1 H2].
  apply IH; auto. apply pstep_ok; auto. cbn [pipe_honest]. rewrite H1. auto.
Qed.

Lemma C09_pipelined_own_answer_partial_proof : forall qs evs,
  pipe_honest qs pinit evs = true -> pipe_model_ok qs (prun evs) = true.
Proof.
  intros qs evs H. unfold pipe_model_ok, prun.
  pose proof (pipe_fold_ok qs evs pinit eq_refl H) as F.
  unfold okc in F. exact F.
Qed.

Lemma C09_pipelined_own_answer_refuted_proof : exists qs evs, pipe_model_ok qs (prun evs) = false.
Proof.
  pose (q1 := {| q_name := 1; q_case := 0; q_type := 1; q_class := 1 |}).
  pose (q2 := {| q_name := 2; q_case := 0; q_type := 1; q_class := 1 |}).
  pose (m := {| m_id := 0; m_q := Some q1; m_rcode := 0; m_tc := false;
                m_ans := [{| rr_name := 1; rr_type := 1; rr_serial := 7 |}] |}).
  exists [(1, q1); (2, q2)], [PStart 1; PResp m; PFinish 1; PStart 2; PResp m].
  vm_compute. reflexivity.
Qed.

Print Assumptions C09_pipelined_ids_unique_proof.
Print Assumptions C09_pipelined_own_answer_partial_proof.
