(* C06 — quicutils.DecryptQuic_ (cipher.go): the length / offset arithmetic around the packet protection.
   The cryptography is an oracle (header protection may reveal ANY packet-number length 1..4); the
   slice bounds and the make() size are not.  Every bound is instrumented: outside [0, len] or a
   negative size is the distinguished Oob (Go panics: slice bounds out of range / makeslice).
   Which quantity the sample guard bounds is extracted from the source (gen: quic_sample_guard_on_block).
   Preconditions established by sniffQuicBlock (quic.go) before the call: 1 <= pnOffset,
   pnOffset + 4 <= len(buf), blockEnd <= len(buf).  No proofs. *)
From Coq Require Import List NArith Bool Arith.
From Dae.gen Require Import C06_Extracted.
From Dae Require Import C06_Spec C06_Model.
Import ListNotations.
Open Scope N_scope.

Definition bound (lo hi len : N) : rr unit := if (lo <=? hi) && (hi <=? len) then Ok tt else Err Oob.

(* Ok (payloadOffset, blockEnd, plaintext size) ; Err NotApplicable = "return nil, io.ErrUnexpectedEOF" *)
Definition decrypt_arith (guard_on_block : bool) (len pnoff blockend pnlen : N) : rr (N * N * N) :=
  let sample_off := pnoff + max_pn_len in
  let too_short := if guard_on_block then blockend <? sample_off + quic_sample_size   (* blockEnd-sampleOffset < SampleSize, Go ints *)
                   else len <? sample_off + quic_sample_size in
  if too_short then Err NotApplicable else
  dom ' _ <- bound sample_off (sample_off + quic_sample_size) len ;   (* buf[sampleOffset : sampleOffset+SampleSize] *)
  dom ' _ <- bound 1 pnoff len ;                                      (* header := buf[:pnOffset]; &header[0] *)
  dom ' _ <- bound pnoff (pnoff + max_pn_len) len ;                   (* buf[pnOffset : pnOffset+MaxPacketNumberLength] *)
  let payload_off := pnoff + pnlen in
  dom ' _ <- bound payload_off blockend len ;                         (* payload := buf[payloadOffset:blockEnd] *)
  dom ' _ <- bound 0 payload_off len ;                                (* headerEnd := buf[:payloadOffset] *)
  (* PayloadDecrypt: pool.Get(len(ciphertext) - aead.Overhead()) : a negative size panics *)
  if blockend - payload_off <? 16 then Err Oob else
  Ok (payload_off, blockend, blockend - payload_off - 16).
