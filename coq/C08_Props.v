(* C08 — property theorems only.  Each is closed by `exact` of a lemma of C08_Proofs.v.
   m_run c h = the model of the cache code run over a timed history h (inserts through the production
   insert path, lookups, janitor runs, reload clones, in-place reconfigurations, refresh completions,
   entry-level probes) from an empty cache with configuration c.  Histories, configurations, instants,
   names, types, scopes and keys are universally quantified with no bound.
   history_wf = the configured stale window (initially and after every reload) is not negative. *)
From Coq Require Import List ZArith NArith Bool.
From Dae Require Import C08_Spec C08_Model C08_Proofs C08_Ttl C08_Lru C08_LruStore C08_Keys C08_RefreshProofs C08_LifecycleProofs C08_Recency.
Import ListNotations.
Open Scope Z_scope.

(* Scope + liveness (C08_scope, C08_fresh_until_deadline, C08_never_after_window, C08_fixed_ttl of the design,
   as one statement in the spec's terms): whatever a lookup under cache key `key` serves after any history
   is the answer of the MOST RECENT cacheable insert made under exactly that key, and at the instant of the
   lookup that insert's deadline d - the spec's: insert instant + TTL, or + the fixed TTL configured for that
   name compared case-insensitively - has not passed, or optimistic caching is on in the configuration then in
   force and the instant is inside the stale window after d. *)
Theorem C08_served_only_live :
  forall (c : cfg) (h : list timed) (now : Z) (key : bytes) (ans ttl : Z) (r : bool),
    history_wf c h ->
    snd (m_lookup (fst (m_run c h)) now key) = ObLook true ans ttl r ->
    exists d, last_insert c h key None = Some (ans, d)
              /\ servable (normalize (cfg_after c h)) d now <> None.
Proof. exact served_only_live_proof. Qed.
Print Assumptions C08_served_only_live.

(* The same about the cache contents: the served answer is the one stored under that key, servable now. *)
Theorem C08_never_after_window :
  forall (c : cfg) (h : list timed) (now : Z) (key : bytes) (ans ttl : Z) (r : bool),
    history_wf c h ->
    let s := fst (m_run c h) in
    snd (m_lookup s now key) = ObLook true ans ttl r ->
    exists e, mfind key (m_store s) = Some e /\ ans = e_ans e /\ servable (m_cfg s) (e_deadline e) now <> None.
Proof. exact never_after_window_proof. Qed.
Print Assumptions C08_never_after_window.

(* fixed_domain_ttl: the deadline computed by the insert path (configured names lower-cased by the parser,
   reply name lower-cased at the lookup) is the spec's, for every configuration, name, TTL and instant. *)
Theorem C08_fixed_ttl :
  forall fixed host ttl now, m_deadline fixed host ttl now = spec_deadline fixed host ttl now.
Proof. exact fixed_ttl_proof. Qed.
Print Assumptions C08_fixed_ttl.

(* Stale window: in every reachable cache, an entry whose deadline has passed is served while optimistic
   caching is on and the instant is inside the window (window 0 = no limit). *)
Theorem C08_stale_within_window :
  forall c h now key e,
    history_wf c h ->
    mfind key (m_store (fst (m_run c h))) = Some e ->
    servable (m_cfg (fst (m_run c h))) (e_deadline e) now = Some Stale ->
    exists ttl r, snd (m_lookup (fst (m_run c h)) now key) = ObLook true (e_ans e) ttl r.
Proof. exact stale_within_window_proof. Qed.
Print Assumptions C08_stale_within_window.

(* At most one refresh per cycle: after a lookup that asked for a refresh of `key`, no later lookup of `key`
   asks again, whatever happens in between (other lookups, janitor runs, in-place reconfiguration, inserts
   and refresh completions of OTHER keys), until a new answer for key, the end of a refresh of key, or a reload. *)
Theorem C08_single_refresh :
  forall (u : list skey) (s : mstate) (now1 : Z) (key : bytes) (ans1 ttl1 : Z) (h : list timed) (now2 ans2 ttl2 : Z),
    snd (m_lookup s now1 key) = ObLook true ans1 ttl1 true ->
    forallb (fun t => negb (resets key (snd t))) h = true ->
    snd (m_lookup (fst (m_run_from u (fst (m_lookup s now1 key)) h)) now2 key) <> ObLook true ans2 ttl2 true.
Proof. exact single_refresh_proof. Qed.
Print Assumptions C08_single_refresh.

(* The same clause at the granularity of the atomic operations on DnsCache.refreshing, over ALL interleavings:
   any number of threads - lookups of one stale entry that reached the claim (one CompareAndSwap, as written)
   and completions of background refreshes (Load, then Store false) - started in any mix, scheduled in any
   order (sched = which thread performs its next atomic operation; arbitrary, unbounded).  Never are two
   lookups told to refresh without a completion clearing the flag in between.  open0 says whether a refresh
   was already claimed before the schedule starts (then the flag is set). *)
Theorem C08_single_refresh_atomic :
  forall (flag0 open0 : bool) (threads : list rpc) (sched : list nat),
    forallb rpc_start threads = true -> (open0 = true -> flag0 = true) ->
    one_claim_per_cycle open0 (snd (rrun VCas {| r_flag := flag0; r_pcs := threads |} sched)) = true.
Proof. exact single_refresh_atomic_proof. Qed.
Print Assumptions C08_single_refresh_atomic.

(* A claim written as test-then-set (Load, then Store true) does NOT have the property: two lookups, schedule
   Load1 Load2 Store1 Store2, are both told to refresh.  (Not the code; the model variant exists so that a
   source of that shape is still followed step by step - and reported.) *)
Theorem C08_single_refresh_loadstore_refuted :
  one_claim_per_cycle false (snd (rrun VLoadStore {| r_flag := false; r_pcs := [LStart; LStart] |} [0; 1; 0; 1]%nat)) = false.
Proof. exact loadstore_refuted_proof. Qed.
Print Assumptions C08_single_refresh_loadstore_refuted.

(* The refresh life cycle with replacement entries, at atomic granularity.  The flag lives on the entry; a
   thread is a lookup (map Load, then the CAS on the entry it found) followed, when it claimed, by the refresh
   it starts: the upstream work ends with no answer or with dnsCache.Store of a new entry (already stale: TTL 0
   or fixed_domain_ttl 0, both stored by the insert path; or fresh), then backgroundRefresh's deferred block,
   which looks the key up again and releases the slot only when the map still holds the entry this refresh
   claimed (`cache == claimed`, VClaimedIfCurrent).  For any number of threads, any outcomes and EVERY schedule of
   the atomic operations, at most one refresh of the key is in flight (claimed, upstream work not ended). *)
Theorem C08_refresh_lifecycle :
  forall (outcomes : list outcome) (sched : list nat), trun_ok VClaimedIfCurrent (tinit outcomes) sched = true.
Proof. exact lifecycle_partial_proof. Qed.
Print Assumptions C08_refresh_lifecycle.

(* A deferred block that releases whatever entry the map holds (VCurrent, the code before the repair) does NOT
   have the property: R1 stores an already-stale E2, a second lookup claims E2 (R2 in flight), R1's deferred block
   clears E2's flag, a third lookup claims E2 again - R2 and R3 in flight.  The variant stays in the model so that
   a source of that shape is still followed step by step, and reported.
   Witness: threads [stores a stale answer; fails; fails], schedule 0 0 0 1 1 0 0 0 2 2. *)
Theorem C08_refresh_lifecycle_current_refuted :
  ~ (forall (outcomes : list outcome) (sched : list nat), trun_ok VCurrent (tinit outcomes) sched = true).
Proof. exact lifecycle_full_refuted_proof. Qed.
Print Assumptions C08_refresh_lifecycle_current_refuted.

(* TTL truthfulness of the in-place fill: the shown TTL never exceeds max 1 (floor remaining) + slack. *)
Theorem C08_fill_ttl_truthful : forall d now, now < d -> ttl_ok d now (ttl_from_deadline d now) = true.
Proof. exact fill_ttl_truthful_proof. Qed.
Print Assumptions C08_fill_ttl_truthful.

(* TTL truthfulness over every interleaving of inserts, lookups, re-packs, janitor runs, reloads and refresh
   completions (no hypothesis on the history, the configuration or the instants): a fresh hit never shows
   more than max 1 (floor remaining seconds) + 15. *)
Theorem C08_ttl_truthful :
  forall (c : cfg) (h : list timed) (now : Z) (key : bytes) (e : entry) (ans ttl : Z) (r : bool),
    mfind key (m_store (fst (m_run c h))) = Some e -> now < e_deadline e ->
    snd (m_lookup (fst (m_run c h)) now key) = ObLook true ans ttl r ->
    ttl_ok (e_deadline e) now ttl = true.
Proof. exact ttl_truthful_proof. Qed.
Print Assumptions C08_ttl_truthful.

(* ... and in the spec's terms: against the deadline of the most recent insert under the key. *)
Theorem C08_ttl_truthful_spec :
  forall (c : cfg) (h : list timed) (now : Z) (key : bytes) (ans ttl : Z) (r : bool),
    history_wf c h ->
    snd (m_lookup (fst (m_run c h)) now key) = ObLook true ans ttl r ->
    exists d, last_insert c h key None = Some (ans, d) /\ (now < d -> ttl_ok d now ttl = true).
Proof. exact ttl_truthful_spec_proof. Qed.
Print Assumptions C08_ttl_truthful_spec.

(* LRU: the heap selection of evictLRUIfFull (buildMinHeap, then k times "swap root with the last heap slot,
   heapifyMin") as written.  For every list of (key, lastAccess) entries and every k < length: the result is
   a rearrangement of the entries, the evicted ones are its last k positions, and every evicted entry was
   used no later than every kept one (ties arbitrary) - i.e. it selects what sorting by lastAccess would. *)
Theorem C08_lru :
  forall (entries : list cent) (k : nat),
    (k < length entries)%nat ->
    let h := extract k 0 (build_min_heap entries) in
    let m := (length entries - k)%nat in
    select_oldest entries k = skipn m h
    /\ Permutation.Permutation entries h /\ length h = length entries
    /\ (forall a b, (a < m)%nat -> (m <= b < length entries)%nat -> la h b <= la h a).
Proof. exact select_oldest_proof. Qed.
Print Assumptions C08_lru.

(* LRU at store level, for EVERY iteration order of the map (the oracle is universally quantified: any list
   without repetition that contains every key of the store, possibly among keys that are gone): with limit n
   a store of at most n entries is left alone; otherwise exactly n entries survive, all of them entries of the
   store, and no evicted entry was used more recently than a surviving one.  The order can only decide ties. *)
Theorem C08_lru_store :
  forall (st : store) (order : list bytes) (n : Z),
    NoDup (keys_of st) -> NoDup order -> incl (keys_of st) order -> 0 < n ->
    let st' := evict_lru n st order in
    (Z.of_nat (length st) <= n -> st' = st)
    /\ (n < Z.of_nat (length st) ->
        Z.of_nat (length st') = n /\ (forall p, In p st' -> In p st)
        /\ (forall ke e ks s, In (ke, e) st -> ~ In (ke, e) st' -> In (ks, s) st' -> e_last e <= e_last s)).
Proof. exact evict_lru_store_proof. Qed.
Print Assumptions C08_lru_store.

(* every reachable cache holds one entry per key (the hypothesis of C08_lru_store) ... *)
Theorem C08_store_keys_unique : forall c h, NoDup (keys_of (m_store (fst (m_run c h)))).
Proof. exact keys_unique_proof. Qed.
Print Assumptions C08_store_keys_unique.

(* ... hence, for the janitor of every reachable cache, every instant and every iteration order taken before
   the run: after the time-based pass (st1) the size limit keeps exactly max_cache_size entries of st1, none
   less recently used than an evicted one. *)
Theorem C08_janitor_lru :
  forall c h now (order : list bytes),
    let s := fst (m_run c h) in
    NoDup order -> incl (keys_of (m_store s)) order -> 0 < c_max (m_cfg s) ->
    let st1 := evict_expired (m_cfg s) (m_store s) now in
    let st' := m_store (m_janitor s now order) in
    (Z.of_nat (length st1) <= c_max (m_cfg s) -> st' = st1)
    /\ (c_max (m_cfg s) < Z.of_nat (length st1) ->
        Z.of_nat (length st') = c_max (m_cfg s) /\ (forall p, In p st' -> In p st1)
        /\ (forall ke e ks s0, In (ke, e) st1 -> ~ In (ke, e) st' -> In (ks, s0) st' -> e_last e <= e_last s0)).
Proof. exact janitor_lru_proof. Qed.
Print Assumptions C08_janitor_lru.

(* The type in the key: the model renders the query type as its decimal string for EVERY 16-bit value (however
   the code caches some of them); the harness reads the production cacheKey for all 65536 types on every run and
   the whole table is checked to be made of exactly these numerals (all digits, value = type, no leading zero -
   the characterisation proved here, which determines the string), a dense part of it by evaluating `digits` in Coq
   (all of it on the thorough tier).  C08_key_injective_partial / _scoped below quantify
   over every type below 65536. *)
Theorem C08_qtype_rendering :
  forall q, (q < 65536)%N ->
    Forall is_digit (digits q) /\ val (digits q) = q
    /\ (q = 0%N -> digits q = [48%N]) /\ (q <> 0%N -> exists d r, digits q = d :: r /\ d <> 48%N).
Proof. exact digits_canonical_proof. Qed.
Print Assumptions C08_qtype_rendering.
Theorem C08_qtype_rendering_injective :
  forall a b, (a < 65536)%N -> (b < 65536)%N -> digits a = digits b -> a = b.
Proof. exact digits_inj. Qed.
Print Assumptions C08_qtype_rendering_injective.
(* A rendering through a table indexed by type that is only bounds-checked (unfilled slots give an empty string;
   NOT the code) does not determine the type: SOA (6) and HINFO (13) of one name share a key. *)
Theorem C08_key_array_variant_refuted :
  key_of_array kw_n1 6 ScNone = key_of_array kw_n1 13 ScNone.
Proof. exact key_array_variant_refuted_proof. Qed.
Print Assumptions C08_key_array_variant_refuted.

(* What the LRU theorems order by is the instant of last use, across reloads: in every reachable cache - after any
   history with any number of reload clones and in-place reconfigurations - the lastAccess of the entry cached
   under a key is the instant of the most recent insert or lookup of that key (a lookup that is not answered
   removes the entry, so for a cached entry these are the answered lookups); a reload never changes it.
   With C08_janitor_lru: after a reload the size limit still keeps the most recently used entries. *)
Theorem C08_last_access_is_last_use :
  forall (c : cfg) (h : list timed) (key : bytes) (e : entry),
    mfind key (m_store (fst (m_run c h))) = Some e -> last_touch h key None = Some (e_last e).
Proof. exact last_access_is_last_use_proof. Qed.
Print Assumptions C08_last_access_is_last_use.

(* Key scoping.  Full statement: two questions get the same cache-key string iff their lower-cased fully
   qualified names, types and scope texts are equal.  It is false over arbitrary byte strings: a name read
   from the wire may contain '|' (miekg/dns does not escape it), and then an UNSCOPED key can equal a scoped one. *)
Definition C08_key_injective_full : Prop :=
  forall n1 q1 s1 n2 q2 s2, (q1 < 65536)%N -> (q2 < 65536)%N ->
    key_of n1 q1 s1 = key_of n2 q2 s2 ->
    lower (fqdn n1) = lower (fqdn n2) /\ q1 = q2 /\ scope_str s1 = scope_str s2.
Theorem C08_key_injective_refuted : ~ C08_key_injective_full.
Proof. exact key_injective_full_refuted_proof. Qed.
(* witness: ("a.", 1, upstream text "u.5") and the unscoped ("a.1|upstream@u.", 5) both give "a.1|upstream@u.5" *)
Print Assumptions C08_key_injective_refuted.
(* Partial (i): names without '|' (any scopes). *)
Theorem C08_key_injective_partial :
  forall n1 q1 s1 n2 q2 s2,
    ~ In bar n1 -> ~ In bar n2 -> (q1 < 65536)%N -> (q2 < 65536)%N ->
    (key_of n1 q1 s1 = key_of n2 q2 s2
     <-> lower (fqdn n1) = lower (fqdn n2) /\ q1 = q2 /\ scope_str s1 = scope_str s2).
Proof. exact key_injective_names_proof. Qed.
Print Assumptions C08_key_injective_partial.
(* Partial (ii): ANY names (with '|' too), when both keys are scoped by a scope text without '|' - every key the
   request path builds ("asis@addr:port", "reject", "upstream@scheme://host:port/path"). *)
Theorem C08_key_injective_scoped :
  forall n1 q1 s1 n2 q2 s2,
    scope_str s1 <> [] -> scope_str s2 <> [] -> ~ In bar (scope_str s1) -> ~ In bar (scope_str s2) ->
    (q1 < 65536)%N -> (q2 < 65536)%N ->
    (key_of n1 q1 s1 = key_of n2 q2 s2
     <-> lower (fqdn n1) = lower (fqdn n2) /\ q1 = q2 /\ scope_str s1 = scope_str s2).
Proof. exact key_injective_scoped_proof. Qed.
Print Assumptions C08_key_injective_scoped.

(* Non-vacuity: a well-formed history with a replacement under a differently-cased name whose fixed TTL is
   configured in yet another case, a reload, a fresh hit of the latest answer, a stale hit asking for a
   refresh inside the window, and a refusal beyond it. *)
Example C08_nonvacuous :
  let h := [(w_t0, Insert w_name 1 ScNone w_name false true 1 7 300);
            (w_t0 + sec, Lookup w_name 1 ScNone);
            (w_t0 + 2 * sec, Reload w_cfg);
            (w_t0 + 3 * sec, Insert [65; 46]%N 1 ScNone w_name false true 1 8 300)] in
  history_wf w_cfg h
  /\ snd (m_lookup (fst (m_run w_cfg h)) (w_t0 + 4 * sec) (key_of w_name 1 ScNone)) = ObLook true 8 2 false
  /\ last_insert w_cfg h (key_of w_name 1 ScNone) None = Some (8, w_t0 + 5 * sec)
  /\ snd (m_lookup (fst (m_run w_cfg h)) (w_t0 + 6 * sec) (key_of w_name 1 ScNone)) = ObLook true 8 2 true
  /\ snd (m_lookup (fst (m_run w_cfg h)) (w_t0 + 66 * sec) (key_of w_name 1 ScNone)) = ObLook false (-1) 0 false.
Proof. exact nonvacuous_proof. Qed.
