(* C08 — property theorems only.  Each is closed by `exact` of a lemma of C08_Proofs.v.
   m_run c h = the model of the cache code run over a timed history h (inserts through the production
   insert path, lookups, janitor runs, reload clones, in-place reconfigurations, refresh completions,
   entry-level probes) from an empty cache with configuration c.  Histories, configurations, instants,
   names, types, scopes and keys are universally quantified with no bound.
   history_wf = values in their domains: instants not before the epoch, reply TTLs not negative (uint32 in
   the code), configured fixed TTLs and stale window not negative. *)
From Coq Require Import List ZArith NArith Bool.
From Dae Require Import C08_Spec C08_Model C08_Proofs.
Import ListNotations.
Open Scope Z_scope.

(* Scope + liveness (C08_scope, C08_fresh_until_deadline, C08_never_after_window of the design, as one
   statement): whatever a lookup under cache key `key` serves after any history is the answer of the MOST
   RECENT cacheable insert made under exactly that key, and at the instant of the lookup that insert's
   deadline d (as computed by the insert path, m_deadline) has not passed - or optimistic caching is on in
   the configuration then in force and the instant is inside the stale window after d. *)
Theorem C08_served_only_live :
  forall (c : cfg) (h : list timed) (now : Z) (key : bytes) (ans ttl : Z) (r : bool),
    history_wf c h -> 0 <= now ->
    snd (m_lookup (fst (m_run c h)) now key) = ObLook true ans ttl r ->
    exists d, last_insert c h key None = Some (ans, d)
              /\ servable (normalize (cfg_after c h)) d now <> None.
Proof. exact served_only_live_proof. Qed.
Print Assumptions C08_served_only_live.

(* The same about the cache contents: the served answer is the one stored under that key, servable now. *)
Theorem C08_never_after_window :
  forall (c : cfg) (h : list timed) (now : Z) (key : bytes) (ans ttl : Z) (r : bool),
    history_wf c h -> 0 <= now ->
    let s := fst (m_run c h) in
    snd (m_lookup s now key) = ObLook true ans ttl r ->
    exists e, mfind key (m_store s) = Some e /\ ans = e_ans e /\ servable (m_cfg s) (e_deadline e) now <> None.
Proof. exact never_after_window_proof. Qed.
Print Assumptions C08_never_after_window.

(* fixed_domain_ttl.  Full statement: the insert path's deadline is the spec's (fixed TTL of that name,
   names compared case-insensitively).  It is FALSE of the code: the lookup in the fixed-TTL table uses the
   name as echoed by the upstream, not lower-cased. *)
Definition C08_fixed_ttl_full : Prop :=
  forall fixed host ttl now, m_deadline fixed host ttl now = spec_deadline fixed host ttl now.
Theorem C08_fixed_ttl_refuted : ~ C08_fixed_ttl_full.
Proof. exact fixed_ttl_full_refuted_proof. Qed.
Print Assumptions C08_fixed_ttl_refuted.
(* ... with the consequence that an answer is served after its configured fixed TTL has run out: *)
Theorem C08_fixed_ttl_served_refuted :
  snd (m_lookup (fst (m_run w_cfg_fixed w_hist_fixed)) (w_t0 + 2 * sec) (key_of [97; 46]%N 1 ScNone)) = ObLook true 7 298 false
  /\ servable (effective w_cfg_fixed) (spec_deadline (c_fixed w_cfg_fixed) [65; 46]%N 300 w_t0) (w_t0 + 2 * sec) = None.
Proof. exact fixed_ttl_served_refuted_proof. Qed.
Print Assumptions C08_fixed_ttl_served_refuted.
(* Partial: when no configured name differs from the reply's name only by letter case, the deadlines agree
   (and C08_served_only_live then speaks about the spec's deadline). *)
Theorem C08_fixed_ttl_partial :
  forall fixed host ttl now,
    case_consistent fixed (strip_dot host) -> m_deadline fixed host ttl now = spec_deadline fixed host ttl now.
Proof. exact fixed_ttl_partial_proof. Qed.
Print Assumptions C08_fixed_ttl_partial.

(* Stale window.  Full statement: an entry of a reachable cache whose deadline has passed is served while
   optimistic caching is on and the instant is inside the window.  It is FALSE of the code: the insert path
   never stores deadlineNano, from which GetStaleResponse computes the window. *)
Definition C08_stale_within_window_full : Prop :=
  forall c h now key e,
    history_wf c h ->
    mfind key (m_store (fst (m_run c h))) = Some e ->
    servable (m_cfg (fst (m_run c h))) (e_deadline e) now = Some Stale ->
    exists ttl r, snd (m_lookup (fst (m_run c h)) now key) = ObLook true (e_ans e) ttl r.
Theorem C08_stale_within_window_refuted : ~ C08_stale_within_window_full.
Proof. exact stale_within_window_full_refuted_proof. Qed.
Print Assumptions C08_stale_within_window_refuted.
(* Partial: for every entry whose deadlineNano was stored (entries that went through a reload clone), in any state. *)
Theorem C08_stale_within_window_partial :
  forall (s : mstate) (now : Z) (key : bytes) (e : entry),
    mfind key (m_store s) = Some e ->
    e_dnano e = e_deadline e ->
    servable (m_cfg s) (e_deadline e) now = Some Stale ->
    exists ttl r, snd (m_lookup s now key) = ObLook true (e_ans e) ttl r.
Proof. exact stale_within_window_partial_proof. Qed.
Print Assumptions C08_stale_within_window_partial.

(* At most one refresh per cycle: after a lookup that asked for a refresh of `key`, no later lookup of `key`
   asks again, whatever happens in between (other lookups, janitor runs, in-place reconfiguration, inserts
   and refresh completions of OTHER keys), until a new answer for key, the end of a refresh of key, or a reload. *)
Theorem C08_single_refresh :
  forall (u : list skey) (s : mstate) (now1 : Z) (key : bytes) (ans1 ttl1 : Z) (h : list timed) (now2 ans2 ttl2 : Z),
    snd (m_lookup s now1 key) = ObLook true ans1 ttl1 true ->
    forallb (fun t => negb (resets key (snd t))) h = true ->
    snd (m_lookup (fst (m_run_from u (fst (m_lookup s now1 key)) h)) now2 key) <> ObLook true ans2 ttl2 true.
Proof. exact single_refresh_proof. Qed.
Print Assumptions C08_single_refresh.

(* TTL truthfulness of the in-place fill (the path every production-inserted fresh entry takes, because its
   deadlineNano is unset): the shown TTL never exceeds max 1 (floor remaining) + slack. *)
Theorem C08_fill_ttl_truthful : forall d now, now < d -> ttl_ok d now (ttl_from_deadline d now) = true.
Proof. exact fill_ttl_truthful_proof. Qed.
Print Assumptions C08_fill_ttl_truthful.

(* Non-vacuity: a well-formed history with a replacement under a differently-cased name, a reload, a fresh hit
   of the latest answer, and a refusal after expiry. *)
Example C08_nonvacuous :
  let h := [(w_t0, Insert w_name 1 ScNone w_name false true 1 7 300);
            (w_t0 + sec, Lookup w_name 1 ScNone);
            (w_t0 + 2 * sec, Reload w_cfg);
            (w_t0 + 3 * sec, Insert [65; 46]%N 1 ScNone w_name false true 1 8 2)] in
  history_wf w_cfg h
  /\ snd (m_lookup (fst (m_run w_cfg h)) (w_t0 + 4 * sec) (key_of w_name 1 ScNone)) = ObLook true 8 1 false
  /\ last_insert w_cfg h (key_of w_name 1 ScNone) None = Some (8, w_t0 + 5 * sec)
  /\ snd (m_lookup (fst (m_run w_cfg h)) (w_t0 + 6 * sec) (key_of w_name 1 ScNone)) = ObLook false (-1) 0 false.
Proof. exact nonvacuous_proof. Qed.
