(* C18 — executable model of the acceptance behaviour of Go's netip.ParseAddr (go1.26 net/netip):
   does the string parse as an IPv4 / IPv6 (optionally zoned) address?  The value is not modelled.
   No proofs in this file.  Compared with netip.ParseAddr on every string of every case. *)
From Coq Require Import List NArith Bool.
From Dae Require Import C18_GoStrings.
Import ListNotations.
Open Scope N_scope.

Definition is_dec (c : N) : bool := (48 <=? c) && (c <=? 57).
Definition is_hex (c : N) : bool :=
  is_dec c || ((97 <=? c) && (c <=? 102)) || ((65 <=? c) && (c <=? 70)).

(* parseIPv4Fields: val, pos (dots seen), digLen, i = 0 ?, s[i-1] = '.' ? *)
Fixpoint v4_loop (s : str) (val pos diglen : N) (first prev_dot : bool) : bool :=
  match s with
  | [] => pos =? 3                                   (* pos < 3: too short *)
  | c :: r =>
      if is_dec c then
        if (diglen =? 1) && (val =? 0) then false    (* leading zero *)
        else let val' := val * 10 + (c - 48) in
             if 255 <? val' then false else v4_loop r val' pos (diglen + 1) false false
      else if c =? c_dot then
        if first || (match r with [] => true | _ => false end) || prev_dot then false
        else if pos =? 3 then false                  (* too long *)
             else v4_loop r 0 (pos + 1) 0 false true
      else false
  end.
Definition parse_ipv4 (s : str) : bool := v4_loop s 0 0 0 true false.

Fixpoint span_hex (s : str) : str * str :=
  match s with
  | c :: r => if is_hex c then let '(a, b) := span_hex r in (c :: a, b) else ([], s)
  | [] => ([], [])
  end.

(* after the loop: whole string used; i < 16 needs an ellipsis, i = 16 must not have one *)
Definition v6_finish (s : str) (i : N) (ell : bool) : bool :=
  match s with
  | _ :: _ => false
  | [] => if i <? 16 then ell else negb ell
  end.

(* the `for i < 16` loop of parseIPv6; i = bytes filled, ell = an ellipsis was seen *)
Fixpoint v6_loop (fuel : nat) (s : str) (i : N) (ell : bool) : bool :=
  match fuel with
  | O => false
  | S f =>
      if 16 <=? i then v6_finish s i ell
      else
        let '(hexs, rest) := span_hex s in
        if Nat.ltb 4 (length hexs) then false                 (* more than 4 digits *)
        else match hexs with
             | [] => false                                    (* no digit *)
             | _ =>
                 match rest with
                 | [] => v6_finish [] (i + 2) ell
                 | c :: rest' =>
                     if c =? c_dot then
                       if negb ell && negb (i =? 12) then false
                       else if 16 <? i + 4 then false
                       else if parse_ipv4 s then v6_finish [] (i + 4) ell else false
                     else if c =? c_colon then
                       match rest' with
                       | [] => false                          (* colon must be followed by more *)
                       | c2 :: r2 =>
                           if c2 =? c_colon then
                             if ell then false                (* multiple :: *)
                             else match r2 with
                                  | [] => v6_finish [] (i + 2) true
                                  | _ => v6_loop f r2 (i + 2) true
                                  end
                           else v6_loop f rest' (i + 2) ell
                       end
                     else false                               (* unexpected character *)
                 end
             end
  end.

Definition parse_ipv6 (s : str) : bool :=
  let body (a : str) : bool :=
      match a with
      | c1 :: c2 :: r =>
          if (c1 =? c_colon) && (c2 =? c_colon)
          then match r with [] => true | _ => v6_loop 12 r 0 true end
          else v6_loop 12 a 0 false
      | _ => v6_loop 12 a 0 false
      end in
  match break_at c_pct s with
  | Some (a, zone) => match zone with [] => false | _ => body a end
  | None => body s
  end.

Fixpoint parse_addr_scan (s whole : str) : bool :=
  match s with
  | [] => false
  | c :: r =>
      if c =? c_dot then parse_ipv4 whole
      else if c =? c_colon then parse_ipv6 whole
      else if c =? c_pct then false
      else parse_addr_scan r whole
  end.

(* netip.ParseAddr(s) succeeds *)
Definition go_parse_addr (s : str) : bool := parse_addr_scan s s.
