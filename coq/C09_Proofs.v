(* C09 — lemmas for Part U (UDP receive loop) and Part C (controller); the forwarder lifecycle and the
   pipelined connection are in C09_ProofsF.v / C09_ProofsP.v. *)
From Coq Require Import List NArith ZArith Bool Lia.
From Dae Require Import C09_Spec C09_Model C09_Check C09_ProofsF C09_ProofsP.
Import ListNotations.
Open Scope N_scope.

(* ------------------------------------------------------------------------------------------- *)
(* Part U                                                                                       *)
(* ------------------------------------------------------------------------------------------- *)

Definition ures_id_ok (id : N) (r : ures) : bool :=
  match r with UOkMsg m | UTrunc m => m_id m =? id | _ => true end.

Definition udp_ids_ok (evs : list uev) : bool :=
  forallb (fun p => ures_id_ok (fst p) (snd p)) (zip (uq_ids evs) (urun evs)).

Lemma udp_read_id : forall q orig stale r rest keep,
  udp_read q orig stale = (r, rest, keep) -> ures_id_ok orig r = true.
Proof.
  induction q as [|d q IH]; intros orig stale r rest keep H; cbn [udp_read] in H.
  - inversion H; reflexivity.
  - assert (Hskip : (if C09_Consts.maxStaleResponses <? stale + 1 then (UStale, q, false)
                     else udp_read q orig (stale + 1)) = (r, rest, keep) -> ures_id_ok orig r = true).
    { destruct (C09_Consts.maxStaleResponses <? stale + 1); intro E.
      - inversion E; reflexivity.
      - eapply IH; eauto. }
    destruct d as [|m|id].
    + auto.
    + destruct (m_id m =? orig) eqn:E.
      * destruct (m_tc m); inversion H; subst; cbn; exact E.
      * auto.
    + destruct (id =? orig); [inversion H; reflexivity | auto].
Qed.

Lemma zip_app : forall {A B} (a a' : list A) (b b' : list B),
  length a = length b -> zip (a ++ a') (b ++ b') = zip a b ++ zip a' b'.
Proof.
  induction a; destruct b; cbn; intros; try discriminate; auto.
  f_equal. apply IHa. lia.
Qed.

Lemma uq_ids_app : forall a b, uq_ids (a ++ b) = uq_ids a ++ uq_ids b.
Proof. induction a as [|[id sc|d] a IH]; intros; cbn; rewrite ?IH; auto. Qed.

Lemma C09_udp_reply_id_proof : forall evs,
  length (urun evs) = length (uq_ids evs) /\ udp_ids_ok evs = true.
Proof.
  unfold udp_ids_ok, urun.
  induction evs as [|e evs IH] using rev_ind.
  - cbn; auto.
  - rewrite fold_left_app, uq_ids_app. cbn [fold_left].
    destruct IH as [IHl IHo].
    destruct (fold_left ustep evs (None, [])) as [pool acc] eqn:E. cbn [snd] in *.
    destruct e as [id sc|d]; cbn [ustep uq_ids fst snd].
    + destruct (udp_read _ id 0) as [[r rest] keep] eqn:R. cbn [snd].
      split.
      * rewrite !app_length; cbn; lia.
      * rewrite zip_app by lia. rewrite forallb_app, IHo. cbn.
        rewrite (udp_read_id _ _ _ _ _ _ R). reflexivity.
    + rewrite app_nil_r. auto.
Qed.

(* refutation witness: ID collision on the pooled socket after a duplicated answer *)
Definition wq1 : question := {| q_name := 1; q_case := 0; q_type := 1; q_class := 1 |}.
Definition wq2 : question := {| q_name := 2; q_case := 0; q_type := 1; q_class := 1 |}.
Definition wm1 (id : N) : message :=
  {| m_id := id; m_q := Some wq1; m_rcode := 0; m_tc := false;
     m_ans := [{| rr_name := 1; rr_type := 1; rr_serial := 7 |}] |}.
Definition wm2 (id : N) : message :=
  {| m_id := id; m_q := Some wq2; m_rcode := 0; m_tc := false;
     m_ans := [{| rr_name := 2; rr_type := 1; rr_serial := 8 |}] |}.

Definition udp_results_ok (evs : list uev) (qs : list question) : bool :=
  forallb (fun p => ures_ok (fst p) (snd p)) (zip (zip (uq_ids evs) qs) (urun evs)).

Lemma C09_udp_own_answer_refuted_proof :
  exists evs qs, length qs = length (uq_ids evs) /\ udp_results_ok evs qs = false.
Proof.
  exists [UQ 5 [DMsg (wm1 5); DMsg (wm1 5)]; UQ 5 [DMsg (wm2 5)]], [wq1; wq2].
  split; vm_compute; reflexivity.
Qed.

(* ------------------------------------------------------------------------------------------- *)
(* Part C                                                                                       *)
(* ------------------------------------------------------------------------------------------- *)

Definition out_id_ok (c : client_query) (o : outcome) : bool :=
  match o with OReply m => m_id m =? cq_id c | OError => true end.

Lemma hit_reply_id : forall p c e, m_id (hit_reply p c e) = cq_id c.
Proof. intros [] c e; reflexivity. Qed.

Lemma waiter_outcome_id : forall p c r, out_id_ok c (waiter_outcome p c r) = true.
Proof.
  intros p c [|m [|]]; cbn; auto.
  - destruct (cacheable m); cbn; [rewrite hit_reply_id|]; apply N.eqb_refl.
  - apply N.eqb_refl.
Qed.

Lemma round_clients_id : forall p pn fb cache0 cs resolved s,
  let '(os, _) := round_clients p pn fb cache0 cs resolved s in
  length os = length cs /\ forallb (fun q => out_id_ok (fst q) (snd q)) (zip cs os) = true.
Proof.
  induction cs as [|c cs IH]; intros resolved s; cbn [round_clients].
  - cbn; auto.
  - destruct (klookup (key_of (cq_q c)) cache0) as [e|].
    + specialize (IH resolved s). destruct (round_clients p pn fb cache0 cs resolved s) as [os s'].
      destruct IH as [L F]. cbn. rewrite hit_reply_id, N.eqb_refl, F. auto.
    + destruct (klookup (key_of (cq_q c)) resolved) as [r|].
      * specialize (IH resolved s). destruct (round_clients p pn fb cache0 cs resolved s) as [os s'].
        destruct IH as [L F]. cbn [length zip forallb fst snd]. rewrite waiter_outcome_id, F. auto.
      * destruct (resolve fb (cq_q c) s) as [r s1].
        specialize (IH ((key_of (cq_q c), r) :: resolved) s1).
        destruct (round_clients p pn fb cache0 cs _ s1) as [os s'].
        destruct IH as [L F]. cbn [length zip forallb fst snd]. rewrite waiter_outcome_id, F. auto.
Qed.

Definition rounds_ids_ok (rounds : list (list client_query)) (outs : list (list outcome)) : bool :=
  forallb (fun p => Nat.eqb (length (fst p)) (length (snd p))
                    && forallb (fun q => out_id_ok (fst q) (snd q)) (zip (fst p) (snd p)))
          (zip rounds outs).

Lemma C09_reply_id_proof : forall packed pnew fallback s rounds,
  let '(outs, _) := run_rounds packed pnew fallback s rounds in
  length outs = length rounds /\ rounds_ids_ok rounds outs = true.
Proof.
  intros packed pnew fallback s rounds. revert s.
  induction rounds as [|r rounds IH]; intros s; cbn [run_rounds].
  - cbn; auto.
  - unfold run_round.
    pose proof (round_clients_id packed pnew fallback (c_cache s) r [] s) as H.
    destruct (round_clients packed pnew fallback (c_cache s) r [] s) as [os s1].
    specialize (IH s1). destruct (run_rounds packed pnew fallback s1 rounds) as [oss s2].
    destruct H as [L F]. destruct IH as [L2 F2].
    unfold rounds_ids_ok in *. cbn [length zip forallb fst snd].
    rewrite F, F2, L, Nat.eqb_refl. auto.
Qed.

Definition ctl_full_ok (packed pnew fallback : bool) (udp tcp : list (ckey * list fres))
           (rounds : list (list client_query)) : bool :=
  let '(outs, s) := run_rounds packed pnew fallback {| c_cache := []; c_udp := udp; c_tcp := tcp; c_calls := [] |} rounds in
  forallb (fun p => forallb (fun q => out_ok (fst q) (snd q)) (zip (fst p) (snd p))) (zip rounds outs)
  && cache_ok (map (fun e => (fst e, ce_ans (snd e))) (c_cache s)).


(* ---------------- one upstream resolution per question and round ---------------- *)
Lemma ckey_eqb_eq : forall a b, ckey_eqb a b = true <-> a = b.
Proof.
  intros [a1 a2] [b1 b2]. unfold ckey_eqb; cbn. rewrite andb_true_iff, !N.eqb_eq.
  split; [intros [-> ->]; auto|intros H; inversion H; auto].
Qed.

Lemma klookup_cons_eq : forall {V} k (v : V) l, klookup k ((k, v) :: l) = Some v.
Proof. intros. cbn. rewrite (proj2 (ckey_eqb_eq k k) eq_refl). auto. Qed.

Lemma resolve_calls : forall fb lq s, c_calls (snd (resolve fb lq s)) = c_calls s ++ [key_of lq].
Proof.
  intros fb lq s. unfold resolve. set (k := key_of lq).
  destruct (pop k (c_udp s)) as [r1 udp'].
  destruct r1 as [| |m]; cbn [c_calls snd];
    try (destruct fb; [destruct (pop k (c_tcp s)) as [r2 tcp']; cbn [c_tcp c_calls];
                       destruct r2 as [| |m2]; cbn [snd c_calls]; auto|cbn; auto]);
    repeat match goal with
           | |- context [match ?x with _ => _ end] => destruct x; cbn [snd c_calls]; auto
           end.
Qed.

Definition round_calls_spec (cs : list client_query) (resolved : list (ckey * resolution)) (old new : list ckey) : Prop :=
  exists added, new = old ++ added /\ NoDup added /\
    forall k, In k added -> klookup k resolved = None /\ exists c, In c cs /\ key_of (cq_q c) = k.

Lemma round_clients_calls : forall p pn fb cache0 cs resolved s,
  round_calls_spec cs resolved (c_calls s) (c_calls (snd (round_clients p pn fb cache0 cs resolved s))).
Proof.
  induction cs as [|c cs IH]; intros resolved s; cbn [round_clients].
  - exists []. rewrite app_nil_r. split; [reflexivity|split; [apply NoDup_nil|intros k []]].
  - destruct (klookup (key_of (cq_q c)) cache0) as [e|].
    + specialize (IH resolved s). destruct (round_clients p pn fb cache0 cs resolved s) as [os s'].
      cbn [snd] in *. destruct IH as (ad & E & ND & F). exists ad. split; [exact E|split; [exact ND|]].
      intros k Hk. destruct (F k Hk) as [A (c' & Hc & Hk')]. split; auto. exists c'; split; auto; right; auto.
    + destruct (klookup (key_of (cq_q c)) resolved) as [r|] eqn:KR.
      * specialize (IH resolved s). destruct (round_clients p pn fb cache0 cs resolved s) as [os s'].
        cbn [snd] in *. destruct IH as (ad & E & ND & F). exists ad. split; [exact E|split; [exact ND|]].
        intros k Hk. destruct (F k Hk) as [A (c' & Hc & Hk')]. split; auto. exists c'; split; auto; right; auto.
      * pose proof (resolve_calls fb (cq_q c) s) as RC.
        destruct (resolve fb (cq_q c) s) as [r s1]. cbn [snd] in RC.
        specialize (IH ((key_of (cq_q c), r) :: resolved) s1).
        destruct (round_clients p pn fb cache0 cs _ s1) as [os s']. cbn [snd] in *.
        destruct IH as (ad & E & ND & F).
        exists (key_of (cq_q c) :: ad). rewrite E, RC, <- app_assoc. cbn [app].
        split; [reflexivity|split].
        -- constructor; auto. intro Hin. destruct (F _ Hin) as [A _]. rewrite klookup_cons_eq in A. discriminate.
        -- intros k H. split.
           ++ destruct H as [<-|Hk]; auto.
              destruct (F k Hk) as [A _]. cbn [klookup] in A.
              destruct (ckey_eqb (key_of (cq_q c)) k); [discriminate|auto].
           ++ destruct H as [<-|Hk]; [exists c; split; auto; left; auto|].
              destruct (F k Hk) as [_ (c' & Hc & Hk')]. exists c'; split; auto; right; auto.
Qed.

Lemma C09_singleflight_one_resolution_proof : forall packed pnew fallback s cs,
  let '(os, s') := run_round packed pnew fallback s cs in
  length os = length cs /\
  exists added, c_calls s' = c_calls s ++ added /\ NoDup added /\
    forall k, In k added -> exists c, In c cs /\ key_of (cq_q c) = k.
Proof.
  intros packed pnew fallback s cs. unfold run_round.
  pose proof (round_clients_id packed pnew fallback (c_cache s) cs [] s) as H1.
  pose proof (round_clients_calls packed pnew fallback (c_cache s) cs [] s) as H2.
  destruct (round_clients packed pnew fallback (c_cache s) cs [] s) as [os s']. cbn [snd] in H2.
  destruct H1 as [L _]. split; auto.
  destruct H2 as (ad & E & ND & F). exists ad. split; [exact E|split; [exact ND|]].
  intros k Hk. apply F; auto.
Qed.

(* ------------------------------------------------------------------------------------------- *)
(* Part F / Part P: final forms against the spec                                                *)
(* ------------------------------------------------------------------------------------------- *)
Lemma C09_forwarder_close_once_final : forall evs,
  let s := frun evs in let o := fwd_obs_of s in
  (fo_closes o <= 1) /\
  (0 < fo_closes o -> fo_retired o = true) /\
  (fo_quiescent o = true -> fo_retire_done o = true -> fo_closes o = 1) /\
  (forallb user_quiet (f_users s) = true -> f_inflight s = 0%Z).
Proof.
  intros evs s o. destruct (C09_forwarder_close_once_proof evs) as (A & B & C). fold s in A, B, C.
  unfold o, fwd_obs_of; cbn [fo_closes fo_retired fo_quiescent fo_retire_done].
  repeat split.
  - destruct (f_closed s); lia.
  - destruct (f_closed s); [auto|lia].
  - intros Q D. rewrite (B Q D). reflexivity.
  - exact C.
Qed.

Lemma C09_forwarder_lifecycle_proof : forall evs, fwd_ok (fwd_obs_of (frun evs)) = true.
Proof.
  intros evs. destruct (C09_forwarder_close_once_proof evs) as (A & B & C).
  pose proof (C09_forwarder_no_close_in_flight_proof evs) as Bad.
  unfold fwd_ok, fwd_obs_of; cbn [fo_closes fo_retired fo_quiescent fo_retire_done fo_close_in_flight].
  rewrite Bad. cbn [negb andb].
  destruct (f_closed (frun evs)) eqn:Cl.
  - rewrite (A eq_refl). cbn.
    repeat match goal with |- context [if ?b then _ else _] => destruct b end; reflexivity.
  - cbn. destruct (forallb user_quiet _ && forallb ret_quiet _) eqn:Q; cbn; auto.
    destruct (existsb is_rdone _) eqn:D; cbn; auto.
Qed.
