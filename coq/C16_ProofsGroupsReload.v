(* C16 — group invariant across the reload path: restore, ensure_floor, inherit. *)
From Coq Require Import List NArith ZArith Bool Lia.
From Dae Require Import C16_Spec C16_Model C16_Proofs.
From Dae.gen Require Import C16_Consts.
From Dae Require Import C16_ProofsGroups.
From Dae Require Import C16_ProofsHealth C16_ProofsEdges.
Import ListNotations.  Open Scope N_scope.

Lemma loop2_body_d : forall cfg n l m u, m_d (loop2_body cfg n l m u) = m_d m.
Proof.
  intros cfg n l m [[i was] al]. unfold loop2_body. cbv zeta.
  destruct (inform_health cfg m n (dom_of_idx i) al l) as (E & _).
  destruct (xorb was al); cbn [log_transition m_d]; exact E.
Qed.

Lemma loop2_body_sets : forall cfg n l m i was al,
  m_sets (loop2_body cfg n l m (i, was, al)) = m_sets (inform cfg m n (dom_of_idx i) al l) /\
  m_bits (loop2_body cfg n l m (i, was, al)) = m_bits (inform cfg m n (dom_of_idx i) al l).
Proof. intros. unfold loop2_body. cbv zeta. destruct (xorb was al); split; reflexivity. Qed.

Lemma fl_of_d : forall m m', m_d m' = m_d m -> fl m' = fl m.
Proof. intros m m' E. unfold fl. rewrite E. reflexivity. Qed.

Definition covered (ups : list (N * bool * bool)) (d' : dom) : bool :=
  existsb (fun u => dom_eqb d' (dom_of_idx (fst (fst u)))) ups.

Lemma loop2_G : forall cfg n l ups mm pp,
  InvG cfg (fl mm) (m_sets mm) (m_bits mm) pp ->
  Forall (fun u => snd u = fl mm n (dom_of_idx (fst (fst u)))) ups ->
  InvG cfg (fl (fold_left (loop2_body cfg n l) ups mm))
           (m_sets (fold_left (loop2_body cfg n l) ups mm))
           (m_bits (fold_left (loop2_body cfg n l) ups mm))
           (fun x d' => pp x d' && negb ((x =? n) && covered ups d')).
Proof.
  induction ups as [|[[i was] al] r IH]; intros mm pp H F; cbn [fold_left].
  - eapply InvG_weaken; [exact H|]. intros x d Hp. unfold covered in Hp. cbn [existsb] in Hp.
    rewrite andb_false_r in Hp. cbn [negb] in Hp. rewrite andb_true_r in Hp. auto.
  - inversion F as [|u r' Hu Hr]; subst. cbn [fst snd] in Hu.
    set (m1 := loop2_body cfg n l mm (i, was, al)).
    assert (Ed : m_d m1 = m_d mm) by apply loop2_body_d.
    destruct (loop2_body_sets cfg n l mm i was al) as (Es & Eb). fold m1 in Es, Eb.
    set (pp1 := fun x d' => pp x d' && negb ((x =? n) && dom_eqb d' (dom_of_idx i))).
    assert (H1 : InvG cfg (fl m1) (m_sets m1) (m_bits m1) pp1).
    { rewrite (fl_of_d _ _ Ed), Es, Eb.
      eapply inform_fix; [exact H|symmetry; exact Hu|].
      intros x d' Hp. unfold pp1 in Hp. destruct (pp x d'); [|now left]. right.
      cbn [andb] in Hp. apply negb_false_iff in Hp. apply andb_true_iff in Hp. destruct Hp as (A & B).
      apply N.eqb_eq in A. apply dom_eqb_eq in B. auto. }
    assert (F1 : Forall (fun u => snd u = fl m1 n (dom_of_idx (fst (fst u)))) r).
    { rewrite (fl_of_d _ _ Ed). exact Hr. }
    specialize (IH m1 pp1 H1 F1).
    eapply InvG_weaken; [exact IH|].
    intros x d Hp. split; [|reflexivity].
    unfold pp1. unfold covered in *. cbn [existsb fst] in Hp.
    destruct (pp x d); [|reflexivity]. cbn [andb] in *.
    destruct (x =? n); [|discriminate Hp]. cbn [andb] in *.
    destruct (dom_eqb d (dom_of_idx i)); [reflexivity|]. cbn [orb negb andb] in *. exact Hp.
Qed.

Lemma loop1_ups_alive : forall old x0,
  Forall (fun u => snd u = d_alive old (dom_of_idx (fst (fst u)))) (snd (fold_left (loop1_body old) all_idx (x0, []))).
Proof.
  intros. cbv [fold_left all_idx loop1_body fst snd app]. repeat (constructor; [reflexivity|]). constructor.
Qed.

Lemma loop1_ups_covered : forall old x0 d', covered (snd (fold_left (loop1_body old) all_idx (x0, []))) d' = true.
Proof. intros. destruct d'; reflexivity. Qed.

Lemma restore_G : forall cfg old m n l pend,
  InvG cfg (fl m) (m_sets m) (m_bits m) pend ->
  InvG cfg (fl (restore cfg old m n l)) (m_sets (restore cfg old m n l)) (m_bits (restore cfg old m n l)) pend.
Proof.
  intros cfg old m n l pend H. rewrite restore_eq.
  pose proof (loop1_ups_alive old (m_d m n)) as FA.
  pose proof (loop1_ups_covered old (m_d m n)) as FC.
  pose proof (loop1_flags old (m_d m n)) as FF.
  set (r := fold_left (loop1_body old) all_idx (m_d m n, [])) in *.
  set (m1 := set_dialer m n (fst r)).
  assert (Hn : forall d, fl m1 n d = d_alive old d).
  { intros d. unfold fl, m1, set_dialer; cbn [m_d]. unfold upd. rewrite N.eqb_refl. apply FF. }
  assert (Hb : InvG cfg (fl m1) (m_sets m1) (m_bits m1) (fun x d' => pend x d' || (x =? n))).
  { change (m_sets m1) with (m_sets m). change (m_bits m1) with (m_bits m).
    eapply InvG_weaken; [exact H|]. intros x d Hp. apply orb_false_iff in Hp. destruct Hp as (Hp & Hx).
    split; [exact Hp|]. unfold fl, m1, set_dialer; cbn [m_d]. unfold upd. rewrite Hx. reflexivity. }
  assert (F1 : Forall (fun u => snd u = fl m1 n (dom_of_idx (fst (fst u)))) (snd r)).
  { eapply Forall_impl; [|exact FA]. intros u Hu. cbv beta in *. rewrite Hn. exact Hu. }
  pose proof (loop2_G cfg n l (snd r) m1 _ Hb F1) as G.
  eapply InvG_weaken; [exact G|].
  intros x d Hp. split; [|reflexivity]. cbv beta. rewrite Hp, FC. cbn [orb].
  destruct (x =? n); reflexivity.
Qed.

Lemma ensure_floor_G : forall cfg m gi g fb l,
  Inv cfg m -> Inv cfg (ensure_floor cfg m gi g fb l).
Proof.
  intros cfg m gi g fb l H. unfold ensure_floor. destruct (keeps_sets g); [|exact H].
  apply fold_pres; [|exact H]. intros m' d H'.
  destruct (negb _); [exact H'|].
  destruct (match fb d with Some c => Some c | None => _ end); [|exact H'].
  unfold Inv in *. apply (mark_alive_fallback_G cfg m' n d l nopend H').
Qed.

Lemma inherit_G : forall cfg old l gs m gi,
  Inv cfg m -> Inv cfg (inherit cfg old m gi gs l).
Proof.
  induction gs as [|g r IH]; intros m gi H; cbn [inherit]; [exact H|].
  apply IH. apply ensure_floor_G. apply fold_pres; [|exact H].
  intros m' e H'. unfold Inv in *. now apply restore_G.
Qed.

Print Assumptions restore_G.
Print Assumptions ensure_floor_G.
Print Assumptions inherit_G.
