(* C09 — proofs about the forwarder lifecycle model (Part F of C09_Model.v). *)
From Coq Require Import List NArith ZArith Bool Lia.
From Dae Require Import C09_Spec C09_Model.
Import ListNotations.

(* ---------------- list helpers ---------------- *)
Definition b2z (b : bool) : Z := if b then 1%Z else 0%Z.
Definition cntP {A} (P : A -> bool) (l : list A) : Z := Z.of_nat (length (filter P l)).

Lemma cntP_nonneg : forall {A} (P : A -> bool) l, (0 <= cntP P l)%Z.
Proof. intros; unfold cntP; lia. Qed.

Lemma cntP_cons : forall {A} (P : A -> bool) x l, cntP P (x :: l) = (b2z (P x) + cntP P l)%Z.
Proof. intros; unfold cntP; cbn; destruct (P x); cbn [b2z length]; lia. Qed.

Lemma cntP_set_nth : forall {A} (P : A -> bool) l i old new,
  nth_error l i = Some old ->
  cntP P (set_nth l i new) = (cntP P l - b2z (P old) + b2z (P new))%Z.
Proof.
  induction l as [|h t IH]; intros [|i] old new H; cbn in H; try discriminate.
  - inversion H; subst. cbn [set_nth]. rewrite !cntP_cons. lia.
  - cbn [set_nth]. rewrite !cntP_cons. rewrite (IH i old new H). lia.
Qed.

Lemma cntP_app1 : forall {A} (P : A -> bool) l x, cntP P (l ++ [x]) = (cntP P l + b2z (P x))%Z.
Proof.
  induction l; intros; cbn [app]; rewrite ?cntP_cons.
  - unfold cntP; cbn; destruct (P x); cbn; lia.
  - rewrite IHl; lia.
Qed.

Lemma cntP_zero_existsb : forall {A} (P Q : A -> bool) l,
  (forall x, Q x = true -> P x = true) -> cntP P l = 0%Z -> existsb Q l = false.
Proof.
  induction l as [|h t IH]; intros HPQ H; cbn; auto.
  rewrite cntP_cons in H. pose proof (cntP_nonneg P t).
  destruct (Q h) eqn:E.
  - rewrite (HPQ _ E) in H. unfold b2z in H. lia.
  - cbn. apply IH; auto. destruct (P h); unfold b2z in H; lia.
Qed.

Lemma cntP_pos_existsb : forall {A} (P : A -> bool) l, cntP P l <> 0%Z -> existsb P l = true.
Proof.
  induction l as [|h t IH]; intros H.
  - unfold cntP in H; cbn in H; lia.
  - rewrite cntP_cons in H. cbn. destruct (P h); unfold b2z in H; cbn; auto.
Qed.

Lemma nth_error_set_nth_eq : forall {A} (l : list A) i x old,
  nth_error l i = Some old -> nth_error (set_nth l i x) i = Some x.
Proof. induction l; intros [|i] x old H; cbn in *; try discriminate; eauto. Qed.

Lemma nth_error_set_nth_neq : forall {A} (l : list A) i j x, i <> j -> nth_error (set_nth l i x) j = nth_error l j.
Proof.
  induction l; intros [|i] [|j] x H; cbn; auto; try congruence.
Qed.

Lemma existsb_set_nth_new : forall {A} (P : A -> bool) l i old new,
  nth_error l i = Some old -> P new = true -> existsb P (set_nth l i new) = true.
Proof.
  induction l; intros [|i] old new H Hn; cbn in *; try discriminate.
  - rewrite Hn; auto.
  - rewrite (IHl i old new H Hn). apply orb_true_r.
Qed.

Lemma existsb_set_nth_keep : forall {A} (P : A -> bool) l i old new,
  nth_error l i = Some old -> P old = false -> existsb P l = true -> existsb P (set_nth l i new) = true.
Proof.
  induction l; intros [|i] old new H Ho He; cbn in *; try discriminate.
  - inversion H; subst. rewrite Ho in He. cbn in He. rewrite He. apply orb_true_r.
  - destruct (P a); cbn in *; auto. eapply IHl; eauto.
Qed.

Lemma existsb_set_nth_false : forall {A} (P : A -> bool) l i new,
  P new = false -> existsb P l = false -> existsb P (set_nth l i new) = false.
Proof.
  induction l; intros [|i] new Hn He; cbn in *; auto.
  - apply orb_false_iff in He as [_ He]. rewrite Hn, He; auto.
  - apply orb_false_iff in He as [Ha He]. rewrite Ha, (IHl i new Hn He); auto.
Qed.

Lemma existsb_nth : forall {A} (P : A -> bool) l i x, nth_error l i = Some x -> P x = true -> existsb P l = true.
Proof.
  induction l; intros [|i] x H Hp; cbn in *; try discriminate.
  - inversion H; subst; rewrite Hp; auto.
  - rewrite (IHl i x H Hp); apply orb_true_r.
Qed.

Lemma existsb_false_nth : forall {A} (P : A -> bool) l i x, existsb P l = false -> nth_error l i = Some x -> P x = false.
Proof.
  intros. destruct (P x) eqn:E; auto. rewrite (existsb_nth P l i x H0 E) in H. discriminate.
Qed.

Lemma existsb_app1 : forall {A} (P : A -> bool) l x, existsb P (l ++ [x]) = existsb P l || P x.
Proof. intros. rewrite existsb_app. cbn. rewrite orb_false_r. auto. Qed.

Lemma forallb_existsb_contra : forall {A} (P Q : A -> bool) l,
  (forall x, P x = true -> Q x = false) -> forallb P l = true -> existsb Q l = false.
Proof.
  induction l; intros H F; cbn in *; auto.
  apply andb_true_iff in F as [Fa F]. rewrite (H _ Fa), (IHl H F). auto.
Qed.

Lemma existsb_witness : forall {A} (P : A -> bool) l, existsb P l = true -> exists n x, nth_error l n = Some x /\ P x = true.
Proof.
  induction l; cbn; intros H; try discriminate.
  destruct (P a) eqn:E.
  - exists 0%nat, a; auto.
  - cbn in H. destruct (IHl H) as (n & x & Hn & Hx). exists (S n), x; auto.
Qed.

(* ---------------- the invariant ---------------- *)
Definition is_rstored (r : rpc) : bool := match r with RStored => true | _ => false end.
Definition not_ridle (r : rpc) : bool := match r with RIdle => false | _ => true end.
Definition is_ub3 (p : upc) : bool := match p with UB3 | UE2 => true | _ => false end.

Definition Inv (s : fstate) : Prop :=
  f_inflight s = cntP counted (f_users s)
  /\ (f_closed s = true -> f_retired s = true)
  /\ (existsb not_ridle (f_rets s) = true -> f_retired s = true)
  /\ (existsb is_ub3 (f_users s) = true -> f_retired s = true)
  /\ (f_retired s = true -> f_closed s = false ->
      existsb is_rstored (f_rets s) || existsb counted (f_users s) || existsb is_ue1 (f_users s) = true).

Lemma existsb_set_nth_inv : forall {A} (P : A -> bool) l i new,
  P new = false -> existsb P (set_nth l i new) = true -> existsb P l = true.
Proof.
  intros A P l i new Hn H. destruct (existsb P l) eqn:E; auto.
  rewrite (existsb_set_nth_false P l i new Hn E) in H. discriminate.
Qed.

Lemma inv_with_user : forall s i old new n bad,
  Inv s -> nth_error (f_users s) i = Some old ->
  n = (f_inflight s - b2z (counted old) + b2z (counted new))%Z ->
  (is_ub3 new = true -> f_retired s = true) ->
  (counted new = true \/ is_ue1 new = true \/ (counted old = false /\ is_ue1 old = false)
   \/ n <> 0%Z \/ f_retired s = false) ->
  Inv (with_user s i new n bad).
Proof.
  intros s i old new n bad (I1 & I2 & I3 & I4 & I5) Hn Hcnt Hub3 HL.
  unfold Inv, with_user; cbn [f_inflight f_retired f_closed f_users f_rets].
  assert (C : cntP counted (set_nth (f_users s) i new) = n).
  { rewrite (cntP_set_nth counted _ _ _ _ Hn). lia. }
  repeat split; auto.
  - intro H. destruct (is_ub3 new) eqn:E; auto. apply I4. eapply existsb_set_nth_inv; eauto.
  - intros Hr Hc. specialize (I5 Hr Hc).
    destruct HL as [HL|[HL|[[HL1 HL2]|[HL|HL]]]].
    + rewrite (existsb_set_nth_new counted _ _ _ _ Hn HL). rewrite orb_true_r. auto.
    + rewrite (existsb_set_nth_new is_ue1 _ _ _ _ Hn HL). rewrite orb_true_r. auto.
    + apply orb_true_iff in I5 as [I5|I5]; [apply orb_true_iff in I5 as [I5|I5]|].
      * rewrite I5; auto.
      * rewrite (existsb_set_nth_keep counted _ _ _ _ Hn HL1 I5). rewrite orb_true_r; auto.
      * rewrite (existsb_set_nth_keep is_ue1 _ _ _ _ Hn HL2 I5). rewrite orb_true_r; auto.
    + rewrite (cntP_pos_existsb counted (set_nth (f_users s) i new)) by lia. rewrite orb_true_r; auto.
    + congruence.
Qed.

Lemma inv_with_user_close : forall s i old new n bad,
  Inv s -> nth_error (f_users s) i = Some old ->
  n = (f_inflight s - b2z (counted old) + b2z (counted new))%Z ->
  is_ub3 new = false -> f_retired s = true ->
  Inv (do_close (with_user s i new n bad)).
Proof.
  intros s i old new n bad (I1 & I2 & I3 & I4 & I5) Hn Hcnt Hub3 Hr.
  unfold Inv, do_close, with_user; cbn [f_inflight f_retired f_closed f_users f_rets].
  repeat split; auto; try discriminate.
  rewrite (cntP_set_nth counted _ _ _ _ Hn). lia.
Qed.


Lemma user_step_inv : forall s i, Inv s -> Inv (user_step s i).
Proof.
  intros s i I. unfold user_step.
  destruct (nth_error (f_users s) i) as [pc|] eqn:Hn; auto.
  pose proof I as (I1 & I2 & I3 & I4 & I5).
  destruct pc.
  - destruct (f_retired s) eqn:R; eapply inv_with_user; eauto; cbn; try lia; try discriminate; auto.
  - eapply inv_with_user; eauto; cbn; try lia; try discriminate; auto.
  - destruct (f_retired s) eqn:R; eapply inv_with_user; eauto; cbn; try lia; try discriminate; auto.
  - assert (R : f_retired s = true) by (apply I4; eapply existsb_nth; eauto).
    destruct (f_inflight s - 1 =? 0)%Z eqn:Z0.
    + eapply inv_with_user_close; eauto; cbn; lia.
    + eapply inv_with_user; eauto; cbn; try lia; try discriminate; try (right; right; right; left; lia).
  - destruct (f_inflight s - 1 =? 0)%Z eqn:Z0; eapply inv_with_user; eauto; cbn; try lia; try discriminate; auto; try (right; right; right; left; lia).
  - destruct (f_retired s) eqn:R; eapply inv_with_user; eauto; cbn; try lia; try discriminate; auto;
      try (right; right; right; right; auto).
  - assert (R : f_retired s = true) by (apply I4; eapply existsb_nth; eauto).
    destruct (f_inflight s =? 0)%Z eqn:Z0.
    + eapply inv_with_user_close; eauto; cbn; lia.
    + eapply inv_with_user; eauto; cbn; try lia; try discriminate; try (right; right; right; left; lia).
  - auto.
  - auto.
Qed.

Lemma ret_step_inv : forall s j, Inv s -> Inv (ret_step s j).
Proof.
  intros s j (I1 & I2 & I3 & I4 & I5). unfold ret_step.
  destruct (nth_error (f_rets s) j) as [r|] eqn:Hn; [|repeat split; auto].
  destruct r.
  - unfold Inv, with_ret; cbn [f_inflight f_retired f_closed f_users f_rets].
    repeat split; auto.
    intros _ _. rewrite (existsb_set_nth_new is_rstored _ _ _ RStored Hn eq_refl). auto.
  - assert (R : f_retired s = true) by (apply I3; eapply existsb_nth; eauto).
    destruct (f_inflight s =? 0)%Z eqn:Z0.
    + unfold Inv, do_close, with_ret; cbn [f_inflight f_retired f_closed f_users f_rets].
      repeat split; auto; try discriminate.
    + unfold Inv, with_ret; cbn [f_inflight f_retired f_closed f_users f_rets].
      repeat split; auto.
      intros _ _. rewrite (cntP_pos_existsb counted (f_users s)) by lia. rewrite orb_true_r; auto.
  - repeat split; auto.
Qed.

Lemma fstep_inv : forall s e, Inv s -> Inv (fstep s e).
Proof.
  intros s e I. destruct e; cbn [fstep].
  - destruct I as (I1 & I2 & I3 & I4 & I5).
    unfold Inv; cbn [f_inflight f_retired f_closed f_users f_rets].
    rewrite cntP_app1, !existsb_app1. cbn [counted is_ub3 is_ue1 b2z]. rewrite !orb_false_r.
    repeat split; auto. lia.
  - destruct I as (I1 & I2 & I3 & I4 & I5).
    unfold Inv; cbn [f_inflight f_retired f_closed f_users f_rets].
    rewrite !existsb_app1. cbn [not_ridle is_rstored]. rewrite !orb_false_r.
    repeat split; auto.
  - apply user_step_inv, I.
  - apply ret_step_inv, I.
Qed.

Lemma inv_init : Inv finit.
Proof. unfold Inv, finit; cbn. repeat split; auto; discriminate. Qed.

Lemma fold_inv : forall evs s, Inv s -> Inv (fold_left fstep evs s).
Proof. induction evs; cbn; intros; auto. apply IHevs, fstep_inv; auto. Qed.

Lemma C09_forwarder_close_once_proof : forall evs, let s := frun evs in
  (f_closed s = true -> f_retired s = true) /\
  (forallb user_quiet (f_users s) && forallb ret_quiet (f_rets s) = true ->
     existsb is_rdone (f_rets s) = true -> f_closed s = true) /\
  (forallb user_quiet (f_users s) = true -> f_inflight s = 0%Z).
Proof.
  intros evs s. destruct (fold_inv evs finit inv_init) as (I1 & I2 & I3 & I4 & I5). fold (frun evs) in *. fold s in I1, I2, I3, I4, I5.
  split; [exact I2|split].
  - intros Q D. apply andb_true_iff in Q as [QU QR].
    destruct (f_closed s) eqn:C; auto.
    assert (R : f_retired s = true).
    { apply I3. destruct (existsb_witness _ _ D) as (n & x & Hn & Hx).
      eapply existsb_nth; eauto. destruct x; auto; discriminate. }
    specialize (I5 R eq_refl).
    assert (A1 : existsb is_rstored (f_rets s) = false)
      by (apply (forallb_existsb_contra ret_quiet); auto; intros []; cbn; auto; discriminate).
    assert (A2 : existsb counted (f_users s) = false)
      by (apply (forallb_existsb_contra user_quiet); auto; intros []; cbn; auto; discriminate).
    assert (A3 : existsb is_ue1 (f_users s) = false)
      by (apply (forallb_existsb_contra user_quiet); auto; intros []; cbn; auto; discriminate).
    rewrite A1, A2, A3 in I5. discriminate.
  - intros QU. rewrite I1.
    destruct (Z.eq_dec (cntP counted (f_users s)) 0) as [E|E]; auto.
    pose proof (cntP_pos_existsb counted (f_users s) E) as X.
    assert (A2 : existsb counted (f_users s) = false)
      by (apply (forallb_existsb_contra user_quiet); auto; intros []; cbn; auto; discriminate).
    congruence.
Qed.

(* ---------------- closed only when retired, with nothing in flight ---------------- *)
Definition JR (s : fstate) : Prop :=
  f_bad s = false /\ (f_closed s = true -> existsb is_using (f_users s) = false).

Lemma using_counted : forall p, is_using p = true -> counted p = true.
Proof. intros []; cbn; auto. Qed.

Lemma no_using_if_cnt0 : forall us, cntP counted us = 0%Z -> existsb is_using us = false.
Proof. intros us H. exact (cntP_zero_existsb counted is_using us using_counted H). Qed.

Lemma JR_with_user : forall s i new n,
  JR s -> (f_closed s = true -> is_using new = false) -> JR (with_user s i new n false).
Proof.
  intros s i new n (B & C) Hc. unfold JR, with_user; cbn [f_bad f_closed f_users].
  split; auto. intro Hcl. apply existsb_set_nth_false; auto.
Qed.

Lemma JR_close : forall s,
  JR s -> existsb is_using (f_users s) = false -> f_retired s = true -> f_inflight s = 0%Z -> JR (do_close s).
Proof.
  intros s (B & C) H R Z. unfold JR, do_close; cbn [f_bad f_closed f_users].
  rewrite B, H, R, Z. cbn. rewrite andb_false_r. auto.
Qed.

Lemma user_step_J : forall s i, Inv s -> JR s -> JR (user_step s i).
Proof.
  intros s i (I1 & I2 & I3 & I4 & I5) JRs. pose proof JRs as (B & C).
  unfold user_step. destruct (nth_error (f_users s) i) as [pc|] eqn:Hn; auto.
  assert (CNT : forall new, cntP counted (set_nth (f_users s) i new)
                            = (f_inflight s - b2z (counted pc) + b2z (counted new))%Z).
  { intro new. rewrite (cntP_set_nth counted _ _ _ _ Hn). lia. }
  rewrite B.
  destruct pc.
  - destruct (f_retired s); apply JR_with_user; auto.
  - apply JR_with_user; auto.
  - destruct (f_retired s) eqn:R.
    + apply JR_with_user; auto.
    + assert (Cl : f_closed s = false).
      { destruct (f_closed s) eqn:E; auto. discriminate (I2 eq_refl). }
      rewrite Cl. cbn. apply JR_with_user; auto. congruence.
  - assert (R : f_retired s = true) by (apply I4; eapply existsb_nth; eauto).
    destruct (f_inflight s - 1 =? 0)%Z eqn:Z0.
    + apply JR_close; auto.
      * apply JR_with_user; auto.
      * cbn [with_user f_users]. apply no_using_if_cnt0. rewrite CNT. cbn. lia.
      * cbn. lia.
    + apply JR_with_user; auto.
  - destruct (f_inflight s - 1 =? 0)%Z; apply JR_with_user; auto.
  - destruct (f_retired s); apply JR_with_user; auto.
  - assert (R : f_retired s = true) by (apply I4; eapply existsb_nth; eauto).
    destruct (f_inflight s =? 0)%Z eqn:Z0.
    + apply JR_close; auto.
      * apply JR_with_user; auto.
      * cbn [with_user f_users]. apply no_using_if_cnt0. rewrite CNT. cbn. lia.
      * cbn. lia.
    + apply JR_with_user; auto.
  - auto.
  - auto.
Qed.

Lemma ret_step_J : forall s j, Inv s -> JR s -> JR (ret_step s j).
Proof.
  intros s j (I1 & I2 & I3 & I4 & I5) JRs. pose proof JRs as (B & C).
  unfold ret_step. destruct (nth_error (f_rets s) j) as [[]|] eqn:Hn; auto.
  assert (R : f_retired s = true) by (apply I3; eapply existsb_nth; eauto).
  destruct (f_inflight s =? 0)%Z eqn:Z0.
  - apply JR_close; [exact JRs| | exact R | cbn; lia]. cbn [with_ret f_users]. apply no_using_if_cnt0. lia.
  - exact JRs.
Qed.

Lemma fstep_J : forall s e, Inv s -> JR s -> JR (fstep s e).
Proof.
  intros s e I Js. destruct e; cbn [fstep].
  - destruct Js as (B & C). unfold JR; cbn [f_bad f_closed f_users]. rewrite !existsb_app1. cbn. rewrite !orb_false_r. auto.
  - exact Js.
  - apply user_step_J; auto.
  - apply ret_step_J; auto.
Qed.

Lemma fold_IJ : forall evs s, Inv s -> JR s -> Inv (fold_left fstep evs s) /\ JR (fold_left fstep evs s).
Proof.
  induction evs; cbn; intros; auto. apply IHevs; [apply fstep_inv|apply fstep_J]; auto.
Qed.

Lemma C09_forwarder_no_close_in_flight_proof : forall evs, f_bad (frun evs) = false.
Proof.
  intros evs.
  assert (J0 : JR finit) by (unfold JR, finit; cbn; split; auto; discriminate).
  destruct (fold_IJ evs finit inv_init J0) as [_ (B & _)]. exact B.
Qed.

Print Assumptions C09_forwarder_close_once_proof.
Print Assumptions C09_forwarder_no_close_in_flight_proof.
