(* C05 - the splice fast path and its pipe pool: lemmas. *)
From Coq Require Import List NArith ZArith Bool Lia ZifyBool ZifyN ZifyNat.
From Dae Require Import C05_Spec C05_Model C05_Proofs C05_SpliceModel.
From Dae.gen Require Import C05_Extracted.
Import ListNotations.
Open Scope N_scope.

Lemma len_app : forall a b : list N, len (a ++ b) = len a + len b.
Proof. intros. unfold len. rewrite app_length. lia. Qed.

Lemma len_nil_inv : forall l : list N, len l = 0 -> l = [].
Proof. intros l H. destruct l; [reflexivity|]. unfold len in H. cbn in H. lia. Qed.

Lemma len_drop : forall k (l : list N), k <= len l -> len (drop k l) = len l - k.
Proof.
  intros k l H. unfold drop. destruct (len l <=? k) eqn:E.
  - apply N.leb_le in E. unfold len in *. cbn. lia.
  - unfold len in *. rewrite skipn_length. lia.
Qed.

Lemma len_take : forall k (l : list N), k <= len l -> len (take k l) = k.
Proof.
  intros k l H. pose proof (take_drop k l) as Htd. pose proof (len_drop k l H) as Hd.
  assert (len (take k l) + len (drop k l) = len l) by (rewrite <- len_app, Htd; reflexivity). lia.
Qed.

(* THE invariant of relaySpliceCopyExact, at every exit: the recorded count is what the pipe really holds -
   provided pipe.data is updated on every splice (f_fill, f_drain); the two extra assignments are harmless *)
Lemma splice_loop_inv : forall f its src p inPipe out x src' p' out' src0,
  f_fill f = true -> f_drain f = true ->
  pp_data p = Z.of_N (len (pp_bytes p)) -> inPipe = len (pp_bytes p) ->
  out ++ pp_bytes p ++ src = src0 ->
  splice_loop f its src p inPipe out = (x, src', p', out') ->
  pp_data p' = Z.of_N (len (pp_bytes p')) /\ out' ++ pp_bytes p' ++ src' = src0.
Proof.
  intros f its. induction its as [|it rest IH]; intros src p inPipe out x src' p' out' src0 Hf Hd Hdata Hin Hcons H;
    cbn [splice_loop] in H.
  - inversion H; subst. split; [assumption|reflexivity].
  - destruct (i_cancel it); [inversion H; subst; split; [assumption|reflexivity]|].
    (* after the optional fill *)
    assert (Hfill : forall src1 p1 in1,
       (if inPipe =? 0 then
          match i_fill it with
          | FillN n => match take (N.max 1 n) src with
                       | [] => inl XEof
                       | _ => inr (drop (N.max 1 n) src,
                                   mkPipe (pp_bytes p ++ take (N.max 1 n) src)
                                          (if f_fill f then (pp_data p + Z.of_N (len (take (N.max 1 n) src)))%Z else pp_data p),
                                   len (take (N.max 1 n) src))
                       end
          | FillEof => inl XEof
          | FillErr => inl XFillErr
          end
        else inr (src, p, inPipe)) = inr (src1, p1, in1) ->
       pp_data p1 = Z.of_N (len (pp_bytes p1)) /\ in1 = len (pp_bytes p1) /\ out ++ pp_bytes p1 ++ src1 = src0).
    { intros src1 p1 in1 E. destruct (inPipe =? 0) eqn:E0.
      - apply N.eqb_eq in E0. assert (Hb : pp_bytes p = []) by (apply len_nil_inv; congruence).
        destruct (i_fill it) as [n| |]; try discriminate.
        destruct (take (N.max 1 n) src) as [|b m] eqn:Et; [discriminate|].
        inversion E; subst src1 p1 in1. cbn [pp_bytes pp_data]. rewrite Hf, Hdata, Hb. cbn [app].
        split; [unfold len; cbn; lia|]. split; [reflexivity|].
        assert (Hs : src = (b :: m) ++ drop (N.max 1 n) src) by (rewrite <- Et; symmetry; apply take_drop).
        set (d := drop (N.max 1 n) src) in *. rewrite <- Hcons, Hb. cbn [app]. rewrite Hs. reflexivity.
      - inversion E; subst. repeat split; assumption. }
    match type of H with
    | (match ?F with inl _ => _ | inr _ => _ end) = _ => destruct F as [xx|[[src1 p1] in1]] eqn:EF
    end.
    + inversion H; subst. split; [assumption|reflexivity].
    + specialize (Hfill src1 p1 in1 eq_refl). destruct Hfill as [Hd1 [Hi1 Hc1]].
      destruct (i_drain it) as [k| |].
      * set (k' := N.min (N.max 1 k) in1) in *.
        assert (Hk : k' <= len (pp_bytes p1)) by (unfold k'; lia).
        eapply IH; [exact Hf|exact Hd| | | |exact H]; cbn [pp_bytes pp_data].
        -- rewrite Hd, Hd1, (len_drop _ _ Hk). lia.
        -- rewrite (len_drop _ _ Hk). lia.
        -- rewrite <- Hc1. rewrite <- app_assoc. rewrite (app_assoc (take k' (pp_bytes p1))), take_drop. reflexivity.
      * inversion H; subst. destruct (f_err f); cbn [set_data pp_data pp_bytes]; (split; [first [reflexivity|exact Hd1]|exact Hc1]).
      * inversion H; subst. destruct (f_short f); cbn [set_data pp_data pp_bytes]; (split; [first [reflexivity|exact Hd1]|exact Hc1]).
Qed.

(* the pool's hygiene rule turns "recorded = actual" into "pooled pipes are empty" *)
Lemma pool_get_clean : forall pl, pool_clean pl -> pipe_clean (fst (pool_get pl)) /\ pool_clean (snd (pool_get pl)).
Proof.
  intros pl H. destruct pl as [|p r]; cbn.
  - split; [split; reflexivity|constructor].
  - inversion H; subst. split; assumption.
Qed.

Lemma pool_put_clean : forall pl p,
  pool_clean pl -> pp_data p = Z.of_N (len (pp_bytes p)) -> pool_clean (pool_put pl p).
Proof.
  intros pl p H Hd. unfold pool_put. destruct (pp_data p =? 0)%Z eqn:E; [|exact H].
  destruct (N.of_nat (length pl) <? c05_splice_pool_limit); [|exact H].
  apply Forall_app. split; [exact H|]. constructor; [|constructor].
  apply Z.eqb_eq in E. split; [|exact E]. apply len_nil_inv. lia.
Qed.

Lemma run_conn_clean : forall f its src pl x out pl',
  f_fill f = true -> f_drain f = true -> pool_clean pl ->
  run_conn f its src pl = (x, out, pl') ->
  pool_clean pl' /\ prefix_of out src.
Proof.
  intros f its src pl x out pl' Hf Hd Hpl H. unfold run_conn in H.
  destruct (pool_get_clean pl Hpl) as [Hp Hpl1].
  destruct (pool_get pl) as [p pl1]. cbn [fst snd] in *.
  destruct (splice_loop f its src p 0 []) as [[[x0 src'] p'] out0] eqn:E.
  destruct Hp as [Hb Hz].
  assert (Hinv : pp_data p' = Z.of_N (len (pp_bytes p')) /\ out0 ++ pp_bytes p' ++ src' = src).
  { eapply splice_loop_inv; [exact Hf|exact Hd| | | |exact E].
    - rewrite Hz, Hb. reflexivity.
    - rewrite Hb. reflexivity.
    - rewrite Hb. reflexivity. }
  destruct Hinv as [Hi Hc].
  assert (Hpre : prefix_of out0 src) by (exists (pp_bytes p' ++ src'); symmetry; exact Hc).
  inversion H; subst. split; [|exact Hpre].
  destruct x; try (apply pool_put_clean; assumption). exact Hpl1.
Qed.

Lemma run_history_clean : forall f conns pl outs pl',
  f_fill f = true -> f_drain f = true -> pool_clean pl ->
  run_history f conns pl = (outs, pl') ->
  pool_clean pl' /\ Forall2 (fun c out => prefix_of out (snd c)) conns outs.
Proof.
  intros f conns. induction conns as [|[its src] rest IH]; intros pl outs pl' Hf Hd Hpl H; cbn [run_history] in H.
  - inversion H; subst. split; [assumption|constructor].
  - destruct (run_conn f its src pl) as [[x out] pl1] eqn:E1.
    destruct (run_conn_clean _ _ _ _ _ _ _ Hf Hd Hpl E1) as [Hpl1 Hpre].
    destruct (run_history f rest pl1) as [outs2 pl2] eqn:E2.
    destruct (IH _ _ _ Hf Hd Hpl1 E2) as [Hpl2 Hall].
    inversion H; subst. split; [assumption|]. constructor; assumption.
Qed.

Lemma code_updates_every_splice : f_fill code_flags = true /\ f_drain code_flags = true.
Proof. split; reflexivity. Qed.

Lemma splice_pool_clean_proof : forall conns pl outs pl',
  pool_clean pl -> run_history code_flags conns pl = (outs, pl') ->
  pool_clean pl' /\ Forall2 (fun c out => prefix_of out (snd c)) conns outs.
Proof.
  intros. destruct code_updates_every_splice as [Hf Hd]. eapply run_history_clean; eauto.
Qed.

(* the variant that records stranded bytes only on the two failing drain exits: a cancellation seen at the loop
   top after a partial drain sends a non-empty pipe back to the pool; the next connection gets those bytes *)
Definition seed_flags : sflags := mkSF false false true true.
Definition w_conn1 : list iter * list N := ([mkIt false (FillN 4) (DrainN 1); mkIt true FillEof DrainZero], [1;2;3;4]).
Definition w_conn2 : list iter * list N := ([mkIt false (FillN 2) (DrainN 2); mkIt false FillEof DrainZero], [9;8]).

Lemma splice_seed_refuted_proof :
  exists conns pl, pool_clean pl /\
    ~ (pool_clean (snd (run_history seed_flags conns pl)) /\
       Forall2 (fun c out => prefix_of out (snd c)) conns (fst (run_history seed_flags conns pl))).
Proof.
  exists [w_conn1; w_conn2], []. split; [constructor|].
  intros [Hc _]. vm_compute in Hc. inversion Hc as [|p l Hp Hl]; subst. destruct Hp as [Hb _]. discriminate.
Qed.

Lemma splice_witness :
  fst (run_history seed_flags [w_conn1; w_conn2] []) = [[1]; [2;3]]
  /\ fst (run_history code_flags [w_conn1; w_conn2] []) = [[1]; [9;8]]
  /\ map pp_bytes (snd (run_history code_flags [w_conn1; w_conn2] [])) = [[]].
Proof. vm_compute. repeat split. Qed.
