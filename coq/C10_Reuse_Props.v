(* C10 — property theorems for the staged reload with controller reuse (replayDnsReloadCache +
   ReuseDNSControllerFrom).  `replay_filters_expired` is extracted from the source on every run
   (gen/C10_ReplayFilter.v); the first theorem closes only while it is false. *)
From Coq Require Import List NArith Bool.
From Dae Require Import C10_Spec C10_Model C10_Cache C10_Ctl_Model C10_Reuse_Model C10_Reuse_Proofs.
From Dae.gen Require Import C10_ReplayFilter.
Import ListNotations.
Open Scope N_scope.

(* After every history of controller operations and reloads of both kinds (new controller, or hand-over
   of the running controller with its cache), with the replay behaving as the source does
   (`replay_filters_expired`) and every re-sync task delivered: the kernel table is the OR over the
   controller's live cache entries at every address - also for entries past their TTL that nobody has
   evicted yet. *)
Theorem C10_ctl_mirror_reuse :
  forall (cfg : config) (rules : N -> N) (rops : list rop) (ip : N),
    Forall (rdelivered replay_filters_expired) rops ->
    let st := rrun cfg rules rops in
    c_kmap st ip = ctl_table_entry (c_cache st) ip.
Proof. exact C10_ctl_mirror_reuse_proof. Qed.
Print Assumptions C10_ctl_mirror_reuse.

(* The same statement for a replay that drops expired snapshot entries (C10_ctl_mirror_reuse_filtered,
   C10_Reuse_Proofs.v) is false. *)
Theorem C10_ctl_mirror_reuse_filtered_refuted : ~ C10_ctl_mirror_reuse_filtered.
Proof. exact C10_ctl_mirror_reuse_filtered_refuted_proof. Qed.
Print Assumptions C10_ctl_mirror_reuse_filtered_refuted.

Example C10_ctl_reuse_nonvacuous :
  let cfg := {| cf_optimistic := false; cf_opt_ttl := 0; cf_max := 0 |} in
  let rops := [ RCtl (OInsert (response_cache_key 1 0) 1 [(true, 0xffff01020304); (true, 0xffff01020305)] 10 0);
                RCtl (OInsert (response_cache_key 2 0) 2 [(true, 0xffff01020304)] 11 300);
                RReuse replay_filters_expired 20 (fun _ => true);
                RCtl (ORemove (response_cache_key 2 0)) ] in
  map (c_kmap (rrun cfg (fun f => f) (firstn 3 rops))) [0xffff01020304; 0xffff01020305] = [Some 3; Some 1]
  /\ map (c_kmap (rrun cfg (fun f => f) rops)) [0xffff01020304; 0xffff01020305] = [Some 1; Some 1].
Proof. vm_compute. split; reflexivity. Qed.
