(* C06 — executable comparison functions used by the generated cases file (no proofs). *)
From Coq Require Import List NArith Bool Arith.
From Coq Require String Ascii.
From Dae Require Import C06_Spec C06_Model C06_Async C06_Session C06_Clock C06_Key.
Import ListNotations.
Open Scope N_scope.

(* byte strings are written as hex string literals in the generated case files *)
Definition hexv (c : Ascii.ascii) : N :=
  let n := Ascii.N_of_ascii c in if (48 <=? n) && (n <=? 57) then n - 48 else n - 87.
Fixpoint H (s : String.string) : bytes :=
  match s with
  | String.String a (String.String b r) => (hexv a * 16 + hexv b) :: H r
  | _ => []
  end.

(* error codes
   impl <> model : 1 outcome   4 buffer / dataError / reads consumed / needMore / oracle left   5 relay
   impl <> spec  : 2 required name not reported (or another one)   6 relay bytes or status differ from what
                   the client sent   7 panic   8 reported name occurs nowhere in the client's bytes
                   11 waited past the timeout   12 datagrams altered
                   14 a read was armed with a deadline other than construction time + timeout (the sniff
                      timeout would not bound the whole sniff)
   model <> spec : 15 the virtual-clock run under the extracted deadline policy returns after origin + timeout
   model <> spec : 3 name   9 relay   10 the model reads out of bounds (Oob under the strict locator) *)

Definition rstatus_eqb (a b : rstatus) : bool :=
  match a, b with RsOk, RsOk | RsEof, RsEof | RsTimeout, RsTimeout | RsErr, RsErr => true | _, _ => false end.

Fixpoint is_prefix_of (p l : bytes) : bool :=
  match p, l with
  | [], _ => true
  | a :: p', b :: l' => (a =? b) && is_prefix_of p' l'
  | _, [] => false
  end.
Fixpoint is_substring (p l : bytes) : bool :=
  is_prefix_of p l || match l with [] => false | _ :: r => is_substring p r end.

Definition is_found (o : outcome) : bool := match o with Found _ => true | _ => false end.
Definition found_name (o : outcome) : bytes := match o with Found n => n | _ => [] end.
(* the harness cannot distinguish finer than these classes; a name is compared byte for byte unless it
   holds non-ASCII bytes (strings.ToLower / TrimSpace are Unicode-aware, the model is ASCII) *)
Definition ascii (n : bytes) : bool := forallb (fun b => b <? 128) n.
Definition obs_eqb (impl model : outcome) : bool :=
  match impl, model with
  | Found a, Found b => if ascii b then bytes_eqb a b else true
  | _, _ => outcome_eqb impl model
  end.

(* what the relay must get: every byte the client sent until it closed / failed, and that status *)
Fixpoint spec_relay (script : list rd) : bytes * rstatus :=
  match script with
  | [] => ([], RsEof)
  | e :: rest =>
      match rd_status e with
      | RsOk | RsTimeout => let '(b, s) := spec_relay rest in (rd_data e ++ b, s)
      | s => (rd_data e, s)
      end
  end.

(* run-length segments: long zero runs are written as Z n *)
Inductive seg := R (s : String.string) | Z (n : N).
Definition B (l : list seg) : bytes :=
  flat_map (fun x => match x with R s => H s | Z n => repeat 0 (N.to_nat n) end) l.

(* ------------------------------------------------------------------ stream cases *)
Record tcp_case := {
  tc_script : list rd;                  (* reads as observed (with windows) followed by the unread events *)
  tc_hello : option (N * hello);        (* the stream starts with enc_record m h *)
  tc_head : option http_head;           (* the stream starts with enc_head q *)
  tc_claimed : bytes;                   (* the bytes the generator put on the wire for that hello / head *)
  tc_drain : N;                         (* 0 Read, 1 TakeRelayPrefix+CopyRelayRemainder, 2 WriteTo *)
  tc_p : N;
  tc_impl : outcome;
  tc_impl_panic : bool;
  tc_impl_buf : bytes;
  tc_impl_dataerr : bool;
  tc_impl_nsniff : N;
  tc_relay : bytes;
  tc_relay_st : rstatus;
  tc_relay_bad : bool;                  (* relay panicked or the sniffer never signalled readiness *)
  tc_late : bool;
  tc_deadlines : list N;                (* read deadlines armed during the sniff, ns after the instant before construction *)
  tc_ctor : N;                          (* ns the construction took *)
  tc_timeout : N;                       (* the sniff timeout, ns *)
  tc_delays : list N }.                 (* virtual arrival delay of each script event (ticks of timeout/1000) *)

Definition benign (e : rd) : bool := match rd_status e with RsOk | RsEof => true | _ => false end.

(* number of leading events needed to hold `need` bytes, if they are all benign *)
Fixpoint covering (script : list rd) (have need : N) : bool :=
  match script with
  | [] => need <=? have
  | e :: r => if need <=? have then true else benign e && covering r (have + blen (rd_data e)) need
  end.

(* the name the property obliges the sniffer to report, when it does *)
Definition tcp_expect (c : tcp_case) : option outcome :=
  let stream := concat (map rd_data (tc_script c)) in
  match tc_hello c, tc_head c with
  | Some (m, h), _ =>
      if wf_hello h && hello_names_wf h && (blen (enc_handshake h) <? 65536)
         && bytes_eqb (enc_record m h) (tc_claimed c)
         && is_prefix_of (enc_record m h) stream
         && (5 <=? blen (rd_data (hd {| rd_window := 0; rd_data := []; rd_status := RsErr |} (tc_script c))))
         && covering (tc_script c) 0 (blen (enc_record m h))
      then Some (name_of h) else None
  | None, Some q =>
      match tc_script c with
      | e :: _ =>
          if wf_head q && bytes_eqb (enc_head q) (tc_claimed c) && benign e
             && is_prefix_of (enc_head q) (rd_data e)
          then Some (host_of q) else None
      | [] => None
      end
  | None, None => None
  end.

Definition strict_script (script : list rd) : list rd :=
  map (fun e => {| rd_window := blen (rd_data e); rd_data := rd_data e; rd_status := rd_status e |}) script.

Definition pair_eqb (a b : bytes * rstatus) : bool := bytes_eqb (fst a) (fst b) && rstatus_eqb (snd a) (snd b).

Definition check_tcp (c : tcp_case) : list N :=
  let script := tc_script c in
  let '(m_out, m_st, m_rest) := sniff_tcp script in
  let m_nsniff := N.of_nat (length script - length m_rest) in
  let m_relay := match tc_drain c with
                 | 0 => relay_read_all (tc_p c) m_st m_rest
                 | _ => relay_prefix_copy m_st m_rest
                 end in
  let s_relay := spec_relay script in
  let strict_out := fst (fst (sniff_tcp (strict_script script))) in
  let i_relay := (tc_relay c, tc_relay_st c) in
  let stream_l := map lower (fst s_relay) in
  let e1 := if tc_impl_panic c then (if outcome_eqb m_out Oob then [] else [1])
            else if obs_eqb (tc_impl c) m_out then [] else [1] in
  let e4 := if tc_impl_panic c then []
            else if bytes_eqb (tc_impl_buf c) (s_buf m_st)
                    && Bool.eqb (tc_impl_dataerr c) (match s_dataerr m_st with Some _ => true | None => false end)
                    && (tc_impl_nsniff c =? m_nsniff) then [] else [4] in
  let e5 := if tc_impl_panic c then []
            else if negb (tc_relay_bad c) && pair_eqb i_relay m_relay then [] else [5] in
  let e7 := if tc_impl_panic c || tc_relay_bad c then [7] else [] in
  let e6 := if tc_impl_panic c then []
            else if negb (tc_relay_bad c) && pair_eqb i_relay s_relay then [] else [6] in
  let e2 := match tcp_expect c with
            | Some want => if tc_impl_panic c then [2] else if obs_eqb (tc_impl c) want then [] else [2]
            | None => []
            end in
  let e3 := match tcp_expect c with
            | Some want => if outcome_eqb m_out want then [] else [3]
            | None => []
            end in
  let e8 := if is_found (tc_impl c) && ascii (found_name (tc_impl c))
               && negb (is_substring (found_name (tc_impl c)) stream_l) then [8] else [] in
  let e9 := if outcome_eqb m_out Oob then [] else if pair_eqb m_relay s_relay then [] else [9] in
  let e10 := if outcome_eqb strict_out Oob || outcome_eqb m_out Oob || outcome_eqb m_out OutOfFuel then [10] else [] in
  let e11 := if tc_late c then [11] else [] in
  (* the deterministic timing observable: every armed deadline = construction instant + timeout *)
  let e14 := if forallb (fun d => (tc_timeout c <=? d) && (d <=? tc_timeout c + tc_ctor c)) (tc_deadlines c)
                && match tc_deadlines c with [] => true | d0 :: r => forallb (N.eqb d0) r end
             then [] else [14] in
  (* the same script as an arrival schedule on the virtual clock, under the policy extracted from the source *)
  let sched := map (fun p => {| ar_delay := fst p; ar_data := rd_data (snd p) |})
                   (combine (tc_delays c) (filter (fun e => match rd_status e with RsOk => true | _ => false end) script)) in
  let '(_, tfin, _, _, ds) := clock_sniff extracted_policy 0 1000 (fun b => sniff_group_tcp b [0]) sched in
  let e15 := if (tfin <=? 1000) && forallb (N.eqb 1000) ds then [] else [15] in
  e1 ++ e4 ++ e5 ++ e2 ++ e6 ++ e7 ++ e8 ++ e11 ++ e14 ++ e3 ++ e9 ++ e10 ++ e15.

Definition outcome_code (o : outcome) : N :=
  match o with
  | Found _ => 1 | NotFound => 2 | NotApplicable => 3 | NeedMore => 4 | TimedOut => 5 | MissingCrypto => 6
  | IoError => 7 | Oob => 8 | OutOfFuel => 9
  end.

(* signature: (kind, model outcome, reads consumed (capped), drain, expectation present, strict over-read) *)
Definition sig_tcp (c : tcp_case) : N * N * N * N * N * N :=
  let script := tc_script c in
  let '(m_out, m_st, m_rest) := sniff_tcp script in
  let n := N.of_nat (length script - length m_rest) in
  let strict_out := fst (fst (sniff_tcp (strict_script script))) in
  (match tc_hello c, tc_head c with Some _, _ => 1 | None, Some _ => 2 | None, None => 0 end,
   outcome_code m_out, N.min n 6, tc_drain c,
   match tcp_expect c with Some _ => 1 | None => 0 end,
   if outcome_eqb strict_out Oob then 1 else 0).

(* ------------------------------------------------------------------ datagram cases *)
Record quic_step := {
  qs_dgram : bytes; qs_oracle : list bytes; qs_impl : outcome; qs_needmore : bool;
  qs_data_ok : bool; qs_panic : bool }.
Record quic_case := {
  qc_init : bytes;
  qc_steps : list quic_step;
  qc_hello : option hello;             (* the CRYPTO stream is enc_handshake h *)
  qc_claimed : bytes;                  (* the stream bytes the generator cut into frames *)
  qc_frags : list (list frag);         (* per datagram: the CRYPTO frames the generator put into it *)
  qc_honest : bool }.                  (* every datagram is a well-formed, correctly protected v1/v2 Initial flight *)

Definition q_stream_ok (c : quic_case) : bool :=
  match qc_hello c with
  | Some h => wf_hello h && hello_names_wf h && bytes_eqb (enc_handshake h) (qc_claimed c)
              && forallb (fragmentation_of (enc_handshake h)) (qc_frags c) && qc_honest c
  | None => false
  end.

Fixpoint check_quic_steps (c : quic_case) (steps : list quic_step) (k : nat) (st : ustate) (seen : bytes) : list N :=
  match steps with
  | [] => []
  | s :: rest =>
      let st1 := append_data st (qs_dgram s) in
      let '(m_out, st2, oleft) := sniff_udp st1 (qs_oracle s) in
      let seen' := map lower (concat (map snd (u_cryptos st2))) in
      let complete := match qc_hello c with
                      | Some h => q_stream_ok c && covers_all (enc_handshake h) (concat (firstn (S k) (qc_frags c)))
                      | None => false
                      end in
      let want := match qc_hello c with Some h => name_of h | None => NotFound end in
      let e7 := if qs_panic s then [7] else [] in
      let e1 := if qs_panic s then (if outcome_eqb m_out Oob then [] else [1])
                else if obs_eqb (qs_impl s) m_out then [] else [1] in
      let e4 := if qs_panic s then []
                else if Bool.eqb (qs_needmore s) (u_needmore st2) && (length oleft =? 0)%nat then [] else [4] in
      let e12 := if qs_data_ok s || qs_panic s then [] else [12] in
      let e2 := if qs_panic s then (if complete then [2] else [])
                else if complete then (if obs_eqb (qs_impl s) want then [] else [2])
                else if q_stream_ok c && is_found (qs_impl s) && negb (obs_eqb (qs_impl s) want) then [2] else [] in
      let e3 := if complete then (if outcome_eqb m_out want then [] else [3])
                else if q_stream_ok c && is_found m_out && negb (outcome_eqb m_out want) then [3] else [] in
      let e8 := if is_found (qs_impl s) && ascii (found_name (qs_impl s))
                   && negb (is_substring (found_name (qs_impl s)) seen') then [8] else [] in
      let e10 := if outcome_eqb m_out Oob || outcome_eqb m_out OutOfFuel then [10] else [] in
      e1 ++ e4 ++ e2 ++ e7 ++ e8 ++ e12 ++ e3 ++ e10 ++ check_quic_steps c rest (S k) st2 seen'
  end.

Definition check_quic (c : quic_case) : list N :=
  check_quic_steps c (qc_steps c) 0 (new_packet (qc_init c)) [].

Fixpoint quic_outcomes (steps : list quic_step) (st : ustate) : list N :=
  match steps with
  | [] => []
  | s :: rest => let '(m_out, st2, _) := sniff_udp (append_data st (qs_dgram s)) (qs_oracle s) in
                 outcome_code m_out :: quic_outcomes rest st2
  end.
Definition sig_quic (c : quic_case) : N * N * N * N * N * N :=
  let os := quic_outcomes (qc_steps c) (new_packet (qc_init c)) in
  (3, last os 0, N.of_nat (length os), N.of_nat (length (concat (map qs_oracle (qc_steps c)))),
   if q_stream_ok c then 1 else 0,
   N.of_nat (length (filter (fun o => o =? 1) os))).

(* ------------------------------------------------------------------ asynchronous fallback cases *)
Record async_case := {
  ac_script : list rd;      (* the client's script; a pause is an RsTimeout event *)
  ac_drain : N; ac_sched : sched; ac_p : N;
  ac_impl : outcome; ac_impl_panic : bool;
  ac_relay : bytes; ac_relay_st : rstatus; ac_relay_bad : bool; ac_late : bool }.

Definition check_async (c : async_case) : list N :=
  let '(m_out, m_st, pend, m_rest) := async_sniff (ac_script c) in
  let m_relay := async_relay (ac_drain c) (ac_sched c) (ac_p c) m_st pend m_rest in
  let s_relay := spec_relay (ac_script c) in
  let i_relay := (ac_relay c, ac_relay_st c) in
  let e1 := if ac_impl_panic c then [1] else if obs_eqb (ac_impl c) m_out then [] else [1] in
  let e5 := if negb (ac_relay_bad c) && pair_eqb i_relay m_relay then [] else [5] in
  let e6 := if negb (ac_relay_bad c) && pair_eqb i_relay s_relay then [] else [6] in
  let e7 := if ac_impl_panic c || ac_relay_bad c then [7] else [] in
  let e9 := if pair_eqb m_relay s_relay then [] else [9] in
  let e11 := if ac_late c then [11] else [] in
  e1 ++ e5 ++ e6 ++ e7 ++ e11 ++ e9.
Definition sig_async (c : async_case) : N * N * N * N * N * N :=
  let '(m_out, m_st, pend, m_rest) := async_sniff (ac_script c) in
  (4, outcome_code m_out, ac_drain c, match ac_sched c with LateFirst => 0 | DrainFirst => 1 end,
   match pend with Some _ => 1 | None => 0 end, N.min 6 (N.of_nat (length (ac_script c) - length m_rest))).

(* ------------------------------------------------------------------ UDP sniff session cases *)
Record sess_step := {
  sp_event : sevent;               (* time, datagram, the sniffer's answer as observed, janitor race bit *)
  sp_held_verdict : bool;          (* implementation: the datagram was withheld *)
  sp_payloads : list bytes;        (* implementation: what was forwarded now (replayed ones, then this one) *)
  sp_domain : bytes;
  sp_held_after : list bytes;      (* sniffer.Data()[1:] after the step *)
  sp_session : bool; sp_panic : bool }.
Record sess_case := {
  sc_steps : list sess_step;
  sc_complete : bool;              (* the flight delivered a complete ClientHello: the client has nothing more to add *)
  sc_final_held : list bytes;      (* implementation: still withheld when the flight is over *)
  sc_final_gone : bool }.          (* ... and after the TTL the session (with them) was collected *)

Definition lbytes_eqb (a b : list bytes) : bool :=
  (length a =? length b)%nat && forallb (fun p => bytes_eqb (fst p) (snd p)) (combine a b).

(* error codes as above plus 13: datagrams of a complete flight are withheld for good *)
Fixpoint check_sess_steps (steps : list sess_step) (st : cstate) : list N * cstate :=
  match steps with
  | [] => ([], st)
  | s :: rest =>
      let '(o, dropped, st1) := step st (sp_event s) in
      let m_held := match cs_sess st1 with Some x => ss_held x | None => [] end in
      let e7 := if sp_panic s then [7] else [] in
      let e1 := match o with
                | OHeld => if sp_held_verdict s then [] else [1]
                | OForward pl d => if negb (sp_held_verdict s) && lbytes_eqb pl (sp_payloads s)
                                      && bytes_eqb d (sp_domain s) then [] else [1]
                end in
      let e4 := if lbytes_eqb m_held (sp_held_after s)
                   && Bool.eqb (sp_session s) (match cs_sess st1 with Some _ => true | None => false end)
                then [] else [4] in
      let '(es, st2) := check_sess_steps rest st1 in
      (e7 ++ e1 ++ e4 ++ es, st2)
  end.

Definition check_sess (c : sess_case) : list N :=
  let '(es, st) := check_sess_steps (sc_steps c) init_cstate in
  let h := map sp_event (sc_steps c) in
  let '(outs, fwd, dropped, stf) := run_session h in
  let i_fwd := concat (map sp_payloads (sc_steps c)) in
  let inputs := map ev_data h in
  (* model = spec: the accounting theorem re-observed *)
  let e3 := if negb (monotone h) then [] else
            if (length dropped =? 0)%nat then (if lbytes_eqb (fwd ++ pending stf) inputs then [] else [3]) else [] in
  (* impl = spec: exactly once, in order, or still withheld *)
  let e6 := if (length dropped =? 0)%nat
            then (if lbytes_eqb (i_fwd ++ (if (length (pending stf) =? 0)%nat then [] else sc_final_held c)) inputs then [] else [6])
            else [] in
  let e13 := if sc_complete c && negb (length (sc_final_held c) =? 0)%nat then [13] else [] in
  let e9 := if sc_complete c && negb (length (pending stf) =? 0)%nat then [9] else [] in
  es ++ e6 ++ e13 ++ e3 ++ e9.

Definition sres_code (r : sres) : N := match r with SrFound _ => 1 | SrNeedMore => 2 | SrNotApp => 3 | SrOther => 4 end.
Definition sig_sess (c : sess_case) : N * N * N * N * N * N :=
  let h := map sp_event (sc_steps c) in
  let '(outs, fwd, dropped, stf) := run_session h in
  (5, N.of_nat (length h),
   fold_left (fun a e => a * 5 + match e with EvPacket _ _ r _ => sres_code r end) (firstn 4 h) 0,
   N.of_nat (length (pending stf)), N.of_nat (length dropped),
   match cs_failed stf with Some _ => 1 | None => 0 end).

(* ------------------------------------------------------------------ session key / fingerprint cases *)
(* one datagram and, for each listed truncation length n, the packed observation of the real
   NewPacketSnifferKey / parseQuicInitialFingerprint / ObserveQuicInitial on its first n bytes:
   k + 4*f + 16*klen + 512*fdl + 16384*fsl + (obsPanic << 20); k, f: 0 nothing, 1 present and equal
   to the datagram's bytes at their positions, 2 present but different, 3 panic *)
Record key_case := { kc_data : bytes; kc_obs : list (N * N) }.

Definition pack_key (k : rr (option bytes)) (f : rr (option (bytes * bytes * bytes))) : N :=
  let '(kc, kl) := match k with Err _ => (3, 0) | Ok None => (0, 0) | Ok (Some d) => (1, blen d) end in
  let '(fc, fd, fs) := match f with
                       | Err _ => (3, 0, 0) | Ok None => (0, 0, 0)
                       | Ok (Some (_, dc, sc)) => (1, blen dc, blen sc)
                       end in
  kc + 4 * fc + 16 * kl + 512 * fd + 16384 * fs.

Definition check_key (c : key_case) : list N :=
  flat_map (fun o =>
    let d := firstn (N.to_nat (fst o)) (kc_data c) in
    let impl := snd o in
    let m := pack_key (key_dcid d) (fingerprint d) in
    let sp := pack_key (Ok (spec_key_dcid d)) (Ok (spec_fingerprint d)) in
    let panic := (impl mod 4 =? 3) || ((impl / 4) mod 4 =? 3) || (1048576 <=? impl) in
    (if impl =? m then [] else [1]) ++ (if panic then [7] else if impl =? sp then [] else [2])
    ++ (if m =? sp then [] else [3])) (kc_obs c).
Definition sig_key (c : key_case) : N * N * N * N * N * N :=
  let ds := map (fun o => firstn (N.to_nat (fst o)) (kc_data c)) (kc_obs c) in
  (6, N.of_nat (length ds),
   N.of_nat (length (filter (fun d => match spec_fingerprint d with Some _ => true | None => false end) ds)),
   N.of_nat (length (filter (fun d => match spec_key_dcid d with Some _ => true | None => false end) ds)),
   nth 5 (kc_data c) 0, if looks_initial (kc_data c) then 1 else 0).

Inductive acase := ATcp (c : tcp_case) | AQuic (c : quic_case) | AAsync (c : async_case) | ASess (c : sess_case) | AKey (c : key_case).
Definition check_case (a : acase) : list N :=
  match a with ATcp c => check_tcp c | AQuic c => check_quic c | AAsync c => check_async c | ASess c => check_sess c | AKey c => check_key c end.
Definition case_signature (a : acase) : N * N * N * N * N * N :=
  match a with ATcp c => sig_tcp c | AQuic c => sig_quic c | AAsync c => sig_async c | ASess c => sig_sess c | AKey c => sig_key c end.
