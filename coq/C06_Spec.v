(* C06 — sniffing finds the name that is there and never alters or withholds payload.
   Spec: the property in its own terms.  It knows nothing of locators, boundaries, buffers or
   capacity.  A ClientHello is an abstract record with an encoder written from RFC 8446 4.1.2 /
   RFC 6066 3; the carried name is the first host_name entry.  An HTTP/1 request head is a request
   line and a header list; the carried name is the value of the first Host header.  A QUIC CRYPTO
   stream is a byte string, a fragmentation of it is any list of (offset, piece) whose pieces are
   pieces of that string.  Replay: bytes out = bytes in.  Everything is executable. *)
From Coq Require Import List NArith Bool Arith.
From Dae.gen Require Import C06_Extracted.
Import ListNotations.
Open Scope N_scope.

Definition bytes := list N.

Definition blen (l : bytes) : N := N.of_nat (length l).
Definition be16 (n : N) : bytes := [n / 256; n mod 256].
Definition be24 (n : N) : bytes := [n / 65536; (n / 256) mod 256; n mod 256].

(* ------------------------------------------------------------------ outcomes *)
Inductive outcome :=
| Found (name : bytes)      (* a server name is reported *)
| NotFound                  (* recognised protocol, no name carried *)
| NotApplicable             (* not this protocol *)
| NeedMore                  (* TLS record not complete yet *)
| TimedOut                  (* the sniffing deadline passed *)
| MissingCrypto             (* QUIC: the CRYPTO stream has a hole where the extractor looks *)
| IoError                   (* the connection itself failed *)
| Oob                       (* an access outside the slice/array: Go would panic or read foreign bytes *)
| OutOfFuel.                (* model artefact: a loop did not terminate within its fuel *)

Definition bytes_eqb (a b : bytes) : bool :=
  (length a =? length b)%nat && forallb (fun p => fst p =? snd p) (combine a b).

Definition outcome_eqb (a b : outcome) : bool :=
  match a, b with
  | Found x, Found y => bytes_eqb x y
  | NotFound, NotFound | NotApplicable, NotApplicable | NeedMore, NeedMore | TimedOut, TimedOut
  | MissingCrypto, MissingCrypto | IoError, IoError | Oob, Oob | OutOfFuel, OutOfFuel => true
  | _, _ => false
  end.

(* ------------------------------------------------------------------ names *)
(* ASCII lower-casing and "trailing dot dropped": what dae hands to routing for a host name. *)
Definition lower (b : N) : N := if (65 <=? b) && (b <=? 90) then b + 32 else b.
Definition strip_dot (n : bytes) : bytes :=
  match rev n with 46 :: r => rev r | _ => n end.
Definition norm_name (n : bytes) : bytes := strip_dot (map lower n).

(* characters a host name (RFC 6066 HostName / RFC 7230 uri-host without port) may contain for the
   theorems: visible ASCII except ':' '[' ']' (those select the host:port / IPv6 literal forms). *)
Definition host_char (b : N) : bool :=
  (33 <=? b) && (b <=? 126) && negb (b =? 58) && negb (b =? 91) && negb (b =? 93).
Definition ends_with_dot (n : bytes) : bool :=
  match rev n with 46 :: _ => true | _ => false end.
(* a name as a client may put it on the wire: host characters, at most one trailing dot *)
Definition wf_name (n : bytes) : bool :=
  forallb host_char n && negb (ends_with_dot (strip_dot n)).

(* ------------------------------------------------------------------ TLS ClientHello *)
Inductive extension :=
| ExtOther (typ : N) (body : bytes)              (* any extension but server_name, GREASE included *)
| ExtServerName (entries : list (N * bytes)).    (* ServerNameList: (name_type, name) *)

Record hello := {
  h_minor : N;              (* legacy_version minor: 1, 2 or 3 *)
  h_random : bytes;         (* 32 bytes *)
  h_session : bytes;        (* 0..32 bytes legacy session id (any length < 256 encodable) *)
  h_suites : bytes;         (* cipher suites, raw *)
  h_compress : bytes;       (* compression methods, raw *)
  h_exts : list extension }.

Definition enc_entry (e : N * bytes) : bytes := fst e :: be16 (blen (snd e)) ++ snd e.
Definition enc_sni_list (es : list (N * bytes)) : bytes :=
  let l := flat_map enc_entry es in be16 (blen l) ++ l.
Definition ext_type (x : extension) : N := match x with ExtOther t _ => t | ExtServerName _ => 0 end.
Definition ext_body (x : extension) : bytes :=
  match x with ExtOther _ b => b | ExtServerName es => enc_sni_list es end.
Definition enc_ext (x : extension) : bytes := be16 (ext_type x) ++ be16 (blen (ext_body x)) ++ ext_body x.
Definition enc_exts (xs : list extension) : bytes := flat_map enc_ext xs.

Definition enc_hello_body (h : hello) : bytes :=
  [3; h_minor h] ++ h_random h
  ++ [blen (h_session h)] ++ h_session h
  ++ be16 (blen (h_suites h)) ++ h_suites h
  ++ [blen (h_compress h)] ++ h_compress h
  ++ be16 (blen (enc_exts (h_exts h))) ++ enc_exts (h_exts h).

(* the handshake message (what a QUIC CRYPTO stream carries) *)
Definition enc_handshake (h : hello) : bytes :=
  let b := enc_hello_body h in 1 :: be24 (blen b) ++ b.
(* one TLS record holding the whole handshake message (what a TCP stream starts with) *)
Definition enc_record (rec_minor : N) (h : hello) : bytes :=
  let m := enc_handshake h in [22; 3; rec_minor] ++ be16 (blen m) ++ m.

Definition wf_entry (e : N * bytes) : bool := (fst e <? 256) && (blen (snd e) <? 65536).
Definition wf_ext (x : extension) : bool :=
  match x with
  | ExtOther t b => (0 <? t) && (t <? 65536) && (blen b <? 65536)
  | ExtServerName es => forallb wf_entry es && (blen (enc_sni_list es) <? 65536)
                        && (blen (flat_map enc_entry es) <? 65536)
  end.
Definition wf_hello (h : hello) : bool :=
  (1 <=? h_minor h) && (h_minor h <=? 3)
  && (blen (h_random h) =? 32)
  && (blen (h_session h) <? 256)
  && (blen (h_suites h) <? 65536)
  && (blen (h_compress h) <? 256)
  && forallb wf_ext (h_exts h)
  && (blen (enc_exts (h_exts h)) <? 65536).

(* the name a ClientHello carries: the first host_name (type 0) entry, in wire order *)
Definition first_host (es : list (N * bytes)) : option bytes :=
  match find (fun e => fst e =? 0) es with Some e => Some (snd e) | None => None end.
Fixpoint carried_name (xs : list extension) : option bytes :=
  match xs with
  | [] => None
  | ExtServerName es :: r => match first_host es with Some n => Some n | None => carried_name r end
  | ExtOther _ _ :: r => carried_name r
  end.
(* what the extractor proper must return (trailing dot dropped) and what sniffing reports (lower-cased) *)
Definition raw_name_of (h : hello) : outcome :=
  match carried_name (h_exts h) with Some n => Found (strip_dot n) | None => NotFound end.
Definition name_of (h : hello) : outcome :=
  match carried_name (h_exts h) with Some n => Found (norm_name n) | None => NotFound end.
Definition hello_names_wf (h : hello) : bool :=
  match carried_name (h_exts h) with Some n => wf_name n | None => true end.

(* ------------------------------------------------------------------ HTTP/1 request head *)
Record http_head := {
  q_method : bytes; q_target : bytes; q_version : bytes;
  q_headers : list (bytes * bytes) }.   (* (field-name, field-value incl. optional whitespace) *)

Definition crlf : bytes := [13; 10].
Definition enc_header (kv : bytes * bytes) : bytes := fst kv ++ [58] ++ snd kv ++ crlf.
Definition enc_head (q : http_head) : bytes :=
  q_method q ++ [32] ++ q_target q ++ [32] ++ q_version q ++ crlf
  ++ flat_map enc_header (q_headers q) ++ crlf.

Definition is_ows (b : N) : bool := (b =? 32) || (b =? 9).
Fixpoint ltrim (l : bytes) : bytes := match l with b :: r => if is_ows b then ltrim r else l | [] => [] end.
Definition trim (l : bytes) : bytes := rev (ltrim (rev (ltrim l))).
Definition is_host_key (k : bytes) : bool := bytes_eqb (map lower (trim k)) [104; 111; 115; 116].
Definition first_host_header (hs : list (bytes * bytes)) : option bytes :=
  match find (fun kv => is_host_key (fst kv)) hs with Some kv => Some (trim (snd kv)) | None => None end.
(* The name a Host field value stands for, as sniffing.NormalizeDomain documents it: lower-cased;
   "[v6]" and "[v6]:port" give the address without brackets; "host:port" gives the host part as it
   stands; a plain host name loses one trailing dot. *)
Fixpoint before (c : N) (l : bytes) : bytes :=
  match l with [] => [] | b :: r => if b =? c then [] else b :: before c r end.
Fixpoint after (c : N) (l : bytes) : option bytes :=
  match l with [] => None | b :: r => if b =? c then Some r else after c r end.
Definition host_value_name (v : bytes) : bytes :=
  let l := map lower v in
  match l with
  | 91 :: r => before 93 r
  | _ => match after 58 l with None => strip_dot l | Some _ => before 58 l end
  end.
Definition is_digit (b : N) : bool := (48 <=? b) && (b <=? 57).
Definition v6_char (b : N) : bool :=
  is_digit b || ((97 <=? lower b) && (lower b <=? 102)) || (b =? 58) || (b =? 46).
(* Host values in the scope of the HTTP theorem: a plain name, name ":" digits, "[" v6 "]", "[" v6 "]:" digits *)
Definition wf_host_value (v : bytes) : bool :=
  match v with
  | 91 :: r =>
      forallb v6_char (before 93 r) && negb (length (before 93 r) =? 0)%nat
      && match after 93 r with
         | Some [] => true
         | Some (58 :: port) => forallb is_digit port
         | _ => false
         end
  | _ => match after 58 v with
         | None => wf_name v
         | Some port => forallb host_char (before 58 v) && negb (length (before 58 v) =? 0)%nat
                        && forallb is_digit port
         end
  end.
Definition host_of (q : http_head) : outcome :=
  match first_host_header (q_headers q) with
  | Some v => if (length v =? 0)%nat then NotFound else Found (host_value_name v)
  | None => NotFound
  end.

(* request heads in the scope of the HTTP theorem: a known method, visible ASCII target and version,
   header names of host characters, values of printable ASCII/tab, a plain host name as Host value *)
Definition visible (b : N) : bool := (33 <=? b) && (b <=? 126).
Definition wf_head (q : http_head) : bool :=
  existsb (bytes_eqb (q_method q)) http_methods
  && forallb visible (q_target q) && negb (length (q_target q) =? 0)%nat
  && forallb visible (q_version q)
  && forallb (fun kv => forallb host_char (fst kv) && negb (length (fst kv) =? 0)%nat
                        && forallb (fun b => ((32 <=? b) && (b <=? 126)) || (b =? 9)) (snd kv)) (q_headers q)
  && match first_host_header (q_headers q) with
     | Some v => wf_host_value v
     | None => true
     end.

(* ------------------------------------------------------------------ QUIC CRYPTO stream *)
(* a fragment: (offset, piece); a fragmentation of stream s: every fragment is a piece of s *)
Definition sub (l : bytes) (i j : N) : bytes := firstn (N.to_nat (j - i)) (skipn (N.to_nat i) l).
Definition frag_of (s : bytes) (f : N * bytes) : bool :=
  (fst f + blen (snd f) <=? blen s) && bytes_eqb (snd f) (sub s (fst f) (fst f + blen (snd f))).
Definition fragmentation_of (s : bytes) (fs : list (N * bytes)) : bool := forallb (frag_of s) fs.
(* position p of the stream is delivered by some fragment *)
Definition covered (fs : list (N * bytes)) (p : N) : bool :=
  existsb (fun f => (fst f <=? p) && (p <? fst f + blen (snd f))) fs.
Definition covers_all (s : bytes) (fs : list (N * bytes)) : bool :=
  forallb (fun p => covered fs (N.of_nat p)) (seq 0 (length s)).

(* QUIC frames of an Initial packet as a client emits them (RFC 9000 16: variable-length integers,
   minimal encoding; 19.1 PADDING, 19.2 PING, 19.6 CRYPTO) *)
Definition enc_varint (n : N) : bytes :=
  if n <? 64 then [n]
  else if n <? 16384 then [64 + n / 256; n mod 256]
  else if n <? 1073741824 then
    [128 + n / 16777216; (n / 65536) mod 256; (n / 256) mod 256; n mod 256]
  else
    [192 + n / 72057594037927936; (n / 281474976710656) mod 256; (n / 1099511627776) mod 256;
     (n / 4294967296) mod 256; (n / 16777216) mod 256; (n / 65536) mod 256; (n / 256) mod 256; n mod 256].

Inductive qframe := QPadding (n : nat) | QPing | QCrypto (off : N) (data : bytes).

Definition enc_qframe (f : qframe) : bytes :=
  match f with
  | QPadding n => repeat 0 n
  | QPing => [1]
  | QCrypto off d => [6] ++ enc_varint off ++ enc_varint (blen d) ++ d
  end.

Definition wf_qframe (f : qframe) : Prop :=
  match f with
  | QPadding n => (1 <= n)%nat
  | QPing => True
  | QCrypto off d => off < 4611686018427387904 /\ blen d < 4611686018427387904
  end.
Definition wf_frames (fs : list qframe) : Prop := Forall wf_qframe fs.

Definition crypto_of (f : qframe) : list (N * bytes) :=
  match f with QCrypto off d => [(off, d)] | _ => [] end.
Definition cryptos (fs : list qframe) : list (N * bytes) := flat_map crypto_of fs.
Definition enc_frames (fs : list qframe) : bytes := flat_map enc_qframe fs.

(* ------------------------------------------------------------------ QUIC long header: session key and fingerprint *)
(* What the control plane takes from a datagram that looks like a QUIC Initial (RFC 9000 17.2: flags,
   4-byte version, DCID length, DCID, SCID length, SCID) - read structurally, touching only bytes
   that are there.  The fingerprint (version, DCID, SCID) exists when both connection IDs are
   complete and at most 20 bytes; the session key's DCID when it is complete, 1..20 bytes. *)
Definition looks_initial (data : bytes) : bool :=
  (7 <=? blen data)
  && match data with f :: _ => ((f / 128) mod 2 =? 1) && ((f / 16) mod 4 =? 0) | [] => false end.
Definition spec_fingerprint (data : bytes) : option (bytes * bytes * bytes) :=
  if negb (looks_initial data) then None else
  match data with
  | _ :: v1 :: v2 :: v3 :: v4 :: dl :: rest =>
      if 20 <? dl then None else
      match skipn (N.to_nat dl) rest with
      | sl :: rest2 =>
          if blen rest <? dl + 1 then None else
          if 20 <? sl then None else
          if blen rest2 <? sl then None else
          Some ([v1; v2; v3; v4], firstn (N.to_nat dl) rest, firstn (N.to_nat sl) rest2)
      | [] => None
      end
  | _ => None
  end.
Definition spec_key_dcid (data : bytes) : option bytes :=
  if negb (looks_initial data) then None else
  match data with
  | _ :: _ :: _ :: _ :: _ :: dl :: rest =>
      if (0 <? dl) && (dl <=? 20) && (dl <=? blen rest) then Some (firstn (N.to_nat dl) rest) else None
  | _ => None
  end.

(* ------------------------------------------------------------------ replay *)
(* what the relay must receive: exactly the client's bytes, in order, each once *)
Definition replay_spec (client_chunks : list bytes) : bytes := concat client_chunks.
