(* C17 — the shape of a configuration schema (struct tags of config/config.go), filled by the translator. *)
From Coq Require Import List NArith.
Import ListNotations.
Open Scope N_scope.

Inductive fkind :=
| KString                 (* string: any value *)
| KScalar (ty : N)        (* bool / integers / duration: common.FuzzyDecode decides (oracle) *)
| KList (ty : N)          (* slice of scalars or strings (ty = 0: strings), comma separated or a string-list section *)
| KIface                  (* function-or-string *)
| KFuncLists              (* repeatable list of '&&' chains (group filter) *)
| KStruct (sid : N)       (* a nested section *)
| KStructList (sid : N)   (* named sub-sections (group) *)
| KStringList.            (* a section that is a list of values (node, subscription) *)

Record field := Field { f_key : list N; f_kind : fkind; f_default : option (list N); f_required : bool }.
Record sstruct := Struct { s_id : N; s_fields : list field; s_has_rules : bool }.
(* top-level sections in the order config.New decodes them *)
Record topsec := TopSec { t_name : list N; t_kind : fkind; t_required : bool }.
