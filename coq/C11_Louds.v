(* C11 — code-shaped model of pkg/trie/trie.go (NewTrie, HasPrefix, init, countZeros, selectIthOne) and of
   common/bitlist/bitlist.go (CompactBitList over pkg/anybuffer 16-bit units).  Layer 3 of the C11 model.

   Two levels, both executable:
   * logical  — the LOUDS arrays as plain lists ([louds]: labels, label bitmap as list bool, leaves as
                list bool) with naive rank/select; this is what the tree argument is proved about;
   * packed   — the same arrays as the code stores them: 64-bit words, rank samples per word, select
                samples per 64 ones, all three integer arrays inside CompactBitLists ([ptrie]).
   The only lemma in this file is the totality of the string order needed by the stdlib merge sort. *)
From Coq Require Import List NArith Bool Orders Sorting.Mergesort.
From Dae Require Import C11_Spec C11_Model.
Import ListNotations.
Open Scope N_scope.

(* ---------- sort.Strings + common.Deduplicate ---------- *)
Fixpoint str_leb (a b : str) : bool :=
  match a, b with
  | [], _ => true
  | _ :: _, [] => false
  | x :: a', y :: b' => if x <? y then true else if x =? y then str_leb a' b' else false
  end.

Module StrOrder <: TotalLeBool.
  Definition t := str.
  Definition leb := str_leb.
  Theorem leb_total : forall a b, leb a b = true \/ leb b a = true.
  Proof.
    induction a as [|x a IH]; intros [|y b]; simpl; auto.
    destruct (N.ltb_spec x y); auto.
    destruct (N.ltb_spec y x); auto.
    assert (x = y) by (apply N.le_antisymm; assumption). subst.
    rewrite N.eqb_refl. apply IH.
  Qed.
End StrOrder.
Module StrSort := Sort StrOrder.

(* duplicates are adjacent after sorting (Go: Deduplicate, then sort.Strings — same resulting array) *)
Fixpoint uniq (l : list str) : list str :=
  match l with
  | a :: t => match t with
              | b :: _ => if str_eqb a b then uniq t else a :: uniq t
              | [] => l
              end
  | [] => []
  end.
Definition sort_uniq (keys : list str) : list str := uniq (StrSort.sort keys).

(* ---------- NewTrie: the BFS over (s, e, col) ----------
   A queue element {s, e, col} of the Go code denotes the keys[s:e) — which all share their first col
   bytes — and is represented here by those keys with the first col bytes dropped ([node]).
   The queue is produced level by level, which is the order in which the Go loop appends to it. *)
Definition node := list str.

(* elt.col == len(keys[elt.s]) : the first key of the range ends here *)
Definition is_leaf (g : node) : bool := match g with [] :: _ => true | _ => false end.
(* elt.s++ *)
Definition drop_leaf (g : node) : node := match g with [] :: r => r | _ => g end.

(* the inner loop: maximal runs of keys with the same byte at col; each run becomes a child *)
Fixpoint groups (g : node) : list (N * node) :=
  match g with
  | [] => []
  | [] :: r => groups r   (* unreachable on a sorted duplicate-free range after drop_leaf (Go would index out of range) *)
  | (c :: t) :: r =>
      match groups r with
      | (c', ts) :: gs => if c =? c' then (c, t :: ts) :: gs else (c, [t]) :: (c', ts) :: gs
      | [] => [(c, [t])]
      end
  end.

Definition kids (g : node) : list (N * node) := groups (drop_leaf g).

Fixpoint bfs (fuel : nat) (level : list node) : list node :=
  match fuel with
  | O => []
  | S f => match level with
           | [] => []
           | _ => level ++ bfs f (flat_map (fun g => map snd (kids g)) level)
           end
  end.

Definition max_len (ks : list str) : nat := fold_right (fun k m => Nat.max (length k) m) O ks.

Record louds := { l_labels : list N; l_lbm : list bool; l_leaves : list bool }.

Definition louds_of_nodes (chars : list N) (nodes : list node) : louds :=
  {| l_labels := flat_map (fun g => map (fun k => vc_table chars (fst k)) (kids g)) nodes;
     l_lbm := flat_map (fun g => repeat false (length (kids g)) ++ [true]) nodes;
     l_leaves := map is_leaf nodes |}.

Definition bfs_nodes (keys : list str) : list node :=
  let ks := sort_uniq keys in bfs (S (S (max_len ks))) [ks].

Definition keys_valid (chars : list N) (keys : list str) : bool := forallb (forallb (vc_valid chars)) keys.

(* NewTrie, logical level.  None = the "char out of range" error.  (An empty key list makes the Go code
   index keys[0]; NewTrie is never called with one by the matcher and the model is not used there.) *)
Definition l_new (chars : list N) (keys : list str) : option louds :=
  if keys_valid chars keys then Some (louds_of_nodes chars (bfs_nodes keys)) else None.

(* ---------- HasPrefix, logical level: naive rank / select over list bool ---------- *)
Definition count_zeros_l (lbm : list bool) (i : nat) : nat := length (filter negb (firstn i lbm)).

Fixpoint select_one_l (lbm : list bool) (i : nat) (pos : nat) : nat :=
  match lbm with
  | [] => pos
  | b :: r => if b then match i with O => pos | S i' => select_one_l r i' (S pos) end
              else select_one_l r i (S pos)
  end.

Fixpoint l_scan (fuel : nat) (L : louds) (nodeId bmIdx : nat) (tc : N) : option nat :=
  match fuel with
  | O => None
  | S f =>
      if nth bmIdx (l_lbm L) true then None
      else if nth (bmIdx - nodeId) (l_labels L) 0 =? tc then Some bmIdx
      else l_scan f L nodeId (S bmIdx) tc
  end.

Fixpoint l_has_from (chars : list N) (L : louds) (word : str) (nodeId bmIdx : nat) : bool :=
  match word with
  | [] => nth nodeId (l_leaves L) false
  | c :: w' =>
      if nth nodeId (l_leaves L) false then true
      else if negb (vc_valid chars c) then false
      else match l_scan (length (l_lbm L)) L nodeId bmIdx (vc_table chars c) with
           | None => false
           | Some bm =>
               let nodeId' := count_zeros_l (l_lbm L) (S bm) in
               let bmIdx' := S (select_one_l (l_lbm L) (nodeId' - 1) 0) in
               l_has_from chars L w' nodeId' bmIdx'
           end
  end.

Definition l_has (chars : list N) (L : louds) (word : str) : bool := l_has_from chars L word 0 0.

(* ---------- CompactBitList (units of arbitrary bit size packed into uint16) ---------- *)
Record cbl := { c_unit : N; c_buf : list N; c_num : N }.
Definition cbl_new (u : N) : cbl := {| c_unit := u; c_buf := []; c_num := 0 |}.

Definition nthN (l : list N) (i : N) : N := nth (N.to_nat i) l 0.
Fixpoint upd (l : list N) (i : nat) (x : N) : list N :=
  match l, i with
  | [], _ => []
  | _ :: r, O => x :: r
  | y :: r, S i' => y :: upd r i' x
  end.
Definition updN (l : list N) (i : N) (x : N) : list N := upd l (N.to_nat i) x.

Definition u16 (x : N) : N := x mod 65536.

(* growByUnitIndex: anybuffer.Extend appends zeroed units *)
Definition cbl_grow (b : list N) (u i : N) : list N :=
  let boundary := (i + 1) * u in
  let len := N.of_nat (length b) in
  if len * 16 <? boundary then
    let need := boundary / 16 + (if boundary mod 16 =? 0 then 0 else 1) in
    b ++ repeat 0 (N.to_nat (need - len))
  else b.

(* for ; k < unitToTravel && j+k < 16; k++ { b[i] &= ^(1 << (k+j)); b[i] |= uint16((v & (1<<k)) << j) } *)
Fixpoint set_lo (cnt : nat) (k j w v : N) : N :=
  match cnt with
  | O => w
  | S c =>
      let w1 := N.clearbit w (k + j) in
      let w2 := N.lor w1 (u16 (N.shiftl (N.land v (N.shiftl 1 k)) j)) in
      set_lo c (k + 1) j w2 v
  end.
(* for ; k < unitToTravel && k < 16; k++ { b[i] &= ^(1 << (k-j)); b[i] |= uint16((v & (1<<k)) >> j) } *)
Fixpoint set_hi (cnt : nat) (k j w v : N) : N :=
  match cnt with
  | O => w
  | S c =>
      let w1 := N.clearbit w (k - j) in
      let w2 := N.lor w1 (u16 (N.shiftr (N.land v (N.shiftl 1 k)) j)) in
      set_hi c (k + 1) j w2 v
  end.

Fixpoint set_loop (fuel : nat) (b : list N) (i j v utt : N) : list N :=
  match fuel with
  | O => b
  | S f =>
      if utt =? 0 then b else
      let n1 := N.min utt (16 - j) in                       (* value of k after the first inner loop *)
      let b1 := updN b i (set_lo (N.to_nat n1) 0 j (nthN b i) v) in
      if utt <=? n1 then b1 else
      let i' := i + 1 in
      let j' := n1 in
      let n2 := N.min utt 16 in                             (* value of k after the second inner loop *)
      let b2 := if n1 <? n2 then updN b1 i' (set_hi (N.to_nat (n2 - n1)) n1 j' (nthN b1 i') v) else b1 in
      set_loop f b2 i' ((j + 16) mod 16) (N.shiftr v 16) (utt - 16)
  end.

(* Set: None = the "exceeds unit bit size" panic *)
Definition cbl_set (m : cbl) (iUnit v : N) : option cbl :=
  if c_unit m <? N.size v then None else
  let b := cbl_grow (c_buf m) (c_unit m) iUnit in
  let bit := iUnit * c_unit m in
  Some {| c_unit := c_unit m;
          c_buf := set_loop 6 b (bit / 16) (bit mod 16) v (c_unit m);
          c_num := N.max (c_num m) (iUnit + 1) |}.

Definition cbl_append (m : cbl) (v : N) : option cbl := cbl_set m (c_num m) v.

Fixpoint get_whole (fuel : nat) (b : list N) (v i offset utt : N) : N * N * N * N :=
  match fuel with
  | O => (v, i, offset, utt)
  | S f => if 16 <=? utt
           then get_whole f b (N.lor v (N.shiftl (nthN b i) offset)) (i + 1) (offset + 16) (utt - 16)
           else (v, i, offset, utt)
  end.

Definition cbl_get (m : cbl) (iUnit : N) : N :=
  let u := c_unit m in
  let b := c_buf m in
  if N.of_nat (length b) * 16 <? (iUnit + 1) * u then 0 else
  let i := iUnit * u / 16 in
  let j := iUnit * u mod 16 in
  let byteSpace := 16 - j in
  if u <? byteSpace then
    let t := byteSpace - u in
    N.shiftr (u16 (N.shiftl (nthN b i) t)) (t + j)
  else
    let v := N.shiftr (nthN b i) j in
    let '(v, i, offset, utt) := get_whole 5 b v (i + 1) (16 - j) (u - (16 - j)) in
    if utt =? 0 then v else
    let t := 16 - utt in
    if t <? offset then N.lor v (N.shiftl (u16 (N.shiftl (nthN b i) t)) (offset - t))
    else N.lor v (N.shiftr (u16 (N.shiftl (nthN b i) t)) (t - offset)).

Definition cbl_of_list (u : N) (vs : list N) : cbl :=
  fold_left (fun m v => match cbl_append m v with Some m' => m' | None => m end) vs (cbl_new u).

(* ---------- the packed trie ---------- *)
Fixpoint bits_to_N (bs : list bool) : N :=
  match bs with [] => 0 | b :: r => (if b then 1 else 0) + 2 * bits_to_N r end.
(* setBit over consecutive indices: 64 bits per word, least significant first *)
Fixpoint pack (fuel : nat) (bs : list bool) : list N :=
  match fuel with
  | O => []
  | S f => match bs with
           | [] => []
           | _ => bits_to_N (firstn 64 bs) :: pack f (skipn 64 bs)
           end
  end.
Definition pack_bits (bs : list bool) : list N := pack (length bs) bs.

Fixpoint pos_popcount (p : positive) : N :=
  match p with xH => 1 | xO q => pos_popcount q | xI q => 1 + pos_popcount q end.
Definition popcount (n : N) : N := match n with 0 => 0 | Npos p => pos_popcount p end.
Fixpoint pos_tz (p : positive) : N := match p with xO q => 1 + pos_tz q | _ => 0 end.
Definition tz64 (n : N) : N := match n with 0 => 64 | Npos p => pos_tz p end.

(* init(): ranks[k] = ones in words [0,k) *)
Fixpoint ranks_of (ws : list N) (acc : N) : list N :=
  acc :: match ws with [] => [] | w :: r => ranks_of r (acc + popcount w) end.
(* init(): selects = position of every 64th one (the padding bits of the last word are zero) *)
Fixpoint selects_of (bs : list bool) (i n : N) : list N :=
  match bs with
  | [] => []
  | b :: r => if b then (if n mod 64 =? 0 then [i] else []) ++ selects_of r (i + 1) (n + 1)
              else selects_of r (i + 1) n
  end.

Record ptrie := {
  p_leaves : list N; p_lbm : list N;
  p_labels : cbl; p_ranks : cbl; p_selects : cbl
}.

Definition pack_louds (chars : list N) (L : louds) : ptrie :=
  let lbm := pack_bits (l_lbm L) in
  let ranks := ranks_of lbm 0 in
  let selects := selects_of (l_lbm L) 0 0 in
  {| p_leaves := pack_bits (l_leaves L);
     p_lbm := lbm;
     p_labels := cbl_of_list (N.size (vc_size chars)) (l_labels L);
     p_ranks := cbl_of_list (N.size (last ranks 0)) ranks;
     p_selects := cbl_of_list (N.size (last selects 0)) selects |}.

Definition p_new (chars : list N) (keys : list str) : option ptrie :=
  match l_new chars keys with Some L => Some (pack_louds chars L) | None => None end.

Definition get_bit (bm : list N) (i : N) : bool := N.testbit (nthN bm (i / 64)) (i mod 64).

(* i - ranks[i>>6] - popcount(bm[i>>6] & (1<<(i&63) - 1)) *)
Definition count_zeros (bm : list N) (ranks : cbl) (i : N) : N :=
  let wi := i / 64 in
  let bi := i mod 64 in
  i - cbl_get ranks wi - popcount (N.land (nthN bm wi) (N.shiftl 1 bi - 1)).

Fixpoint sel_word (fuel : nat) (w find bitIdx : N) : N + N :=
  match fuel with
  | O => inr find
  | S f =>
      if w =? 0 then inr find else
      let b := w mod 2 in
      if (b =? 1) && (find =? 0) then inl bitIdx else
      let t0 := tz64 (N.shiftr w 1) + 1 in
      sel_word f (N.shiftr w t0) (find - b) (bitIdx + t0)
  end.
Fixpoint sel_words (ws : list N) (i find : N) : option N :=
  match ws with
  | [] => None
  | w :: r => match sel_word 65 w find 0 with
              | inl bi => Some (i * 64 + bi)
              | inr find' => sel_words r (i + 1) find'
              end
  end.
(* None = panic("no more ones") *)
Definition select_ith_one (bm : list N) (ranks selects : cbl) (i : N) : option N :=
  let base := cbl_get selects (i / 64) / 64 * 64 in
  let find := i - cbl_get ranks (base / 64) in
  sel_words (skipn (N.to_nat (base / 64)) bm) (base / 64) find.

Fixpoint p_scan (fuel : nat) (t : ptrie) (nodeId bmIdx tc : N) : option N :=
  match fuel with
  | O => None
  | S f =>
      if get_bit (p_lbm t) bmIdx then None
      else if cbl_get (p_labels t) (bmIdx - nodeId) mod 256 =? tc then Some bmIdx
      else p_scan f t nodeId (bmIdx + 1) tc
  end.

Fixpoint p_has_from (chars : list N) (t : ptrie) (word : str) (nodeId bmIdx : N) : bool :=
  match word with
  | [] => get_bit (p_leaves t) nodeId
  | c :: w' =>
      if get_bit (p_leaves t) nodeId then true
      else if negb (vc_valid chars c) then false
      else match p_scan 300 t nodeId bmIdx (vc_table chars c) with
           | None => false
           | Some bm =>
               let nodeId' := count_zeros (p_lbm t) (p_ranks t) (bm + 1) in
               match select_ith_one (p_lbm t) (p_ranks t) (p_selects t) (nodeId' - 1) with
               | Some s => p_has_from chars t w' nodeId' (s + 1)
               | None => false
               end
           end
  end.

Definition p_has (chars : list N) (t : ptrie) (word : str) : bool := p_has_from chars t word 0 0.

(* ---------- the tree the BFS enumerates, walked directly (no numbering) ----------
   [walk g w]: follow w from the node g through [kids]; used to split the LOUDS argument into
   "the tree of [kids] represents the key set" (proved) and "the LOUDS arrays navigate that tree". *)
Fixpoint walk (g : node) (w : str) : bool :=
  match w with
  | [] => is_leaf g
  | c :: w' =>
      is_leaf g ||
      match find (fun k => fst k =? c) (kids g) with
      | Some k => walk (snd k) w'
      | None => false
      end
  end.
Definition t_walk (keys : list str) (w : str) : bool := walk (sort_uniq keys) w.
