(* C19 — executable comparison functions used by the generated cases file (no proofs). *)
From Coq Require Import List NArith Bool String.
From Dae Require Import C19_Spec C19_Lang C19_Model.
From Dae.gen Require Import C19_Decls.
Import ListNotations.
Open Scope N_scope.

(* ---- layout summaries, compared by the orchestrator with clang / go/types / the compiled Go types ---- *)
Definition leaf_row (l : leaf) : string * N * N * N * bool := (lf_name l, lf_off l, lf_w l, lf_n l, negb (is_data l)).
Definition summarize (L : lang) (allm : bool) (d : string * ty) : string * N * N * list (string * N * N * N * bool) :=
  let ly := layout_of L allm (snd d) in (fst d, ly_size ly, ly_align ly, map leaf_row (ly_leaves ly)).
Definition c_summary := map (summarize LC true) c_decls.
Definition c_first_summary := map (summarize LC false) c_decls.
Definition go_summary := map (summarize LGo false) go_decls.

Definition pair_report := map (fun p => let '(c, _, g, _) := p in (c, g, pair_agree p)) pairs.
Definition gopair_report := map (fun p => let '(n, _, _) := p in (n, gopair_agree p)) gopairs.
(* limit override probes: (N, what go_rule_limit gives, whether the derived limits agree) *)
Definition limit_report (ns : list N) :=
  map (fun n => (n, match go_rule_limit n with Some m => (true, m, limits_agreeb n m) | None => (false, 0, true) end,
                 (c_rule_limit n, c_bitmap_words n, c_lpm_slots n))) ns.
Definition magic_report := map (fun u => let '(n, _, _, _) := u in (n, magic_ok u)) magic_uses.
Definition const_report := map (fun c => let '(n, _, _, _) := c in (n, const_agree c)) shared_consts.

(* ---- key cases ---- *)
Fixpoint bytes_eqb (a b : list N) : bool :=
  match a, b with
  | [], [] => true
  | x :: a', y :: b' => (x =? y) && bytes_eqb a' b'
  | _, _ => false
  end.
Definition obytes_eqb (a : option (list N)) (b : list N) : bool :=
  match a with Some x => bytes_eqb x b | None => false end.
Definition optN_eqb (a b : option N) : bool :=
  match a, b with Some x, Some y => x =? y | None, None => true | _, _ => false end.

Definition ms_eqb (a b : ms_value) : bool :=
  match a, b with
  | MSIndex x, MSIndex y => x =? y
  | MSPortRange a1 a2, MSPortRange b1 b2 => (a1 =? b1) && (a2 =? b2)
  | MSMask x, MSMask y => x =? y
  | MSDscp x, MSDscp y => x =? y
  | MSPname x, MSPname y => bytes_eqb x y
  | _, _ => false
  end.

Inductive kcase :=
(* flow tuple: entity, the Go representations of its addresses, bytes from Go and from C *)
| KTuple (f : flow) (gs gd : goaddr) (go_b c_b : list N)
(* reply direction: the kernel's reversed key built into a dirty slot (prior), the Go key of the reversed tuple,
   and the redirect_track key built into a dirty slot *)
| KRev (f : flow) (gs gd : goaddr) (prior : list N) (go_b c_b c_rt : list N)
(* conn-state lifecycle: whether the kernel saw FIN/RST, the state byte it stored, and whether the Go janitor's
   selection deleted that entry at ages just above the closing and just above the established timeout *)
| KJan (fin_seen : bool) (c_state : N) (age1 age2 : N) (del1 del2 : bool)
(* connectivity slot: entity (outbound, domain, v6); Go network type; C packet class; observed keys *)
| KConn (outbound : N) (d : conn_domain) (v6 : bool) (nt : go_nettype) (l4proto : N) (dport53 : bool)
        (go_k : N) (c_k : option N)
(* prefix key from Go; lookup keys from C for the flow; whether the C trie holding the Go key hit for daddr *)
| KLpm (p : prefix) (g : goaddr) (gbits : N) (go_b : list N) (f : flow) (c_ip c_sip : list N) (c_hit : bool)
(* domain table key *)
| KDom (f : flow) (g : goaddr) (go_b c_b : list N)
(* match_set value: logical value, Go image of the 16 value bytes, what the C members read *)
| KMs (v : ms_value) (go_b : list N) (c_read : ms_value)
(* source-MAC key: the 6 MAC bytes, the key Go stores for mac(...) rules, the key route() looks up *)
| KMac (mac : list N) (go_b c_b : list N).

(* error codes:
     1 Go impl <> Go model      2 C impl <> C model        3 model <> spec (Go or C model)
     4 Go impl <> spec          5 C impl <> spec           6 Go impl <> C impl on the same entity *)
Definition err (b : bool) (c : N) : list N := if b then [] else [c].

Definition check_case (k : kcase) : list N :=
  match k with
  | KTuple f gs gd go_b c_b =>
      let gm := go_tuples_key LE gs gd (f_sport f) (f_dport f) (f_proto f) in
      let cm := c_flow_key LE f in
      let sp := spec_tuple_key f in
      err (bytes_eqb go_b gm) 1 ++ err (obytes_eqb cm c_b) 2 ++ err (bytes_eqb gm sp && obytes_eqb cm sp) 3
      ++ err (bytes_eqb go_b sp) 4 ++ err (bytes_eqb c_b sp) 5 ++ err (bytes_eqb go_b c_b) 6
  | KRev f gs gd prior go_b c_b c_rt =>
      let rf := reverse_flow f in
      let gm := go_tuples_key LE gd gs (f_sport rf) (f_dport rf) (f_proto rf) in
      let cm := c_reversed_flow_key LE prior f in
      let sp := spec_tuple_key rf in
      let rt := (mapped16 (f_src f) ++ mapped16 (f_dst f))%list in
      err (bytes_eqb go_b gm) 1 ++ err (obytes_eqb cm c_b) 2
      ++ err (bytes_eqb gm sp && obytes_eqb cm sp && obytes_eqb (option_map c_redirect_tuple (c_flow_key LE f)) rt) 3
      ++ err (bytes_eqb go_b sp) 4 ++ err (bytes_eqb c_b sp && bytes_eqb c_rt rt) 5 ++ err (bytes_eqb go_b c_b) 6
  | KJan fin st a1 a2 d1 d2 =>
      err (Bool.eqb d1 (go_janitor_deletes st a1) && Bool.eqb d2 (go_janitor_deletes st a2)) 1
      ++ err (st =? c_state_after fin) 2
      ++ err (Bool.eqb (go_janitor_deletes (c_state_after fin) a1) (spec_janitor_deletes fin a1)
              && Bool.eqb (go_janitor_deletes (c_state_after fin) a2) (spec_janitor_deletes fin a2)) 3
      ++ err (Bool.eqb d1 (spec_janitor_deletes fin a1) && Bool.eqb d2 (spec_janitor_deletes fin a2)) 6
  | KConn o d v6 nt l4 d53 go_k c_k =>
      let gm := go_conn_key o nt in
      let cm := c_conn_key o l4 d53 (negb v6) in
      let sp := spec_conn_slot o d v6 in
      let c_expected := if d53 then None else Some sp in
      err (go_k =? gm) 1 ++ err (optN_eqb c_k cm) 2 ++ err ((gm =? sp) && optN_eqb cm c_expected) 3
      ++ err (go_k =? sp) 4 ++ err (optN_eqb c_k c_expected) 5
      ++ err (match c_k with Some ck => ck =? go_k | None => d53 end) 6
      ++ err (go_k <? c_conn_map_entries) 4
  | KLpm p g gbits go_b f c_ip c_sip c_hit =>
      let gm := go_lpm_key LE g gbits in
      let sp := spec_lpm_key p in
      let cmd := c_route_daddr_key LE f in
      let cms := c_route_saddr_key LE f in
      let want := prefix_contains p (f_dst f) in
      err (bytes_eqb go_b gm) 1 ++ err (obytes_eqb cmd c_ip && obytes_eqb cms c_sip) 2
      ++ err (bytes_eqb gm sp && obytes_eqb cmd (spec_lpm_lookup_key (f_dst f)) && obytes_eqb cms (spec_lpm_lookup_key (f_src f))) 3
      ++ err (bytes_eqb go_b sp) 4
      ++ err (bytes_eqb c_ip (spec_lpm_lookup_key (f_dst f)) && bytes_eqb c_sip (spec_lpm_lookup_key (f_src f))) 5
      ++ err (Bool.eqb (lpm_entry_matches LE go_b c_ip) want && Bool.eqb c_hit want) 6
  | KDom f g go_b c_b =>
      let gm := go_domain_key LE g in
      let cm := c_domain_key LE f in
      let sp := spec_domain_key (f_dst f) in
      err (bytes_eqb go_b gm) 1 ++ err (obytes_eqb cm c_b) 2 ++ err (bytes_eqb gm sp && obytes_eqb cm sp) 3
      ++ err (bytes_eqb go_b sp) 4 ++ err (bytes_eqb c_b sp) 5 ++ err (bytes_eqb go_b c_b) 6
  | KMs v go_b c_read =>
      let gm := go_ms_value v in
      let sp := spec_ms_value v in
      let cm := c_ms_read LE go_b v in
      err (bytes_eqb go_b gm) 1 ++ err (ms_eqb c_read cm) 2 ++ err (bytes_eqb gm sp && ms_eqb (c_ms_read LE sp v) v) 3
      ++ err (bytes_eqb go_b sp) 4 ++ err (ms_eqb c_read v) 6
  | KMac mac go_b c_b =>
      let gm := go_mac_key LE mac in
      let cm := c_mac_key LE mac in
      let sp := spec_mac_key mac in
      err (bytes_eqb go_b gm) 1 ++ err (bytes_eqb c_b cm) 2 ++ err (bytes_eqb gm sp && bytes_eqb cm sp) 3
      ++ err (bytes_eqb go_b sp) 4 ++ err (bytes_eqb c_b sp) 5 ++ err (bytes_eqb go_b c_b) 6
  end.

(* coverage signature: which constructor / family / boundary class a case exercised *)
Definition addr_class (ip : ipaddr) : N :=
  match ip with
  | IP4 a => if a =? 0 then 1 else if a =? 0xffffffff then 2 else 3
  | IP6 a => if a =? 0 then 4 else if a / 2 ^ 32 =? 0xffff then 5 else if a =? 2 ^ 128 - 1 then 6 else 7
  end.
Definition port_class (p : N) : N := if p =? 0 then 0 else if p =? 53 then 1 else if p =? 65535 then 2 else if p <? 256 then 3 else 4.
Definition go_class (g : goaddr) : N := match g with G4 _ => 0 | G6 _ => 1 end.

Definition case_signature (k : kcase) : N * N * N * N :=
  match k with
  | KTuple f gs gd _ _ => (1, addr_class (f_src f) * 8 + addr_class (f_dst f), go_class gs * 2 + go_class gd,
                           port_class (f_sport f) * 8 + port_class (f_dport f))
  | KRev f gs gd _ _ _ _ => (7, addr_class (f_src f) * 8 + addr_class (f_dst f), go_class gs * 2 + go_class gd,
                             port_class (f_sport f) * 8 + port_class (f_dport f))
  | KJan fin st a1 a2 _ _ => (8, (if fin then 1 else 0), st, (if a1 <? go_tcp_timeout_closing_ns then 0 else 1) + (if a2 <? go_tcp_timeout_established_ns then 0 else 2))
  | KConn o d v6 nt l4 d53 _ _ => (2, (if o =? 0 then 0 else if o =? 255 then 2 else 1), conn_domain_idx d * 2 + (if v6 then 1 else 0),
                                   (if d53 then 1 else 0) + (match nt_dom nt with UdUnset => 0 | UdDns => 2 | UdData => 4 end))
  | KLpm p g _ _ f _ _ hit => (3, addr_class (p_addr p), (if p_bits p =? 0 then 0 else if p_bits p mod 8 =? 0 then 1 else 2) * 2 + go_class g,
                             (if hit then 1 else 0) + 2 * (if prefix_contains p (f_dst f) then 1 else 0))
  | KDom f g _ _ => (4, addr_class (f_dst f), go_class g, 0)
  | KMac mac _ _ => (6, (if bytes_eqb mac [0;0;0;0;0;0] then 0 else if bytes_eqb mac [255;255;255;255;255;255] then 1 else 2), 0, 0)
  | KMs v _ _ => (5, match v with MSIndex _ => 0 | MSPortRange _ _ => 1 | MSMask _ => 2 | MSDscp _ => 3 | MSPname _ => 4 end, 0, 0)
  end.
