(* C10 — code-shaped model of the GLUE in control/dns_control.go between the DNS response cache and the
   domain-routing tracker (no proofs in this file).

   What is modelled, function by function:
     __updateDnsCacheDeadline   -> ctl_insert     (NewCache, RouteOwnerKey = cacheKey, Store, cacheAccessCallback)
     RemoveDnsRespCache         -> ctl_remove     (LoadAndDelete, invokeCacheDeleteCallback)
     RemoveDnsRespCacheFamily   -> ctl_family     (Range, base-key test, CompareAndDelete, invokeCacheDeleteCallback)
     evictDnsRespCacheIfSame    -> evict_if_same  (CompareAndDelete, invokeCacheDeleteCallback)
     LookupDnsRespCache         -> ctl_lookup     (expired: evictDnsRespCacheIfSame; else triggerBpfUpdateIfNeeded)
     evictExpiredDnsCache       -> ctl_janitor    (time-based pass, then evictLRUIfFull)
     CloneCacheForReload + new generation + RestoreReloadCache + bpfUpdateWorker -> ctl_reload
     ControlPlane.dnsControllerOption callbacks -> access_callback / delete_callback
       (CacheAccessCallback = BatchUpdateDomainRouting(cache), CacheDeleteCallback =
        BatchRemoveDomainRouting(cache); both reach syncOwner with cache.RouteOwnerKey).
   The cacheRemoveCallback (onDnsCacheEvicted / stale side effects / onBaseKeySideEffectsEvicted) is left
   unset by dnsControllerOption, so those paths issue no tracker call and do not appear below.

   Data: the sync.Map dnsCache is an association list without duplicate keys (c_store deletes first);
   Range order is unspecified in Go and every loop here is order-independent up to the ORDER of the
   emitted calls (the correspondence compares calls as sets per operation).  Pointer identity of
   *DnsCache (CompareAndDelete) is the field ce_id = number of the operation that created the value.
   Cache keys are structured: base key (fqdn+qtype string, numbered) and scope ("" = 0, else numbered);
   key_id is the injective numbering of the key STRING base[|scope] used as tracker owner.
   Oracles, supplied as data of each operation: the clock (now), the domain matcher (rules : fqdn ->
   bitmap), the LRU victim order (the heap selection; any list), NeedsBpfUpdate for a lookup re-sync,
   and which re-sync tasks of a reload found room in the bounded task queue. *)
From Coq Require Import List NArith Bool.
From Dae Require Import C10_Spec C10_Model C10_Cache.
Import ListNotations.
Open Scope N_scope.

(* ---- cache keys ---- *)
Record ckey := { k_base : N; k_scope : N }.

Definition ckey_eqb (a b : ckey) : bool := (k_base a =? k_base b) && (k_scope a =? k_scope b).

(* the key string base[|scope] as a number; never 0 (0 plays the empty string) *)
Definition key_id (k : ckey) : N := (2 * k_scope k + 1) * 2 ^ k_base k.

(* responseCacheKey(baseKey, scope) *)
Definition response_cache_key (base scope : N) : ckey := {| k_base := base; k_scope := scope |}.

(* ---- cache values: the DnsCache struct as far as this glue reads it ---- *)
Record centry := {
  ce_e : cache_entry;      (* DomainBitmap, Answer (address records) *)
  ce_owner : N;            (* RouteOwnerKey; 0 = "" *)
  ce_fqdn : N;             (* GetFqdn(): name of the first answer, 0 = "" when there is none *)
  ce_deadline : N;         (* Deadline, ns *)
  ce_last : N;             (* lastAccessNano *)
  ce_id : N                (* pointer identity *)
}.

Definition cache := list (ckey * centry).

Fixpoint c_load (c : cache) (k : ckey) : option centry :=
  match c with
  | [] => None
  | (k', e) :: r => if ckey_eqb k' k then Some e else c_load r k
  end.

Definition c_delete (c : cache) (k : ckey) : cache :=
  filter (fun ke => negb (ckey_eqb (fst ke) k)) c.

Definition c_store (c : cache) (k : ckey) (e : centry) : cache := c_delete c k ++ [(k, e)].

(* ---- configuration: normalizeDnsRuntimeBehavior ---- *)
Record config := { cf_optimistic : bool; cf_opt_ttl : N; cf_max : N }.

Definition normalize (c : config) : config :=
  if (cf_opt_ttl c =? 0) && (cf_max c =? 0)
  then {| cf_optimistic := cf_optimistic c; cf_opt_ttl := 60; cf_max := 0 |}
  else c.

(* ---- the production callbacks (ControlPlane.dnsControllerOption) as tracker calls ---- *)
(* syncOwner refuses the empty owner key with an error before touching anything *)
Definition sync_call (owner : N) (c : cache_op) : list cache_op := if owner =? 0 then [] else [c].

(* CacheAccessCallback: BatchUpdateDomainRouting(cache) -> syncOwner(cache.RouteOwnerKey, snapshot) *)
Definition access_callback (e : centry) : list cache_op :=
  sync_call (ce_owner e) (CInsert (ce_owner e) (ce_e e)).

(* invokeCacheDeleteCallback(cacheKey, cache): ensureDNSCacheRouteOwnerKey, then
   CacheDeleteCallback: BatchRemoveDomainRouting(cache) -> syncOwner(cache.RouteOwnerKey, {}) *)
Definition delete_callback (k : ckey) (e : centry) : list cache_op :=
  let owner := if ce_owner e =? 0 then key_id k else ce_owner e in
  sync_call owner (CRemove owner).

(* ---- operations ---- *)
Inductive ctl_op :=
| OInsert (k : ckey) (fqdn : N) (answers : list answer) (now ttl : N)   (* UpdateDnsCacheTtlWithKey *)
| ORemove (k : ckey)                                                     (* RemoveDnsRespCache *)
| OFamily (base : N)                                                     (* RemoveDnsRespCacheFamily *)
| OEvictIfSame (k : ckey) (id : N)                                       (* evictDnsRespCacheIfSame *)
| OLookup (k : ckey) (now : N) (resync : bool)                           (* LookupDnsRespCache *)
| OJanitor (now : N) (victims : list ckey)                               (* evictExpiredDnsCache *)
| OReload (rules' : N -> N) (sent : ckey -> bool).                       (* reload hand-over *)

(* working state of one operation: the cache and the tracker calls issued so far *)
Definition work := (cache * list cache_op)%type.

(* evictDnsRespCacheIfSame(cacheKey, cache): CompareAndDelete, then the delete callback *)
Definition evict_if_same (w : work) (k : ckey) (id : N) : work :=
  match c_load (fst w) k with
  | Some e => if ce_id e =? id
              then (c_delete (fst w) k, snd w ++ delete_callback k e)
              else w
  | None => w
  end.

(* __updateDnsCacheDeadline *)
Definition ctl_insert (rules : N -> N) (tick : N) (c : cache)
           (k : ckey) (fqdn : N) (answers : list answer) (now ttl : N) : work :=
  let e := {| ce_e := {| e_bitmap := rules fqdn; e_answers := answers |};   (* rt.newCache *)
              ce_owner := key_id k;                                          (* RouteOwnerKey = cacheKey *)
              ce_fqdn := match answers with [] => 0 | _ => fqdn end;
              ce_deadline := now + ttl * 1000000000;
              ce_last := now;                                                (* lastAccessNano.Store(now) *)
              ce_id := tick |} in
  (c_store c k e, access_callback e).        (* dnsCache.Store; rt.cacheAccessCallback(newCache) *)

(* RemoveDnsRespCache *)
Definition ctl_remove (c : cache) (k : ckey) : work :=
  match c_load c k with
  | Some e => (c_delete c k, delete_callback k e)       (* LoadAndDelete; invokeCacheDeleteCallback *)
  | None => (c, [])
  end.

(* RemoveDnsRespCacheFamily: Range over a snapshot, dnsCacheBaseKey(cacheKey) == baseKey *)
Definition ctl_family (c : cache) (base : N) : work :=
  fold_left (fun w ke => if k_base (fst ke) =? base
                         then evict_if_same w (fst ke) (ce_id (snd ke))
                         else w) c (c, []).

(* LookupDnsRespCache *)
Definition ctl_lookup (c : cache) (k : ckey) (now : N) (resync : bool) : work :=
  match c_load c k with
  | None => (c, [])
  | Some e =>
      if now <? ce_deadline e                        (* deadline.After(now) *)
      then (c, if resync then access_callback e else [])   (* triggerBpfUpdateIfNeeded -> worker *)
      else evict_if_same (c, []) k (ce_id e)
  end.

(* evictLRUIfFull: the selected entries (oracle) are evicted until numToEvict have been *)
Fixpoint lru_loop (victims : list ckey) (num evicted : N) (w : work) : work :=
  match victims with
  | [] => w
  | k :: r =>
      if num <=? evicted then w
      else match c_load (fst w) k with
           | Some e => lru_loop r num (evicted + 1) (evict_if_same w k (ce_id e))
           | None => lru_loop r num evicted w
           end
  end.

Definition evict_lru (max : N) (victims : list ckey) (w : work) : work :=
  let count := N.of_nat (length (fst w)) in
  if count <=? max then w else lru_loop victims (count - max) 0 w.

(* evictExpiredDnsCache, step 1: time-based eviction over a Range snapshot *)
Definition janitor_time_pass (cfg : config) (c : cache) (now : N) : work :=
  let cfg := normalize cfg in
  let use_time := (0 <? cf_opt_ttl cfg) || ((cf_opt_ttl cfg =? 0) && (cf_max cfg =? 0)) in
  let eff (e : centry) :=
      if cf_optimistic cfg && (0 <? cf_opt_ttl cfg)
      then ce_deadline e + cf_opt_ttl cfg * 1000000000 else ce_deadline e in
  if use_time
  then fold_left (fun w ke => if now <? eff (snd ke) then w      (* effectiveDeadline.After(now) *)
                              else evict_if_same w (fst ke) (ce_id (snd ke))) c (c, [])
  else (c, []).

(* evictExpiredDnsCache: step 1, then step 2 (LRU) when a size limit is configured *)
Definition ctl_janitor (cfg : config) (c : cache) (now : N) (victims : list ckey) : work :=
  let w1 := janitor_time_pass cfg c now in
  if 0 <? cf_max (normalize cfg) then evict_lru (cf_max (normalize cfg)) victims w1 else w1.

(* reload: CloneCacheForReload (same key, same RouteOwnerKey/answers/deadline/lastAccess, new pointer),
   then, in the NEW generation (empty cache, fresh tracker, cleared kernel map), RestoreReloadCache:
   DomainBitmap = matchDomainBitmap(GetFqdn()), Store, triggerBpfUpdateIfNeeded (lastRouteSyncNano is 0
   in a clone, so NeedsBpfUpdate claims every entry) and, when sendBpfUpdateTask delivered the task,
   the worker's cacheAccessCallback(entry).  The task queue holds bpfUpdateQueueSize = 1024 tasks and
   the send does not block: `sent k = false` is a send that found the queue full (the entry is then
   re-synced only by a later lookup).  Which sends fail depends on the schedule of the worker: oracle. *)
Definition clone_for_reload (rules' : N -> N) (tick : N) (e : centry) : centry :=
  {| ce_e := {| e_bitmap := rules' (ce_fqdn e); e_answers := e_answers (ce_e e) |};
     ce_owner := ce_owner e; ce_fqdn := ce_fqdn e; ce_deadline := ce_deadline e;
     ce_last := ce_last e; ce_id := tick |}.

Definition ctl_reload (rules' : N -> N) (sent : ckey -> bool) (tick : N) (c : cache) : work :=
  fold_left (fun w ke => let v := clone_for_reload rules' tick (snd ke) in
                         (c_store (fst w) (fst ke) v,
                          snd w ++ (if sent (fst ke) then access_callback v else [])))
            c ([], []).

(* every re-sync task of a reload was delivered to the worker *)
Definition resync_delivered (o : ctl_op) : Prop :=
  match o with OReload _ sent => forall k, sent k = true | _ => True end.

(* ---- controller state ---- *)
Record ctl := {
  c_cache : cache;
  c_rules : N -> N;              (* the rule set of this generation (domain matcher oracle) *)
  c_tick : N;                    (* operations so far: the next pointer identity *)
  c_tracker : tracker;           (* controlPlaneCore.domainRouting of this generation *)
  c_kmap : kmap;                 (* the kernel domain_routing_map *)
  c_calls : list cache_op        (* ghost: the tracker calls of this generation, oldest first *)
}.

Record effect := { ef_work : work; ef_new_generation : bool; ef_rules : N -> N }.

Definition ctl_effect (cfg : config) (st : ctl) (o : ctl_op) : effect :=
  let same w := {| ef_work := w; ef_new_generation := false; ef_rules := c_rules st |} in
  match o with
  | OInsert k fqdn answers now ttl => same (ctl_insert (c_rules st) (c_tick st) (c_cache st) k fqdn answers now ttl)
  | ORemove k => same (ctl_remove (c_cache st) k)
  | OFamily base => same (ctl_family (c_cache st) base)
  | OEvictIfSame k id => same (evict_if_same (c_cache st, []) k id)
  | OLookup k now resync => same (ctl_lookup (c_cache st) k now resync)
  | OJanitor now victims => same (ctl_janitor cfg (c_cache st) now victims)
  | OReload rules' sent => {| ef_work := ctl_reload rules' sent (c_tick st) (c_cache st);
                         ef_new_generation := true; ef_rules := rules' |}
  end.

Definition empty_kmap : kmap := fun _ => None.

Definition ctl_step (cfg : config) (st : ctl) (o : ctl_op) : ctl :=
  let ef := ctl_effect cfg st o in
  let start := if ef_new_generation ef then (new_tracker, empty_kmap) else (c_tracker st, c_kmap st) in
  let tk := fold_left step (map op_of_cache_op (snd (ef_work ef))) start in
  {| c_cache := fst (ef_work ef);
     c_rules := ef_rules ef;
     c_tick := c_tick st + 1;
     c_tracker := fst tk;
     c_kmap := snd tk;
     c_calls := (if ef_new_generation ef then [] else c_calls st) ++ snd (ef_work ef) |}.

Definition ctl_init (rules : N -> N) : ctl :=
  {| c_cache := []; c_rules := rules; c_tick := 0; c_tracker := new_tracker; c_kmap := empty_kmap; c_calls := [] |}.

Definition ctl_run (cfg : config) (rules : N -> N) (ops : list ctl_op) : ctl :=
  fold_left (ctl_step cfg) ops (ctl_init rules).

(* ---- the property at controller level: the table of the LIVE cache ---- *)
Definition ctl_table (c : cache) (ip : N) : N :=
  fold_right (fun ke acc => N.lor (if lists (ce_e (snd ke)) ip then e_bitmap (ce_e (snd ke)) else 0) acc) 0 c.

Definition ctl_table_entry (c : cache) (ip : N) : option N :=
  let v := ctl_table c ip in if v =? 0 then None else Some v.
