(* C10 — staged reload with controller reuse: lemmas. *)
From Coq Require Import List NArith Bool.
From Dae Require Import C10_Spec C10_Model C10_Cache C10_CacheProofs C10_Proofs C10_Ctl_Model C10_Ctl_Proofs C10_Reuse_Model.
Import ListNotations.
Open Scope N_scope.

Lemma reuse_work_tracks now sent c :
  (forall k, sent k = true) ->
  NoDup (map fst c) -> (forall k e, c_load c k = Some e -> ce_owner e = key_id k) ->
  wtracks [] (reuse_work false now sent c).
Proof.
  intros Hsent Hnd Hown. unfold reuse_work. apply fold_left_inv.
  - intros w [k e] Hin Hw. unfold wtracks in *. cbn [fst snd app] in *.
    unfold replayed. rewrite Hsent. cbn [andb negb].
    apply tracks_store; [exact Hw|]. apply Hown. apply in_c_load; assumption.
  - unfold wtracks. cbn [fst snd app]. exact tracks_nil.
Qed.

Lemma rstep_inv cfg st r : rdelivered false r -> ctl_inv st -> ctl_inv (rstep cfg st r).
Proof.
  destruct r as [o|f now sent]; cbn [rdelivered rstep].
  - apply ctl_step_inv.
  - intros [-> Hsent] [[Hnd [Hown _]] _]. split.
    + unfold reuse_step. cbn [c_cache c_calls].
      pose proof (reuse_work_tracks now sent (c_cache st) Hsent Hnd Hown) as H.
      unfold wtracks in H. cbn [app] in H. exact H.
    + unfold reuse_step. cbn [c_tracker c_kmap c_calls]. unfold run.
      rewrite <- surjective_pairing. reflexivity.
Qed.

Lemma rrun_inv cfg rules rops : Forall (rdelivered false) rops -> ctl_inv (rrun cfg rules rops).
Proof.
  intros Hd. unfold rrun. apply fold_left_inv; [|apply ctl_init_inv].
  intros st r Hin. apply rstep_inv. rewrite Forall_forall in Hd. apply Hd. exact Hin.
Qed.

Lemma C10_ctl_mirror_reuse_proof :
  forall (cfg : config) (rules : N -> N) (rops : list rop) (ip : N),
    Forall (rdelivered false) rops ->
    let st := rrun cfg rules rops in
    c_kmap st ip = ctl_table_entry (c_cache st) ip.
Proof.
  intros cfg rules rops ip Hd st. destruct (rrun_inv cfg rules rops Hd) as [Ht Hr]. fold st in Ht, Hr.
  replace (c_kmap st) with (snd (run (map op_of_cache_op (c_calls st)))) by (rewrite <- Hr; reflexivity).
  rewrite C10_cache_mirror_proof. unfold cache_table_entry, ctl_table_entry.
  rewrite (tracks_table _ _ ip Ht). reflexivity.
Qed.

(* the replay that drops expired snapshot entries: an entry past its deadline (not yet evicted: no lookup,
   no janitor pass) shares address 1.2.3.4 with a fresh one; after the hand-over both are live in the
   reused cache, the kernel table has only the fresh entry's bitmap and nothing for the expired entry's
   own address *)
Definition C10_ctl_mirror_reuse_filtered : Prop :=
  forall (cfg : config) (rules : N -> N) (rops : list rop) (ip : N),
    Forall (rdelivered true) rops ->
    let st := rrun cfg rules rops in
    c_kmap st ip = ctl_table_entry (c_cache st) ip.

Definition reuse_witness : list rop :=
  [ RCtl (OInsert (response_cache_key 1 0) 1 [(true, 0xffff01020304); (true, 0xffff01020305)] 10 0);
    RCtl (OInsert (response_cache_key 2 0) 2 [(true, 0xffff01020304)] 11 300);
    RReuse true 20 (fun _ => true) ].

Lemma reuse_witness_values :
  let st := rrun {| cf_optimistic := false; cf_opt_ttl := 0; cf_max := 0 |} (fun f => f) reuse_witness in
  map (c_kmap st) [0xffff01020304; 0xffff01020305] = [Some 2; None]
  /\ map (ctl_table_entry (c_cache st)) [0xffff01020304; 0xffff01020305] = [Some 3; Some 1].
Proof. vm_compute. split; reflexivity. Qed.

Lemma C10_ctl_mirror_reuse_filtered_refuted_proof : ~ C10_ctl_mirror_reuse_filtered.
Proof.
  intros H.
  specialize (H {| cf_optimistic := false; cf_opt_ttl := 0; cf_max := 0 |} (fun f => f) reuse_witness 0xffff01020305).
  assert (Hd : Forall (rdelivered true) reuse_witness).
  { unfold reuse_witness. repeat constructor. }
  specialize (H Hd). vm_compute in H. discriminate H.
Qed.
