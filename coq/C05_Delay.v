(* C05 - detection delays the connection by no more than the windows of the stages it ran.
   Self-contained proof over C05_Model (does not depend on C05_Proofs). *)
From Coq Require Import List NArith Bool Lia ZifyBool ZifyN.
From Dae Require Import C05_Spec C05_Model.
From Dae.gen Require Import C05_Extracted.
Import ListNotations.
Open Scope N_scope.

(* what one (possibly composite) read does to the clock and to the read deadline *)
Definition rd_ok (now : N) (s s' : sock) (t : N) : Prop :=
  now <= t /\ k_dl s' = k_dl s /\ (forall d, k_dl s = Some d -> t <= N.max now d).

Lemma rd_ok_refl : forall now s, rd_ok now s s now.
Proof. intros; unfold rd_ok; repeat split; intros; lia. Qed.

Lemma rd_ok_trans : forall a s s1 t1 s2 t2,
  rd_ok a s s1 t1 -> rd_ok t1 s1 s2 t2 -> rd_ok a s s2 t2.
Proof.
  unfold rd_ok; intros a s s1 t1 s2 t2 (A1 & B1 & C1) (A2 & B2 & C2).
  split; [lia|]. split; [congruence|].
  intros d Hd. specialize (C1 _ Hd). rewrite <- B1 in Hd. specialize (C2 _ Hd). lia.
Qed.

Ltac fin :=
  let H := fresh in
  intros H; inversion H; subst; clear H; unfold rd_ok; cbn [k_dl];
  (split; [|split]); try reflexivity; try assumption; try lia;
  try (let d0 := fresh in let Hd := fresh in intros d0 Hd; inversion Hd; subst; lia).

Lemma sock_read_ok : forall now n s r s' t,
  sock_read now n s = (r, s', t) -> rd_ok now s s' t.
Proof.
  intros now n s r s' t. unfold sock_read, rd_ok.
  destruct (k_closed s); [fin|].
  destruct (k_dl s) as [d|] eqn:Ed; cbn [expired dl_or].
  - destruct (d <=? now) eqn:E1; [fin|].
    destruct (k_in s) as [|c rest].
    + destruct (k_eof s) as [e|]; [|fin].
      destruct (d <=? N.max now e) eqn:E2; fin.
    + cbv zeta. destruct (d <=? N.max now (c_at c)) eqn:E2; fin.
  - destruct (k_in s) as [|c rest].
    + destruct (k_eof s) as [e|]; fin.
    + cbv zeta. fin.
Qed.

Lemma conn_read_ok : forall c n s now r c2 s' t,
  conn_read c n s now = (r, c2, s', t) -> rd_ok now s s' t.
Proof.
  induction c as [|buf c IHc|pre c IHc|buf derr c IHc]; intros n s now r c2 s' t; cbn [conn_read].
  - destruct (sock_read now n s) as [[r0 s0] t0] eqn:E.
    intros H; inversion H; subst. eapply sock_read_ok; eauto.
  - destruct buf.
    + destruct (bufio_size <=? n).
      * destruct (conn_read c n s now) as [[[r0 c0] s0] t0] eqn:E.
        intros H; inversion H; subst. eapply IHc; eauto.
      * destruct (conn_read c bufio_size s now) as [[[r0 c0] s0] t0] eqn:E.
        destruct (r_data r0); intros H; inversion H; subst; eapply IHc; eauto.
    + intros H; inversion H; subst. apply rd_ok_refl.
  - destruct pre.
    + destruct (conn_read c n s now) as [[[r0 c0] s0] t0] eqn:E.
      intros H; inversion H; subst. eapply IHc; eauto.
    + destruct (n <=? len (n0 :: pre)).
      * intros H; inversion H; subst. apply rd_ok_refl.
      * destruct (conn_read c (n - len (n0 :: pre)) s now) as [[[r0 c0] s0] t0] eqn:E.
        intros H; inversion H; subst. eapply IHc; eauto.
  - destruct derr.
    + intros H; inversion H; subst. apply rd_ok_refl.
    + destruct buf.
      * destruct (conn_read c n s now) as [[[r0 c0] s0] t0] eqn:E.
        intros H; inversion H; subst. eapply IHc; eauto.
      * intros H; inversion H; subst. apply rd_ok_refl.
Qed.

Lemma peek_ok : forall fuel n buf c s now ok buf' c' s' t,
  peek fuel n buf c s now = (ok, buf', c', s', t) -> rd_ok now s s' t.
Proof.
  induction fuel as [|f IH]; intros n buf c s now ok buf' c' s' t; cbn [peek].
  - destruct (n <=? len buf); [|destruct (bufio_size <=? len buf)];
      intros H; inversion H; subst; apply rd_ok_refl.
  - destruct (n <=? len buf); [intros H; inversion H; subst; apply rd_ok_refl|].
    destruct (bufio_size <=? len buf); [intros H; inversion H; subst; apply rd_ok_refl|].
    destruct (conn_read c (bufio_size - len buf) s now) as [[[r0 c0] s0] t0] eqn:E.
    apply conn_read_ok in E. cbv zeta.
    destruct (r_err r0).
    + intros H; inversion H; subst. exact E.
    + intros H. apply IH in H. eapply rd_ok_trans; eauto.
Qed.

Lemma dns_stage_f_ok : forall fuel orc c s now oc s' t,
  dns_stage_f fuel orc c s now = (oc, s', t) ->
  now <= t /\ t <= now + c05_dns_first_timeout_ms.
Proof.
  intros fuel orc c s now oc s' t. unfold dns_stage_f. cbv zeta.
  generalize c05_dns_first_timeout_ms; intros T.
  destruct (peek fuel 2 [] c (set_dl s (Some (now + T))) now) as [[[[ok buf] c1] s2] t2] eqn:E1.
  apply peek_ok in E1. destruct E1 as (A & B & C). cbn [set_dl k_dl] in B, C.
  specialize (C _ eq_refl).
  destruct (negb ok); [intros H; inversion H; subst; lia|].
  destruct (be16 buf <? 12); [intros H; inversion H; subst; lia|].
  destruct (peek fuel (2 + be16 buf) buf c1 s2 t2) as [[[[ok2 buf2] c3] s3] t3] eqn:E2.
  apply peek_ok in E2. destruct E2 as (A2 & B2 & C2). specialize (C2 _ B).
  destruct (negb ok2); [|destruct orc]; intros H; inversion H; subst; lia.
Qed.

Lemma prefetch_stage_ok : forall wait c s now c' pre ready s' t,
  prefetch_stage wait c s now = (c', pre, ready, s', t) ->
  now <= t /\ t <= now + wait.
Proof.
  intros wait c s now c' pre ready s' t. unfold prefetch_stage. cbv zeta.
  destruct (conn_read c c05_prefetch_bytes (set_dl s (Some (now + wait))) now) as [[[r c2] s2] t2] eqn:E.
  apply conn_read_ok in E. destruct E as (A & _ & C). cbn [set_dl k_dl] in C.
  specialize (C _ eq_refl).
  destruct (r_data r); intros H; inversion H; subst; lia.
Qed.

Lemma sniff_rounds_ok : forall answers dl buf c s now b e c' s' t sp,
  sniff_rounds answers dl buf c s now = (b, e, c', s', t, sp) ->
  now <= t /\ t <= N.max now dl.
Proof.
  induction answers as [|[more room] rest IH]; intros dl buf c s now b e c' s' t sp; cbn [sniff_rounds].
  - intros H; inversion H; subst; lia.
  - cbv zeta.
    destruct (conn_read c (N.max room sniff_min_read) (set_dl s (Some dl)) now) as [[[r c2] s2] t2] eqn:E.
    apply conn_read_ok in E. destruct E as (A & _ & C). cbn [set_dl k_dl] in C.
    specialize (C _ eq_refl).
    destruct (r_err r) as [[| | |]|].
    + destruct (nonempty (buf ++ r_data r) && more); intros H; inversion H; subst; lia.
    + intros H; inversion H; subst; lia.
    + intros H; inversion H; subst; lia.
    + intros H; inversion H; subst; lia.
    + destruct more.
      * intros H. apply IH in H. lia.
      * intros H; inversion H; subst; lia.
Qed.

Lemma sniff_stage_ok : forall answers dl c s now b e c' s' t sp,
  sniff_stage answers dl c s now = (b, e, c', s', t, sp) ->
  now <= t /\ t <= N.max now dl.
Proof. intros until sp. unfold sniff_stage. apply sniff_rounds_ok. Qed.

(* the part of the prologue after the port-53 test *)
Lemma prologue_tail_ok : forall (p : pcase) (T : N) (oc : option conn) (s1 : sock) (t1 now0 : N) (ran_dns : bool),
  now0 <= t1 -> t1 <= now0 + (if ran_dns then T else 0) ->
  let ps :=
    match oc with
    | None => mkPS None s1 t1 ran_dns false false false
    | Some c1 =>
        if negb (p_try_sniff p) then mkPS (Some c1) s1 t1 ran_dns false false false else
        let '(c2, pre, ready, s2, t2) := prefetch_stage (p_sniff_ms p) c1 s1 t1 in
        if negb ready then mkPS (Some c2) s2 t2 ran_dns true false false else
        if negb (is_likely_http_or_tls pre) then mkPS (Some c2) s2 t2 ran_dns true false false else
        let '(buf, derr, c3, s3, t3, spin) := sniff_stage (p_answers p) (t2 + p_sniff_ms p) c2 s2 t2 in
        mkPS (Some (CSniffer buf derr c3)) s3 t3 ran_dns true true spin
    end in
  ps_now ps <= now0 + allowed_delay T (p_sniff_ms p) (ps_ran_dns ps) (ps_ran_prefetch ps) (ps_ran_sniff ps)
  /\ now0 <= ps_now ps.
Proof.
  intros p T oc s1 t1 now0 ran_dns H0 H1. cbv zeta. unfold allowed_delay.
  destruct oc as [c1|]; [|cbn; lia].
  destruct (negb (p_try_sniff p)); [cbn; lia|].
  destruct (prefetch_stage (p_sniff_ms p) c1 s1 t1) as [[[[c2 pre] ready] s2] t2] eqn:E1.
  apply prefetch_stage_ok in E1.
  destruct (negb ready); [cbn; lia|].
  destruct (negb (is_likely_http_or_tls pre)); [cbn; lia|].
  destruct (sniff_stage (p_answers p) (t2 + p_sniff_ms p) c2 s2 t2) as [[[[[buf derr] c3] s3] t3] spin] eqn:E2.
  apply sniff_stage_ok in E2.
  cbn; lia.
Qed.

Lemma delay_bounded_lemma :
  forall (p : pcase) (s0 : sock) (now0 : N),
    ps_now (prologue p s0 now0)
      <= now0 + allowed_delay c05_dns_first_timeout_ms (p_sniff_ms p)
                  (ps_ran_dns (prologue p s0 now0)) (ps_ran_prefetch (prologue p s0 now0))
                  (ps_ran_sniff (prologue p s0 now0))
    /\ now0 <= ps_now (prologue p s0 now0).
Proof.
  intros p s0 now0. unfold prologue.
  destruct (p_port53 p).
  - unfold dns_stage. generalize peek_fuel; intros fuel.
    destruct (dns_stage_f fuel (p_dns p) CSock s0 now0) as [[oc s1] t1] eqn:E.
    apply dns_stage_f_ok in E.
    apply (prologue_tail_ok p c05_dns_first_timeout_ms oc s1 t1 now0 true); lia.
  - apply (prologue_tail_ok p c05_dns_first_timeout_ms (Some CSock) s0 now0 now0 false); lia.
Qed.

Theorem delay_bounded_proof :
  forall (p : pcase) (s0 : sock) (now0 : N),
    let ps := prologue p s0 now0 in
    ps_now ps <= now0 + allowed_delay c05_dns_first_timeout_ms (p_sniff_ms p)
                                      (ps_ran_dns ps) (ps_ran_prefetch ps) (ps_ran_sniff ps)
    /\ now0 <= ps_now ps.
Proof. intros p s0 now0 ps. exact (delay_bounded_lemma p s0 now0). Qed.
Print Assumptions delay_bounded_proof.

(* non-vacuity: a TLS-looking first segment on port 443 with sniffing enabled runs prefetch and sniff; the
   parser asks for more and the sniff window (1000 ms) is waited out; on port 53 the DNS window is. *)
Example delay_nonvacuous :
  let p := mkP 443 1000 false 2 false DnsErr [(true, 4096)] in
  let s0 := mk_sock (mkSide [mkChunk 0 [22;3;1;2;0;1;0]] None) in
  let ps := prologue p s0 0 in
  ps_now ps = 1000 /\ ps_ran_dns ps = false /\ ps_ran_prefetch ps = true /\ ps_ran_sniff ps = true
  /\ 0 < ps_now ps
  /\ ps_now ps <= 0 + allowed_delay c05_dns_first_timeout_ms (p_sniff_ms p)
                        (ps_ran_dns ps) (ps_ran_prefetch ps) (ps_ran_sniff ps).
Proof. vm_compute. repeat split; congruence. Qed.

Example delay_nonvacuous_dns :
  let p := mkP 53 1000 false 2 false DnsErr [(true, 4096)] in
  let s0 := mk_sock (mkSide [mkChunk 0 [22;3;1;2;0;1;0]] None) in
  let ps := prologue p s0 7 in
  ps_now ps = 7 + c05_dns_first_timeout_ms /\ ps_ran_dns ps = true /\ ps_ran_prefetch ps = false.
Proof. vm_compute. repeat split. Qed.
