(* Link C01 + C11 + C12 — the userspace routing pipeline with BOTH components real: the domain matcher of C11
   (Link_C01_C11.v) and the prefix trie of C12 (Link_C01_C12.v).  Nothing new is proved here: the oracle hypothesis
   that Link_route_with_real_trie keeps is the one Link_C01_C11.c01_oracle_discharged discharges. *)
From Coq Require Import List NArith Bool String.
From Dae Require Import C11_Spec C11_Model C11_Louds C11_Proofs C11_Layer3 C11_Props.
From Dae Require Import Link_DomainAdapter.
From Dae Require Import C01_Spec C01_Model C01_Proofs C01_Props.
From Dae Require Import Link_C01_C11 Link_C01_C12.
Import ListNotations.
Open Scope N_scope.

(* For every well-formed routing program and every well-formed packet description:
     patchMustOutbound -> RulesBuilder.Apply + add* -> BuildUserspace (domain sets -> AddSet/Build of C11;
     prefix lists -> NewTrieFromPrefixes of C12) -> RoutingMatcher.Match (MatchDomainBitmap; HasPrefix(bin128))
   = the decision of the first matching rule. *)
Theorem Link_route_with_real_matcher_and_trie :
  forall (p : program) (pk : packet) (rx_ok : str -> bool) (rx : str -> str -> bool),
    wf_program p = true -> wf_packet pk = true ->   (* includes: the raw domain is over the host-name alphabet *)
    kw_nonempty (c01_sets p) = true -> sets_size_ok (c01_sets p) -> sets_ok rx_ok (c01_sets p) = true ->
    c01_idx_ok p = true -> p_domain pk <> "."%string -> c01_regex_oracles_agree p rx pk ->
    exists m, c11_build rx_ok (c01_sets p) = Some m /\
              model_route_trie p (c01_dm rx m) pk = Ok (decide p pk).
Proof.
  intros p pk rx_ok rx Hwf Hpk Hk Hs Ho Hidx Hroot Hrx.
  assert (Hn : name_ok (bytes (p_domain pk)) = true).
  { rewrite <- c01_alphabet_name_ok. unfold wf_packet in Hpk. repeat (apply andb_true_iff in Hpk as [Hpk _]). exact Hpk. }
  destruct (c11_build_bit rx_ok rx (c01_sets p) Hk Hs Ho) as [m [Hb _]].
  exists m. split; [exact Hb|].
  apply Link_route_with_real_trie; [exact Hwf | exact Hpk |].
  exact (c01_oracle_discharged p pk rx_ok rx m Hk Hs Ho Hb Hidx Hn Hroot Hrx).
Qed.
Print Assumptions Link_route_with_real_matcher_and_trie.

(* DISCHARGED: C01_domain_oracle_agrees (C11) and "CIDR containment computed directly" (C12), together.
   REMAINING: the premises of Link_route_with_real_domain_matcher, with name_ok now part of wf_packet (which also
   bounds the addresses below 2^128: the trie reads 16 bytes, see Link_route_with_real_trie_needs_wf_packet). *)
