(* C10 — property theorems at the level of DNS cache entries (what the statement speaks about). *)
From Coq Require Import List NArith Bool.
From Dae Require Import C10_Spec C10_Model C10_Cache C10_CacheProofs.
Import ListNotations.
Open Scope N_scope.

(* After any history of cache insertions, replacements and removals, the kernel map holds, for every
   address, exactly the OR of the bitmaps of the live cache entries that list it (unspecified
   addresses are never listed), and no entry when none does. *)
Theorem C10_cache_mirror :
  forall (h : list cache_op) (ip : N),
    snd (run (map op_of_cache_op h)) ip = cache_table_entry h ip.
Proof. exact C10_cache_mirror_proof. Qed.
Print Assumptions C10_cache_mirror.

(* An address is present in the kernel table only if some live entry carries a specified answer for it:
   A-record 0.0.0.0 and AAAA-record :: answers never create an entry. *)
Theorem C10_present_only_if_listed :
  forall (h : list cache_op) (ip : N),
    snd (run (map op_of_cache_op h)) ip <> None ->
    exists o e a, cache_live h o = Some e /\ In a (e_answers e) /\ snd a = ip /\ unspecified a = false.
Proof. exact C10_present_only_if_listed_proof. Qed.
Print Assumptions C10_present_only_if_listed.

Example C10_cache_nonvacuous :
  let h := [ CInsert 1 {| e_bitmap := 5; e_answers := [(true, 0xffff01020304); (false, 0); (true, 0xffff00000000)] |};
             CInsert 2 {| e_bitmap := 2; e_answers := [(true, 0xffff01020304)] |};
             CRemove 1 ] in
  map (cache_table_entry h) [0xffff01020304; 0; 0xffff00000000] = [Some 2; None; None]
  /\ map (cache_table_entry (firstn 2 h)) [0xffff01020304; 0] = [Some 7; None].
Proof. vm_compute. split; reflexivity. Qed.
