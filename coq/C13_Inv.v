(* C13 — at most one worker per flow key is inside a task at any time: invariant proof over the
   interleaving model of control/udp_task_pool.go (C13_Model.v).

   Invariant (per reachable state):
     Jmap  : map entries point to existing queues of that key; every active queue (convoy not yet past the
             claiming CAS) is the map entry of its key; a queue past tryDeleteQueue is not in the map.
     Jprod : an active queue's refs is exactly the number of producers holding a reference on it; only the
             creator of a not-yet-started queue is at PStored/PSpawn on it; queue ids held by producers
             exist; a producer about to CompareAndDelete holds a claimed queue.
     Jlog  : the running list replayed from the log is a permutation of the (key, task) pairs of the queues
             at CRun, and every earlier running list had distinct keys. *)
From Coq Require Import List Arith Bool ZArith Lia Permutation.
From Dae Require Import C13_Spec C13_Model C13_Proofs.
From Dae.gen Require Import C13_Consts.
Import ListNotations.

(* ------------------------------------------------------------------------------------------ *)
(* generic list facts                                                                          *)
(* ------------------------------------------------------------------------------------------ *)
Lemma upd_length {A} (l : list A) i x : length (upd l i x) = length l.
Proof. revert i; induction l; intros [|i]; cbn; auto. Qed.

Lemma nth_error_snoc {A} (l : list A) x j y :
  nth_error (l ++ [x]) j = Some y -> (j < length l /\ nth_error l j = Some y) \/ (j = length l /\ y = x).
Proof.
  intros H. destruct (Nat.lt_ge_cases j (length l)) as [Hl|Hl].
  - left. split; auto. now rewrite nth_error_app1 in H.
  - right. rewrite nth_error_app2 in H by lia. destruct (j - length l) eqn:E; cbn in H.
    + inversion H. split; [lia|auto].
    + destruct n; discriminate.
Qed.

Lemma nth_error_lt {A} (l : list A) i x : nth_error l i = Some x -> i < length l.
Proof. intros H. apply nth_error_Some. congruence. Qed.

Definition b2n (b : bool) : nat := if b then 1 else 0.

Fixpoint cnt {A} (f : A -> bool) (l : list A) : nat :=
  match l with [] => 0 | x :: r => b2n (f x) + cnt f r end.

Lemma cnt_upd {A} (f : A -> bool) (l : list A) i x y :
  nth_error l i = Some x -> cnt f (upd l i y) + b2n (f x) = cnt f l + b2n (f y).
Proof.
  revert i; induction l as [|z r IH]; intros i H; destruct i; cbn in *; try discriminate.
  - inversion H; subst. lia.
  - specialize (IH i H). lia.
Qed.

Lemma cnt_zero {A} (f : A -> bool) (l : list A) :
  (forall i x, nth_error l i = Some x -> f x = false) -> cnt f l = 0.
Proof.
  induction l as [|z r IH]; intros H; cbn; auto.
  rewrite (H 0 z eq_refl). cbn. apply IH. intros i x Hi. apply (H (S i) x Hi).
Qed.

Lemma cnt_pos {A} (f : A -> bool) (l : list A) i x :
  nth_error l i = Some x -> f x = true -> 1 <= cnt f l.
Proof.
  revert i; induction l as [|z r IH]; intros i H E; destruct i; cbn in *; try discriminate.
  - inversion H; subst. rewrite E. cbn. lia.
  - specialize (IH i H E). lia.
Qed.

Lemma NoDup_app_l {A} (l l' : list A) : NoDup (l ++ l') -> NoDup l.
Proof.
  induction l as [|x l IH]; cbn; intros H; [constructor|].
  inversion H; subst. constructor; [intros Hin; apply H2; apply in_or_app; now left|auto].
Qed.

(* ------------------------------------------------------------------------------------------ *)
(* replaying the running list from the log                                                     *)
(* ------------------------------------------------------------------------------------------ *)
Definition run_step (r : list (nat * nat)) (e : event) : list (nat * nat) :=
  match e with
  | EStart qk _ _ t => (qk, t) :: r
  | EEnd _ t => remove_task t r
  | _ => r
  end.

Lemma running_keys_snoc l e acc :
  running_keys (l ++ [e]) acc = running_keys l acc ++ [map fst (run_step (fold_left run_step l acc) e)].
Proof.
  revert acc; induction l as [|a l IH]; intros acc.
  - reflexivity.
  - cbn [app running_keys fold_left]. rewrite IH. reflexivity.
Qed.

Lemma remove_task_in t (r : list (nat * nat)) x : In x (map snd (remove_task t r)) -> In x (map snd r).
Proof.
  induction r as [|p r IH]; cbn; auto. destruct (snd p =? t); cbn; intros H; auto.
  destruct H; auto.
Qed.

Lemma NoDup_remove_task t (r : list (nat * nat)) (X : list nat) :
  NoDup (map snd r ++ X) -> NoDup (map snd (remove_task t r) ++ X).
Proof.
  induction r as [|p r IH]; cbn; auto. intros H. inversion H; subst.
  destruct (snd p =? t); auto. cbn. constructor; auto.
  intros Hin. apply H2. apply in_app_or in Hin. apply in_or_app. destruct Hin as [Hin|Hin]; auto.
  left. eapply remove_task_in; eauto.
Qed.

Lemma replay_nodup l acc :
  NoDup (map snd acc ++ started_tasks l) -> NoDup (map snd (fold_left run_step l acc)).
Proof.
  revert acc; induction l as [|e l IH]; intros acc H.
  - cbn in *. now rewrite app_nil_r in H.
  - cbn [fold_left]. apply IH. destruct e as [k t|qk q tk t|q t]; cbn [run_step].
    + exact H.
    + change (started_tasks (EStart qk q tk t :: l)) with (t :: started_tasks l) in H.
      cbn [map snd app]. eapply Permutation_NoDup; [|exact H].
      apply Permutation_sym, Permutation_middle.
    + change (started_tasks (EEnd q t :: l)) with (started_tasks l) in H.
      now apply NoDup_remove_task.
Qed.

Lemma remove_task_perm (R : list (nat * nat)) k t :
  NoDup (map snd R) -> In (k, t) R -> Permutation R ((k, t) :: remove_task t R).
Proof.
  induction R as [|p r IH]; cbn; intros ND Hin; [contradiction|].
  inversion ND; subst. destruct (snd p =? t) eqn:E.
  - apply Nat.eqb_eq in E. destruct Hin as [Hin|Hin]; [subst; apply Permutation_refl|].
    exfalso. apply H1. rewrite E. change t with (snd (k, t)). now apply in_map.
  - destruct Hin as [Hin|Hin]; [subst; cbn in E; rewrite Nat.eqb_refl in E; discriminate|].
    etransitivity; [apply perm_skip, IH; auto|]. apply perm_swap.
Qed.

(* ------------------------------------------------------------------------------------------ *)
(* the invariant                                                                               *)
(* ------------------------------------------------------------------------------------------ *)
Definition active (pc : cpc) : bool :=
  match pc with CNotStarted | CTop | CPopOver | CRun _ | CWait | CChecked => true | _ => false end.
Definition dead (pc : cpc) : bool :=
  match pc with CDeleted | CDelFailed | CExit => true | _ => false end.
Definition ns (pc : cpc) : bool := match pc with CNotStarted => true | _ => false end.

Definition holdsb (q : nat) (p : nat * ppc) : bool :=
  match snd p with PEnq q' | PRel q' | PSpawn q' => q' =? q | _ => false end.
Definition spawnb (q : nat) (p : nat * ppc) : bool :=
  match snd p with PStored q' | PSpawn q' => q' =? q | _ => false end.
Definition ment (pc : ppc) : option nat :=
  match pc with PEnq q | PRel q | PSpawn q | PStored q | PCad q => Some q | _ => None end.

Definition runf (Q : queue) : list (nat * nat) :=
  match q_pc Q with CRun t => [(q_key Q, t)] | _ => [] end.
Definition runs_of (qs : list queue) : list (nat * nat) := flat_map runf qs.

Definition Jmap (m : nat -> option nat) (qs : list queue) : Prop :=
  (forall k q, m k = Some q -> exists Q, nth_error qs q = Some Q /\ q_key Q = k)
  /\ (forall q Q, nth_error qs q = Some Q -> active (q_pc Q) = true -> m (q_key Q) = Some q)
  /\ (forall q Q, nth_error qs q = Some Q -> dead (q_pc Q) = true -> m (q_key Q) <> Some q).

Definition Jprod (qs : list queue) (ps : list (nat * ppc)) : Prop :=
  (forall q Q, nth_error qs q = Some Q -> active (q_pc Q) = true ->
               q_refs Q = Z.of_nat (cnt (holdsb q) ps))
  /\ (forall q Q, nth_error qs q = Some Q -> cnt (spawnb q) ps = b2n (ns (q_pc Q)))
  /\ (forall i k pc q, nth_error ps i = Some (k, pc) -> ment pc = Some q -> q < length qs)
  /\ (forall i k q Q, nth_error ps i = Some (k, PCad q) -> nth_error qs q = Some Q ->
                      active (q_pc Q) = false).

Definition Jlog (log : list event) (qs : list queue) : Prop :=
  Permutation (fold_left run_step log []) (runs_of qs)
  /\ (forall ks, In ks (running_keys log []) -> NoDup ks).

Definition K (s : state) : Prop :=
  Jmap (st_map s) (st_qs s) /\ Jprod (st_qs s) (st_prods s) /\ Jlog (st_log s) (st_qs s).

(* ------------------------------------------------------------------------------------------ *)
(* Jmap                                                                                        *)
(* ------------------------------------------------------------------------------------------ *)
Lemma Jmap_upd m qs q Q Q' :
  nth_error qs q = Some Q -> q_key Q' = q_key Q ->
  (active (q_pc Q') = true -> active (q_pc Q) = true) ->
  (dead (q_pc Q') = true -> dead (q_pc Q) = true \/ m (q_key Q) <> Some q) ->
  Jmap m qs -> Jmap m (upd qs q Q').
Proof.
  intros Hq Hk Ha Hd (A & B & C). split; [|split].
  - intros k q1 Hm. destruct (A k q1 Hm) as (Q1 & H1 & H2). rewrite nth_error_upd.
    destruct (q1 =? q) eqn:E.
    + apply Nat.eqb_eq in E; subst q1. rewrite Hq. exists Q'. split; auto.
      rewrite Hq in H1. inversion H1; subst. congruence.
    + exists Q1; auto.
  - intros q1 Q1 H1 Hact. rewrite nth_error_upd in H1. destruct (q1 =? q) eqn:E.
    + apply Nat.eqb_eq in E; subst q1. rewrite Hq in H1. inversion H1; subst Q1. rewrite Hk. apply B; auto.
    + apply B; auto.
  - intros q1 Q1 H1 Hdead. rewrite nth_error_upd in H1. destruct (q1 =? q) eqn:E.
    + apply Nat.eqb_eq in E; subst q1. rewrite Hq in H1. inversion H1; subst Q1. rewrite Hk.
      destruct (Hd Hdead) as [D|D]; auto.
    + apply C; auto.
Qed.

Lemma Jmap_del m qs k q :
  Jmap m qs -> m k = Some q -> (forall Q, nth_error qs q = Some Q -> active (q_pc Q) = false) ->
  Jmap (map_set m k None) qs.
Proof.
  intros (A & B & C) Hm Hna. split; [|split]; unfold map_set.
  - intros k1 q1 H. destruct (k1 =? k); [discriminate|]. now apply A.
  - intros q1 Q1 H1 Hact. destruct (q_key Q1 =? k) eqn:E.
    + apply Nat.eqb_eq in E. pose proof (B q1 Q1 H1 Hact) as H2. rewrite E, Hm in H2. inversion H2; subst q1.
      rewrite (Hna Q1 H1) in Hact. discriminate.
    + apply B; auto.
  - intros q1 Q1 H1 Hd. destruct (q_key Q1 =? k); [discriminate|]. apply C; auto.
Qed.

Lemma Jmap_new m qs k Qn :
  Jmap m qs -> m k = None -> q_key Qn = k -> dead (q_pc Qn) = false ->
  Jmap (map_set m k (Some (length qs))) (qs ++ [Qn]).
Proof.
  intros (A & B & C) Hm Hk Hnd. split; [|split]; unfold map_set.
  - intros k1 q1 H. destruct (k1 =? k) eqn:E.
    + apply Nat.eqb_eq in E. inversion H; subst. exists Qn. split; auto.
      rewrite nth_error_app2 by lia. now rewrite Nat.sub_diag.
    + destruct (A k1 q1 H) as (Q1 & H1 & H2). exists Q1. split; auto.
      rewrite nth_error_app1; auto. eapply nth_error_lt; eauto.
  - intros q1 Q1 H1 Hact. apply nth_error_snoc in H1. destruct H1 as [[Hl H1]|[Hl H1]].
    + pose proof (B q1 Q1 H1 Hact) as H2. destruct (q_key Q1 =? k) eqn:E; auto.
      apply Nat.eqb_eq in E. rewrite E, Hm in H2. discriminate.
    + subst. now rewrite Nat.eqb_refl.
  - intros q1 Q1 H1 Hd. apply nth_error_snoc in H1. destruct H1 as [[Hl H1]|[Hl H1]].
    + destruct (q_key Q1 =? k) eqn:E; [|apply C; auto]. intros H; inversion H. lia.
    + subst. rewrite Hnd in Hd. discriminate.
Qed.

Lemma in_runs qs k :
  In k (map fst (runs_of qs)) ->
  exists j Q t, nth_error qs j = Some Q /\ q_pc Q = CRun t /\ q_key Q = k.
Proof.
  intros H. apply in_map_iff in H. destruct H as ([k' t] & Hk & Hin). cbn in Hk; subst k'.
  unfold runs_of in Hin. apply in_flat_map in Hin. destruct Hin as (Q & HQ & Hr).
  apply In_nth_error in HQ. destruct HQ as [j Hj]. unfold runf in Hr.
  destruct (q_pc Q) eqn:E; cbn in Hr; try contradiction.
  destruct Hr as [Hr|[]]. inversion Hr; subst. exists j, Q, t. auto.
Qed.

Lemma runs_nodup_gen m l off :
  (forall j Q, nth_error l j = Some Q -> active (q_pc Q) = true -> m (q_key Q) = Some (off + j)) ->
  NoDup (map fst (runs_of l)).
Proof.
  revert off; induction l as [|Q0 r IH]; intros off H; [constructor|].
  assert (Hr : NoDup (map fst (runs_of r))).
  { apply (IH (S off)). intros j Q Hj Ha. replace (S off + j) with (off + S j) by lia. apply H; auto. }
  unfold runs_of. cbn [flat_map]. rewrite map_app. fold (runs_of r).
  unfold runf at 1. destruct (q_pc Q0) eqn:E; cbn [map app fst]; auto.
  constructor; auto. intros Hin. apply in_runs in Hin. destruct Hin as (j & Q & t' & Hj & Hpc & Hk).
  pose proof (H 0 Q0 eq_refl) as H0. rewrite E in H0. specialize (H0 eq_refl).
  pose proof (H (S j) Q Hj) as H1. rewrite Hpc in H1. specialize (H1 eq_refl).
  rewrite Hk, H0 in H1. inversion H1. lia.
Qed.

Lemma runs_nodup m qs : Jmap m qs -> NoDup (map fst (runs_of qs)).
Proof. intros (_ & B & _). apply (runs_nodup_gen m qs 0). intros j Q Hj Ha. cbn. now apply B. Qed.

(* ------------------------------------------------------------------------------------------ *)
(* Jprod                                                                                       *)
(* ------------------------------------------------------------------------------------------ *)
Lemma Jprod_step_p qs ps i k pc pc' :
  nth_error ps i = Some (k, pc) -> Jprod qs ps ->
  (forall q, holdsb q (k, pc') = holdsb q (k, pc) /\ spawnb q (k, pc') = spawnb q (k, pc)) ->
  (forall q, ment pc' = Some q -> q < length qs) ->
  (forall q Q, pc' = PCad q -> nth_error qs q = Some Q -> active (q_pc Q) = false) ->
  Jprod qs (upd ps i (k, pc')).
Proof.
  intros Hp (A & B & C & D) Hsame Hment Hcad. split; [|split; [|split]].
  - intros q Q Hq Ha. rewrite (A q Q Hq Ha). f_equal.
    pose proof (cnt_upd (holdsb q) ps i _ (k, pc') Hp) as E. destruct (Hsame q) as [E1 _]. rewrite E1 in E. lia.
  - intros q Q Hq. rewrite <- (B q Q Hq).
    pose proof (cnt_upd (spawnb q) ps i _ (k, pc') Hp) as E. destruct (Hsame q) as [_ E1]. rewrite E1 in E. lia.
  - intros j k1 pc1 q Hj Hm. rewrite nth_error_upd in Hj. destruct (j =? i).
    + rewrite Hp in Hj. inversion Hj; subst. auto.
    + eapply C; eauto.
  - intros j k1 q Q Hj Hq. rewrite nth_error_upd in Hj. destruct (j =? i).
    + rewrite Hp in Hj. inversion Hj; subst. eapply Hcad; eauto.
    + eapply D; eauto.
Qed.

Lemma Jprod_step qs ps q Q Q' i k pc pc' :
  nth_error qs q = Some Q -> nth_error ps i = Some (k, pc) -> Jprod qs ps ->
  (forall q1, q1 <> q -> holdsb q1 (k, pc') = holdsb q1 (k, pc) /\ spawnb q1 (k, pc') = spawnb q1 (k, pc)) ->
  (active (q_pc Q') = true -> active (q_pc Q) = true /\
     (q_refs Q' + Z.of_nat (b2n (holdsb q (k, pc))) = q_refs Q + Z.of_nat (b2n (holdsb q (k, pc'))))%Z) ->
  b2n (ns (q_pc Q')) + b2n (spawnb q (k, pc)) = b2n (ns (q_pc Q)) + b2n (spawnb q (k, pc')) ->
  (active (q_pc Q) = false -> active (q_pc Q') = false) ->
  (forall q1, ment pc' = Some q1 -> q1 < length qs) ->
  (forall q1, pc' <> PCad q1) ->
  Jprod (upd qs q Q') (upd ps i (k, pc')).
Proof.
  intros Hq Hp (A & B & C & D) Hoth Hact Hns Hna Hment Hcad. split; [|split; [|split]].
  - intros q1 Q1 H1 Ha. rewrite nth_error_upd in H1.
    pose proof (cnt_upd (holdsb q1) ps i _ (k, pc') Hp) as E.
    destruct (q1 =? q) eqn:Eq.
    + apply Nat.eqb_eq in Eq; subst q1. rewrite Hq in H1. inversion H1; subst Q1.
      destruct (Hact Ha) as [Ha0 Hr]. pose proof (A q Q Hq Ha0) as A0. lia.
    + apply Nat.eqb_neq in Eq. destruct (Hoth q1 Eq) as [E1 _]. rewrite E1 in E.
      rewrite (A q1 Q1 H1 Ha). f_equal. lia.
  - intros q1 Q1 H1. rewrite nth_error_upd in H1.
    pose proof (cnt_upd (spawnb q1) ps i _ (k, pc') Hp) as E.
    destruct (q1 =? q) eqn:Eq.
    + apply Nat.eqb_eq in Eq; subst q1. rewrite Hq in H1. inversion H1; subst Q1.
      pose proof (B q Q Hq) as B0. lia.
    + apply Nat.eqb_neq in Eq. destruct (Hoth q1 Eq) as [_ E1]. rewrite E1 in E.
      rewrite <- (B q1 Q1 H1). lia.
  - intros j k1 pc1 q1 Hj Hm. rewrite upd_length. rewrite nth_error_upd in Hj. destruct (j =? i).
    + rewrite Hp in Hj. inversion Hj; subst. auto.
    + eapply C; eauto.
  - intros j k1 q1 Q1 Hj H1. rewrite nth_error_upd in Hj. destruct (j =? i).
    + rewrite Hp in Hj. inversion Hj; subst. exfalso. eapply Hcad; eauto.
    + rewrite nth_error_upd in H1. destruct (q1 =? q) eqn:Eq.
      * apply Nat.eqb_eq in Eq; subst q1. rewrite Hq in H1. inversion H1; subst Q1.
        apply Hna. eapply D; eauto.
      * eapply D; eauto.
Qed.

Lemma Jprod_upd_q qs ps q Q Q' :
  nth_error qs q = Some Q -> Jprod qs ps ->
  (active (q_pc Q') = true -> active (q_pc Q) = true /\ q_refs Q' = q_refs Q) ->
  ns (q_pc Q') = ns (q_pc Q) ->
  (active (q_pc Q) = false -> active (q_pc Q') = false) ->
  Jprod (upd qs q Q') ps.
Proof.
  intros Hq (A & B & C & D) Hact Hns Hna. split; [|split; [|split]].
  - intros q1 Q1 H1 Ha. rewrite nth_error_upd in H1. destruct (q1 =? q) eqn:Eq.
    + apply Nat.eqb_eq in Eq; subst q1. rewrite Hq in H1. inversion H1; subst Q1.
      destruct (Hact Ha) as [Ha0 Hr]. rewrite Hr. now apply A.
    + now apply A.
  - intros q1 Q1 H1. rewrite nth_error_upd in H1. destruct (q1 =? q) eqn:Eq.
    + apply Nat.eqb_eq in Eq; subst q1. rewrite Hq in H1. inversion H1; subst Q1.
      rewrite Hns. now apply B.
    + now apply B.
  - intros j k1 pc1 q1 Hj Hm. rewrite upd_length. eapply C; eauto.
  - intros j k1 q1 Q1 Hj H1. rewrite nth_error_upd in H1. destruct (q1 =? q) eqn:Eq.
    + apply Nat.eqb_eq in Eq; subst q1. rewrite Hq in H1. inversion H1; subst Q1.
      apply Hna. eapply D; eauto.
    + eapply D; eauto.
Qed.

Lemma Jprod_new qs ps i k pc Qn :
  nth_error ps i = Some (k, pc) -> Jprod qs ps ->
  (forall q, holdsb q (k, pc) = false /\ spawnb q (k, pc) = false) ->
  q_pc Qn = CNotStarted -> q_refs Qn = 0%Z ->
  Jprod (qs ++ [Qn]) (upd ps i (k, PStored (length qs))).
Proof.
  intros Hp (A & B & C & D) Hno Hpc Hrefs.
  assert (Hz : forall f : nat -> nat * ppc -> bool,
             (forall q p, f q p = true -> ment (snd p) = Some q) -> cnt (f (length qs)) ps = 0).
  { intros f Hf. apply cnt_zero. intros j [k1 pc1] Hj. destruct (f (length qs) (k1, pc1)) eqn:E; auto.
    apply Hf in E. cbn in E. pose proof (C j k1 pc1 _ Hj E). lia. }
  split; [|split; [|split]].
  - intros q1 Q1 H1 Ha. apply nth_error_snoc in H1.
    pose proof (cnt_upd (holdsb q1) ps i _ (k, PStored (length qs)) Hp) as E.
    destruct (Hno q1) as [E1 _]. rewrite E1 in E. cbn in E.
    destruct H1 as [[Hl H1]|[Hl H1]].
    + rewrite (A q1 Q1 H1 Ha). f_equal. lia.
    + subst. rewrite Hrefs. rewrite (Hz holdsb) in E; [lia|].
      intros q [k1 pc1]. unfold holdsb. cbn. destruct pc1; try discriminate; intros H; apply Nat.eqb_eq in H; now subst.
  - intros q1 Q1 H1. apply nth_error_snoc in H1.
    pose proof (cnt_upd (spawnb q1) ps i _ (k, PStored (length qs)) Hp) as E.
    destruct (Hno q1) as [_ E1]. rewrite E1 in E. unfold spawnb at 3 in E. cbn [snd] in E.
    destruct H1 as [[Hl H1]|[Hl H1]].
    + rewrite <- (B q1 Q1 H1). replace (length qs =? q1) with false in E by (symmetry; apply Nat.eqb_neq; lia).
      cbn in E. lia.
    + subst. rewrite Hpc. rewrite Nat.eqb_refl in E. rewrite (Hz spawnb) in E; [cbn in *; lia|].
      intros q [k1 pc1]. unfold spawnb. cbn. destruct pc1; try discriminate; intros H; apply Nat.eqb_eq in H; now subst.
  - intros j k1 pc1 q1 Hj Hm. rewrite app_length. cbn. rewrite nth_error_upd in Hj. destruct (j =? i).
    + rewrite Hp in Hj. inversion Hj; subst. cbn in Hm. inversion Hm. lia.
    + pose proof (C j k1 pc1 q1 Hj Hm). lia.
  - intros j k1 q1 Q1 Hj H1. rewrite nth_error_upd in Hj. destruct (j =? i).
    + rewrite Hp in Hj. inversion Hj.
    + apply nth_error_snoc in H1. destruct H1 as [[Hl H1]|[Hl H1]].
      * eapply D; eauto.
      * pose proof (C j k1 (PCad q1) q1 Hj eq_refl). lia.
Qed.

(* ------------------------------------------------------------------------------------------ *)
(* Jlog                                                                                        *)
(* ------------------------------------------------------------------------------------------ *)
Lemma Jlog_upd log qs q Q Q' :
  nth_error qs q = Some Q -> runf Q' = runf Q -> Jlog log qs -> Jlog log (upd qs q Q').
Proof.
  intros Hq E (A & B). split; auto. unfold runs_of. now rewrite (flat_map_upd_same runf qs q Q Q' Hq E).
Qed.

Lemma Jlog_snoc log qs qs' e :
  Jlog log qs ->
  Permutation (run_step (fold_left run_step log []) e) (runs_of qs') ->
  NoDup (map fst (runs_of qs')) ->
  Jlog (log ++ [e]) qs'.
Proof.
  intros (A & B) P N. split.
  - rewrite fold_left_app. exact P.
  - intros ks Hin. rewrite running_keys_snoc in Hin. apply in_app_or in Hin. destruct Hin as [Hin|[Hin|[]]]; auto.
    subst ks. eapply Permutation_NoDup; [|exact N]. apply Permutation_map, Permutation_sym, P.
Qed.

Lemma Jlog_start log qs q Q Q' t a b :
  Jlog log qs -> nth_error qs q = Some Q -> runf Q = [] -> runf Q' = [(q_key Q, t)] ->
  NoDup (map fst (runs_of (upd qs q Q'))) ->
  Jlog (log ++ [EStart (q_key Q) a b t]) (upd qs q Q').
Proof.
  intros L Hq E E' N. apply (Jlog_snoc log qs); auto. destruct L as [A _]. cbn [run_step].
  pose proof (flat_map_upd_perm runf qs q Q Q' Hq) as P. rewrite E, E', app_nil_r in P.
  fold (runs_of qs) in P. fold (runs_of (upd qs q Q')) in P.
  etransitivity; [apply perm_skip, A|]. etransitivity; [apply Permutation_cons_append|].
  now apply Permutation_sym.
Qed.

Lemma Jlog_end log qs q Q Q' t a :
  Jlog log qs -> nth_error qs q = Some Q -> runf Q = [(q_key Q, t)] -> runf Q' = [] ->
  NoDup (started_tasks log) ->
  NoDup (map fst (runs_of (upd qs q Q'))) ->
  Jlog (log ++ [EEnd a t]) (upd qs q Q').
Proof.
  intros L Hq E E' ND N. apply (Jlog_snoc log qs); auto. destruct L as [A _]. cbn [run_step].
  pose proof (flat_map_upd_perm runf qs q Q Q' Hq) as P. rewrite E, E', app_nil_r in P.
  fold (runs_of qs) in P. fold (runs_of (upd qs q Q')) in P.
  assert (NR : NoDup (map snd (fold_left run_step log []))) by (apply replay_nodup; exact ND).
  assert (P2 : Permutation (fold_left run_step log []) ((q_key Q, t) :: runs_of (upd qs q Q'))).
  { etransitivity; [exact A|]. etransitivity; [apply Permutation_sym, P|].
    apply Permutation_sym, Permutation_cons_append. }
  assert (Hin : In (q_key Q, t) (fold_left run_step log [])).
  { eapply Permutation_in; [apply Permutation_sym, P2|]. now left. }
  pose proof (remove_task_perm _ _ _ NR Hin) as P3.
  eapply Permutation_cons_inv. etransitivity; [apply Permutation_sym, P3|exact P2].
Qed.

Lemma Jlog_accept m log qs k t : Jlog log qs -> Jmap m qs -> Jlog (log ++ [EAccept k t]) qs.
Proof.
  intros L M. apply (Jlog_snoc log qs); auto; [exact (proj1 L)|eapply runs_nodup; eauto].
Qed.

Lemma Jlog_new log qs Qn : runf Qn = [] -> Jlog log qs -> Jlog log (qs ++ [Qn]).
Proof.
  intros E (A & B). split; auto. unfold runs_of. rewrite flat_map_app. cbn. rewrite E, !app_nil_r. exact A.
Qed.

(* ------------------------------------------------------------------------------------------ *)
(* one queue changes, producers do not                                                         *)
(* ------------------------------------------------------------------------------------------ *)
Lemma K_conv m qs ps log q Q Q' :
  nth_error qs q = Some Q -> Jmap m qs -> Jprod qs ps -> Jlog log qs ->
  q_key Q' = q_key Q ->
  (active (q_pc Q') = true -> active (q_pc Q) = true /\ q_refs Q' = q_refs Q) ->
  ns (q_pc Q') = ns (q_pc Q) ->
  (active (q_pc Q) = false -> active (q_pc Q') = false) ->
  (dead (q_pc Q') = true -> dead (q_pc Q) = true \/ m (q_key Q) <> Some q) ->
  runf Q' = runf Q ->
  Jmap m (upd qs q Q') /\ Jprod (upd qs q Q') ps /\ Jlog log (upd qs q Q').
Proof.
  intros Hq M P L Hk Ha Hns Hna Hd Hr. split; [|split].
  - eapply Jmap_upd; eauto. intros H. now destruct (Ha H).
  - eapply Jprod_upd_q; eauto.
  - eapply Jlog_upd; eauto.
Qed.

Lemma K_start m qs ps log q Q Q' t a b :
  nth_error qs q = Some Q -> Jmap m qs -> Jprod qs ps -> Jlog log qs ->
  q_key Q' = q_key Q -> q_refs Q' = q_refs Q -> q_pc Q' = CRun t ->
  active (q_pc Q) = true -> ns (q_pc Q) = false -> runf Q = [] ->
  Jmap m (upd qs q Q') /\ Jprod (upd qs q Q') ps /\ Jlog (log ++ [EStart (q_key Q) a b t]) (upd qs q Q').
Proof.
  intros Hq M P L Hk Hr Hpc Ha Hns Hrf.
  assert (M' : Jmap m (upd qs q Q')).
  { eapply Jmap_upd; eauto. rewrite Hpc. cbn. discriminate. }
  split; [exact M'|split].
  - eapply Jprod_upd_q; eauto.
    + rewrite Hpc, Hns. reflexivity.
    + rewrite Ha. discriminate.
  - eapply Jlog_start; eauto.
    + unfold runf. rewrite Hpc, Hk. reflexivity.
    + eapply runs_nodup; eauto.
Qed.

Lemma K_end m qs ps log q Q Q' t a :
  nth_error qs q = Some Q -> Jmap m qs -> Jprod qs ps -> Jlog log qs ->
  q_key Q' = q_key Q -> q_refs Q' = q_refs Q -> q_pc Q = CRun t -> q_pc Q' = CTop ->
  NoDup (started_tasks log) ->
  Jmap m (upd qs q Q') /\ Jprod (upd qs q Q') ps /\ Jlog (log ++ [EEnd a t]) (upd qs q Q').
Proof.
  intros Hq M P L Hk Hr Hpc Hpc' ND.
  assert (M' : Jmap m (upd qs q Q')).
  { eapply Jmap_upd; eauto; rewrite Hpc, Hpc'; cbn; auto; discriminate. }
  split; [exact M'|split].
  - eapply Jprod_upd_q; eauto; rewrite Hpc, Hpc'; cbn; auto; discriminate.
  - eapply Jlog_end; eauto.
    + unfold runf. rewrite Hpc. reflexivity.
    + unfold runf. rewrite Hpc'. reflexivity.
    + eapply runs_nodup; eauto.
Qed.

Lemma opt_is_true o q : opt_is o q = true -> o = Some q.
Proof. destruct o; cbn; [|discriminate]. intros H. apply Nat.eqb_eq in H. now subst. Qed.
Lemma opt_is_false o q : opt_is o q = false -> o <> Some q.
Proof. destruct o; cbn; [|discriminate]. intros H E. inversion E; subst. rewrite Nat.eqb_refl in H. discriminate. Qed.

Ltac kred :=
  unfold K;
  cbn [st_map st_qs st_prods st_log set_ppc set_q set_qs set_prods set_map set_pool set_chans set_chan
       add_log start_task].

Ltac qred :=
  cbn [q_pc q_key q_refs q_over q_mode q_ch q_set_pc q_set_refs q_set_over] in *.

(* ------------------------------------------------------------------------------------------ *)
(* convoy steps                                                                                *)
(* ------------------------------------------------------------------------------------------ *)
Lemma K_step_conv s q c : inv s -> K s -> K (step_conv s q c).
Proof.
  intros I HK. pose proof HK as (M & P & L). unfold step_conv.
  destruct (nth_error (st_qs s) q) as [Q|] eqn:Hq; [|exact HK].
  assert (ND : NoDup (started_tasks (st_log s))) by (destruct I as (I1 & _); eapply NoDup_app_l; exact I1).
  assert (Hstart : forall s1 Q1 t,
             st_map s1 = st_map s -> st_qs s1 = st_qs s -> st_prods s1 = st_prods s -> st_log s1 = st_log s ->
             q_key Q1 = q_key Q -> q_refs Q1 = q_refs Q -> q_pc Q1 = q_pc Q ->
             active (q_pc Q) = true -> ns (q_pc Q) = false -> runf Q = [] ->
             K (start_task s1 q Q1 t)).
  { intros s1 Q1 t E1 E2 E3 E4 Hk Hr Hpc Ha Hns Hrf. kred. rewrite E1, E2, E3, E4, Hk.
    eapply K_start; eauto. }
  destruct (q_pc Q) eqn:Hpc; try exact HK.
  - (* CTop *)
    destruct (chan s (q_ch Q)) as [|t r] eqn:Hc.
    + kred. eapply K_conv; eauto; unfold runf; qred; rewrite ?Hpc; cbn; auto; discriminate.
    + apply Hstart; try reflexivity; auto. unfold runf. now rewrite Hpc.
  - (* CPopOver: with or without the second poll of the channel *)
    destruct (if pop_overflow_rechecks_channel then chan s (q_ch Q) else []) as [|t0 r0] eqn:Hc;
      [|apply Hstart; try reflexivity; auto; unfold runf; now rewrite Hpc].
    destruct (q_over Q) as [|t r] eqn:Ho.
    + kred. eapply K_conv; eauto; unfold runf; qred; rewrite ?Hpc; cbn; auto; discriminate.
    + apply Hstart; try reflexivity; auto. unfold runf. now rewrite Hpc.
  - (* CRun *)
    kred. eapply K_end; eauto.
  - (* CWait *)
    destruct c.
    + exact HK.
    + destruct (chan s (q_ch Q)) as [|t r] eqn:Hc; [exact HK|].
      apply Hstart; try reflexivity; auto. unfold runf. now rewrite Hpc.
    + destruct ((0 <? q_refs Q)%Z || negb (length (chan s (q_ch Q)) =? 0) || negb (length (q_over Q) =? 0));
        [exact HK|].
      kred. eapply K_conv; eauto; unfold runf; qred; rewrite ?Hpc; cbn; auto; discriminate.
    + kred. eapply K_conv; eauto; unfold runf; qred; rewrite ?Hpc; cbn; auto; discriminate.
  - (* CChecked *)
    destruct (q_refs Q =? 0)%Z.
    + kred. eapply K_conv; eauto; unfold runf; qred; rewrite ?Hpc; cbn; auto; discriminate.
    + kred. eapply K_conv; eauto; unfold runf; qred; rewrite ?Hpc; cbn; auto; discriminate.
  - (* CClaimed *)
    destruct (opt_is (st_map s (q_key Q)) q) eqn:Eo.
    + apply opt_is_true in Eo. kred.
      assert (M1 : Jmap (map_set (st_map s) (q_key Q) None) (st_qs s)).
      { eapply Jmap_del; eauto. intros Q0 H0. rewrite Hq in H0. inversion H0; subst. now rewrite Hpc. }
      eapply K_conv; eauto; unfold runf; qred; rewrite ?Hpc; cbn; auto; try discriminate.
      intros _. right. unfold map_set. rewrite Nat.eqb_refl. discriminate.
    + apply opt_is_false in Eo. kred.
      eapply K_conv; eauto; unfold runf; qred; rewrite ?Hpc; cbn; auto; discriminate.
  - (* CDeleted *)
    kred. eapply K_conv; eauto; unfold runf; qred; rewrite ?Hpc; cbn; auto; discriminate.
  - (* CDelFailed *)
    destruct (opt_is (st_map s (q_key Q)) q) eqn:Eo.
    + exfalso. apply opt_is_true in Eo. destruct M as (_ & _ & C). apply (C q Q Hq); auto. now rewrite Hpc.
    + kred. eapply K_conv; eauto; unfold runf; qred; rewrite ?Hpc; cbn; auto; discriminate.
Qed.

(* ------------------------------------------------------------------------------------------ *)
(* producer steps                                                                              *)
(* ------------------------------------------------------------------------------------------ *)
Ltac ponly M P L Hp :=
  kred; split; [exact M|split; [|exact L]];
  eapply Jprod_step_p; [exact Hp|exact P|intros; split; reflexivity|cbn; intros; discriminate|intros; discriminate].

(* refs changes by the amount the holder count changes; pc of the queue unchanged *)
Ltac refs_step M P L Hp Hq q :=
  kred; split; [|split];
  [ eapply Jmap_upd; eauto
  | eapply Jprod_step; [exact Hq|exact Hp|exact P|..];
    [ let q1 := fresh "q1" in let Hne := fresh "Hne" in let Ef := fresh "Ef" in
      intros q1 Hne; assert (Ef : (q =? q1) = false) by (apply Nat.eqb_neq; congruence);
      unfold holdsb, spawnb; cbn [snd]; rewrite ?Ef; split; reflexivity
    | let Ha := fresh "Ha" in
      intros Ha; split; [exact Ha|]; unfold holdsb; cbn [snd]; qred; rewrite ?Nat.eqb_refl; cbn [b2n]; lia
    | unfold spawnb; cbn [snd]; qred; rewrite ?Nat.eqb_refl; reflexivity
    | auto
    | let q1 := fresh "q1" in let H := fresh "H" in
      cbn; intros q1 H; inversion H; subst; eapply nth_error_lt; eauto
    | intros; discriminate ]
  | eapply Jlog_upd; eauto ].

Lemma K_step_prod cap s i g : K s -> K (step_prod cap s i g).
Proof.
  intros HK. pose proof HK as (M & P & L). unfold step_prod.
  destruct (nth_error (st_prods s) i) as [[k pc]|] eqn:Hp; [|exact HK].
  destruct pc.
  - (* PStart *)
    destruct (st_map s k); ponly M P L Hp.
  - (* PLoaded *)
    destruct (nth_error (st_qs s) q) as [Q|] eqn:Hq; [|exact HK].
    destruct (q_refs Q <? 0)%Z eqn:Er.
    + ponly M P L Hp.
    + refs_step M P L Hp Hq q.
  - (* PGet *)
    destruct g as [c|].
    + destruct (mem c (st_pool s)); [|exact HK]. ponly M P L Hp.
    + ponly M P L Hp.
  - (* PHave *)
    destruct (st_map s k) eqn:Em.
    + ponly M P L Hp.
    + kred. split; [|split].
      * apply Jmap_new; auto.
      * eapply Jprod_new; eauto; intros; split; reflexivity.
      * apply Jlog_new; auto.
  - (* PLoaded2 *)
    destruct (nth_error (st_qs s) q) as [Q|] eqn:Hq; [|exact HK].
    destruct (q_refs Q <? 0)%Z eqn:Er.
    + kred. split; [exact M|split; [|exact L]].
      eapply Jprod_step_p; [exact Hp|exact P|intros; split; reflexivity| |].
      * cbn. intros q1 H. inversion H; subst. eapply nth_error_lt; eauto.
      * intros q1 Q1 H H1. inversion H; subst q1. rewrite Hq in H1. inversion H1; subst Q1.
        destruct (active (q_pc Q)) eqn:Ea; auto. destruct P as (A & _).
        rewrite (A q Q Hq Ea) in Er. apply Z.ltb_lt in Er. lia.
    + refs_step M P L Hp Hq q.
  - (* PCad *)
    destruct (opt_is (st_map s k) q) eqn:Eo.
    + apply opt_is_true in Eo. kred. split; [|split; [|exact L]].
      * eapply Jmap_del; eauto. intros Q HQ. destruct P as (_ & _ & _ & D). eapply D; eauto.
      * eapply Jprod_step_p; [exact Hp|exact P|intros; split; reflexivity|cbn; intros; discriminate|intros; discriminate].
    + ponly M P L Hp.
  - (* PStored *)
    destruct (nth_error (st_qs s) q) as [Q|] eqn:Hq; [|exact HK].
    refs_step M P L Hp Hq q.
  - (* PSpawn *)
    destruct (nth_error (st_qs s) q) as [Q|] eqn:Hq; [|exact HK].
    assert (Hns : q_pc Q = CNotStarted).
    { destruct P as (_ & B & _). pose proof (B q Q Hq) as B0.
      assert (1 <= cnt (spawnb q) (st_prods s)).
      { eapply cnt_pos; [exact Hp|]. unfold spawnb; cbn. apply Nat.eqb_refl. }
      destruct (q_pc Q); cbn in B0; try lia. reflexivity. }
    kred. split; [|split].
    + eapply Jmap_upd; eauto; qred; rewrite Hns; cbn; auto; discriminate.
    + eapply Jprod_step; [exact Hq|exact Hp|exact P|..].
      * intros q1 Hne. assert (Ef : (q =? q1) = false) by (apply Nat.eqb_neq; congruence).
        unfold holdsb, spawnb; cbn [snd]; rewrite ?Ef; split; reflexivity.
      * intros _. split; [rewrite Hns; reflexivity|]. unfold holdsb; cbn [snd]; qred. lia.
      * unfold spawnb; cbn [snd]; qred. rewrite Hns, Nat.eqb_refl. reflexivity.
      * rewrite Hns. discriminate.
      * cbn. intros q1 H. inversion H; subst. eapply nth_error_lt; eauto.
      * intros; discriminate.
    + eapply Jlog_upd; eauto. unfold runf; qred. now rewrite Hns.
  - (* PEnq *)
    destruct (nth_error (st_qs s) q) as [Q|] eqn:Hq; [|exact HK].
    assert (P1 : Jprod (st_qs s) (upd (st_prods s) i (k, PRel q))).
    { eapply Jprod_step_p; [exact Hp|exact P|intros; split; reflexivity| |intros; discriminate].
      cbn. intros q1 H. inversion H; subst. eapply nth_error_lt; eauto. }
    assert (Hov : forall o b,
               Jmap (st_map s) (upd (st_qs s) q (q_set_over Q o b))
               /\ Jprod (upd (st_qs s) q (q_set_over Q o b)) (upd (st_prods s) i (k, PRel q))
               /\ Jlog (st_log s ++ [EAccept k i]) (upd (st_qs s) q (q_set_over Q o b))).
    { intros o b.
      assert (M1 : Jmap (st_map s) (upd (st_qs s) q (q_set_over Q o b))) by (eapply Jmap_upd; eauto).
      split; [exact M1|split].
      - eapply Jprod_upd_q; eauto.
      - eapply Jlog_accept; [|exact M1]. eapply Jlog_upd; eauto. }
    destruct (q_mode Q).
    + kred. apply Hov.
    + destruct (length (chan s (q_ch Q)) <? cap).
      * kred. split; [exact M|split; [exact P1|]]. eapply Jlog_accept; eauto.
      * kred. apply Hov.
  - (* PRel *)
    destruct (nth_error (st_qs s) q) as [Q|] eqn:Hq; [|exact HK].
    refs_step M P L Hp Hq q.
  - exact HK.
Qed.

(* ------------------------------------------------------------------------------------------ *)
(* every reachable state                                                                       *)
(* ------------------------------------------------------------------------------------------ *)
Lemma K_init keys : K (init keys).
Proof.
  unfold K, init; cbn [st_map st_qs st_prods st_log]. split; [|split].
  - split; [|split].
    + intros k q H. discriminate.
    + intros q Q H. destruct q; discriminate.
    + intros q Q H. destruct q; discriminate.
  - split; [|split; [|split]].
    + intros q Q H. destruct q; discriminate.
    + intros q Q H. destruct q; discriminate.
    + intros i k pc q H Hm. apply nth_error_In in H. apply in_map_iff in H.
      destruct H as (k' & E & _). inversion E; subst. discriminate.
    + intros i k q Q H. apply nth_error_In in H. apply in_map_iff in H.
      destruct H as (k' & E & _). inversion E.
  - split; [apply Permutation_refl|]. intros ks [].
Qed.

Lemma K_run cap keys sched : K (run cap keys sched).
Proof.
  unfold run. generalize (inv_init keys) (K_init keys). generalize (init keys).
  induction sched as [|l r IH]; intros s I HK; cbn; [exact HK|].
  apply IH.
  - destruct l; [apply inv_step_prod|apply inv_step_conv]; exact I.
  - destruct l; [apply K_step_prod|apply K_step_conv]; assumption.
Qed.

Lemma C13_one_at_a_time_proof :
  forall cap keys sched, spec_one_at_a_time (st_log (run cap keys sched)).
Proof.
  intros cap keys sched. destruct (K_run cap keys sched) as (_ & _ & _ & H). exact H.
Qed.

Print Assumptions C13_one_at_a_time_proof.
