(* C05 - executable comparison functions used by the generated cases file (no proofs). *)
From Coq Require Import List NArith Bool.
From Dae Require Import C05_Spec C05_Model C05_SpliceModel C05_WritevModel.
From Dae.gen Require Import C05_Extracted.
Import ListNotations.
Open Scope N_scope.

(* deterministic test data: n bytes following a linear pattern, so that big payloads stay small in the file *)
Fixpoint pat_nat (n : nat) (x : N) : list N :=
  match n with O => [] | S m => (x mod 256) :: pat_nat m ((x * 5 + 17) mod 65536) end.
Definition pat (seed n : N) : list N := pat_nat (N.to_nat n) seed.

(* stack shape: 0 sock, 1 bufio, 2 prefixed, 3 sniffer, each with the number of bytes it holds *)
Fixpoint shape (c : conn) : list (N * N) :=
  match c with
  | CSock => [(0, 0)]
  | CBufio b c' => (1, len b) :: shape c'
  | CPrefixed p c' => (2, len p) :: shape c'
  | CSniffer b _ c' => (3, 0) :: shape c'      (* the harness cannot see Sniffer.buf; length not compared *)
  end.

Fixpoint shape_eqb (a b : list (N * N)) : bool :=
  match a, b with
  | [], [] => true
  | (x, y) :: a', (u, v) :: b' => (x =? u) && (y =? v) && shape_eqb a' b'
  | _, _ => false
  end.

Definition optN_eqb (a b : option N) : bool :=
  match a, b with Some x, Some y => x =? y | None, None => true | _, _ => false end.

Record obs := mkObs {
  (* case *)
  b_tcp : bool;
  b_p : pcase; b_grace : N; b_client : side; b_server : side;
  (* observed on the implementation *)
  i_handled_dns : bool; i_start : N; i_dl_at_start : option N; i_shape : list (N * N); i_spin : bool;
  i_up : list N; i_down : list N;
  i_cw_up : N * N * N; i_cw_down : N * N * N;       (* count, time, bytes written before *)
  i_up_shut : bool; i_down_shut : bool;             (* clean write-shutdown passed on *)
  i_err : bool; i_alive : bool; i_end : N
}.

Definition trip_eqb (a b : N * N * N) : bool :=
  let '(x, y, z) := a in let '(u, v, w) := b in (x =? u) && (y =? v) && (z =? w).

(* error codes: 1x impl<>model, 2x impl<>spec, 3x model<>spec *)
Definition signature_of (o : obs) (m : outcome) : N * N * N * N * N :=
  let top := match o_stack m with Some st => match shape st with (k, n) :: _ => k * 2 + (if n =? 0 then 0 else 1) | [] => 9 end | None => 8 end in
  let '(a, b, c) := o_ran m in
  let ran := (if a then 1 else 0) + (if b then 2 else 0) + (if c then 4 else 0) in
  let ending := if o_alive m then 0 else if o_err m then 1 else 2 in
  let first := match s_eof (b_client o), s_eof (b_server o) with
               | None, None => 0 | Some _, None => 1 | None, Some _ => 2
               | Some x, Some y => if x <? y then 3 else 4 end in
  let defect := (match o_dl_at_start m with Some _ => 1 | None => 0 end)
                + (match o_stack m with Some (CSniffer _ (Some _) _) => 2 | _ => 0 end)
                + (if o_spin m then 4 else 0) in
  (top, ran, ending, first, defect).

Definition agree (o : obs) (m : outcome) : list N :=
  let e c (b : bool) := if b then [] else [c] in
  e 11 (i_start o =? o_start m) ++ e 12 (optN_eqb (i_dl_at_start o) (o_dl_at_start m))
  ++ e 13 (match o_stack m with Some st => shape_eqb (i_shape o) (shape st) | None => false end)
  ++ e 14 (list_eqb (i_up o) (o_up m))
  ++ e 16 (let '(n, t, l) := i_cw_up o in let '(n', t', l') := o_cw_up m in (n =? n') && (t =? t') && (l =? l'))
  ++ e 40 (Bool.eqb (i_up_shut o) (o_up_shut m) && Bool.eqb (i_down_shut o) (o_down_shut m))
  ++ e 17 (let '(n, t, _) := i_cw_down o in let '(n', t', _) := o_cw_down m in (n =? n') && (t =? t'))
  ++ e 18 (Bool.eqb (i_err o) (o_err m) && Bool.eqb (i_alive o) (o_alive m) && (i_alive o || (i_end o =? o_end m)))
  ++ e 19 (Bool.eqb (i_spin o) (o_spin m)).

(* impl = model: when both directions are ready at the same instant the goroutine order is free; the
   implementation must agree with one of the two orders (bytes down: lie between them).  The second order is
   only evaluated when the first does not match. *)
Definition impl_vs_model (o : obs) (m1 : outcome) : list N :=
  let e c (b : bool) := if b then [] else [c] in
  match agree o m1, list_eqb (i_down o) (o_down m1) with
  | [], true => []
  | l, same =>
      let m2 := connection (b_p o) (b_grace o) false false (b_client o) (b_server o) in
      (match l, agree o m2 with [], _ => [] | _, [] => [] | l1, _ => l1 end)
      ++ e 15 (same || (is_prefix (o_down m1) (i_down o) && is_prefix (i_down o) (o_down m2))
               || (is_prefix (o_down m2) (i_down o) && is_prefix (i_down o) (o_down m1)))
  end.

Definition check_case (o : obs) : list N * (N * N * N * N * N) :=
  let m1 := connection (b_p o) (b_grace o) false true (b_client o) (b_server o) in
  let x := expect (b_grace o) (i_start o) (b_client o) (b_server o) in
  let xm := expect (b_grace o) (o_start m1) (b_client o) (b_server o) in
  let allowed := let '(rd, rp, rs) := o_ran m1 in allowed_delay c05_dns_first_timeout_ms (p_sniff_ms (b_p o)) rd rp rs in
  let e c (b : bool) := if b then [] else [c] in
  (if b_tcp o then
    (* real sockets: only timing-independent scripts are generated; bytes and shutdowns against the spec *)
    e 21 (list_eqb (i_up o) (x_up x)) ++ e 22 (list_eqb (i_down o) (x_down x))
    ++ e 23 (Bool.eqb (i_up_shut o) (x_up_shut x)) ++ e 24 (Bool.eqb (i_down_shut o) (x_down_shut x))
    ++ e 25 (negb (i_err o))
  else if i_handled_dns o || o_handled_dns m1 then
    e 10 (Bool.eqb (i_handled_dns o) (o_handled_dns m1))
  else
    impl_vs_model o m1
    (* impl = spec *)
    ++ e 21 (list_eqb (i_up o) (x_up x)) ++ e 22 (list_eqb (i_down o) (x_down x))
    ++ e 23 (Bool.eqb (i_up_shut o) (x_up_shut x)) ++ e 24 (Bool.eqb (i_down_shut o) (x_down_shut x))
    ++ e 25 (Bool.eqb (i_alive o) (x_alive x))
    ++ e 26 (match i_dl_at_start o with None => true | Some _ => false end)
    ++ e 27 (i_start o <=? allowed)
    (* model = spec (what C05_half_close / C05_no_stale_deadline / C05_detection_delay_bounded say, re-observed) *)
    ++ e 31 (list_eqb (o_up m1) (x_up xm)) ++ e 32 (list_eqb (o_down m1) (x_down xm))
    ++ e 33 (Bool.eqb (o_up_shut m1) (x_up_shut xm)) ++ e 34 (Bool.eqb (o_down_shut m1) (x_down_shut xm))
    ++ e 35 (Bool.eqb (o_alive m1) (x_alive xm))
    ++ e 36 (match o_dl_at_start m1 with None => true | Some _ => false end)
    ++ e 37 (o_start m1 <=? allowed),
   signature_of o m1).

(* ------------------------------------------------------------------ splice path scenarios (real sockets) *)
Record sobs := mkSObs {
  so_seed : N;                          (* clean pipes put into the emptied pool before connection 1 *)
  so_conn1 : list iter * list N;        (* oracle of connection 1's l2r loop rebuilt from the observed drains; its upload *)
  so_exact : bool;                      (* the exit of connection 1 is known exactly (ctx seen at the loop top, or clean EOF) *)
  so_later : list (list N * list N);    (* later connections: bytes sent up and down *)
  si_delivered : N;                     (* sum of the drains of connection 1 *)
  si_pool_len : N;
  si_pool_dirty : list N;               (* unread bytes of every pooled pipe after connection 1 *)
  si_later : list (list N * list N * bool * bool)   (* received up, received down, eof up, eof down *)
}.

Definition whole (l : list N) : list iter := [mkIt false (FillN (len l)) (DrainN (len l)); mkIt false FillEof DrainZero].

(* codes: 4x impl<>model, 2x impl<>spec (29: a pooled pipe holds bytes), 3x model<>spec *)
Definition check_splice (o : sobs) : list N :=
  let e c (b : bool) := if b then [] else [c] in
  let pool0 := repeat new_pipe (N.to_nat (so_seed o)) in
  let h1 := run_history code_flags [so_conn1 o; ([mkIt false FillErr DrainZero], [])] pool0 in
  let dirs := flat_map (fun ud => [(whole (fst ud), fst ud); (whole (snd ud), snd ud)]) (so_later o) in
  let h2 := run_history code_flags dirs (snd h1) in
  let fix pairs (l : list (list N)) : list (list N * list N) :=
      match l with a :: b :: r => (a, b) :: pairs r | _ => [] end in
  let mouts := pairs (fst h2) in
  e 29 (forallb (N.eqb 0) (si_pool_dirty o))
  ++ e 44 (negb (existsb pipe_dirtyb (snd h1)))
  ++ e 45 (negb (so_exact o) || (si_pool_len o =? N.of_nat (length (snd h1))))
  ++ e 43 (negb (so_exact o) || (si_delivered o =? len (nth 0 (fst h1) [])))
  ++ e 42 (Nat.eqb (length mouts) (length (si_later o))
           && forallb (fun x => let '((mu, md), (iu, id_, _, _)) := x in list_eqb mu iu && list_eqb md id_) (combine mouts (si_later o)))
  ++ e 21 (forallb (fun x => let '((su, _), (iu, _, _, _)) := x in list_eqb su iu) (combine (so_later o) (si_later o)))
  ++ e 22 (forallb (fun x => let '((_, sd), (_, id_, _, _)) := x in list_eqb sd id_) (combine (so_later o) (si_later o)))
  ++ e 23 (forallb (fun x => let '(_, _, eu, _) := x in eu) (si_later o))
  ++ e 24 (forallb (fun x => let '(_, _, _, ed) := x in ed) (si_later o))
  ++ e 31 (forallb (fun x => let '((su, sd), (mu, md)) := x in list_eqb su mu && list_eqb sd md) (combine (so_later o) mouts)).

(* ------------------------------------------------------------------ a side ends with (last bytes, reset) in one Read *)
(* the direction FROM the resetting side must have delivered everything the reads returned, the other one a prefix *)
Definition check_reset (o : list N * list N * list N * list N * bool) : list N :=
  let e c (b : bool) := if b then [] else [c] in
  let '(su, sd, gu, gd, client_resets) := o in
  e 21 (if client_resets then list_eqb gu su else is_prefix gu su)
  ++ e 22 (if client_resets then is_prefix gd sd else list_eqb gd sd).

(* ------------------------------------------------------------------ gather write over a scripted writev *)
Definition check_writev (o : list (list N) * list wcall * list N * N * bool) : list N :=
  let e c (b : bool) := if b then [] else [c] in
  let '(segs, script, wire, written, ok) := o in
  let '(w, n, mwire) := writev_all c05_writev_advance_per_call script segs in
  let mdone := match w with WDone => true | _ => false end in
  e 46 (list_eqb wire mwire && (written =? N.of_nat n) && Bool.eqb ok mdone)
  ++ e 21 (is_prefix wire (concat segs) && (negb ok || list_eqb wire (concat segs)) && (written =? len wire))
  ++ e 31 (is_prefix mwire (concat segs) && (negb mdone || list_eqb mwire (concat segs))).
