(* C13 — executable comparison functions used by the generated cases files (no proofs).

   The Go harness drives the real UdpTaskPool through the verif yield points: every instrumented
   goroutine parks at each yield point (tasks park at their start) and is released by one command at a
   time; after each command the harness waits until the system has settled (every convoy is parked,
   blocked in its select with nothing to do, or gone) and reports who is parked where and the events of
   that command.  The idle timer is configured tiny, so that a convoy whose queue is idle passes its
   idle check as soon as it can (the check is read-only; this is one legal timing).
   Here the same commands are run on the model as macro steps (a thread runs its atomic steps up to its
   next yield point), and the three comparisons impl/model/spec are made. *)
From Coq Require Import List Arith Bool ZArith.
From Dae Require Import C13_Spec C13_Model.
Import ListNotations.

(* thread names: (kind, id) with kind 0 = convoy of queue id, 1 = producer id, 2 = task id.
   points: 0 not started, 1 acquire.after_load, 2 emit.after_enqueue, 3 convoy.after_idle_check,
   4 convoy.after_claim, 5 convoy.before_recycle, 6 task.start *)
Definition thread := (nat * nat)%type.
Definition parked_t := (nat * nat * nat)%type.

Fixpoint indexed {A} (n : nat) (l : list A) : list (nat * A) :=
  match l with [] => [] | x :: r => (n, x) :: indexed (S n) r end.

Fixpoint insert_by_id (x : parked_t) (l : list parked_t) : list parked_t :=
  match l with
  | [] => [x]
  | y :: r => if snd (fst x) <=? snd (fst y) then x :: l else y :: insert_by_id x r
  end.

Definition parked_convoys (py : bool) (s : state) : list parked_t :=
  flat_map (fun iq => match q_pc (snd iq) with
                      | CPopOver => if py then [(0, fst iq, 7)] else []
                      | CChecked => [(0, fst iq, 3)]
                      | CClaimed => [(0, fst iq, 4)]
                      | CDeleted => [(0, fst iq, 5)]
                      | _ => [] end) (indexed 0 (st_qs s)).
Definition parked_prods (s : state) : list parked_t :=
  flat_map (fun ip => match snd (snd ip) with
                      | PLoaded _ => [(1, fst ip, 1)]
                      | PRel _ => [(1, fst ip, 2)]
                      | _ => [] end) (indexed 0 (st_prods s)).
Definition parked_tasks (s : state) : list parked_t :=
  fold_right insert_by_id []
    (flat_map (fun iq => match q_pc (snd iq) with CRun t => [(2, t, 6)] | _ => [] end) (indexed 0 (st_qs s))).

Definition parked (py : bool) (s : state) : list parked_t := parked_convoys py s ++ parked_prods s ++ parked_tasks s.

Definition first_unstarted (s : state) : option nat :=
  match find (fun ip => match snd (snd ip) with PStart => true | _ => false end) (indexed 0 (st_prods s)) with
  | Some ip => Some (fst ip) | None => None end.

(* enabled commands in canonical order: convoys, producers (parked ones and the first unstarted one,
   by id), tasks *)
Definition enabled (py : bool) (s : state) : list thread :=
  map (fun p => (fst (fst p), snd (fst p))) (parked_convoys py s)
  ++ map (fun p => (fst (fst p), snd (fst p)))
       (fold_right insert_by_id []
          (parked_prods s ++ match first_unstarted s with Some i => [(1, i, 0)] | None => [] end))
  ++ map (fun p => (fst (fst p), snd (fst p))) (parked_tasks s).

(* CmdPref k n: the n-th enabled thread of kind k if there is one, else the n-th enabled thread *)
Inductive cmd := CmdName (kind id : nat) | CmdAny (n : nat) | CmdPref (kind n : nat).

Definition thread_eqb (a b : thread) : bool := (fst a =? fst b) && (snd a =? snd b).

Definition resolve (py : bool) (s : state) (c : cmd) : option thread :=
  let en := enabled py s in
  match c with
  | CmdName k i => if existsb (thread_eqb (k, i)) en then Some (k, i) else None
  | CmdAny n => match en with [] => None | _ => nth_error en (n mod length en) end
  | CmdPref k n =>
      match filter (fun t => fst t =? k) en with
      | [] => match en with [] => None | _ => nth_error en (n mod length en) end
      | enk => nth_error enk (n mod length enk)
      end
  end.

Definition ppc_of (s : state) (i : nat) : ppc :=
  match nth_error (st_prods s) i with Some (_, pc) => pc | None => PDone end.

Fixpoint macro_prod (fuel : nat) (cap : nat) (s : state) (i : nat) (get : option nat) : state :=
  match fuel with
  | 0 => s
  | S f =>
      let s' := step_prod cap s i get in
      match ppc_of s' i with
      | PLoaded _ | PRel _ | PDone => s'
      | _ => macro_prod f cap s' i get
      end
  end.

(* obs: the parked list the implementation reported after this command.  Go's select picks at random among
   ready cases; a pending wake token (left by an overflow enqueue) makes the convoy loop once more instead of
   taking the timer case.  The model allows a wake at any time (KWake); the replay follows the
   implementation's choice: it takes KWake when the implementation shows the convoy at convoy.pop_between. *)
Definition obs_at7 (obs : list parked_t) (q : nat) : bool :=
  existsb (fun p => (fst (fst p) =? 0) && (snd (fst p) =? q) && (snd p =? 7)) obs.

Fixpoint settle_conv (py : bool) (obs : list parked_t) (fuel : nat) (s : state) (q : nat) : state :=
  match fuel with
  | 0 => s
  | S f =>
      match nth_error (st_qs s) q with
      | None => s
      | Some Q =>
          match q_pc Q with
          | CPopOver => if py then s else settle_conv py obs f (step_conv s q KStep) q
          | CTop | CDelFailed => settle_conv py obs f (step_conv s q KStep) q
          | CWait =>
              match chan s (q_ch Q) with
              | _ :: _ => settle_conv py obs f (step_conv s q KRecv) q
              | [] => if py && obs_at7 obs q
                      then settle_conv py obs f (step_conv s q KWake) q
                      else step_conv s q KTimer    (* eager idle check; stutters when it would fail *)
              end
          | _ => s
          end
      end
  end.

Definition settle (py : bool) (obs : list parked_t) (s : state) : state :=
  fold_left (fun s q => settle_conv py obs 8 s q) (seq 0 (length (st_qs s))) s.

Definition queue_running (s : state) (t : nat) : option nat :=
  match find (fun iq => match q_pc (snd iq) with CRun t' => t' =? t | _ => false end) (indexed 0 (st_qs s)) with
  | Some iq => Some (fst iq) | None => None end.

Definition chan_of_queue (s : state) (oq : option nat) : option nat :=
  match oq with
  | Some j => match nth_error (st_qs s) j with Some Q => Some (q_ch Q) | None => Some 0 end
  | None => None
  end.

(* one command on the model: the thread it resolved to, and the state after settling *)
(* With convoy.pop_between instrumented, a convoy waiting in its select while a producer holds a reference
   fails its idle check at every timer tick and loops: it polls the channel and parks at pop_between by itself,
   at a moment the harness does not control.  When the implementation shows such a convoy at pop_between after
   a command, its poll preceded whatever the command's thread enqueued (otherwise the poll would have found the
   task): the replay lets the convoy wake and poll (KWake, allowed at any time in the model) BEFORE the
   command's thread runs. *)
Definition presettle (py : bool) (obs : list parked_t) (s : state) : state :=
  if py then
    fold_left (fun s q =>
                 match nth_error (st_qs s) q with
                 | Some Q => match q_pc Q, chan s (q_ch Q) with
                             | CWait, [] => if obs_at7 obs q then step_conv (step_conv s q KWake) q KStep else s
                             | _, _ => s
                             end
                 | None => s
                 end) (seq 0 (length (st_qs s))) s
  else s.

Definition exec_cmd (py : bool) (obs : list parked_t) (cap : nat) (s0 : state) (c : cmd) (getq : option nat) : option thread * state :=
  match resolve py s0 c with
  | None => (None, s0)
  | Some (k, i) =>
      let s := presettle py obs s0 in
      let s1 :=
        match k with
        | 0 => step_conv s i KStep
        | 1 => macro_prod 24 cap s i (chan_of_queue s getq)
        | _ => match queue_running s i with Some q => step_conv s q KStep | None => s end
        end in
      (Some (k, i), settle py obs s1)
  end.

Record obs_cmd := mkOC {
  o_cmd : cmd;
  o_get : option nat;             (* impl: the new queue's channel was last used by queue j / is new *)
  o_thread : option thread;       (* impl: the thread the command resolved to *)
  o_parked : list parked_t;       (* impl: who is parked where after settling *)
  o_events : list event }.        (* impl: events of this command *)

(* cheap-to-elaborate constructors for the generated case files *)
Definition pk (a b c : nat) : parked_t := (a, b, c).
Definition th (a b : nat) : option thread := Some (a, b).

Record obs_case := mkCase { c_py : bool; c_cap : nat; c_keys : list nat; c_cmds : list obs_cmd }.

Definition event_eqb (a b : event) : bool :=
  match a, b with
  | EAccept k t, EAccept k' t' => (k =? k') && (t =? t')
  | EStart a1 a2 a3 a4, EStart b1 b2 b3 b4 => (a1 =? b1) && (a2 =? b2) && (a3 =? b3) && (a4 =? b4)
  | EEnd q t, EEnd q' t' => (q =? q') && (t =? t')
  | _, _ => false
  end.
Definition parked_eqb (a b : parked_t) : bool :=
  (fst (fst a) =? fst (fst b)) && (snd (fst a) =? snd (fst b)) && (snd a =? snd b).
Fixpoint list_eqb {A} (eqb : A -> A -> bool) (l1 l2 : list A) : bool :=
  match l1, l2 with
  | [], [] => true
  | x :: r, y :: r' => eqb x y && list_eqb eqb r r'
  | _, _ => false
  end.
Definition othread_eqb (a b : option thread) : bool :=
  match a, b with Some x, Some y => thread_eqb x y | None, None => true | _, _ => false end.

(* error codes: 1 impl<>model at command n;  2 impl<>spec (safety clause; second component = spec code
   1 cross-flow, 2 order/duplicate/not accepted, 3 two at a time);  5 impl<>spec (a task accepted and never
   run although the system is at rest);  3 model<>spec;  4 impl and model disagree on being at rest *)
Fixpoint replay (py : bool) (cap : nat) (s : state) (cmds : list obs_cmd) (n : nat) : list (nat * nat) * state :=
  match cmds with
  | [] => ([], s)
  | c :: r =>
      let '(th, s') := exec_cmd py (o_parked c) cap s (o_cmd c) (o_get c) in
      let evs := skipn (length (st_log s)) (st_log s') in
      let ok := othread_eqb th (o_thread c) && list_eqb parked_eqb (parked py s') (o_parked c)
                && list_eqb event_eqb evs (o_events c) in
      let '(errs, sf) := replay py cap s' r (S n) in
      ((if ok then [] else [(n, 1)]) ++ errs, sf)
  end.

Definition impl_log (c : obs_case) : list event := flat_map o_events (c_cmds c).

Definition first_err (l : list (nat * nat)) : list (nat * nat) :=
  match l with [] => [] | x :: _ => [x] end.

Definition check_case (c : obs_case) : list (nat * nat) :=
  let '(errs, sf) := replay (c_py c) (c_cap c) (init (c_keys c)) (c_cmds c) 0 in
  let il := impl_log c in
  let ml := st_log sf in
  let impl_rest := match rev (c_cmds c) with
                   | last :: _ => match o_parked last with [] => true | _ => false end
                   | [] => true end in
  first_err errs
  ++ map (fun e => (e, 2)) (spec_errors il)
  ++ (if impl_rest && negb (spec_complete il) then [(length (spec_lost il), 5)] else [])
  ++ (if spec_safe ml && (negb (quiescent sf) || spec_complete ml) then [] else [(0, 3)])
  ++ (if Bool.eqb impl_rest (match enabled (c_py c) sf with [] => true | _ => false end) then [] else [(0, 4)]).

(* coverage signature of a case (from the model run): queues created, claims (queues that reached the
   sentinel), overflow enqueues seen (tasks started from overflow are not distinguishable in the log, so:
   queues that were ever in overflow mode at a command boundary), tasks lost at rest, cross-flow starts *)
Definition case_signature (c : obs_case) : nat * nat * nat * nat * nat :=
  let '(_, sf) := replay (c_py c) (c_cap c) (init (c_keys c)) (c_cmds c) 0 in
  let ml := st_log sf in
  (length (st_qs sf),
   length (filter (fun Q => (q_refs Q <? 0)%Z) (st_qs sf)),
   length (filter (fun e => match e with EAccept _ _ => true | _ => false end) ml),
   length (spec_lost ml),
   length (filter (fun e => match e with EStart qk _ tk _ => negb (qk =? tk) | _ => false end) ml)).

(* the schedule (micro steps) of the hand-found witness, as macro commands, for the corpus *)

(* ------------------------------------------------------------------------------------------ *)
(* tuple tracker cases                                                                         *)
(* ------------------------------------------------------------------------------------------ *)
Record tobs := mkTO { to_ops : list tuple_op;          (* one harness call, expanded to single-key ops *)
                      to_deletes : list nat;           (* impl: kernel deletes of this call *)
                      to_dump : list (nat * nat * nat) (* impl: (g, k, refs) of every entry after it *) }.
Definition tp (a b c : nat) : nat * nat * nat := (a, b, c).
Record tcase := mkTCase { tc_gens : list nat; tc_univ : list nat; tc_steps : list tobs }.

Fixpoint trun_ops (s : tstate) (h : list tuple_op) (ops : list tuple_op) : tstate * list tuple_op * list nat * list nat :=
  (* returns state, history, model deletes, spec deletes *)
  match ops with
  | [] => (s, h, [], [])
  | o :: r =>
      let '(s1, d) := tstep s o in
      let sd := must_delete h o in
      let '(s2, h2, md, sds) := trun_ops s1 (h ++ [o]) r in
      (s2, h2, d ++ md, sd ++ sds)
  end.

Definition listnat_eqb := list_eqb Nat.eqb.

Definition dump_ok (s : tstate) (gens univ : list nat) (dump : list (nat * nat * nat)) : bool :=
  forallb (fun g => forallb (fun k =>
    let obs := match find (fun d => (fst (fst d) =? g) && (snd (fst d) =? k)) dump with
               | Some d => Some (snd d) | None => None end in
    match ts_tr s g k, obs with
    | None, None => true
    | Some e, Some r => (t_refs e =? r) && negb (t_deleting e)
    | _, _ => false
    end) univ) gens.

(* codes: 1 impl<>model deletes; 2 impl<>spec deletes; 3 model<>spec; 4 impl<>model tracker entries *)
Fixpoint tcheck (s : tstate) (h : list tuple_op) (gens univ : list nat) (steps : list tobs) (n : nat) : list (nat * nat) :=
  match steps with
  | [] => []
  | st :: r =>
      let '(s', h', md, sd) := trun_ops s h (to_ops st) in
      (if listnat_eqb md (to_deletes st) then [] else [(n, 1)])
      ++ (if listnat_eqb sd (to_deletes st) then [] else [(n, 2)])
      ++ (if listnat_eqb md sd then [] else [(n, 3)])
      ++ (if dump_ok s' gens univ (to_dump st) then [] else [(n, 4)])
      ++ tcheck s' h' gens univ r (S n)
  end.

Definition tcheck_case (c : tcase) : list (nat * nat) := tcheck ts0 [] (tc_gens c) (tc_univ c) (tc_steps c) 0.

(* signature: number of kernel deletes, number of calls that deleted nothing, transfers *)
Definition tcase_signature (c : tcase) : nat * nat * nat :=
  (length (flat_map to_deletes (tc_steps c)),
   length (filter (fun st => match to_deletes st with [] => true | _ => false end) (tc_steps c)),
   length (filter (fun st => match to_ops st with TRetain _ _ :: _ => existsb (fun o => match o with TForget _ _ => true | _ => false end) (to_ops st) | _ => false end) (tc_steps c))).

(* ------------------------------------------------------------------------------------------ *)
(* endpoint pool cases: implementation against the reference machine of C13_Spec (part 3)       *)
(* ------------------------------------------------------------------------------------------ *)
Record eobs := mkEO { eo_op : eop; eo_ret : option nat; eo_isnew : bool; eo_err : nat; eo_distinct : nat; eo_dials : nat;
                      eo_eps : list (nat * nat);        (* per endpoint: dead, transport close calls *)
                      eo_pool : list (option (option nat)); (* per key: None none, Some None marker, Some (Some e) *)
                      eo_tuples : list (nat * nat * nat); eo_drain : list nat }.
Record ecase := mkECase { ec_keys : nat; ec_gens : nat; ec_steps : list eobs }.
Definition ep (a b : nat) : nat * nat := (a, b).
Definition pn : option (option nat) := None.
Definition pm : option (option nat) := Some None.
Definition pe (e : nat) : option (option nat) := Some (Some e).

Fixpoint list_eqb2 {A B} (eqb : A -> B -> bool) (l1 : list A) (l2 : list B) : bool :=
  match l1, l2 with
  | [], [] => true
  | x :: r, y :: r' => eqb x y && list_eqb2 eqb r r'
  | _, _ => false
  end.
Definition optnat_eqb (a b : option nat) : bool :=
  match a, b with Some x, Some y => x =? y | None, None => true | _, _ => false end.
Definition cur_eqb (c : ecur) (o : option (option nat)) : bool :=
  match c, o with CNone, None => true | CMarker, Some None => true | CEp e, Some (Some e') => e =? e' | _, _ => false end.

Definition estep_ok (s' : espec) (r : eres) (gens keys : nat) (o : eobs) : bool :=
  let burst := match eo_op o with EBurst _ _ _ _ => true | _ => false end in
  optnat_eqb (r_ret r) (eo_ret o)
  && (burst || Bool.eqb (r_isnew r) (eo_isnew o))
  && (r_err r =? eo_err o)
  && (negb burst || (eo_distinct o =? 1))
  && (es_dials s' =? eo_dials o)
  && list_eqb2 (fun x y => (exp_closes x =? snd y) && (negb (fst y =? 1) || negb (er_alive x)) && (negb (er_retired x) || (fst y =? 1)))
       (firstn (length (eo_eps o)) (es_eps s')) (eo_eps o)
  && (length (eo_eps o) <=? length (es_eps s'))
  && forallb (fun x => er_alive x) (skipn (length (eo_eps o)) (es_eps s')) 
  && list_eqb2 cur_eqb (map (es_cur s') (seq 0 keys)) (eo_pool o)
  && forallb (fun g => forallb (fun t =>
        exp_refs s' g t =? match find (fun x => (fst (fst x) =? g) && (snd (fst x) =? t)) (eo_tuples o) with
                           | Some x => snd x | None => 0 end) (seq 0 8)) (seq 0 gens)
  && list_eqb Nat.eqb (map (exp_drain s') (seq 0 gens)) (eo_drain o).

Fixpoint echeck (s : espec) (gens keys : nat) (steps : list eobs) (n : nat) : list (nat * nat) :=
  match steps with
  | [] => []
  | o :: r =>
      let '(s', res) := estep s (eo_op o) in
      (if estep_ok s' res gens keys o then [] else [(n, 2)]) ++ echeck s' gens keys r (S n)
  end.

Definition echeck_case (c : ecase) : list (nat * nat) := first_err (echeck es0 (ec_gens c) (ec_keys c) (ec_steps c) 0).

(* signature: endpoints dialled, endpoints retired, failure markers hit (calls answered with the failed error) *)
Definition ecase_signature (c : ecase) : nat * nat * nat :=
  let sf := fold_left (fun s o => fst (estep s (eo_op o))) (ec_steps c) es0 in
  (length (es_eps sf), length (filter er_retired (es_eps sf)),
   length (filter (fun o => eo_err o =? 1) (ec_steps c))).

(* ------------------------------------------------------------------------------------------ *)
(* endpoint pool: the code-shaped model (C13_EpModel) against the implementation and the spec   *)
(* ------------------------------------------------------------------------------------------ *)
From Dae Require Import C13_EpModel.

Definition pop_of (o : eop) : pop :=
  match o with
  | EGoc k d g out => PGoc k d g out
  | EBurst k d g _ => PGoc k d g 0
  | EWrite e out => PWrite e out
  | ETrack e t => PTrack e t
  | EInval d => PInval d
  | EReset => PReset
  | ERemove e => PRemove e
  end.

Definition m_ret (s : pstate) (r : eres) : option nat :=
  match r_ret r with Some e => handle_of s e | None => None end.
Definition m_pool (s : pstate) (k : nat) : option (option nat) :=
  match p_pool s k with
  | None => None
  | Some e => match nth_error (p_eps s) e with
              | Some u => if u_failed u then Some None else Some (handle_of s e)
              | None => Some (Some 9999) end
  end.
Definition m_refs (s : pstate) (g t : nat) : nat := match p_tr s g t with Some e => t_refs e | None => 0 end.
Definition m_eps (s : pstate) : list (nat * nat) :=
  map (fun e => match nth_error (p_eps s) e with
                | Some u => ((if u_dead u then 1 else 0), u_conn_closes u) | None => (9, 9) end) (p_handles s).

Definition pair_nat_eqb (a b : nat * nat) : bool := (fst a =? fst b) && (snd a =? snd b).
Definition oo_eqb (a b : option (option nat)) : bool :=
  match a, b with
  | None, None => true | Some None, Some None => true | Some (Some x), Some (Some y) => x =? y | _, _ => false end.

(* impl = model after one call *)
Definition pstep_ok (s' : pstate) (r : eres) (gens keys : nat) (o : eobs) : bool :=
  let burst := match eo_op o with EBurst _ _ _ _ => true | _ => false end in
  optnat_eqb (m_ret s' r) (eo_ret o)
  && (burst || Bool.eqb (r_isnew r) (eo_isnew o))
  && (r_err r =? eo_err o)
  && (p_dials s' =? eo_dials o)
  && list_eqb pair_nat_eqb (firstn (length (eo_eps o)) (m_eps s')) (eo_eps o)
  && list_eqb oo_eqb (map (m_pool s') (seq 0 keys)) (eo_pool o)
  && forallb (fun g => forallb (fun t =>
        m_refs s' g t =? match find (fun x => (fst (fst x) =? g) && (snd (fst x) =? t)) (eo_tuples o) with
                         | Some x => snd x | None => 0 end) (seq 0 8)) (seq 0 gens)
  && list_eqb Nat.eqb (map (p_drainc s') (seq 0 gens)) (eo_drain o).

(* model = spec (reference machine) after one call: same observables *)
Definition mspec_ok (s' : pstate) (r : eres) (es' : espec) (er : eres) (gens keys : nat) : bool :=
  optnat_eqb (m_ret s' r) (r_ret er) && Bool.eqb (r_isnew r) (r_isnew er) && (r_err r =? r_err er)
  && (p_dials s' =? es_dials es')
  && list_eqb2 (fun x y => (exp_closes x =? snd y) && Bool.eqb (er_retired x) (fst y =? 1)) (es_eps es') (m_eps s')
  && list_eqb2 cur_eqb (map (es_cur es') (seq 0 keys)) (map (m_pool s') (seq 0 keys))
  && forallb (fun g => forallb (fun t => m_refs s' g t =? exp_refs es' g t) (seq 0 8)) (seq 0 gens)
  && list_eqb Nat.eqb (map (p_drainc s') (seq 0 gens)) (map (exp_drain es') (seq 0 gens)).

(* codes: 1 impl<>model, 2 impl<>spec, 3 model<>spec *)
Fixpoint pcheck (s : pstate) (es : espec) (gens keys : nat) (steps : list eobs) (n : nat) : list (nat * nat) :=
  match steps with
  | [] => []
  | o :: r =>
      let '(s', res) := pstep s (pop_of (eo_op o)) in
      let '(es', eres) := estep es (eo_op o) in
      (if pstep_ok s' res gens keys o then [] else [(n, 1)])
      ++ (if estep_ok es' eres gens keys o then [] else [(n, 2)])
      ++ (if mspec_ok s' res es' eres gens keys then [] else [(n, 3)])
      ++ pcheck s' es' gens keys r (S n)
  end.

Definition first_of_each (l : list (nat * nat)) : list (nat * nat) :=
  let pick := fun c => match find (fun x => snd x =? c) l with Some x => [x] | None => [] end in
  pick 1 ++ pick 2 ++ pick 3.

Definition pcheck_case (c : ecase) : list (nat * nat) :=
  first_of_each (pcheck p0 es0 (ec_gens c) (ec_keys c) (ec_steps c) 0).

(* ------------------------------------------------------------------------------------------ *)
(* fine endpoint schedules: the threaded model (C13_EpFine) against the implementation and the  *)
(* property read off the event history                                                          *)
(* ------------------------------------------------------------------------------------------ *)
From Dae Require Import C13_EpFine.

Inductive fcmd := FStepT (i : nat) | FAtom (o : pop).

Definition fevent := (nat * nat * nat)%type.   (* (0,e,thread) dial  (1,thread,e) hand-out  (2,e,0) write ok
                                                  (3,e,0) write error  (4,d,0) invalidation  (5,0,0) reset  (7,e,0) Remove(handle e) *)
Definition fv (a b c : nat) : fevent := (a, b, c).

Definition gpc_of (s : fstate) (i : nat) : gpc :=
  match nth_error (f_thr s) i with Some t => g_pc t | None => GDone (mkER None false 0) end.
Definition gkey_of (s : fstate) (i : nat) : nat := match nth_error (f_thr s) i with Some t => g_k t | None => 0 end.

(* run thread i to its next yield point, its return, or the creation mutex held by someone else *)
Fixpoint run_thr (fuel : nat) (s : fstate) (i : nat) : fstate :=
  match fuel with
  | 0 => s
  | S f =>
      let s' := fstep_thr s i in
      match gpc_of s' i with
      | GStart => run_thr f s' i
      | GWaitLock => match f_lock s' (gkey_of s' i) with Some _ => s' | None => run_thr f s' i end
      | _ => s'
      end
  end.

(* callers blocked on the creation mutex proceed, first come first served, when it is free *)
Fixpoint fsettle (fuel : nat) (s : fstate) (waiters : list nat) : fstate * list nat :=
  match fuel with
  | 0 => (s, waiters)
  | S f =>
      match find (fun i => match f_lock s (gkey_of s i) with None => true | Some _ => false end) waiters with
      | None => (s, waiters)
      | Some i =>
          let s' := run_thr 8 s i in
          let w' := filter (fun j => negb (j =? i)) waiters in
          let w'' := match gpc_of s' i with GWaitLock => w' ++ [i] | _ => w' end in
          fsettle f s' w''
      end
  end.

Definition fexec (s : fstate) (waiters : list nat) (c : fcmd) : fstate * list nat :=
  match c with
  | FStepT i =>
      match gpc_of s i with
      | GDone _ => (s, waiters)
      | GWaitLock => (s, waiters)            (* already blocked: the harness has nothing to release *)
      | _ =>
          let s' := run_thr 8 s i in
          let w := match gpc_of s' i with GWaitLock => waiters ++ [i] | _ => waiters end in
          fsettle 8 s' w
      end
  | FAtom o => fsettle 8 (fstep s (FOp o)) waiters
  end.

Definition thr_code (s : fstate) (t : gthread) : nat * nat :=
  match g_pc t with
  | GStart => (0, 0)
  | GWaitLock => (1, 0)
  | GSlow _ => (2, 0)
  | GHaveGen _ => (3, 0)
  | GBeforePublish _ => (4, 0)
  | GBeforeRegister _ => (5, 0)
  | GDone r => (6, (match r_err r with 0 => 0 | 1 => 2 | _ => 4 end) + (if r_isnew r then 1 else 0))
  end.

Definition fhandle (p : pstate) (e : nat) : nat := match handle_of p e with Some h => h | None => 9999 end.

(* events of one command, from the state change *)
Definition fevents (s s' : fstate) (c : fcmd) : list fevent :=
  let atom := match c with
              | FAtom (PInval d) => [fv 4 d 0]
              | FAtom PReset => [fv 5 0 0]
              | FAtom (PWrite h out) =>
                  match nth_error (p_handles (f_p s)) h with
                  | Some e => if existsb (fun x => snd x =? e) (f_hand s)
                              then [fv (match snd (pstep (f_p s) (PWrite h out)) with mkER _ _ 0 => 2 | _ => 3 end) h 0]
                              else []
                  | None => []
                  end
              | FAtom (PRemove h) =>
                  match nth_error (p_handles (f_p s)) h with
                  | Some e => if existsb (fun x => snd x =? e) (f_hand s) then [fv 7 h 0] else []
                  | None => []
                  end
              | _ => [] end in
  atom.

Record fobs := mkFO { fo_cmd : fcmd; fo_thr : list (nat * nat); fo_events : list fevent; fo_dials : nat;
                      fo_eps : list (nat * nat); fo_pool : list (option (option nat));
                      fo_tuples : list (nat * nat * nat); fo_drain : list nat }.
Record fcase := mkFCase { fc_keys : nat; fc_gens : nat; fc_threads : list (nat * nat * nat * nat);
                          fc_steps : list fobs; fc_final : list nat }.
Definition th4 (a b c d : nat) : nat * nat * nat * nat := (a, b, c, d).

Definition fevent_eqb (a b : fevent) : bool :=
  (fst (fst a) =? fst (fst b)) && (snd (fst a) =? snd (fst b)) && (snd a =? snd b).

(* thread events (dials, hand-outs) in the order they happened: the model logs hand-outs in f_hand and
   dials in p_handles; within one command a dial of thread t precedes t's own hand-out, and the harness
   order is reproduced by merging per thread in settle order; compare as multisets per command instead *)
Definition new_hands (s s' : fstate) : list fevent :=
  map (fun x => fv 1 (fst x) (fhandle (f_p s') (snd x))) (skipn (length (f_hand s)) (f_hand s')).
Definition new_dials (s s' : fstate) : list fevent :=
  map (fun h => fv 0 h (match find (fun it => match g_pc (snd it) with
                                              | GHaveGen e | GBeforePublish e | GBeforeRegister e => fhandle (f_p s') e =? h
                                              | _ => false end) (indexed 0 (f_thr s')) with
                        | Some it => fst it | None => 9999 end))
      (seq (length (p_handles (f_p s))) (length (p_handles (f_p s')) - length (p_handles (f_p s)))).

Definition subset_ev (l1 l2 : list fevent) : bool := forallb (fun x => existsb (fevent_eqb x) l2) l1.
Definition same_ev (l1 l2 : list fevent) : bool := subset_ev l1 l2 && subset_ev l2 l1 && (length l1 =? length l2).

Definition fstep_ok (s s' : fstate) (c : fcmd) (gens keys : nat) (o : fobs) : bool :=
  let p' := f_p s' in
  list_eqb pair_nat_eqb (map (thr_code s') (f_thr s')) (fo_thr o)
  && same_ev (fevents s s' c ++ new_dials s s' ++ new_hands s s') (fo_events o)
  && (p_dials p' =? fo_dials o)
  && list_eqb pair_nat_eqb (m_eps p') (fo_eps o)
  && list_eqb oo_eqb (map (m_pool p') (seq 0 keys)) (fo_pool o)
  && forallb (fun g => forallb (fun t =>
        m_refs p' g t =? match find (fun x => (fst (fst x) =? g) && (snd (fst x) =? t)) (fo_tuples o) with
                         | Some x => snd x | None => 0 end) (seq 0 8)) (seq 0 gens)
  && list_eqb Nat.eqb (map (p_drainc p') (seq 0 gens)) (fo_drain o).

(* --- the property on an event history ------------------------------------------------------ *)
Record sep := mkSE { se_key : nat; se_dialer : nat; se_sent : bool; se_gone : bool }.

(* codes: 1 hand-out of an endpoint that was retired / invalidated before traffic / reset;
          4 hand-out of an endpoint that is not the live endpoint of the caller's key *)
Definition hist_step (thr : list (nat * nat * nat * nat)) (st : list sep * list nat) (ev : fevent) : list sep * list nat :=
  let '(eps, errs) := st in
  let kd := fun i => match nth_error thr i with Some (k, d, _, _) => (k, d) | None => (0, 0) end in
  match ev with
  | (0, e, i) =>
      (* code 5: a dial for a key while an endpoint of that key is alive (never retired / invalidated before
         traffic / reset / removed) *)
      (eps ++ [mkSE (fst (kd i)) (snd (kd i)) false false],
       errs ++ (if existsb (fun x => (se_key x =? fst (kd i)) && negb (se_gone x)) eps then [5] else []))
  | (1, i, e) =>
      match nth_error eps e with
      | Some x => (eps, errs ++ (if se_gone x then [1] else if se_key x =? fst (kd i) then [] else [4]))
      | None => (eps, errs ++ [4])
      end
  | (2, e, _) => (lupd eps e (fun x => mkSE (se_key x) (se_dialer x) true (se_gone x)), errs)
  | (3, e, _) => (lupd eps e (fun x => mkSE (se_key x) (se_dialer x) (se_sent x) true), errs)
  | (4, d, _) => (map (fun x => if (se_dialer x =? d) && negb (se_sent x) then mkSE (se_key x) (se_dialer x) false true else x) eps, errs)
  | (5, _, _) => (map (fun x => mkSE (se_key x) (se_dialer x) (se_sent x) true) eps, errs)
  | (7, e, _) => (lupd eps e (fun x => mkSE (se_key x) (se_dialer x) (se_sent x) true), errs)
  | _ => st
  end.

Definition hist_scan (thr : list (nat * nat * nat * nat)) (evs : list fevent) : list sep * list nat :=
  fold_left (hist_step thr) evs ([], []).

(* at rest (all callers returned): eps = (dead, closes) per endpoint, pool = handle per key.
   codes: 6 transport closed more than once; 7 an endpoint that is neither the pool's entry of its key nor
   closed (nobody can ever close it); 8 a live endpoint (never retired/invalidated/reset) was closed;
   9 after the final pool reset some endpoint is not closed exactly once *)
Definition rest_errors (seps : list sep) (eps : list (nat * nat)) (pool : list (option (option nat))) (final : list nat) : list nat :=
  let in_pool := fun h => existsb (fun x => match x with Some (Some h') => h' =? h | _ => false end) pool in
  flat_map (fun ih => let h := fst ih in let cl := snd (snd ih) in
                      (if 1 <? cl then [6] else [])
                      ++ (if (cl =? 0) && negb (in_pool h) then [7] else [])
                      ++ (match nth_error seps h with
                          | Some x => if (cl =? 1) && negb (se_gone x) then [8] else []
                          | None => [] end)) (indexed 0 eps)
  ++ (if forallb (Nat.eqb 1) final && (length final =? length eps) then [] else [9]).

(* codes: (n,1) impl<>model at command n; (c,2) impl<>spec; (c,3) model<>spec *)
Record facc := mkFA { fa_errs : list (nat * nat); fa_s : fstate; fa_w : list nat; fa_n : nat; fa_evs : list fevent }.

Definition freplay_step (gens keys : nat) (a : facc) (o : fobs) : facc :=
  let s := fa_s a in
  let sw := fexec s (fa_w a) (fo_cmd o) in
  let s' := fst sw in
  let mev := fevents s s' (fo_cmd o) ++ new_dials s s' ++ new_hands s s' in
  mkFA (fa_errs a ++ (if fstep_ok s s' (fo_cmd o) gens keys o then [] else [(fa_n a, 1)]))
       s' (snd sw) (S (fa_n a)) (fa_evs a ++ mev).

Definition freplay (s : fstate) (gens keys : nat) (steps : list fobs) : facc :=
  fold_left (freplay_step gens keys) steps (mkFA [] s [] 0 []).

Definition fcheck_case (c : fcase) : list (nat * nat) :=
  let acc := freplay (finit (fc_threads c)) (fc_gens c) (fc_keys c) (fc_steps c) in
  let errs := fa_errs acc in let sf := fa_s acc in let mevs := fa_evs acc in
  let ievs := flat_map fo_events (fc_steps c) in
  let '(iseps, ierrs) := hist_scan (fc_threads c) ievs in
  let '(mseps, merrs) := hist_scan (fc_threads c) mevs in
  let last := match rev (fc_steps c) with o :: _ => Some o | [] => None end in
  let irest := match last with
               | Some o => if forallb (fun x => fst x =? 6) (fo_thr o)
                           then rest_errors iseps (fo_eps o) (fo_pool o) (fc_final c) else [10]
               | None => [] end in
  let mrest := if fquiescent sf
               then rest_errors mseps (m_eps (f_p sf)) (map (m_pool (f_p sf)) (seq 0 (fc_keys c)))
                      (map (fun _ => 1) (m_eps (f_p sf)))
               else [] in
  first_err errs
  ++ map (fun e => (e, 2)) (ierrs ++ irest)
  ++ map (fun e => (e, 3)) (merrs ++ mrest).

Definition fcase_signature (c : fcase) : nat * nat * nat :=
  let evs := flat_map fo_events (fc_steps c) in
  (length (filter (fun e => fst (fst e) =? 0) evs), length (filter (fun e => fst (fst e) =? 1) evs),
   length (filter (fun e => (3 <=? fst (fst e)) && (fst (fst e) <=? 5)) evs)).

(* ------------------------------------------------------------------------------------------ *)
(* tracker with concurrent owners: the thread model (C13_TrFine) against the implementation      *)
(* ------------------------------------------------------------------------------------------ *)
From Dae Require Import C13_TrFine.
From Dae.gen Require Import C13_Consts.

Definition opc_of (s : trstate) (i : nat) : opc := match nth_error (r_thr s) i with Some t => o_pc t | None => ODone end.
Definition omode_of (s : trstate) (i : nat) : nat := match nth_error (r_thr s) i with Some t => o_mode t | None => 0 end.

(* woken waiters run (lowest index first) until none is left *)
Fixpoint tr_settle (fuel : nat) (s : trstate) : trstate :=
  match fuel with
  | 0 => s
  | S f =>
      match find (fun it => match o_pc (snd it) with ORWoken | OFWoken => true | _ => false end) (indexed 0 (r_thr s)) with
      | Some it => tr_settle f (tr_step retain_rechecks_after_wait s (fst it))
      | None => s
      end
  end.

Definition tr_exec (s : trstate) (i : nat) : trstate :=
  match opc_of s i with
  | ORWait _ | OFWait _ | ODone | ORWoken | OFWoken => s
  | OHeld => match omode_of s i with 0 => s | _ => tr_settle 40 (tr_step retain_rechecks_after_wait s i) end
  | _ => tr_settle 40 (tr_step retain_rechecks_after_wait s i)
  end.

Definition opc_code (t : othread) : nat :=
  match o_pc t with
  | OStart => 0 | ORWait _ | ORWoken => 1 | OHeld => 2 | OKernel _ => 3 | OFinal _ => 4 | ODone => 5 | OFWait _ | OFWoken => 6
  end.

Record tfobs := mkTFO { tf_cmd : nat; tf_thr : list nat; tf_entries : list (option (nat * nat)); tf_deletes : list nat }.
Record tfcase := mkTFCase { tfc_keys : nat; tfc_threads : list (nat * nat); tfc_steps : list tfobs }.
Definition en (a b : nat) : option (nat * nat) := Some (a, b).

Definition entry_view (s : trstate) (k : nat) : option (nat * nat) :=
  match r_entries s k with Some e => Some (fe_refs e, if fe_deleting e then 1 else 0) | None => None end.
Definition oent_eqb (a b : option (nat * nat)) : bool :=
  match a, b with Some x, Some y => pair_nat_eqb x y | None, None => true | _, _ => false end.

(* the property on an observation: per tuple, owners = threads reported as owner (2) or blocked in forget (6) *)
Definition obs_owners (thr : list (nat * nat)) (codes : list nat) (k : nat) : nat :=
  length (filter (fun tc => (fst (fst tc) =? k) && ((snd tc =? 2) || (snd tc =? 6))) (combine thr codes)).
Definition obs_ok (thr : list (nat * nat)) (keys : nat) (o : tfobs) : bool :=
  forallb (fun k =>
    let n := obs_owners thr (tf_thr o) k in
    match nth k (tf_entries o) None with
    | None => n =? 0
    | Some (refs, 1) => (n =? 0) && (refs =? 0)
    | Some (refs, _) => (refs =? n) && (0 <? n)
    end) (seq 0 keys)
  && forallb (fun k => obs_owners thr (tf_thr o) k =? 0) (tf_deletes o).

Record tfacc := mkTFA { tfa_errs : list (nat * nat); tfa_s : trstate; tfa_n : nat }.

(* codes: (n,1) impl<>model; (n,2) impl<>spec; (n,3) model<>spec *)
Definition tf_step (thr : list (nat * nat)) (keys : nat) (a : tfacc) (o : tfobs) : tfacc :=
  let s := tfa_s a in
  let s' := tr_exec s (tf_cmd o) in
  let mdel := map fst (skipn (length (r_deletes s)) (r_deletes s')) in
  let mobs := mkTFO (tf_cmd o) (map opc_code (r_thr s')) (map (entry_view s') (seq 0 keys)) mdel in
  let n := tfa_n a in
  mkTFA (tfa_errs a
         ++ (if list_eqb Nat.eqb (tf_thr mobs) (tf_thr o) && list_eqb oent_eqb (tf_entries mobs) (tf_entries o)
                && list_eqb Nat.eqb mdel (tf_deletes o) then [] else [(n, 1)])
         ++ (if obs_ok thr keys o then [] else [(n, 2)])
         ++ (if obs_ok thr keys mobs then [] else [(n, 3)]))
        s' (S n).

Definition first_of_codes (l : list (nat * nat)) : list (nat * nat) := first_of_each l.

Definition tfcheck_case (c : tfcase) : list (nat * nat) :=
  first_of_codes (tfa_errs (fold_left (tf_step (tfc_threads c) (tfc_keys c)) (tfc_steps c)
                                      (mkTFA [] (tr_init (tfc_threads c)) 0))).

(* signature: kernel deletes, commands after which some thread was blocked, threads *)
Definition tfcase_signature (c : tfcase) : nat * nat * nat :=
  (length (flat_map tf_deletes (tfc_steps c)),
   length (filter (fun o => existsb (fun x => (x =? 1) || (x =? 6)) (tf_thr o)) (tfc_steps c)),
   length (tfc_threads c)).

(* ------------------------------------------------------------------------------------------ *)
(* ingress batch reader: buffer ownership (C13_Ingress) against the implementation              *)
(* ------------------------------------------------------------------------------------------ *)
From Dae Require Import C13_Ingress.

Record iobs := mkIO { io_op : iop; io_slots : list (option nat * option nat);
                      io_tasks : list (nat * nat * (nat * nat)); io_puts : list nat }.
Record icase := mkICase { ic_slots : nat; ic_steps : list iobs }.
Definition sl2 (a b : option nat) : option nat * option nat := (a, b).
Definition tk4 (a b c d : nat) : nat * nat * (nat * nat) := (a, b, (c, d)).
Definition dg (p v : nat) : nat * bool := (p, negb (v =? 0)).

Definition islots_view (s : istate) : list (option nat * option nat) := map (fun sl => (s_buf sl, s_b0 sl)) (i_slots s).
Definition itasks_view (s : istate) : list (nat * nat * (nat * nat)) :=
  map (fun t => (t_buf t, t_expect t, ((if t_done t then 1 else 0), t_handled t))) (i_tasks s).

Definition slot2_eqb (a b : option nat * option nat) : bool := optnat_eqb (fst a) (fst b) && optnat_eqb (snd a) (snd b).
Definition task4_eqb (a b : nat * nat * (nat * nat)) : bool :=
  (fst (fst a) =? fst (fst b)) && (snd (fst a) =? snd (fst b)) && (fst (snd a) =? fst (snd b)) && (snd (snd a) =? snd (snd b)).

Fixpoint nodupb (l : list nat) : bool :=
  match l with [] => true | x :: r => negb (existsb (Nat.eqb x) r) && nodupb r end.

(* the property on an observation: a finished task handled its own datagram; no buffer has two owners *)
Definition iobs_ok (slots : list (option nat * option nat)) (tasks : list (nat * nat * (nat * nat))) : bool :=
  forallb (fun t => (fst (snd t) =? 0) || (snd (snd t) =? snd (fst t))) tasks
  && nodupb (flat_map (fun t => if fst (snd t) =? 0 then [fst (fst t)] else []) tasks
             ++ flat_map (fun sl => match fst sl with Some b => [b] | None => [] end) slots).

(* at the end of a case (all tasks run, reader closed): nothing is owned any more and every buffer that was
   ever seen came back exactly once *)
Definition irest_ok (slots : list (option nat * option nat)) (tasks : list (nat * nat * (nat * nat))) (puts : list nat) : bool :=
  forallb (fun sl => match fst sl with None => true | Some _ => false end) slots
  && forallb (fun t => fst (snd t) =? 1) tasks
  && nodupb puts
  && forallb (fun t => existsb (Nat.eqb (fst (fst t))) puts) tasks.

Record iacc := mkIA { ia_errs : list (nat * nat); ia_s : istate; ia_n : nat; ia_iputs : list nat }.

Definition i_step_check (a : iacc) (o : iobs) : iacc :=
  let s := ia_s a in
  let s' := istep take_clears_buf ingress_guard_on_buf s (io_op o) in
  let mputs := skipn (length (i_puts s)) (i_puts s') in
  let n := ia_n a in
  mkIA (ia_errs a
        ++ (if list_eqb slot2_eqb (islots_view s') (io_slots o) && list_eqb task4_eqb (itasks_view s') (io_tasks o)
               && list_eqb Nat.eqb mputs (io_puts o) then [] else [(n, 1)])
        ++ (if iobs_ok (io_slots o) (io_tasks o) then [] else [(n, 2)])
        ++ (if iobs_ok (islots_view s') (itasks_view s') then [] else [(n, 3)]))
       s' (S n) (ia_iputs a ++ io_puts o).

Definition icheck_case (c : icase) : list (nat * nat) :=
  let a := fold_left i_step_check (ic_steps c) (mkIA [] (i_init (ic_slots c)) 0 []) in
  let last := match rev (ic_steps c) with o :: _ => Some o | [] => None end in
  first_of_each
    (ia_errs a
     ++ match last with
        | Some o => if irest_ok (io_slots o) (io_tasks o) (ia_iputs a) then [] else [(ia_n a, 2)]
        | None => [] end
     ++ (if irest_ok (islots_view (ia_s a)) (itasks_view (ia_s a)) (i_puts (ia_s a)) then [] else [(ia_n a, 3)])).

(* signature: tasks, reads that happened while some task was pending, invalid-address takes *)
Definition icase_signature (c : icase) : nat * nat * nat :=
  let last := match rev (ic_steps c) with o :: _ => length (io_tasks o) | [] => 0 end in
  (last,
   length (filter (fun o => match io_op o with IRead _ => existsb (fun t => fst (snd t) =? 0) (io_tasks o) | _ => false end) (ic_steps c)),
   length (filter (fun o => match io_op o with ITake _ => negb (Nat.eqb (length (io_puts o)) 0) | _ => false end) (ic_steps c))).

(* ------------------------------------------------------------------------------------------ *)
(* generations sharing the conn-state tracker (C13_TrGen) against the implementation            *)
(* ------------------------------------------------------------------------------------------ *)
From Dae Require Import C13_TrGen.

Record gobs := mkGO { go_op : gop; go_reg : list (option nat); go_entries : list (nat * nat * nat) }.
Record gcase := mkGCase { gca_bpfs : nat; gca_keys : nat; gca_steps : list gobs }.

Definition g_reg_view (s : gstate) (bpfs : nat) : list (option nat) :=
  map (fun b => match g_reg s b with Some (_, n) => Some n | None => None end) (seq 0 bpfs).
Definition g_entry_refs (s : gstate) (b k : nat) : nat :=
  match shared_tracker s b k with Some e => t_refs e | None => 0 end.
Definition obs_entry_refs (l : list (nat * nat * nat)) (b k : nat) : nat :=
  match find (fun x => (fst (fst x) =? b) && (snd (fst x) =? k)) l with Some x => snd x | None => 0 end.

Record gacc := mkGA { ga_errs : list (nat * nat); ga_s : gstate; ga_n : nat }.

(* codes: (n,1) impl<>model (registry references or tracker entries); (n,2) impl<>spec: some entry of a shared
   tracker does not count the live owners of its tuple; (n,3) model<>spec *)
Definition g_step_check (bpfs keys : nat) (a : gacc) (o : gobs) : gacc :=
  let s' := gstep closed_core_reacquires_tracker (ga_s a) (go_op o) in
  let n := ga_n a in
  let cells := flat_map (fun b => map (fun k => (b, k)) (seq 0 keys)) (seq 0 bpfs) in
  mkGA (ga_errs a
        ++ (if list_eqb optnat_eqb (g_reg_view s' bpfs) (go_reg o)
               && forallb (fun bk => g_entry_refs s' (fst bk) (snd bk) =? obs_entry_refs (go_entries o) (fst bk) (snd bk)) cells
            then [] else [(n, 1)])
        ++ (if forallb (fun bk => obs_entry_refs (go_entries o) (fst bk) (snd bk) =? owners_on s' (fst bk) (snd bk)) cells
            then [] else [(n, 2)])
        ++ (if forallb (fun bk => gen_refs_ok s' (fst bk) (snd bk)) cells && gen_deletes_ok s' then [] else [(n, 3)]))
       s' (S n).

Definition gcheck_case (c : gcase) : list (nat * nat) :=
  first_of_each (ga_errs (fold_left (g_step_check (gca_bpfs c) (gca_keys c)) (gca_steps c) (mkGA [] g0 0))).

(* signature: generations, closes, releases issued by a closed generation *)
Definition gcase_signature (c : gcase) : nat * nat * nat :=
  let ops := map go_op (gca_steps c) in
  let sf := fold_left (gstep closed_core_reacquires_tracker) ops g0 in
  (length (g_cores sf), length (filter gc_closed (g_cores sf)), length (g_kdel sf)).

(* ------------------------------------------------------------------------------------------ *)
(* long single-flow backlog (C13_Overflow): executed ids against the model's drain and the spec *)
(* ------------------------------------------------------------------------------------------ *)
From Dae Require Import C13_Overflow.

(* observation: k tasks emitted behind the blocked first one; channel / overflow fill and overflow capacity
   when the worker is released; the executed ids as (first, length) runs of consecutive ids *)
Record bobs := mkBO { bo_k : nat; bo_chan : nat; bo_over : nat; bo_cap : nat; bo_runs : list (nat * nat); bo_idle : bool }.
Definition run2 (a b : nat) : nat * nat := (a, b).

Definition expand_runs (l : list (nat * nat)) : list nat := flat_map (fun r => seq (fst r) (snd r)) l.

(* model: the held task, then the channel (ids 1..chan), then the overflow list drained by popOverflowTask *)
Definition backlog_model (o : bobs) : list nat :=
  seq 0 (S (bo_chan o))
  ++ ov_drain (bo_over o) overflow_shrink_keeps udp_task_queue_length overflow_shrink_divisor
       (seq (S (bo_chan o)) (bo_over o), bo_cap o).

(* codes: 1 impl<>model; 2 impl<>spec (executed ids are not 0..k in order, with the worker idle);
   3 model<>spec; 4 the worker never became idle (inconclusive observation) *)
Definition bcheck_case (o : bobs) : list (nat * nat) :=
  let ex := expand_runs (bo_runs o) in
  let spec := seq 0 (S (bo_k o)) in
  (if bo_idle o then [] else [(0, 4)])
  ++ (if negb (bo_idle o) || list_eqb Nat.eqb ex (backlog_model o) then [] else [(length ex, 1)])
  ++ (if negb (bo_idle o) || list_eqb Nat.eqb ex spec then [] else [(length ex, 2)])
  ++ (if list_eqb Nat.eqb (backlog_model o) spec then [] else [(length (backlog_model o), 3)]).
