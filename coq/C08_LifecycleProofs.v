(* C08 — refresh life cycle with replacement entries, over every schedule (lemmas). *)
From Coq Require Import List ZArith Bool Lia Arith.
From Dae Require Import C08_Spec C08_Model.
Import ListNotations.
Open Scope nat_scope.

(* the code (completion clears whatever entry the map holds): refuted *)
Lemma lifecycle_current_refuted_proof :
  trun_ok VCurrent (tinit [OStale; OFail; OFail]) [0; 0; 0; 1; 1; 0; 0; 0; 2; 2] = false.
Proof. vm_compute. reflexivity. Qed.

(* ------------------------------------------------------------------ the repair: clear only the claimed entry, only while the map still holds it *)
Definition holds (x : nat) (p : tpc) : bool :=
  match p with P2 c | P3 c | P4 c _ | P5 c _ => Nat.eqb c x | _ => false end.
Definition holders (x : nat) (l : list (tpc * outcome)) : nat := length (filter (fun q => holds x (fst q)) l).
Definition b2n (b : bool) : nat := if b then 1 else 0.

Lemma holders_cons : forall x q l, holders x (q :: l) = b2n (holds x (fst q)) + holders x l.
Proof. intros. unfold holders. cbn [filter]. destruct (holds x (fst q)); reflexivity. Qed.

Lemma holders_set : forall x l i p o p',
    nth_error l i = Some (p, o) ->
    holders x (set_tpc l i p') + b2n (holds x p) = holders x l + b2n (holds x p').
Proof.
  induction l as [|[q oq] t IH]; intros i p o p' H; destruct i; cbn in H; try discriminate.
  - inversion H; subst. cbn [set_tpc]. rewrite !holders_cons. cbn [fst]. lia.
  - cbn [set_tpc]. rewrite !holders_cons. specialize (IH i p o p' H). lia.
Qed.

Lemma holders_ge1 : forall x l i p o, nth_error l i = Some (p, o) -> holds x p = true -> 1 <= holders x l.
Proof.
  induction l as [|[q oq] t IH]; intros i p o H Hh; destruct i; cbn in H; try discriminate; rewrite holders_cons.
  - inversion H; subst. cbn [fst]. rewrite Hh. cbn. lia.
  - specialize (IH i p o H Hh). lia.
Qed.

Lemma holders_two : forall x l i j p o q oq,
    i <> j -> nth_error l i = Some (p, o) -> nth_error l j = Some (q, oq) ->
    holds x p = true -> holds x q = true -> 2 <= holders x l.
Proof.
  induction l as [|[r orr] t IH]; intros i j p o q oq Hne Hi Hj Hp Hq; [destruct i; discriminate|].
  rewrite holders_cons. destruct i, j; cbn in Hi, Hj; try lia.
  - inversion Hi; subst. cbn [fst]. rewrite Hp. pose proof (holders_ge1 x t j q oq Hj Hq). cbn. lia.
  - inversion Hj; subst. cbn [fst]. rewrite Hq. pose proof (holders_ge1 x t i p o Hi Hp). cbn. lia.
  - assert (i <> j) by lia. pose proof (IH i j p o q oq H Hi Hj Hp Hq). lia.
Qed.

Lemma nth_error_set_same : forall l i p o p', nth_error l i = Some (p, o) -> nth_error (set_tpc l i p') i = Some (p', o).
Proof.
  induction l as [|[q oq] t IH]; intros i p o p' H; destruct i; cbn in H; try discriminate.
  - inversion H; subst. reflexivity.
  - cbn. eapply IH. eassumption.
Qed.

Lemma nth_error_set_other : forall l i j p', i <> j -> nth_error (set_tpc l i p') j = nth_error l j.
Proof.
  induction l as [|[q oq] t IH]; intros i j p' H; destruct i, j; cbn; try reflexivity; try lia.
  apply IH. lia.
Qed.

(* what a thread's position says about the shared state *)
Definition tok (s : tstate) (q : tpc * outcome) : Prop :=
  match fst q with
  | P1 e => t_stale s e = true
  | P2 c => c = t_cur s /\ c < t_next s
  | P3 c => c < t_next s
  | P4 c e | P5 c e => e = c /\ c = t_cur s /\ c < t_next s
  | _ => True
  end.

Record inv (s : tstate) : Prop := {
  i_claimable : forall x, t_stale s x = true -> t_flag s x = false -> x = t_cur s;
  i_single : forall x, holders x (t_pcs s) <= 1;
  i_flag : forall x, 1 <= holders x (t_pcs s) -> t_flag s x = true;
  i_tok : Forall (tok s) (t_pcs s);
  i_fresh : forall x, t_next s <= x -> t_stale s x = false;
  i_cur : t_cur s < t_next s
}.

Lemma Forall_set_tpc : forall (P : tpc * outcome -> Prop) l i p o p',
    nth_error l i = Some (p, o) -> Forall P l -> P (p', o) -> Forall P (set_tpc l i p').
Proof.
  induction l as [|[q oq] t IH]; intros i p o p' H HF HP; destruct i; cbn in H; try discriminate; inversion HF; subst.
  - inversion H; subst. cbn. constructor; assumption.
  - cbn. constructor; [assumption|]. eapply IH; eassumption.
Qed.

Lemma holders_bound : forall s x, Forall (tok s) (t_pcs s) -> t_next s <= x -> holders x (t_pcs s) = 0.
Proof.
  intros s x HF Hx. unfold holders. induction (t_pcs s) as [|[q oq] t IH]; [reflexivity|].
  inversion HF; subst. cbn [filter fst]. specialize (IH H2).
  assert (holds x q = false).
  { unfold tok in H1. cbn [fst] in H1. destruct q; cbn; try reflexivity; apply Nat.eqb_neq; lia. }
  rewrite H. exact IH.
Qed.

Lemma tok_same_state : forall s s' q,
    t_cur s' = t_cur s -> t_next s' = t_next s -> t_stale s' = t_stale s -> tok s q -> tok s' q.
Proof. intros s s' q E1 E2 E3 H. unfold tok in *. rewrite E1, E2, E3. exact H. Qed.

Lemma upd_same : forall f x b, upd f x b x = b.
Proof. intros. unfold upd. rewrite Nat.eqb_refl. reflexivity. Qed.
Lemma upd_other : forall f x b y, y <> x -> upd f x b y = f y.
Proof. intros. unfold upd. apply Nat.eqb_neq in H. rewrite H. reflexivity. Qed.

Ltac hset H := match type of H with nth_error ?l ?i = Some (?p, ?o) =>
                 let x := fresh "x" in let p' := fresh "p'" in
                 assert (forall x p', holders x (set_tpc l i p') + b2n (holds x p) = holders x l + b2n (holds x p'))
                   by (intros x p'; eapply holders_set; exact H) end.

Lemma inv_step : forall s i, inv s -> inv (tsched_step VClaimedIfCurrent s i).
Proof.
  intros s i [Hc Hs Hf Ht Hn Hcur]. unfold tsched_step.
  destruct (nth_error (t_pcs s) i) as [[p o]|] eqn:E; [|constructor; assumption].
  pose proof (holders_set) as HS.
  assert (Hp : tok s (p, o)). { rewrite Forall_forall in Ht. apply Ht. eapply nth_error_In. exact E. }
  unfold tok in Hp. cbn [fst] in Hp.
  destruct p; cbn [tstep].
  - (* P0: map Load *)
    destruct (t_stale s (t_cur s)) eqn:Est; unfold with_pcs; cbn [t_cur t_next t_flag t_stale t_pcs];
      (constructor; cbn [t_cur t_next t_flag t_stale t_pcs]; try assumption;
       [ intros x; pose proof (HS x _ _ _ _ (P1 (t_cur s)) E); pose proof (HS x _ _ _ _ (PDone false) E); cbn [b2n holds] in *; specialize (Hs x); lia
       | intros x Hx; apply Hf; pose proof (HS x _ _ _ _ (P1 (t_cur s)) E); pose proof (HS x _ _ _ _ (PDone false) E); cbn [b2n holds] in *; lia
       | eapply Forall_set_tpc; [exact E | assumption | unfold tok; cbn; auto] ]).
  - (* P1: the CAS *)
    destruct (t_flag s e) eqn:Efl; unfold with_pcs; cbn [t_cur t_next t_flag t_stale t_pcs].
    + constructor; cbn [t_cur t_next t_flag t_stale t_pcs]; try assumption.
      * intros x. pose proof (HS x _ _ _ _ (PDone false) E). cbn [b2n holds] in *. specialize (Hs x). lia.
      * intros x Hx. apply Hf. pose proof (HS x _ _ _ _ (PDone false) E). cbn [b2n holds] in *. lia.
      * eapply Forall_set_tpc; [exact E | assumption | unfold tok; cbn; auto].
    + assert (Ee : e = t_cur s) by (apply Hc; assumption).
      assert (He0 : holders e (t_pcs s) = 0).
      { destruct (holders e (t_pcs s)) eqn:Eh; [reflexivity|]. rewrite Hf in Efl by lia. discriminate. }
      constructor; cbn [t_cur t_next t_flag t_stale t_pcs]; try assumption.
      * intros x Hst Hfx. destruct (Nat.eq_dec x e) as [->|Hne]; [rewrite upd_same in Hfx; discriminate|].
        rewrite upd_other in Hfx by assumption. specialize (Hc x Hst Hfx). congruence.
      * intros x. pose proof (HS x _ _ _ _ (P2 e) E) as H1. cbn [b2n holds] in H1.
        destruct (Nat.eqb e x) eqn:Ex; cbn [b2n holds] in H1; [apply Nat.eqb_eq in Ex; subst x; lia | specialize (Hs x); lia].
      * intros x Hx. destruct (Nat.eq_dec x e) as [->|Hne]; [apply upd_same|]. rewrite upd_other by assumption.
        apply Hf. pose proof (HS x _ _ _ _ (P2 e) E) as H1. cbn [b2n holds] in H1.
        assert (Nat.eqb e x = false) as Ex by (apply Nat.eqb_neq; congruence). rewrite Ex in H1. cbn [b2n holds] in H1. lia.
      * eapply Forall_set_tpc; [exact E | | unfold tok; cbn; split; [assumption | rewrite Ee; assumption]].
        eapply Forall_impl; [|exact Ht]. intros q Hq. eapply tok_same_state; [| | |exact Hq]; reflexivity.
  - (* P2: the upstream work ends *)
    destruct Hp as [Ecur Hlt].
    destruct o.
    + (* no answer *)
      unfold with_pcs; cbn [t_cur t_next t_flag t_stale t_pcs]. constructor; cbn [t_cur t_next t_flag t_stale t_pcs]; try assumption.
      * intros x. pose proof (HS x _ _ _ _ (P3 c) E). cbn [b2n holds] in *. specialize (Hs x). lia.
      * intros x Hx. apply Hf. pose proof (HS x _ _ _ _ (P3 c) E). cbn [b2n holds] in *. lia.
      * eapply Forall_set_tpc; [exact E | assumption | unfold tok; cbn; assumption].
    + (* a replacement entry, already stale *)
      unfold with_pcs; cbn [t_cur t_next t_flag t_stale t_pcs]. set (n := t_next s).
      assert (Hhc : 1 <= holders c (t_pcs s)) by (eapply holders_ge1; [exact E | cbn; apply Nat.eqb_refl]).
      assert (Hn0 : holders n (t_pcs s) = 0) by (apply holders_bound; [assumption | unfold n; lia]).
      constructor; cbn [t_cur t_next t_flag t_stale t_pcs].
      * intros x Hst Hfx. destruct (Nat.eq_dec x n) as [->|Hne]; [reflexivity|].
        rewrite upd_other in Hst, Hfx by assumption. specialize (Hc x Hst Hfx). subst x. rewrite <- Ecur in Hfx.
        rewrite (Hf c Hhc) in Hfx. discriminate.
      * intros x. pose proof (HS x _ _ _ _ (P3 c) E). cbn [b2n holds] in *. specialize (Hs x). lia.
      * intros x Hx. assert (Hx' : 1 <= holders x (t_pcs s)) by (pose proof (HS x _ _ _ _ (P3 c) E); cbn [b2n holds] in *; lia).
        destruct (Nat.eq_dec x n) as [->|Hne]; [lia|]. rewrite upd_other by assumption. apply Hf. assumption.
      * apply Forall_forall. intros q Hq. apply In_nth_error in Hq. destruct Hq as [j Hj].
        destruct (Nat.eq_dec i j) as [<-|Hij].
        -- rewrite (nth_error_set_same _ _ _ _ (P3 c) E) in Hj. inversion Hj; subst. unfold tok. cbn. lia.
        -- rewrite nth_error_set_other in Hj by assumption. destruct q as [q oq].
           assert (Hq : tok s (q, oq)) by (rewrite Forall_forall in Ht; apply Ht; eapply nth_error_In; exact Hj).
           assert (Hnh : holds c q = false).
           { destruct (holds c q) eqn:Eh; [|reflexivity]. exfalso.
             pose proof (holders_two c _ i j (P2 c) OStale q oq Hij E Hj ltac:(cbn; apply Nat.eqb_refl) Eh). specialize (Hs c). lia. }
           unfold tok in *. cbn [fst t_cur t_next t_stale] in *. destruct q; cbn in Hnh; try exact I.
           ++ assert (e <> n) by (intros ->; rewrite Hn in Hq by (unfold n; lia); discriminate). rewrite upd_other by assumption. exact Hq.
           ++ destruct Hq as [Hq1 _]. subst c0. rewrite Ecur, Nat.eqb_refl in Hnh. discriminate.
           ++ lia.
           ++ destruct Hq as [_ [Hq1 _]]. subst c0. rewrite Ecur, Nat.eqb_refl in Hnh. discriminate.
           ++ destruct Hq as [_ [Hq1 _]]. subst c0. rewrite Ecur, Nat.eqb_refl in Hnh. discriminate.
      * intros x Hx. rewrite upd_other by (unfold n in *; lia). apply Hn. unfold n in *. lia.
      * lia.
    + (* a fresh replacement entry *)
      unfold with_pcs; cbn [t_cur t_next t_flag t_stale t_pcs]. set (n := t_next s).
      assert (Hhc : 1 <= holders c (t_pcs s)) by (eapply holders_ge1; [exact E | cbn; apply Nat.eqb_refl]).
      assert (Hn0 : holders n (t_pcs s) = 0) by (apply holders_bound; [assumption | unfold n; lia]).
      constructor; cbn [t_cur t_next t_flag t_stale t_pcs].
      * intros x Hst Hfx. destruct (Nat.eq_dec x n) as [->|Hne]; [reflexivity|].
        rewrite upd_other in Hst, Hfx by assumption. specialize (Hc x Hst Hfx). subst x. rewrite <- Ecur in Hfx.
        rewrite (Hf c Hhc) in Hfx. discriminate.
      * intros x. pose proof (HS x _ _ _ _ (P3 c) E). cbn [b2n holds] in *. specialize (Hs x). lia.
      * intros x Hx. assert (Hx' : 1 <= holders x (t_pcs s)) by (pose proof (HS x _ _ _ _ (P3 c) E); cbn [b2n holds] in *; lia).
        destruct (Nat.eq_dec x n) as [->|Hne]; [lia|]. rewrite upd_other by assumption. apply Hf. assumption.
      * apply Forall_forall. intros q Hq. apply In_nth_error in Hq. destruct Hq as [j Hj].
        destruct (Nat.eq_dec i j) as [<-|Hij].
        -- rewrite (nth_error_set_same _ _ _ _ (P3 c) E) in Hj. inversion Hj; subst. unfold tok. cbn. lia.
        -- rewrite nth_error_set_other in Hj by assumption. destruct q as [q oq].
           assert (Hq : tok s (q, oq)) by (rewrite Forall_forall in Ht; apply Ht; eapply nth_error_In; exact Hj).
           assert (Hnh : holds c q = false).
           { destruct (holds c q) eqn:Eh; [|reflexivity]. exfalso.
             pose proof (holders_two c _ i j (P2 c) OFresh q oq Hij E Hj ltac:(cbn; apply Nat.eqb_refl) Eh). specialize (Hs c). lia. }
           unfold tok in *. cbn [fst t_cur t_next t_stale] in *. destruct q; cbn in Hnh; try exact I.
           ++ assert (e <> n) by (intros ->; rewrite Hn in Hq by (unfold n; lia); discriminate). rewrite upd_other by assumption. exact Hq.
           ++ destruct Hq as [Hq1 _]. subst c0. rewrite Ecur, Nat.eqb_refl in Hnh. discriminate.
           ++ lia.
           ++ destruct Hq as [_ [Hq1 _]]. subst c0. rewrite Ecur, Nat.eqb_refl in Hnh. discriminate.
           ++ destruct Hq as [_ [Hq1 _]]. subst c0. rewrite Ecur, Nat.eqb_refl in Hnh. discriminate.
      * intros x Hx. destruct (Nat.eq_dec x n) as [->|Hne]; [apply upd_same|]. rewrite upd_other by assumption. apply Hn. unfold n in *. lia.
      * lia.
  - (* P3: completion, map Load and comparison with the claimed entry *)
    destruct (Nat.eqb (t_cur s) c) eqn:Ec; unfold with_pcs; cbn [t_cur t_next t_flag t_stale t_pcs].
    + apply Nat.eqb_eq in Ec. constructor; cbn [t_cur t_next t_flag t_stale t_pcs]; try assumption.
      * intros x. pose proof (HS x _ _ _ _ (P4 c c) E). cbn [b2n holds] in *. specialize (Hs x). lia.
      * intros x Hx. apply Hf. pose proof (HS x _ _ _ _ (P4 c c) E). cbn [b2n holds] in *. lia.
      * eapply Forall_set_tpc; [exact E | assumption | unfold tok; cbn; auto].
    + constructor; cbn [t_cur t_next t_flag t_stale t_pcs]; try assumption.
      * intros x. pose proof (HS x _ _ _ _ (PDone true) E). cbn [b2n holds] in *. specialize (Hs x). destruct (Nat.eqb c x); cbn [b2n holds] in *; lia.
      * intros x Hx. apply Hf. pose proof (HS x _ _ _ _ (PDone true) E). cbn [b2n holds] in *. destruct (Nat.eqb c x); cbn [b2n holds] in *; lia.
      * eapply Forall_set_tpc; [exact E | assumption | unfold tok; cbn; auto].
  - (* P4: flag Load *)
    destruct (t_flag s e) eqn:Efl; unfold with_pcs; cbn [t_cur t_next t_flag t_stale t_pcs].
    + constructor; cbn [t_cur t_next t_flag t_stale t_pcs]; try assumption.
      * intros x. pose proof (HS x _ _ _ _ (P5 c e) E). cbn [b2n holds] in *. specialize (Hs x). lia.
      * intros x Hx. apply Hf. pose proof (HS x _ _ _ _ (P5 c e) E). cbn [b2n holds] in *. lia.
      * eapply Forall_set_tpc; [exact E | assumption | unfold tok; cbn; assumption].
    + constructor; cbn [t_cur t_next t_flag t_stale t_pcs]; try assumption.
      * intros x. pose proof (HS x _ _ _ _ (PDone true) E). cbn [b2n holds] in *. specialize (Hs x). destruct (Nat.eqb c x); cbn [b2n holds] in *; lia.
      * intros x Hx. apply Hf. pose proof (HS x _ _ _ _ (PDone true) E). cbn [b2n holds] in *. destruct (Nat.eqb c x); cbn [b2n holds] in *; lia.
      * eapply Forall_set_tpc; [exact E | assumption | unfold tok; cbn; auto].
  - (* P5: flag Store false on the claimed entry, which the map still holds *)
    destruct Hp as [Eec [Ecur Hlt]]. subst e. unfold with_pcs; cbn [t_cur t_next t_flag t_stale t_pcs].
    constructor; cbn [t_cur t_next t_flag t_stale t_pcs]; try assumption.
    + intros x Hst Hfx. destruct (Nat.eq_dec x c) as [->|Hne]; [assumption|]. rewrite upd_other in Hfx by assumption. apply Hc; assumption.
    + intros x. pose proof (HS x _ _ _ _ (PDone true) E). cbn [b2n holds] in *. specialize (Hs x). destruct (Nat.eqb c x); cbn [b2n holds] in *; lia.
    + intros x Hx. pose proof (HS x _ _ _ _ (PDone true) E) as H1. cbn [b2n holds] in H1.
      destruct (Nat.eq_dec x c) as [->|Hne].
      * rewrite Nat.eqb_refl in H1. cbn [b2n holds] in H1. specialize (Hs c). lia.
      * rewrite upd_other by assumption. apply Hf. assert (Nat.eqb c x = false) as Ex by (apply Nat.eqb_neq; congruence).
        rewrite Ex in H1. cbn [b2n holds] in H1. lia.
    + eapply Forall_set_tpc; [exact E | | unfold tok; cbn; auto].
      eapply Forall_impl; [|exact Ht]. intros q Hq. eapply tok_same_state; [| | |exact Hq]; reflexivity.
  - (* done *)
    unfold with_pcs; cbn [t_cur t_next t_flag t_stale t_pcs]. constructor; cbn [t_cur t_next t_flag t_stale t_pcs]; try assumption.
    + intros x. pose proof (HS x _ _ _ _ (PDone refresh) E). cbn [b2n holds] in *. specialize (Hs x). lia.
    + intros x Hx. apply Hf. pose proof (HS x _ _ _ _ (PDone refresh) E). cbn [b2n holds] in *. lia.
    + eapply Forall_set_tpc; [exact E | assumption | unfold tok; cbn; auto].
Qed.

Lemma in_flight_le_holders : forall s, Forall (tok s) (t_pcs s) -> in_flight s <= holders (t_cur s) (t_pcs s).
Proof.
  intros s HF. unfold in_flight, holders. induction (t_pcs s) as [|[q oq] t IH]; [cbn; lia|].
  inversion HF; subst. specialize (IH H2). cbn [filter]. unfold in_p2 at 1. cbn [fst].
  destruct q; cbn [holds]; try (destruct (Nat.eqb _ _); cbn [length]; lia); try (cbn [length]; lia).
  unfold tok in H1. cbn [fst] in H1. destruct H1 as [Ec _]. subst c. rewrite Nat.eqb_refl. cbn [length]. lia.
Qed.

Lemma inv_in_flight : forall s, inv s -> in_flight s <= 1.
Proof. intros s H. pose proof (in_flight_le_holders s (i_tok s H)). pose proof (i_single s H (t_cur s)). lia. Qed.

Lemma inv_init : forall outcomes, inv (tinit outcomes).
Proof.
  intros outcomes.
  assert (H0 : forall x, holders x (map (fun o => (P0, o)) outcomes) = 0).
  { intros x. unfold holders. induction outcomes; cbn; auto. }
  constructor; cbn [tinit t_cur t_next t_flag t_stale t_pcs].
  - intros x Hx _. apply Nat.eqb_eq in Hx. assumption.
  - intros x. rewrite H0. lia.
  - intros x Hx. rewrite H0 in Hx. lia.
  - apply Forall_forall. intros q Hq. apply in_map_iff in Hq. destruct Hq as [o [<- _]]. unfold tok. cbn. exact I.
  - intros x Hx. apply Nat.eqb_neq. lia.
  - lia.
Qed.

Lemma trun_ok_inv : forall sched s, inv s -> trun_ok VClaimedIfCurrent s sched = true.
Proof.
  induction sched as [|i rest IH]; intros s H; [reflexivity|]. cbn [trun_ok].
  pose proof (inv_step s i H) as H'. rewrite (IH _ H'), andb_true_r. apply Nat.leb_le. apply inv_in_flight. assumption.
Qed.

Lemma lifecycle_partial_proof : forall (outcomes : list outcome) (sched : list nat),
    trun_ok VClaimedIfCurrent (tinit outcomes) sched = true.
Proof. intros. apply trun_ok_inv. apply inv_init. Qed.

Lemma lifecycle_full_refuted_proof :
  ~ (forall (outcomes : list outcome) (sched : list nat), trun_ok VCurrent (tinit outcomes) sched = true).
Proof. intros H. pose proof lifecycle_current_refuted_proof as R. rewrite H in R. discriminate. Qed.
