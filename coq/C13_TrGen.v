(* C13 — generations (controlPlaneCore) sharing one udpConnStateTracker per BPF object set, across a reload
   hand-over: control/control_plane_core.go acquireSharedUdpConnStateTracker / releaseSharedUdpConnStateTracker
   (registry keyed by *bpfObjects with a reference count), newControlPlaneCore, Close,
   getUdpConnStateTracker (a core whose cached tracker was dropped by Close takes the shared one again),
   RetainUdpConnStateTuples, ReleaseUdpConnStateTuples (tracked path, or — when the core reports no tracker —
   the untracked fallback that deletes the tuples unconditionally), TransferRetainedUdpConnStateTuplesFrom.
   Calls are atomic.  No proofs in this file.

   [reacq] = getUdpConnStateTracker re-acquires the shared tracker for a core that has none (extracted from
   the source: gen/C13_Consts.v closed_core_reacquires_tracker); the variant false makes a closed core report
   no tracker. *)
From Coq Require Import List Arith Bool.
From Dae Require Import C13_Model.
Import ListNotations.

Record gcore := mkGC { gc_bpf : nat; gc_closed : bool; gc_tr : option nat }.

Record gstate := mkGS {
  g_cores : list gcore;
  g_reg : nat -> option (nat * nat);        (* bpf object -> (tracker id, registry references) *)
  g_trk : nat -> tracker;                   (* tracker id -> entries (C13_Model.tracker) *)
  g_nexttr : nat;
  g_kdel : list (nat * nat * nat);          (* kernel deletes: (bpf object, tuple, owners of the tuple on that bpf at that moment) *)
  g_owners : list (nat * nat) }.            (* ghost: live owners (core, tuple) *)

Inductive gop :=
| GNew (b : nat)                (* a new generation on BPF object set b *)
| GClose (c : nat)              (* core.Close() *)
| GRetain (c k : nat)           (* an endpoint owned by core c registers tuple k *)
| GRelease (c k : nat)          (* an endpoint owned by core c goes away *)
| GTransfer (cto cfrom k : nat) (* adoptGeneration: ownership of tuple k moves from core cfrom to core cto *).

Definition g0 : gstate := mkGS [] (fun _ => None) (fun _ _ => None) 0 [] [].

Definition rset {A} (f : nat -> A) (k : nat) (v : A) : nat -> A := fun k' => if k' =? k then v else f k'.

(* acquireSharedUdpConnStateTracker(bpf): (state, tracker id) *)
Definition g_acquire (s : gstate) (b : nat) : gstate * nat :=
  match g_reg s b with
  | Some (t, n) => (mkGS (g_cores s) (rset (g_reg s) b (Some (t, S n))) (g_trk s) (g_nexttr s) (g_kdel s) (g_owners s), t)
  | None => let t := g_nexttr s in
            (mkGS (g_cores s) (rset (g_reg s) b (Some (t, 1))) (g_trk s) (S t) (g_kdel s) (g_owners s), t)
  end.

(* releaseSharedUdpConnStateTracker(bpf, tracker) *)
Definition g_unshare (s : gstate) (b t : nat) : gstate :=
  match g_reg s b with
  | Some (t', n) => if t' =? t
                    then mkGS (g_cores s) (rset (g_reg s) b (if n <=? 1 then None else Some (t', pred n))) (g_trk s)
                              (g_nexttr s) (g_kdel s) (g_owners s)
                    else s
  | None => s
  end.

Definition set_core (s : gstate) (c : nat) (x : gcore) : gstate :=
  mkGS (upd (g_cores s) c x) (g_reg s) (g_trk s) (g_nexttr s) (g_kdel s) (g_owners s).

(* getUdpConnStateTracker *)
Definition g_tracker_of (reacq : bool) (s : gstate) (c : nat) : gstate * option nat :=
  match nth_error (g_cores s) c with
  | None => (s, None)
  | Some x =>
      match gc_tr x with
      | Some t => (s, Some t)
      | None =>
          if reacq
          then let '(s1, t) := g_acquire s (gc_bpf x) in
               (set_core s1 c (mkGC (gc_bpf x) (gc_closed x) (Some t)), Some t)
          else (s, None)
      end
  end.

Fixpoint remove_owner (o : nat * nat) (l : list (nat * nat)) : list (nat * nat) :=
  match l with
  | [] => []
  | x :: r => if (fst x =? fst o) && (snd x =? snd o) then r else x :: remove_owner o r
  end.
Definition has_owner (o : nat * nat) (l : list (nat * nat)) : bool :=
  existsb (fun x => (fst x =? fst o) && (snd x =? snd o)) l.

Definition bpf_of (s : gstate) (c : nat) : nat := match nth_error (g_cores s) c with Some x => gc_bpf x | None => 0 end.
(* owners of tuple k among the cores on BPF object set b *)
Definition owners_on (s : gstate) (b k : nat) : nat :=
  length (filter (fun o => (snd o =? k) && (bpf_of s (fst o) =? b)) (g_owners s)).

Definition with_owners (s : gstate) (l : list (nat * nat)) : gstate :=
  mkGS (g_cores s) (g_reg s) (g_trk s) (g_nexttr s) (g_kdel s) l.
Definition with_trk (s : gstate) (t : nat) (m : tracker) : gstate :=
  mkGS (g_cores s) (g_reg s) (rset (g_trk s) t m) (g_nexttr s) (g_kdel s) (g_owners s).
Definition log_del (s : gstate) (b k : nat) : gstate :=
  mkGS (g_cores s) (g_reg s) (g_trk s) (g_nexttr s) (g_kdel s ++ [(b, k, owners_on s b k)]) (g_owners s).

Definition gstep (reacq : bool) (s : gstate) (o : gop) : gstate :=
  match o with
  | GNew b =>
      let '(s1, t) := g_acquire s b in
      mkGS (g_cores s1 ++ [mkGC b false (Some t)]) (g_reg s1) (g_trk s1) (g_nexttr s1) (g_kdel s1) (g_owners s1)
  | GClose c =>
      match nth_error (g_cores s) c with
      | Some x =>
          if gc_closed x then s
          else let s1 := set_core s c (mkGC (gc_bpf x) true None) in
               match gc_tr x with Some t => g_unshare s1 (gc_bpf x) t | None => s1 end
      | None => s
      end
  | GRetain c k =>
      match nth_error (g_cores s) c with
      | None => s
      | Some _ =>
          let '(s1, ot) := g_tracker_of reacq s c in
          let s2 := match ot with
                    | Some t => match tr_retain (g_trk s1 t) k with Some m => with_trk s1 t m | None => s1 end
                    | None => s1 end in
          with_owners s2 (g_owners s2 ++ [(c, k)])
      end
  | GRelease c k =>
      if negb (has_owner (c, k) (g_owners s)) then s
      else
        let s0 := with_owners s (remove_owner (c, k) (g_owners s)) in      (* the owner is gone *)
        let '(s1, ot) := g_tracker_of reacq s0 c in
        match ot with
        | Some t =>
            let '(m, del) := tr_begin_release (g_trk s1 t) k in
            if del then with_trk (log_del s1 (bpf_of s1 c) k) t (tr_finalize m k) else with_trk s1 t m
        | None =>
            (* untracked fallback: BpfMapBatchDelete of the keys, whatever the shared count says *)
            log_del s1 (bpf_of s1 c) k
        end
  | GTransfer cto cfrom k =>
      if negb (has_owner (cfrom, k) (g_owners s)) || (cto =? cfrom) then s
      else
        match nth_error (g_cores s) cto with
        | None => s
        | Some _ =>
            let '(s1, oto) := g_tracker_of reacq s cto in
            let '(s2, ofr) := g_tracker_of reacq s1 cfrom in
            let s3 := match oto, ofr with
                      | Some t1, Some t2 =>
                          if t1 =? t2 then s2
                          else let s' := match tr_retain (g_trk s2 t1) k with Some m => with_trk s2 t1 m | None => s2 end in
                               match tr_forget (g_trk s' t2) k with Some m => with_trk s' t2 m | None => s' end
                      | _, _ => s2 end in
            with_owners s3 (remove_owner (cfrom, k) (g_owners s3) ++ [(cto, k)])
        end
  end.

Definition grun (reacq : bool) (ops : list gop) : gstate := fold_left (gstep reacq) ops g0.

(* reload discipline (decidable side condition on histories): a generation is only closed while another open
   generation exists on the same BPF object set, or when nothing on that set is owned any more (shutdown) *)
Definition open_cores_on (s : gstate) (b : nat) : nat :=
  length (filter (fun x => (gc_bpf x =? b) && negb (gc_closed x)) (g_cores s)).
Definition close_ok (s : gstate) (o : gop) : bool :=
  match o with
  | GClose c =>
      match nth_error (g_cores s) c with
      | Some x => gc_closed x || (1 <? open_cores_on s (gc_bpf x))
                  || forallb (fun ow => negb (bpf_of s (fst ow) =? gc_bpf x)) (g_owners s)
      | None => true
      end
  | GTransfer cto cfrom _ => bpf_of s cto =? bpf_of s cfrom      (* hand-over between generations of one BPF object set *)
  | _ => true
  end.
Fixpoint disciplined_from (reacq : bool) (s : gstate) (ops : list gop) : bool :=
  match ops with
  | [] => true
  | o :: r => close_ok s o && disciplined_from reacq (gstep reacq s o) r
  end.
Definition disciplined (reacq : bool) (ops : list gop) : bool := disciplined_from reacq g0 ops.

(* the property: the shared tracker of a BPF object set counts, per tuple, the live owners among all its
   generations (open or closed), and every kernel delete was issued with no owner left *)
Definition shared_tracker (s : gstate) (b : nat) : tracker :=
  match g_reg s b with Some (t, _) => g_trk s t | None => fun _ => None end.
Definition gen_refs_ok (s : gstate) (b k : nat) : bool :=
  match shared_tracker s b k with
  | None => owners_on s b k =? 0
  | Some e => negb (t_deleting e) && (t_refs e =? owners_on s b k) && (0 <? t_refs e)
  end.
Definition gen_deletes_ok (s : gstate) : bool := forallb (fun d => snd d =? 0) (g_kdel s).
