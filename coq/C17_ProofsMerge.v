(* C17 — proofs about include resolution (dfs_merge) and totality of the parser model. *)
From Coq Require Import List NArith Bool Lia ZifyBool ZifyN ZifyNat Relations.
From Dae Require Import C17_Spec C17_Model C17_MergeSpec.
Import ListNotations.
Open Scope N_scope.

(* ================================================================== names are compared exactly *)
Lemma str_eqb_eq : forall a b, str_eqb a b = true <-> a = b.
Proof.
  induction a as [|x a IH]; destruct b as [|y b]; simpl; split; intro H;
    try reflexivity; try discriminate.
  - apply andb_true_iff in H. destruct H as [H1 H2].
    apply N.eqb_eq in H1. apply IH in H2. subst. reflexivity.
  - inversion H; subst. apply andb_true_iff. split.
    + apply N.eqb_refl.
    + apply IH. reflexivity.
Qed.

Lemma str_eqb_spec : forall a b, reflect (a = b) (str_eqb a b).
Proof. intros. apply iff_reflect. symmetry. apply str_eqb_eq. Qed.

Lemma mem_str_false : forall x l, mem_str x l = false -> ~ In x l.
Proof.
  intros x l H Hin. unfold mem_str in H.
  assert (existsb (str_eqb x) l = true) as E.
  { apply existsb_exists. exists x. split; [exact Hin|]. apply str_eqb_eq. reflexivity. }
  congruence.
Qed.

(* ================================================================== section maps *)
Definition keys_nodup (m : section_map) : Prop := NoDup (map fst m).

Lemma sm_get_append : forall m k v n,
    sm_get (sm_append m k v) n = if str_eqb k n then sm_get m n ++ v else sm_get m n.
Proof.
  induction m as [|[k0 v0] r IH]; intros k v n; simpl.
  - destruct (str_eqb k n); reflexivity.
  - destruct (str_eqb_spec k0 k) as [E|E].
    + subst k0. simpl. destruct (str_eqb k n); reflexivity.
    + simpl. rewrite IH. destruct (str_eqb_spec k0 n) as [E1|E1]; [|reflexivity].
      subst n. destruct (str_eqb_spec k k0) as [E2|E2]; [|reflexivity].
      subst. contradiction E. reflexivity.
Qed.

Lemma sm_get_fold : forall l a n,
    sm_get (fold_left (fun m (s : gsection) => sm_append m (fst s) (snd s)) l a) n
    = sm_get a n ++ own_items l n.
Proof.
  induction l as [|[k v] l IH]; intros a n; simpl.
  - unfold own_items. simpl. rewrite app_nil_r. reflexivity.
  - rewrite IH. rewrite sm_get_append. unfold own_items. simpl.
    destruct (str_eqb k n); simpl.
    + rewrite <- app_assoc. reflexivity.
    + reflexivity.
Qed.

Lemma sm_get_sections_to_map : forall ss n, sm_get (sections_to_map ss) n = own_items ss n.
Proof. intros. unfold sections_to_map. rewrite sm_get_fold. reflexivity. Qed.

Lemma own_items_absent : forall (m : section_map) n, ~ In n (map fst m) -> own_items m n = [].
Proof.
  induction m as [|[k v] r IH]; intros n H; unfold own_items; simpl.
  - reflexivity.
  - destruct (str_eqb_spec k n) as [E|E].
    + subst. exfalso. apply H. simpl. left. reflexivity.
    + simpl. apply IH. intro Hin. apply H. simpl. right. exact Hin.
Qed.

Lemma sm_get_absent : forall (m : section_map) n, ~ In n (map fst m) -> sm_get m n = [].
Proof.
  induction m as [|[k v] r IH]; intros n H; simpl.
  - reflexivity.
  - destruct (str_eqb_spec k n) as [E|E].
    + subst. exfalso. apply H. simpl. left. reflexivity.
    + apply IH. intro Hin. apply H. simpl. right. exact Hin.
Qed.

Lemma own_items_keys_nodup : forall (m : section_map) n, keys_nodup m -> own_items m n = sm_get m n.
Proof.
  induction m as [|[k v] r IH]; intros n H.
  - reflexivity.
  - unfold keys_nodup in H. simpl in H. inversion H as [|x l Hnin Hnd]; subst.
    change (own_items ((k, v) :: r) n) with ((if str_eqb k n then v else []) ++ own_items r n).
    simpl. destruct (str_eqb_spec k n) as [E|E].
    + subst. rewrite own_items_absent by exact Hnin. apply app_nil_r.
    + simpl. apply IH. exact Hnd.
Qed.

Lemma sm_get_merge_into : forall a b n, keys_nodup b -> sm_get (merge_into a b) n = sm_get a n ++ sm_get b n.
Proof.
  intros a b n H. unfold merge_into. rewrite sm_get_fold. rewrite own_items_keys_nodup by exact H.
  reflexivity.
Qed.

Lemma sm_append_keys_in : forall m k v x,
    In x (map fst (sm_append m k v)) -> x = k \/ In x (map fst m).
Proof.
  induction m as [|[k0 v0] r IH]; intros k v x H; simpl in *.
  - destruct H as [H|[]]. left. symmetry. exact H.
  - destruct (str_eqb k0 k); simpl in H.
    + right. exact H.
    + destruct H as [H|H].
      * right. left. exact H.
      * apply IH in H. destruct H as [H|H]; [left; exact H | right; right; exact H].
Qed.

Lemma sm_append_keys_nodup : forall m k v, keys_nodup m -> keys_nodup (sm_append m k v).
Proof.
  unfold keys_nodup. induction m as [|[k0 v0] r IH]; intros k v H; simpl in *.
  - constructor. { intros []. } constructor.
  - inversion H as [|x l Hnin Hnd]; subst.
    destruct (str_eqb_spec k0 k) as [E|E]; simpl.
    + constructor; assumption.
    + constructor.
      * intro Hin. apply sm_append_keys_in in Hin. destruct Hin as [Hin|Hin].
        -- apply E. exact Hin.
        -- apply Hnin. exact Hin.
      * apply IH. exact Hnd.
Qed.

Lemma fold_keys_nodup : forall (l : list gsection) a,
    keys_nodup a -> keys_nodup (fold_left (fun m (s : gsection) => sm_append m (fst s) (snd s)) l a).
Proof.
  induction l as [|s l IH]; intros a H; simpl.
  - exact H.
  - apply IH. apply sm_append_keys_nodup. exact H.
Qed.

Lemma sections_to_map_keys_nodup : forall ss, keys_nodup (sections_to_map ss).
Proof. intros. apply fold_keys_nodup. constructor. Qed.

Lemma merge_into_keys_nodup : forall a b, keys_nodup a -> keys_nodup (merge_into a b).
Proof. intros. apply fold_keys_nodup. assumption. Qed.

(* ================================================================== lists without repetition *)
Lemma NoDup_app_intro : forall (A : Type) (a b : list A),
    NoDup a -> NoDup b -> (forall x, In x b -> ~ In x a) -> NoDup (a ++ b).
Proof.
  induction a as [|x a IH]; intros b Ha Hb Hd; simpl.
  - exact Hb.
  - inversion Ha as [|y l Hnin Hnd]; subst. constructor.
    + intro Hin. apply in_app_or in Hin. destruct Hin as [Hin|Hin].
      * apply Hnin. exact Hin.
      * apply (Hd x Hin). left. reflexivity.
    + apply IH; [exact Hnd | exact Hb |]. intros z Hz Hza. apply (Hd z Hz). right. exact Hza.
Qed.

Lemma NoDup_app_l : forall (A : Type) (a b : list A), NoDup (a ++ b) -> NoDup a.
Proof.
  induction a as [|x a IH]; intros b H; simpl in *.
  - constructor.
  - inversion H as [|y l Hnin Hnd]; subst. constructor.
    + intro Hin. apply Hnin. apply in_or_app. left. exact Hin.
    + apply IH with b. exact Hnd.
Qed.

Lemma NoDup_app_r : forall (A : Type) (a b : list A), NoDup (a ++ b) -> NoDup b.
Proof.
  induction a as [|x a IH]; intros b H; simpl in *.
  - exact H.
  - inversion H; subst. apply IH. assumption.
Qed.

(* ================================================================== the merger, unfolded *)
Section Go.
  Variable step : list str -> str -> res (section_map * list str).
  Fixpoint go_children (cs : list str) (acc : section_map) (vis : list str)
    : res (section_map * list str) :=
    match cs with
    | [] => Ok (acc, vis)
    | c :: cs' =>
        match step vis c with
        | Ok (cm, vis') => go_children cs' (merge_into acc cm) vis'
        | e => e
        end
    end.
End Go.

Lemma dfs_merge_S : forall f fs expand visited entry,
    dfs_merge (S f) fs expand visited entry =
    if mem_str entry visited then Err
    else match fs entry with
         | FBad => Err
         | FFile ss =>
             let own := sections_to_map ss in
             match include_patterns (sm_get own include_name) with
             | None => Err
             | Some pats =>
                 go_children (dfs_merge f fs expand) (flat_map expand pats) own (entry :: visited)
             end
         end.
Proof. reflexivity. Qed.

Definition all_resolve (fs : filesys) (expand : str -> list str) : list inc_tree -> Prop :=
  fix all (l : list inc_tree) : Prop :=
    match l with [] => True | c :: r => resolves fs expand c /\ all r end.

Lemma resolves_node : forall fs expand p own ch,
    resolves fs expand (IncNode p own ch) <->
    fs p = FFile own /\
    (exists pats, include_patterns (own_items own include_name) = Some pats /\
                  map tree_root ch = flat_map expand pats) /\
    all_resolve fs expand ch.
Proof. intros. split; intro H; exact H. Qed.

Lemma all_resolve_in : forall fs expand ch c, all_resolve fs expand ch -> In c ch -> resolves fs expand c.
Proof.
  induction ch as [|d ch IH]; intros c H Hin; simpl in *.
  - contradiction.
  - destruct H as [H1 H2]. destruct Hin as [E|Hin]; [subst; exact H1 | apply IH; assumption].
Qed.

(* what a successful merge of one file establishes *)
Record tree_inv (fs : filesys) (expand : str -> list str) (visited : list str) (entry : str)
       (m : section_map) (vis : list str) (t : inc_tree) : Prop := {
  ti_root : tree_root t = entry;
  ti_res : resolves fs expand t;
  ti_get : forall n, sm_get m n = merged_items t n;
  ti_vis : vis = rev (tree_paths t) ++ visited;
  ti_nodup : NoDup (tree_paths t);
  ti_fresh : forall p, In p (tree_paths t) -> ~ In p visited;
  ti_files : forall p, In p (tree_paths t) -> exists ss, fs p = FFile ss;
  ti_keys : keys_nodup m }.

(* what a successful merge of a list of children establishes *)
Record forest_inv (fs : filesys) (expand : str -> list str) (cs : list str) (acc : section_map)
       (vis0 : list str) (m : section_map) (vis : list str) (ch : list inc_tree) : Prop := {
  fi_roots : map tree_root ch = cs;
  fi_res : all_resolve fs expand ch;
  fi_get : forall n, sm_get m n = sm_get acc n ++ flat_map (fun c => merged_items c n) ch;
  fi_vis : vis = rev (flat_map tree_paths ch) ++ vis0;
  fi_nodup : NoDup (flat_map tree_paths ch);
  fi_fresh : forall p, In p (flat_map tree_paths ch) -> ~ In p vis0;
  fi_files : forall p, In p (flat_map tree_paths ch) -> exists ss, fs p = FFile ss;
  fi_keys : keys_nodup m }.

Lemma go_inv : forall fs expand step,
    (forall visited entry m vis, step visited entry = Ok (m, vis) ->
                                 exists t, tree_inv fs expand visited entry m vis t) ->
    forall cs acc vis0 m vis,
      go_children step cs acc vis0 = Ok (m, vis) -> keys_nodup acc ->
      exists ch, forest_inv fs expand cs acc vis0 m vis ch.
Proof.
  intros fs expand step Hstep.
  induction cs as [|c cs IH]; intros acc vis0 m vis H Hk; simpl in H.
  - inversion H; subst. exists []. constructor; simpl.
    + reflexivity.
    + exact I.
    + intros. rewrite app_nil_r. reflexivity.
    + reflexivity.
    + constructor.
    + intros p [].
    + intros p [].
    + exact Hk.
  - destruct (step vis0 c) as [[cm vis']| |] eqn:Hs; try discriminate.
    destruct (Hstep _ _ _ _ Hs) as [tc Hc].
    apply IH in H; [| apply merge_into_keys_nodup; exact Hk].
    destruct H as [ch Hch].
    exists (tc :: ch). constructor.
    + simpl. rewrite (ti_root _ _ _ _ _ _ _ Hc). rewrite (fi_roots _ _ _ _ _ _ _ _ Hch). reflexivity.
    + simpl. split; [exact (ti_res _ _ _ _ _ _ _ Hc) | exact (fi_res _ _ _ _ _ _ _ _ Hch)].
    + intro n. rewrite (fi_get _ _ _ _ _ _ _ _ Hch).
      rewrite sm_get_merge_into by exact (ti_keys _ _ _ _ _ _ _ Hc).
      rewrite (ti_get _ _ _ _ _ _ _ Hc). simpl. rewrite <- app_assoc. reflexivity.
    + rewrite (fi_vis _ _ _ _ _ _ _ _ Hch). rewrite (ti_vis _ _ _ _ _ _ _ Hc).
      simpl. rewrite rev_app_distr. rewrite <- app_assoc. reflexivity.
    + simpl. apply NoDup_app_intro.
      * exact (ti_nodup _ _ _ _ _ _ _ Hc).
      * exact (fi_nodup _ _ _ _ _ _ _ _ Hch).
      * intros x Hx Hxa. apply (fi_fresh _ _ _ _ _ _ _ _ Hch x Hx).
        rewrite (ti_vis _ _ _ _ _ _ _ Hc). apply in_or_app. left. apply -> in_rev. exact Hxa.
    + simpl. intros p Hp. apply in_app_or in Hp. destruct Hp as [Hp|Hp].
      * exact (ti_fresh _ _ _ _ _ _ _ Hc p Hp).
      * intro Hv. apply (fi_fresh _ _ _ _ _ _ _ _ Hch p Hp).
        rewrite (ti_vis _ _ _ _ _ _ _ Hc). apply in_or_app. right. exact Hv.
    + simpl. intros p Hp. apply in_app_or in Hp. destruct Hp as [Hp|Hp].
      * exact (ti_files _ _ _ _ _ _ _ Hc p Hp).
      * exact (fi_files _ _ _ _ _ _ _ _ Hch p Hp).
    + exact (fi_keys _ _ _ _ _ _ _ _ Hch).
Qed.

Lemma dfs_inv : forall fuel fs expand visited entry m vis,
    dfs_merge fuel fs expand visited entry = Ok (m, vis) ->
    exists t, tree_inv fs expand visited entry m vis t.
Proof.
  induction fuel as [|f IH]; intros fs expand visited entry m vis H.
  - discriminate.
  - rewrite dfs_merge_S in H.
    destruct (mem_str entry visited) eqn:Hm; [discriminate|].
    destruct (fs entry) as [ss|] eqn:Hfs; [|discriminate].
    cbv zeta in H.
    destruct (include_patterns (sm_get (sections_to_map ss) include_name)) as [pats|] eqn:Hp;
      [|discriminate].
    rewrite sm_get_sections_to_map in Hp.
    apply (go_inv fs expand) in H; [| intros; apply IH; assumption | apply sections_to_map_keys_nodup].
    destruct H as [ch Hch].
    apply mem_str_false in Hm.
    exists (IncNode entry ss ch). constructor.
    + reflexivity.
    + apply resolves_node. split; [exact Hfs|]. split.
      * exists pats. split; [exact Hp | exact (fi_roots _ _ _ _ _ _ _ _ Hch)].
      * exact (fi_res _ _ _ _ _ _ _ _ Hch).
    + intro n. rewrite (fi_get _ _ _ _ _ _ _ _ Hch). rewrite sm_get_sections_to_map. reflexivity.
    + rewrite (fi_vis _ _ _ _ _ _ _ _ Hch). simpl. rewrite <- app_assoc. reflexivity.
    + simpl. constructor.
      * intro Hin. apply (fi_fresh _ _ _ _ _ _ _ _ Hch entry Hin). left. reflexivity.
      * exact (fi_nodup _ _ _ _ _ _ _ _ Hch).
    + simpl. intros p [E|Hq].
      * subst. exact Hm.
      * intro Hv. apply (fi_fresh _ _ _ _ _ _ _ _ Hch p Hq). right. exact Hv.
    + simpl. intros p [E|Hq].
      * subst. exists ss. exact Hfs.
      * exact (fi_files _ _ _ _ _ _ _ _ Hch p Hq).
    + exact (fi_keys _ _ _ _ _ _ _ _ Hch).
Qed.

(* ================================================================== 1 *)
Lemma only_usable_files : forall fuel fs expand visited entry m vis,
    dfs_merge fuel fs expand visited entry = Ok (m, vis) ->
    forall f, In f vis -> In f visited \/ exists ss, fs f = FFile ss.
Proof.
  intros fuel fs expand visited entry m vis H f Hf.
  apply dfs_inv in H. destruct H as [t Ht].
  rewrite (ti_vis _ _ _ _ _ _ _ Ht) in Hf. apply in_app_or in Hf. destruct Hf as [Hf|Hf].
  - right. apply (ti_files _ _ _ _ _ _ _ Ht). apply in_rev. exact Hf.
  - left. exact Hf.
Qed.

(* ================================================================== 2 *)
Lemma merge_order : forall fuel fs expand entry m vis,
    dfs_merge fuel fs expand [] entry = Ok (m, vis) ->
    exists t, tree_root t = entry /\ resolves fs expand t /\
              (forall n, sm_get m n = merged_items t n) /\
              vis = rev (tree_paths t) /\ NoDup (tree_paths t).
Proof.
  intros fuel fs expand entry m vis H.
  apply dfs_inv in H. destruct H as [t Ht]. exists t.
  split; [exact (ti_root _ _ _ _ _ _ _ Ht)|].
  split; [exact (ti_res _ _ _ _ _ _ _ Ht)|].
  split; [exact (ti_get _ _ _ _ _ _ _ Ht)|].
  split; [| exact (ti_nodup _ _ _ _ _ _ _ Ht)].
  rewrite (ti_vis _ _ _ _ _ _ _ Ht). apply app_nil_r.
Qed.

(* ================================================================== 3: the fuel of lexer and parser suffices *)
Lemma drop_while_length : forall p s, (length (drop_while p s) <= length s)%nat.
Proof.
  induction s as [|c r IH]; simpl.
  - lia.
  - destruct (p c); simpl; lia.
Qed.

Lemma skip_line_length : forall s, (length (skip_line s) <= length s)%nat.
Proof.
  intro s. unfold skip_line.
  pose proof (drop_while_length m_eol (drop_while (fun c => negb (m_eol c)) s)).
  pose proof (drop_while_length (fun c => negb (m_eol c)) s). lia.
Qed.

Definition shorter (s : str) (st : lexstep) : Prop :=
  match st with
  | LSkip r | LTok _ r => (length r < length s)%nat
  | _ => True
  end.

Lemma word_shorter : forall mk c r, shorter (c :: r) (word mk c r).
Proof. intros. unfold word, shorter. simpl. rewrite skipn_length. lia. Qed.

Lemma next_token_shorter : forall s, shorter s (next_token s).
Proof.
  intros [|c r]; [exact I|]. unfold next_token.
  destruct (m_ws c).
  { simpl. pose proof (drop_while_length m_ws r). lia. }
  destruct (c =? 35).
  { simpl. pose proof (skip_line_length r). lia. }
  repeat (match goal with |- shorter _ (if ?b then LTok _ _ else _) => destruct b; [simpl; lia|] end).
  destruct (c =? 38).
  { destruct r as [|d r']; [exact I|]. destruct (d =? 38); simpl; [lia | exact I]. }
  destruct ((c =? 34) || (c =? 39)).
  { destruct (scan_quote c false None 0 r); [|exact I]. simpl. rewrite skipn_length. lia. }
  destruct (m_id_head c); [apply word_shorter|].
  destruct (m_nonid_head c); [|exact I].
  destruct r as [|d r']; [apply word_shorter|].
  destruct ((c =? 45) && (d =? 62)); [simpl; lia|].
  destruct ((c =? 47) && (d =? 42)); [|apply word_shorter].
  cbv zeta. destruct (find_close 0 r'); [|apply word_shorter].
  destruct (Nat.leb _ _); [|apply word_shorter].
  simpl. rewrite skipn_length. lia.
Qed.

Lemma lex_fuel : forall fuel s, (length s < fuel)%nat -> lex fuel s <> OutOfFuel.
Proof.
  induction fuel as [|f IH]; intros s H; [lia|].
  simpl. pose proof (next_token_shorter s) as Hs.
  destruct (next_token s) as [|r|t r|]; simpl in Hs.
  - discriminate.
  - apply IH. lia.
  - destruct (lex f r) eqn:E; try discriminate. exfalso. apply (IH r); [lia | exact E].
  - discriminate.
Qed.

(* a sub-parser that is given more fuel than tokens answers, and consumes *)
Definition good {A : Type} (n : nat) (r : res (A * list tok)) : Prop :=
  match r with
  | Ok (_, rest) => (length rest < n)%nat
  | Err => True
  | OutOfFuel => False
  end.

Ltac call L t :=
  let G := fresh "G" in
  pose proof L as G; unfold good in G; revert G; destruct t as [[? ?]| |]; intro G.
(* the scrutinee that decides the next step: the innermost one of the chain of matches at the head *)
Ltac head_scrut e :=
  lazymatch e with
  | match ?x with _ => _ end => head_scrut x
  | _ => e
  end.
Ltac hook s := fail.
Ltac pstep_with tac :=
  lazymatch goal with
  | |- match ?x with _ => _ end =>
      let s := head_scrut x in
      first
        [ tac s
        | hook s
        | is_var s; destruct s
        | lazymatch s with
          | all_some _ => destruct s
          | tok_literal _ => destruct s
          | walk_items _ => destruct s
          end ]
  end;
  cbv beta iota zeta.
Ltac pfinish := simpl in *; try exact I; try lia.
Ltac pauto_with tac := cbv beta iota zeta; repeat (pstep_with tac); pfinish.
Ltac pauto := pauto_with ltac:(fun s => fail).

Lemma parse_param_good : forall ts, good (length ts) (parse_param ts).
Proof. intro ts. unfold good, parse_param. pauto. Qed.

Lemma parse_params_good : forall fuel ts,
    (length ts < fuel)%nat -> good (length ts) (parse_params fuel ts).
Proof.
  induction fuel as [|f IH]; intros ts H; [lia|].
  cbn [parse_params]. unfold good.
  pauto_with ltac:(fun s => lazymatch s with
                            | parse_param ?x => call (parse_param_good x) s
                            | parse_params f ?x => call (IH x) s
                            end).
Qed.

Ltac hook s ::=
  lazymatch s with
  | parse_params ?f ?ts => call (parse_params_good f ts) s
  end.

Lemma parse_func_good : forall fuel ts,
    (length ts < fuel)%nat -> good (length ts) (parse_func fuel ts).
Proof. intros fuel ts H. unfold good, parse_func. pauto. Qed.

Lemma parse_funcs_good : forall fuel ts,
    (length ts < fuel)%nat -> good (length ts) (parse_funcs fuel ts).
Proof.
  induction fuel as [|f IH]; intros ts H; [lia|].
  cbn [parse_funcs]. unfold good.
  pauto_with ltac:(fun s => lazymatch s with
                            | parse_func ?g ?x => call (parse_func_good g x) s
                            | parse_funcs f ?x => call (IH x) s
                            end).
Qed.

Lemma parse_lits_good : forall fuel ts,
    (length ts < fuel)%nat -> good (length ts) (parse_lits fuel ts).
Proof.
  induction fuel as [|f IH]; intros ts H; [lia|].
  cbn [parse_lits]. unfold good.
  pauto_with ltac:(fun s => lazymatch s with
                            | parse_lits f ?x => call (IH x) s
                            end).
Qed.

Lemma parse_annot_good : forall fuel ts,
    (length ts < fuel)%nat -> good (S (length ts)) (parse_annot fuel ts).
Proof. intros fuel ts H. unfold good, parse_annot. pauto. Qed.

Ltac hook s ::=
  lazymatch s with
  | parse_params ?f ?ts => call (parse_params_good f ts) s
  | parse_func ?f ?ts => call (parse_func_good f ts) s
  | parse_funcs ?f ?ts => call (parse_funcs_good f ts) s
  | parse_lits ?f ?ts => call (parse_lits_good f ts) s
  | parse_annot ?f ?ts => call (parse_annot_good f ts) s
  end.

Lemma parse_rule_good : forall fuel ts,
    (length ts < fuel)%nat -> good (length ts) (parse_rule fuel ts).
Proof. intros fuel ts H. unfold good, parse_rule. pauto. Qed.

Lemma parse_decl_good : forall fuel key ts,
    (length ts < fuel)%nat -> good (length ts) (parse_decl fuel key ts).
Proof. intros fuel key ts H. unfold good, parse_decl. pauto. Qed.

Ltac hook s ::=
  lazymatch s with
  | parse_rule ?f ?ts => call (parse_rule_good f ts) s
  | parse_decl ?f ?k ?ts => call (parse_decl_good f k ts) s
  end.

Lemma parse_items_good : forall fuel ts,
    (length ts < fuel)%nat -> good (S (length ts)) (parse_items fuel ts).
Proof.
  induction fuel as [|f IH]; intros ts H; [lia|].
  cbn [parse_items]. unfold good.
  pauto_with ltac:(fun s => lazymatch s with
                            | parse_items f ?x => call (IH x) s
                            end).
Qed.

Lemma parse_sections_fuel : forall fuel ts,
    (length ts < fuel)%nat -> parse_sections fuel ts <> OutOfFuel.
Proof.
  induction fuel as [|f IH]; intros ts H; [lia|].
  cbn [parse_sections].
  destruct ts as [|t ts]; [discriminate|]. destruct t; try discriminate.
  destruct ts as [|t ts]; [discriminate|]. destruct t; try discriminate.
  call (parse_items_good (S f) ts) (parse_items (S f) ts); [|discriminate|].
  - destruct l0 as [|t r]; [discriminate|]. destruct t; try discriminate.
    specialize (IH r). destruct (parse_sections f r); try discriminate.
    exfalso. apply IH; [simpl in *; lia | reflexivity].
  - exfalso. apply G. simpl in *. lia.
Qed.

Lemma parse_tokens_total : forall ts, parse_tokens ts <> PFuel.
Proof.
  intro ts. unfold parse_tokens.
  pose proof (parse_sections_fuel (S (length ts)) ts) as H.
  destruct (parse_sections (S (length ts)) ts) as [ss| |].
  - destruct (walk_sections ss); discriminate.
  - discriminate.
  - exfalso. apply H; [lia | reflexivity].
Qed.

Lemma parse_total : forall text : str, parse text <> PFuel.
Proof.
  intro text. unfold parse.
  pose proof (lex_fuel (S (length text)) text) as H.
  destruct (lex (S (length text)) text) as [ts| |].
  - apply parse_tokens_total.
  - discriminate.
  - exfalso. apply H; [lia | reflexivity].
Qed.

(* ================================================================== 4: a cycle below the entry is refused *)
Inductive subtree : inc_tree -> inc_tree -> Prop :=
| sub_refl : forall t, subtree t t
| sub_child : forall t' c p own ch, In c ch -> subtree t' c -> subtree t' (IncNode p own ch).

Lemma subtree_resolves : forall fs expand t' t,
    subtree t' t -> resolves fs expand t -> resolves fs expand t'.
Proof.
  intros fs expand t' t H. induction H as [t|t' c p own ch Hin Hs IH]; intro Hr.
  - exact Hr.
  - apply IH. apply resolves_node in Hr. destruct Hr as (_ & _ & Ha).
    apply (all_resolve_in _ _ _ _ Ha Hin).
Qed.

Lemma flat_map_nodup_in : forall ch c,
    NoDup (flat_map tree_paths ch) -> In c ch -> NoDup (tree_paths c).
Proof.
  induction ch as [|d ch IH]; intros c Hn Hin; simpl in *.
  - contradiction.
  - destruct Hin as [E|Hin].
    + subst. apply (NoDup_app_l _ _ _ Hn).
    + apply IH; [|exact Hin]. apply (NoDup_app_r _ _ _ Hn).
Qed.

Lemma subtree_nodup : forall t' t, subtree t' t -> NoDup (tree_paths t) -> NoDup (tree_paths t').
Proof.
  intros t' t H. induction H as [t|t' c p own ch Hin Hs IH]; intro Hn.
  - exact Hn.
  - apply IH. simpl in Hn. inversion Hn; subst. apply (flat_map_nodup_in ch c); assumption.
Qed.

Lemma subtree_paths : forall t' t, subtree t' t -> incl (tree_paths t') (tree_paths t).
Proof.
  intros t' t H. induction H as [t|t' c p own ch Hin Hs IH].
  - apply incl_refl.
  - intros x Hx. simpl. right. apply in_flat_map. exists c. split; [exact Hin | apply IH; exact Hx].
Qed.

Lemma root_in_paths : forall t, In (tree_root t) (tree_paths t).
Proof. intros [p own ch]. simpl. left. reflexivity. Qed.

Lemma includes_child : forall fs expand p own ch g,
    resolves fs expand (IncNode p own ch) -> includes fs expand p g ->
    exists c, In c ch /\ tree_root c = g.
Proof.
  intros fs expand p own ch g Hr (ss & pats & Hfs & Hp & Hin).
  apply resolves_node in Hr. destruct Hr as (Hfs' & (pats' & Hp' & Hroots) & _).
  rewrite Hfs in Hfs'. inversion Hfs'; subst ss.
  rewrite Hp in Hp'. inversion Hp'; subst pats'.
  rewrite <- Hroots in Hin. apply in_map_iff in Hin. destruct Hin as (c & E & Hc).
  exists c. split; assumption.
Qed.

Lemma reach_subtree : forall fs expand x f,
    clos_refl_trans_1n _ (includes fs expand) x f ->
    forall t, tree_root t = x -> resolves fs expand t ->
              exists t', subtree t' t /\ tree_root t' = f.
Proof.
  intros fs expand x f H. induction H as [x|x y z Hxy Hyz IH]; intros t Hroot Hres.
  - exists t. split; [constructor | exact Hroot].
  - destruct t as [p own ch]. simpl in Hroot. subst p.
    destruct (includes_child _ _ _ _ _ _ Hres Hxy) as (c & Hc & Hrc).
    assert (resolves fs expand c) as Hresc.
    { apply resolves_node in Hres. destruct Hres as (_ & _ & Ha).
      apply (all_resolve_in _ _ _ _ Ha Hc). }
    destruct (IH c Hrc Hresc) as (t' & Hs & Hrt).
    exists t'. split; [|exact Hrt]. apply sub_child with c; assumption.
Qed.

Lemma clos_trans_refl_trans : forall (A : Type) (R : relation A) x y,
    clos_trans A R x y -> clos_refl_trans A R x y.
Proof.
  intros A R x y H. induction H as [x y H|x y z _ IH1 _ IH2].
  - apply rt_step. exact H.
  - apply rt_trans with y; assumption.
Qed.

Lemma t1n_first : forall (A : Type) (R : relation A) x z,
    clos_trans_1n A R x z -> exists y, R x y /\ clos_refl_trans A R y z.
Proof.
  intros A R x z H. destruct H as [y H|y z H H'].
  - exists y. split; [exact H | apply rt_refl].
  - exists y. split; [exact H|]. apply clos_trans_refl_trans. apply clos_t1n_trans. exact H'.
Qed.

Lemma cycle_rejected : forall fuel fs expand entry f,
    clos_refl_trans _ (includes fs expand) entry f ->
    clos_trans _ (includes fs expand) f f ->
    forall r, dfs_merge fuel fs expand [] entry <> Ok r.
Proof.
  intros fuel fs expand entry f Hreach Hcyc [m vis] Hd.
  apply dfs_inv in Hd. destruct Hd as [t Ht].
  apply clos_rt_rt1n in Hreach.
  destruct (reach_subtree _ _ _ _ Hreach t (ti_root _ _ _ _ _ _ _ Ht) (ti_res _ _ _ _ _ _ _ Ht))
    as (t' & Hs & Hrt).
  pose proof (subtree_resolves _ _ _ _ Hs (ti_res _ _ _ _ _ _ _ Ht)) as Hres'.
  pose proof (subtree_nodup _ _ Hs (ti_nodup _ _ _ _ _ _ _ Ht)) as Hnd'.
  assert (exists g, includes fs expand f g /\ clos_refl_trans_1n _ (includes fs expand) g f)
    as (g & Hfg & Hgf).
  { apply clos_trans_t1n in Hcyc. destruct (t1n_first _ _ _ _ Hcyc) as (g & Hg1 & Hg2).
    exists g. split; [exact Hg1 | apply clos_rt_rt1n; exact Hg2]. }
  destruct t' as [p own ch]. simpl in Hrt. subst p.
  destruct (includes_child _ _ _ _ _ _ Hres' Hfg) as (c & Hc & Hrc).
  assert (resolves fs expand c) as Hresc.
  { apply resolves_node in Hres'. destruct Hres' as (_ & _ & Ha).
    apply (all_resolve_in _ _ _ _ Ha Hc). }
  destruct (reach_subtree _ _ _ _ Hgf c Hrc Hresc) as (t'' & Hs'' & Hrt'').
  simpl in Hnd'. apply NoDup_cons_iff in Hnd'. destruct Hnd' as [Hnin _].
  apply Hnin. apply in_flat_map. exists c. split; [exact Hc|].
  apply (subtree_paths _ _ Hs''). rewrite <- Hrt''. apply root_in_paths.
Qed.
