(* C09 — message ownership on the pipelined TCP fast path and the asynchronous refresh (Part T). *)
From Coq Require Import List NArith Bool Lia Arith.
From Dae Require Import C09_Spec C09_Model C09_Check C09_ProofsF C09_ProofsK C09_Proofs C09_ProofsC.
From Dae.gen Require Import C09_TcpOwn.
Import ListNotations.

Definition TInv (s : tstate) : Prop :=
  tcache_ok (t_cache s) = true /\
  (forall j o k, nth_error (t_refresh s) j = Some (TRSpawned o k) -> (o < t_next s)%nat /\ key_of (t_heap s o) = k) /\
  (forall j q k, nth_error (t_refresh s) j = Some (TRCopied q k) -> key_of q = k) /\
  (forall x, t_pending s = Some x -> (t_cur s < t_next s)%nat /\ t_heap s (t_cur s) = tq_q x).

Lemma qupd_eq : forall h o q, qupd h o q o = q.
Proof. intros. unfold qupd. rewrite Nat.eqb_refl. auto. Qed.
Lemma qupd_neq : forall h o q o', o' <> o -> qupd h o q o' = h o'.
Proof. intros. unfold qupd. destruct (Nat.eqb o' o) eqn:E; auto. apply Nat.eqb_eq in E. congruence. Qed.

Lemma nth_error_app_last : forall {A} (l : list A) x j y,
  nth_error (l ++ [x]) j = Some y -> nth_error l j = Some y \/ y = x.
Proof.
  intros A l x j y H. destruct (Nat.lt_ge_cases j (length l)) as [L|L].
  - rewrite nth_error_app1 in H by auto. auto.
  - rewrite nth_error_app2 in H by auto. destruct (j - length l)%nat as [|k]; cbn in H.
    + inversion H; auto.
    + destruct k; discriminate.
Qed.

Lemma tstep_inv : forall s e, TInv s -> TInv (tstep true s e).
Proof.
  intros s e I. pose proof I as (C & SP & CP & PE). destruct e as [| |j]; cbn [tstep].
  - destruct (t_pending s) eqn:P; [exact I|].
    destruct (t_todo s) as [|x rest]; [exact I|].
    unfold TInv; cbn [t_heap t_next t_cur t_pending t_todo t_refresh t_cache].
    split; [exact C|split; [|split]].
    + intros j o k H. destruct (SP _ _ _ H) as [L K]. split; [lia|]. rewrite qupd_neq by lia. auto.
    + exact CP.
    + intros y H. inversion H; subst. split; [lia|apply qupd_eq].
  - destruct (t_pending s) as [x|] eqn:P; [|exact I].
    destruct (PE x eq_refl) as [L Hq].
    unfold TInv; cbn [t_heap t_next t_cur t_pending t_todo t_refresh t_cache].
    split; [exact C|split; [|split]].
    + intros j o k H. destruct (tq_stale x); [|eauto].
      apply nth_error_app_last in H as [H|H]; [eauto|]. inversion H; subst. split; auto. rewrite Hq; auto.
    + intros j q k H. destruct (tq_stale x); [|eauto].
      apply nth_error_app_last in H as [H|H]; [eauto|discriminate].
    + intros y H; discriminate.
  - destruct (nth_error (t_refresh s) j) as [[o k|q k|]|] eqn:Hj; try exact I.
    + (* Copy *)
      destruct (SP _ _ _ Hj) as [L K].
      unfold TInv; cbn [t_heap t_next t_cur t_pending t_todo t_refresh t_cache].
      split; [exact C|split; [|split]].
      * intros j' o' k' H. apply nth_error_set_nth_cases in H as [(-> & E & _)|(N & H)]; [discriminate|eauto].
      * intros j' q k' H. apply nth_error_set_nth_cases in H as [(-> & E & _)|(N & H)]; [inversion E; subst; auto|eauto].
      * exact PE.
    + (* resolve and store under the captured key *)
      pose proof (CP _ _ _ Hj) as K.
      unfold TInv; cbn [t_heap t_next t_cur t_pending t_todo t_refresh t_cache].
      split; [|split; [|split]].
      * unfold tcache_ok. apply forallb_kset; auto. cbn [fst snd]. apply ckey_eqb_eq; auto.
      * intros j' o' k' H. apply nth_error_set_nth_cases in H as [(-> & E & _)|(N & H)]; [discriminate|eauto].
      * intros j' q' k' H. apply nth_error_set_nth_cases in H as [(-> & E & _)|(N & H)]; [discriminate|eauto].
      * exact PE.
Qed.

Lemma tfold_inv : forall evs s, TInv s -> TInv (fold_left (tstep true) evs s).
Proof. induction evs; cbn; intros; auto. apply IHevs, tstep_inv; auto. Qed.

Lemma tcache_fresh_ok : forall q0 todo cache evs,
  tcache_ok cache = true -> tcache_ok (t_cache (trun true q0 todo cache evs)) = true.
Proof.
  intros q0 todo cache evs H. unfold trun.
  assert (I : TInv (tinit q0 todo cache)).
  { unfold TInv, tinit; cbn. split; [auto|split; [|split]].
    - intros [|j] o k X; discriminate.
    - intros [|j] q k X; discriminate.
    - intros x X; discriminate. }
  destruct (tfold_inv evs _ I) as (C & _). exact C.
Qed.

(* stated with the flag generated from the source: the proof is valid only while the source allocates a
   fresh message for every pipelined query *)
Lemma C09_tcp_refresh_keeps_own_question_proof : forall q0 todo cache evs,
  tcache_ok cache = true -> tcache_ok (t_cache (trun tcp_fresh_msg_per_query q0 todo cache evs)) = true.
Proof. exact tcache_fresh_ok. Qed.

Lemma C09_tcp_shared_message_refuted_proof : exists q0 todo cache evs,
  tcache_ok cache = true /\ tcache_ok (t_cache (trun false q0 todo cache evs)) = false.
Proof.
  exists wq1, [{| tq_q := wq1; tq_stale := true |}; {| tq_q := wq2; tq_stale := false |}], [((1%N, 1%N), wq1)],
         [TRead; THandle; TRead; TRefresh 0; TRefresh 0].
  vm_compute. split; reflexivity.
Qed.

Print Assumptions C09_tcp_refresh_keeps_own_question_proof.
