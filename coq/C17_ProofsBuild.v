(* C17 — what acceptance by the model of config.New implies. *)
From Coq Require Import List NArith Bool Lia.
From Dae Require Import C17_Spec C17_Schema C17_Build.
From Dae Require Import C17_ProofsMerge.
Import ListNotations.
Open Scope N_scope.

(* what acceptance of a struct section implies *)
Definition struct_items_ok (st : sstruct) (items : list gitem) : Prop :=
  (forall p, In (GParamI p) items -> gp_key p <> [] /\ exists f, find_field (s_fields st) (gp_key p) = Some f) /\
  (forall n sub, In (GSection n sub) items -> exists f, find_field (s_fields st) n = Some f) /\
  (forall c o, In (GRule c o) items -> s_has_rules st = true) /\
  (forall f, In f (s_fields st) -> f_required f = true -> key_assigned items (f_key f) = true).

(* ================================================================== the item loop of a struct section *)
Section Loop.
  Variable schema : list sstruct.
  Variable decodes : N -> str -> bool.
  Variable fu : nat.
  Variable st : sstruct.

  Fixpoint struct_loop (l : list gitem) : option build_error :=
    match l with
    | [] => None
    | GParamI p :: r =>
        match gp_key p with
        | [] => Some EKeyless
        | key =>
            match find_field (s_fields st) key with
            | None => Some EUnknownKey
            | Some f =>
                match (match gp_funcs p with [] => value_error decodes f (gp_val p) | _ => funcs_error f end) with
                | None => struct_loop r
                | e => e
                end
            end
        end
    | GSection n sub :: r =>
        match find_field (s_fields st) n with
        | None => Some EUnknownKey
        | Some f => match section_error schema decodes fu (f_kind f) sub with None => struct_loop r | e => e end
        end
    | GRule _ _ :: r => if s_has_rules st then struct_loop r else Some EBadContext
    end.

  Definition item_ok (i : gitem) : Prop :=
    match i with
    | GParamI p => gp_key p <> [] /\ exists f, find_field (s_fields st) (gp_key p) = Some f
    | GSection n sub =>
        exists f, find_field (s_fields st) n = Some f /\
                  section_error schema decodes fu (f_kind f) sub = None
    | GRule _ _ => s_has_rules st = true
    end.

  Lemma struct_loop_ok : forall items, struct_loop items = None -> forall i, In i items -> item_ok i.
  Proof.
    induction items as [|j r IH]; intros H i Hin.
    - contradiction.
    - destruct j as [c o|p|n sub]; simpl in H.
      + destruct (s_has_rules st) eqn:E; [|discriminate].
        destruct Hin as [<-|Hin]; [exact E | apply IH; assumption].
      + destruct (gp_key p) as [|a k] eqn:Ek; [discriminate|].
        destruct (find_field (s_fields st) (a :: k)) as [f|] eqn:Ef; [|discriminate].
        match type of H with
        | match ?x with _ => _ end = None => destruct x eqn:Ev; [discriminate|]
        end.
        destruct Hin as [<-|Hin]; [| apply IH; assumption].
        simpl. rewrite Ek. split; [discriminate|]. exists f. exact Ef.
      + destruct (find_field (s_fields st) n) as [f|] eqn:Ef; [|discriminate].
        destruct (section_error schema decodes fu (f_kind f) sub) eqn:Es; [discriminate|].
        destruct Hin as [<-|Hin]; [| apply IH; assumption].
        simpl. exists f. split; assumption.
  Qed.
End Loop.

Lemma section_error_struct : forall schema decodes fu sid items,
    section_error schema decodes (S fu) (KStruct sid) items =
    match find_struct schema sid with
    | None => Some EBadValue
    | Some st =>
        match struct_loop schema decodes fu st items with
        | Some e => Some e
        | None =>
            if existsb (fun f => f_required f && negb (key_assigned items (f_key f))) (s_fields st)
            then Some EMissingParam else None
        end
    end.
Proof. reflexivity. Qed.

Lemma existsb_false_in : forall (A : Type) (p : A -> bool) l x,
    existsb p l = false -> In x l -> p x = false.
Proof.
  intros A p l x H Hin. destruct (p x) eqn:E; [|reflexivity].
  assert (existsb p l = true) as T by (apply existsb_exists; exists x; split; assumption).
  congruence.
Qed.

(* acceptance of a struct section, taken apart *)
Lemma struct_accept : forall schema decodes fuel sid st items,
    find_struct schema sid = Some st ->
    section_error schema decodes fuel (KStruct sid) items = None ->
    exists fu, struct_loop schema decodes fu st items = None /\
               existsb (fun f => f_required f && negb (key_assigned items (f_key f))) (s_fields st) = false.
Proof.
  intros schema decodes fuel sid st items Hs H.
  destruct fuel as [|fu]; [discriminate|].
  rewrite section_error_struct in H. rewrite Hs in H.
  destruct (struct_loop schema decodes fu st items) eqn:EL; [discriminate|].
  destruct (existsb _ (s_fields st)) eqn:EE; [discriminate|].
  exists fu. split; [exact EL | reflexivity].
Qed.

Lemma struct_section_contract : forall schema decodes fuel sid st items,
  find_struct schema sid = Some st ->
  section_error schema decodes fuel (KStruct sid) items = None ->
  struct_items_ok st items.
Proof.
  intros schema decodes fuel sid st items Hs H.
  destruct (struct_accept _ _ _ _ _ _ Hs H) as (fu & EL & EE).
  pose proof (struct_loop_ok schema decodes fu st items EL) as Hok.
  split; [|split; [|split]].
  - intros p Hin. exact (Hok _ Hin).
  - intros n sub Hin. destruct (Hok _ Hin) as (f & Hf & _). exists f. exact Hf.
  - intros c o Hin. exact (Hok _ Hin).
  - intros f Hin Hreq. pose proof (existsb_false_in _ _ _ _ EE Hin) as E. cbv beta in E.
    rewrite Hreq in E. simpl in E. destruct (key_assigned items (f_key f)); [reflexivity | discriminate].
Qed.

(* nested sections are checked with the same rules *)
Lemma nested_section_contract : forall schema decodes fuel sid st items n sub f,
  find_struct schema sid = Some st ->
  section_error schema decodes fuel (KStruct sid) items = None ->
  In (GSection n sub) items -> find_field (s_fields st) n = Some f ->
  exists fuel', section_error schema decodes fuel' (f_kind f) sub = None.
Proof.
  intros schema decodes fuel sid st items n sub f Hs H Hin Hf.
  destruct (struct_accept _ _ _ _ _ _ Hs H) as (fu & EL & _).
  destruct (struct_loop_ok schema decodes fu st items EL _ Hin) as (f' & Hf' & He).
  rewrite Hf in Hf'. inversion Hf'; subst f'. exists fu. exact He.
Qed.

(* ================================================================== the top-level loop *)
Section Tops.
  Variable schema : list sstruct.
  Variable decodes : N -> str -> bool.
  Variable secs : list gsection.
  Variable fuel : nat.

  Fixpoint tops_go (ts : list topsec) : option build_error :=
    match ts with
    | [] => None
    | t :: r =>
        match lookup_last secs (t_name t) None with
        | None => tops_go r
        | Some items => match section_error schema decodes fuel (t_kind t) items with None => tops_go r | e => e end
        end
    end.

  Lemma tops_go_ok : forall ts, tops_go ts = None ->
    forall t items, In t ts -> lookup_last secs (t_name t) None = Some items ->
                    section_error schema decodes fuel (t_kind t) items = None.
  Proof.
    induction ts as [|u r IH]; intros H t items Hin Hl.
    - contradiction.
    - simpl in H. destruct Hin as [<-|Hin].
      + rewrite Hl in H. destruct (section_error schema decodes fuel (t_kind u) items); [discriminate|reflexivity].
      + apply IH; [|exact Hin|exact Hl].
        destruct (lookup_last secs (t_name u) None) as [its|]; [|exact H].
        destruct (section_error schema decodes fuel (t_kind u) its); [discriminate|exact H].
  Qed.
End Tops.

Definition build_fuel (secs : list gsection) : nat :=
  S (S (fold_right (fun s a => Nat.max (fold_right (fun x b => Nat.max (depth x) b) O (snd s)) a) O secs)).

Lemma build_eq : forall schema decodes tops gsid secs,
    build schema decodes tops gsid secs =
    if existsb (fun t => t_required t && match lookup_last secs (t_name t) None with None => true | Some _ => false end) tops
    then BErr EMissingSection
    else
      match tops_go schema decodes secs (build_fuel secs) tops with
      | Some e => BErr e
      | None =>
          if existsb (fun s => negb (str_eqb (fst s) include_name) &&
                               negb (existsb (fun t => str_eqb (t_name t) (fst s)) tops)) secs
          then BErr EUnknownSection
          else if bootstrap_bad schema decodes gsid secs then BErr EBadResolver
          else match lookup_last secs routing_name None with
               | Some items => match last_fallback_funcs items None with
                               | Some 1%nat | None => BOk
                               | Some _ => BErr EBadValue
                               end
               | None => BOk
               end
      end.
Proof. reflexivity. Qed.

Lemma build_contract : forall schema decodes tops gsid secs,
  build schema decodes tops gsid secs = BOk ->
  (forall t, In t tops -> t_required t = true -> exists items, lookup_last secs (t_name t) None = Some items) /\
  (forall s, In s secs -> str_eqb (fst s) include_name = true \/ exists t, In t tops /\ str_eqb (t_name t) (fst s) = true) /\
  (forall t items, In t tops -> lookup_last secs (t_name t) None = Some items ->
     exists fuel, section_error schema decodes fuel (t_kind t) items = None).
Proof.
  intros schema decodes tops gsid secs H. rewrite build_eq in H.
  destruct (existsb _ tops) eqn:E1; [discriminate|].
  destruct (tops_go schema decodes secs (build_fuel secs) tops) eqn:E2; [discriminate|].
  match type of H with (if ?b then _ else _) = _ => destruct b eqn:E3 end; [discriminate|]. clear H.
  split; [|split].
  - intros t Hin Hreq. pose proof (existsb_false_in _ _ _ _ E1 Hin) as E. cbv beta in E.
    rewrite Hreq in E. simpl in E.
    destruct (lookup_last secs (t_name t) None) as [items|]; [|discriminate].
    exists items. reflexivity.
  - intros s Hin. pose proof (existsb_false_in _ _ _ _ E3 Hin) as E. cbv beta in E.
    destruct (str_eqb (fst s) include_name); [left; reflexivity|]. right.
    simpl in E. destruct (existsb (fun t => str_eqb (t_name t) (fst s)) tops) eqn:B; [|discriminate].
    apply existsb_exists in B. destruct B as (t & Ht & Hs). exists t. split; assumption.
  - intros t items Hin Hl. exists (build_fuel secs).
    apply (tops_go_ok schema decodes secs (build_fuel secs) tops E2 t items Hin Hl).
Qed.

(* ================================================================== effective values *)
Lemma last_value_unassigned : forall items k,
    (forall p, In (GParamI p) items -> str_eqb (gp_key p) k = false) ->
    forall acc, last_value items k acc = acc.
Proof.
  induction items as [|i r IH]; intros k H acc; simpl.
  - reflexivity.
  - destruct i as [c o|p|n sub].
    + apply IH. intros p Hp. apply H. right. exact Hp.
    + rewrite (H p (or_introl eq_refl)). apply IH. intros q Hq. apply H. right. exact Hq.
    + apply IH. intros p Hp. apply H. right. exact Hp.
Qed.

Lemma last_value_last : forall items p acc,
    last_value (items ++ [GParamI p]) (gp_key p) acc = Some (gp_val p).
Proof.
  induction items as [|i r IH]; intros p acc; simpl.
  - assert (str_eqb (gp_key p) (gp_key p) = true) as E by (apply str_eqb_eq; reflexivity).
    rewrite E. reflexivity.
  - destruct i; apply IH.
Qed.

Lemma default_applied : forall schema sid st f items k,
  find_struct schema sid = Some st -> find_field (s_fields st) k = Some f ->
  (forall p, In (GParamI p) items -> str_eqb (gp_key p) k = false) ->
  effective_string schema sid items k = f_default f.
Proof.
  intros schema sid st f items k Hs Hf H. unfold effective_string. rewrite Hs, Hf.
  apply last_value_unassigned. exact H.
Qed.

Lemma last_assignment_wins : forall schema sid st f items p,
  find_struct schema sid = Some st -> find_field (s_fields st) (gp_key p) = Some f ->
  effective_string schema sid (items ++ [GParamI p]) (gp_key p) = Some (gp_val p).
Proof.
  intros schema sid st f items p Hs Hf. unfold effective_string. rewrite Hs, Hf.
  apply last_value_last.
Qed.

(* ================================================================== the patches of section 'global' *)
Lemma bootstrap_bad_spec : forall schema decodes gsid secs,
    bootstrap_bad schema decodes gsid secs = false ->
    bootstrap_value schema gsid secs = [] \/ decodes ty_addrport (bootstrap_value schema gsid secs) = true.
Proof.
  intros schema decodes gsid secs H. unfold bootstrap_bad in H.
  destruct (bootstrap_value schema gsid secs) as [|c r]; [left; reflexivity|].
  right. destruct (decodes ty_addrport (c :: r)); [reflexivity | discriminate].
Qed.

Lemma build_ok_bootstrap : forall schema decodes tops gsid secs,
    build schema decodes tops gsid secs = BOk -> bootstrap_bad schema decodes gsid secs = false.
Proof.
  intros schema decodes tops gsid secs H. rewrite build_eq in H.
  destruct (existsb _ tops); [discriminate|].
  destruct (tops_go schema decodes secs (build_fuel secs) tops); [discriminate|].
  match type of H with (if ?b then _ else _) = _ => destruct b end; [discriminate|].
  destruct (bootstrap_bad schema decodes gsid secs); [discriminate | reflexivity].
Qed.

Lemma bootstrap_patch : forall schema decodes tops gsid secs,
  build schema decodes tops gsid secs = BOk ->
  bootstrap_value schema gsid secs = [] \/ decodes ty_addrport (bootstrap_value schema gsid secs) = true.
Proof.
  intros schema decodes tops gsid secs H. apply bootstrap_bad_spec.
  apply (build_ok_bootstrap _ _ _ _ _ H).
Qed.

Lemma bootstrap_bad_rejected : forall schema decodes tops gsid secs,
  bootstrap_value schema gsid secs <> [] -> decodes ty_addrport (bootstrap_value schema gsid secs) = false ->
  build schema decodes tops gsid secs <> BOk.
Proof.
  intros schema decodes tops gsid secs Hne Hd H.
  destruct (bootstrap_patch _ _ _ _ _ H) as [E|E]; [exact (Hne E) | congruence].
Qed.

Lemma http_method_kept : forall schema decodes gsid secs,
  decodes ty_http_method (global_string schema gsid secs http_method_name) = true ->
  effective_http_method schema decodes gsid secs = global_string schema gsid secs http_method_name.
Proof. intros schema decodes gsid secs H. unfold effective_http_method. cbv zeta. rewrite H. reflexivity. Qed.

Lemma http_method_fallback : forall schema decodes gsid secs,
  decodes ty_http_method (global_string schema gsid secs http_method_name) = false ->
  effective_http_method schema decodes gsid secs = connect_method.
Proof. intros schema decodes gsid secs H. unfold effective_http_method. cbv zeta. rewrite H. reflexivity. Qed.
