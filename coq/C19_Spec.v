(* C19 — kernel and control plane agree on every shared structure, constant and map key.

   The property in its own terms.  Two parts:

   (A) what it means for two declarations to "have the same layout": a layout is a total size plus the
       list of data-carrying leaves (name, offset, element width, element count); two layouts agree when
       the sizes are equal and the data leaves are pairwise equal in order.  Padding carries no data and
       is not compared (it is implied: same size + same data leaves => same padding bytes).
   (B) what the bytes of each kernel map key ARE for a logical entity (flow tuple, connectivity slot,
       address prefix, address), independent of how either side computes them. *)
From Coq Require Import List NArith Bool String Ascii.
Import ListNotations.
Open Scope N_scope.

(* ------------------------------------------------------------------------------------------ *)
(* (A) layouts                                                                                  *)
(* ------------------------------------------------------------------------------------------ *)

(* scalar kinds; KPad marks explicit padding (Go blank fields, fields named pad* on either side) *)
Inductive skind := KU | KS | KBool | KBE | KEnum | KChar | KPad.

Definition skind_eqb (a b : skind) : bool :=
  match a, b with
  | KU, KU | KS, KS | KBool, KBool | KBE, KBE | KEnum, KEnum | KChar, KChar | KPad, KPad => true
  | _, _ => false
  end.

Record leaf := mkleaf { lf_name : string; lf_off : N; lf_w : N; lf_n : N; lf_k : skind }.
Record layout := mklayout { ly_size : N; ly_align : N; ly_leaves : list leaf }.

Definition is_data (l : leaf) : bool := negb (skind_eqb (lf_k l) KPad).
Definition data_leaves (ly : layout) : list leaf := filter is_data (ly_leaves ly).

(* Kinds that may mirror each other: a C bool is a Go bool or byte, a C char a Go int8/uint8, a C
   big-endian carrier or enum an unsigned integer of the same width.  Width and count must be equal. *)
Definition kind_compat (c g : skind) : bool :=
  match c, g with
  | KPad, _ | _, KPad => false
  | KS, KS => true
  | KS, _ => false
  | _, KS => match c with KChar => true | _ => false end
  | _, _ => true
  end.

Definition leaf_agree (c g : leaf) : bool :=
  String.eqb (lf_name c) (lf_name g) && (lf_off c =? lf_off g) && (lf_w c =? lf_w g) && (lf_n c =? lf_n g)
  && kind_compat (lf_k c) (lf_k g).

Fixpoint leaves_agree (cs gs : list leaf) : bool :=
  match cs, gs with
  | [], [] => true
  | c :: cs', g :: gs' => leaf_agree c g && leaves_agree cs' gs'
  | _, _ => false
  end.

(* the spec's notion of "same layout" *)
Definition layout_agree (c g : layout) : bool :=
  (ly_size c =? ly_size g) && leaves_agree (data_leaves c) (data_leaves g).

(* well-formedness of a layout (what a layout function must guarantee for its answers to mean
   anything): every leaf lies inside the object, is aligned to its width, leaves are in increasing
   non-overlapping order, and the size is a multiple of the alignment. *)
Definition leaf_end (l : leaf) : N := lf_off l + lf_w l * lf_n l.

Fixpoint leaves_sorted_from (lo : N) (ls : list leaf) : Prop :=
  match ls with
  | [] => True
  | l :: r => lo <= lf_off l /\ leaves_sorted_from (leaf_end l) r
  end.

Definition leaf_aligned (l : leaf) : Prop := lf_w l = 0 \/ (lf_off l) mod (lf_w l) = 0.

Record layout_wf (ly : layout) : Prop := {
  wf_sorted : leaves_sorted_from 0 (ly_leaves ly);
  wf_inside : Forall (fun l => leaf_end l <= ly_size ly) (ly_leaves ly);
  wf_aligned : Forall leaf_aligned (ly_leaves ly);
  wf_size : ly_align ly <> 0 -> (ly_size ly) mod (ly_align ly) = 0
}.

(* ------------------------------------------------------------------------------------------ *)
(* (B) key bytes                                                                                *)
(* ------------------------------------------------------------------------------------------ *)

(* little-endian bytes of v in w bytes (least significant first), big-endian = reversed *)
Fixpoint le_bytes (w : nat) (v : N) : list N :=
  match w with
  | O => []
  | S w' => v mod 256 :: le_bytes w' (v / 256)
  end.
Definition be_bytes (w : nat) (v : N) : list N := rev (le_bytes w v).

Definition zeros (n : nat) : list N := repeat 0 n.

(* An address as a packet carries it: IPv4 (32-bit value) or IPv6 (128-bit value). *)
Inductive ipaddr := IP4 (a : N) | IP6 (a : N).

Definition ipaddr_ok (ip : ipaddr) : Prop :=
  match ip with IP4 a => a < 2 ^ 32 | IP6 a => a < 2 ^ 128 end.

(* the 16 bytes every kernel key uses for an address: IPv4 in ::ffff:a.b.c.d form, network order *)
Definition mapped16 (ip : ipaddr) : list N :=
  match ip with
  | IP4 a => zeros 10 ++ [255; 255] ++ be_bytes 4 a
  | IP6 a => be_bytes 16 a
  end.

(* the same as a 128-bit number *)
Definition mapped128 (ip : ipaddr) : N :=
  match ip with IP4 a => 0xffff * 2 ^ 32 + a | IP6 a => a end.

(* flow tuple: the entity behind conn_state_map / routing_handoff_map / fast_sock keys *)
Record flow := mkflow { f_src : ipaddr; f_dst : ipaddr; f_sport : N; f_dport : N; f_proto : N }.

Definition flow_ok (f : flow) : Prop :=
  ipaddr_ok (f_src f) /\ ipaddr_ok (f_dst f) /\ f_sport f < 65536 /\ f_dport f < 65536 /\ f_proto f < 256.

(* struct tuples_key as bytes: sip[16] dip[16] sport dport (network order) l4proto, 3 zero bytes *)
Definition spec_tuple_key (f : flow) : list N :=
  mapped16 (f_src f) ++ mapped16 (f_dst f) ++ be_bytes 2 (f_sport f) ++ be_bytes 2 (f_dport f)
  ++ [f_proto f] ++ zeros 3.

(* connectivity slot: outbound id x health domain x ip version -> index of outbound_connectivity_map *)
Inductive conn_domain := DomTCP | DomDnsUDP | DomDataUDP.
Definition conn_domain_idx (d : conn_domain) : N :=
  match d with DomTCP => 0 | DomDnsUDP => 1 | DomDataUDP => 2 end.
Definition spec_conn_slot (outbound : N) (d : conn_domain) (v6 : bool) : N :=
  outbound * 6 + conn_domain_idx d * 2 + (if v6 then 1 else 0).

(* prefix: address + number of leading bits (0..32 for IPv4, 0..128 for IPv6) *)
Record prefix := mkprefix { p_addr : ipaddr; p_bits : N }.
Definition prefix_ok (p : prefix) : Prop :=
  ipaddr_ok (p_addr p) /\ p_bits p <= (match p_addr p with IP4 _ => 32 | IP6 _ => 128 end).
Definition prefix_bits128 (p : prefix) : N :=
  match p_addr p with IP4 _ => p_bits p + 96 | IP6 _ => p_bits p end.

(* struct lpm_key as bytes: prefixlen as a host-order u32 (little-endian hosts), then the 16 address
   bytes in network order, IPv4 in mapped form *)
Definition spec_lpm_key (p : prefix) : list N := le_bytes 4 (prefix_bits128 p) ++ mapped16 (p_addr p).
(* the key the kernel looks up for a packet address: a full-length key *)
Definition spec_lpm_lookup_key (a : ipaddr) : list N := le_bytes 4 128 ++ mapped16 a.

(* containment on the 128-bit mapped form: the first `bits128` bits coincide *)
Definition prefix_contains (p : prefix) (a : ipaddr) : bool :=
  (mapped128 (p_addr p) / 2 ^ (128 - prefix_bits128 p)) =? (mapped128 a / 2 ^ (128 - prefix_bits128 p)).

(* domain_routing_map key: __be32[4] = the 16 mapped address bytes *)
Definition spec_domain_key (a : ipaddr) : list N := mapped16 a.

(* source-MAC rules: the MAC occupies the last 6 of the 16 address bytes, full-length key *)
Definition spec_mac_key (mac : list N) : list N := le_bytes 4 128 ++ zeros 10 ++ mac.

(* match_set value (the 16-byte union) for each kind of rule parameter *)
Inductive ms_value :=
| MSIndex (i : N)                    (* lpm / domain index: u32 *)
| MSPortRange (lo hi : N)            (* two u16 *)
| MSMask (m : N)                     (* l4proto / ipversion mask: one byte, rest of the enum zero *)
| MSDscp (d : N)
| MSPname (bs : list N).             (* 16 bytes *)

Definition spec_ms_value (v : ms_value) : list N :=
  match v with
  | MSIndex i => le_bytes 4 i ++ zeros 12
  | MSPortRange lo hi => le_bytes 2 lo ++ le_bytes 2 hi ++ zeros 12
  | MSMask m => [m] ++ zeros 15
  | MSDscp d => [d] ++ zeros 15
  | MSPname bs => bs
  end.
