(* C10 — staged reload WITH controller reuse (no proofs in this file).
   ControlPlane.Serve: CommitPreparedDatapath (clearReloadDomainRoutingMap, replayDnsReloadCache) and then
   activatePreparedRuntime -> ReuseDNSControllerFrom.  The new generation has a fresh tracker and a cleared
   kernel map; replayDnsReloadCache hands the snapshot (a clone of every cache entry) to RestoreReloadCache
   of a temporary controller, whose worker calls cacheAccessCallback(entry) for every delivered task; then
   the new generation adopts the OLD controller: the cache object stays (same entries, same pointers).
   So: cache unchanged, new generation of tracker calls = one update per snapshot entry.
   `filter` is whether replayDnsReloadCache drops expired entries (Deadline not after now) from the snapshot
   first - extracted from the source by shape (gen/C10_ReplayFilter.v); `sent` as in OReload.
   Modelled for an unchanged rule set on the cached names: the clone's bitmap (matchDomainBitmap of the new
   generation) equals the bitmap of the live entry.
   The operation is kept outside ctl_op (C10_Ctl_Model.v) so that files depending on ctl_op are unaffected. *)
From Coq Require Import List NArith Bool.
From Dae Require Import C10_Spec C10_Model C10_Cache C10_Ctl_Model.
Import ListNotations.
Open Scope N_scope.

Inductive rop :=
| RCtl (o : ctl_op)
| RReuse (filter : bool) (now : N) (sent : ckey -> bool).

Definition replayed (filter : bool) (now : N) (sent : ckey -> bool) (k : ckey) (e : centry) : bool :=
  sent k && negb (filter && (ce_deadline e <=? now)).       (* !cache.Deadline.After(now) -> dropped *)

Definition reuse_work (filter : bool) (now : N) (sent : ckey -> bool) (c : cache) : work :=
  fold_left (fun w ke => (c_store (fst w) (fst ke) (snd ke),
                          snd w ++ (if replayed filter now sent (fst ke) (snd ke)
                                    then access_callback (snd ke) else [])))
            c ([], []).

Definition reuse_step (st : ctl) (filter : bool) (now : N) (sent : ckey -> bool) : ctl :=
  let w := reuse_work filter now sent (c_cache st) in
  let tk := fold_left step (map op_of_cache_op (snd w)) (new_tracker, empty_kmap) in
  {| c_cache := fst w; c_rules := c_rules st; c_tick := c_tick st + 1;
     c_tracker := fst tk; c_kmap := snd tk; c_calls := snd w |}.

Definition rstep (cfg : config) (st : ctl) (r : rop) : ctl :=
  match r with
  | RCtl o => ctl_step cfg st o
  | RReuse filter now sent => reuse_step st filter now sent
  end.

Definition rrun (cfg : config) (rules : N -> N) (rops : list rop) : ctl :=
  fold_left (rstep cfg) rops (ctl_init rules).

(* every re-sync task was delivered and the replay drops expired entries iff f *)
Definition rdelivered (f : bool) (r : rop) : Prop :=
  match r with
  | RCtl o => resync_delivered o
  | RReuse f' _ sent => f' = f /\ forall k, sent k = true
  end.
