(* C13 — the two recorded race windows of udp_task_pool.go as decidable predicates on schedules
   (definitions only, no proofs).

   claim_hit: the convoy's claiming CAS (pc CChecked, refs = 0) succeeds although a task has been
              enqueued since its idle check (channel or overflow non-empty)            [finding F7]
   pop_hit:   the convoy pops the overflow list (pc CPopOver) although the channel, which it polled
              empty one step earlier, has been refilled: the overflow task overtakes older channel
              tasks                  [finding F14; repaired in 0813a51: with the extracted constant
              pop_overflow_rechecks_channel = true the window is closed and pop_hit is constantly false] *)
From Coq Require Import List Arith Bool ZArith.
From Dae Require Import C13_Spec C13_Model.
From Dae.gen Require Import C13_Consts.
Import ListNotations.

Definition nonempty {A} (l : list A) : bool := match l with [] => false | _ => true end.

Definition claim_hit (s : state) (l : label) : bool :=
  match l with
  | LConv q _ =>
      match nth_error (st_qs s) q with
      | Some Q => match q_pc Q with
                  | CChecked => (q_refs Q =? 0)%Z && (nonempty (chan s (q_ch Q)) || nonempty (q_over Q))
                  | _ => false
                  end
      | None => false
      end
  | _ => false
  end.

Definition pop_hit (s : state) (l : label) : bool :=
  match l with
  | LConv q _ =>
      match nth_error (st_qs s) q with
      | Some Q => match q_pc Q with
                  | CPopOver => negb pop_overflow_rechecks_channel && nonempty (q_over Q) && nonempty (chan s (q_ch Q))
                  | _ => false
                  end
      | None => false
      end
  | _ => false
  end.

(* the schedule never takes a step inside either window *)
Fixpoint race_free_from (cap : nat) (s : state) (sched : list label) : bool :=
  match sched with
  | [] => true
  | l :: r => negb (claim_hit s l) && negb (pop_hit s l) && race_free_from cap (step cap s l) r
  end.

Definition race_free (cap : nat) (keys : list nat) (sched : list label) : bool :=
  race_free_from cap (init keys) sched.
