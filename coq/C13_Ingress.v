(* C13 — model of control/udp_ingress_batch.go (udpIngressBatchReader): ownership of the per-packet ingress
   buffers at the ReadBatch -> Take -> EmitTask hand-off.  No proofs in this file.

   Buffers are identified by numbers; pool.GetFullCap always yields a buffer nobody owns (modelled as a fresh
   number), Put is logged.  A slot has the two references of the Go struct: buf (the owned buffer) and
   buffers[0] (what the next ReadBatch of the socket writes into), plus what the last ReadBatch delivered for
   it (payload, address valid).  A task owns the buffer Take handed out until it runs; running a task reads
   the payload that is in its buffer at that moment and puts the buffer back.
   The reader goroutine calls ReadBatch / Take / Close sequentially; tasks run at any time in between: an
   interleaving is a list of operations.

   Two facts about the source are extracted by the translator (gen/C13_Consts.v):
     take_clears_buf      Take clears slot.buf (and buffers[0]) on every exit, so that the next ReadBatch
                          allocates a new buffer for the slot (ReadBatch allocates only when slot.buf == nil)
     ingress_guard_on_buf Take and Close decide by slot.buf (not by buffers[0]) whether the slot holds a buffer *)
From Coq Require Import List Arith Bool.
From Dae Require Import C13_Model.
Import ListNotations.

Record islot := mkIS { s_buf : option nat; s_b0 : option nat; s_msg : option (nat * bool) }.
Record itask := mkIT { t_buf : nat; t_expect : nat; t_done : bool; t_handled : nat }.

Record istate := mkI {
  i_slots : list islot;
  i_content : nat -> nat;          (* buffer -> payload currently stored in it *)
  i_next : nat;                    (* next fresh buffer *)
  i_tasks : list itask;            (* in Take order *)
  i_puts : list nat;               (* buffers returned to the pool, oldest first *)
  i_taken : list nat }.            (* payloads of the datagrams that were taken (valid address), in Take order *)

Inductive iop :=
| IRead (dgs : list (nat * bool))  (* ReadBatch: datagram j (payload, address valid) arrives in slot j *)
| ITake (i : nat)
| IRun (t : nat)
| IClose.

Definition i_init (nslots : nat) : istate :=
  mkI (repeat (mkIS None None None) nslots) (fun _ => 0) 0 [] [] [].

Definition cset (f : nat -> nat) (b v : nat) : nat -> nat := fun b' => if b' =? b then v else f b'.

(* ReadBatch, first half: every slot gets a buffer (a new one only when slot.buf == nil), buffers[0] := buf *)
Fixpoint attach (slots : list islot) (next : nat) : list islot * nat :=
  match slots with
  | [] => ([], next)
  | s :: r =>
      let '(b, next') := match s_buf s with Some b => (b, next) | None => (next, S next) end in
      let '(r', n'') := attach r next' in
      (mkIS (Some b) (Some b) None :: r', n'')
  end.

(* ReadBatch, second half: the socket writes datagram j into buffers[0] of slot j *)
Fixpoint deliver (slots : list islot) (dgs : list (nat * bool)) (content : nat -> nat) : list islot * (nat -> nat) :=
  match slots, dgs with
  | s :: r, d :: ds =>
      let content' := match s_b0 s with Some b => cset content b (fst d) | None => content end in
      let '(r', c'') := deliver r ds content' in
      (mkIS (s_buf s) (s_b0 s) (Some d) :: r', c'')
  | _, _ => (slots, content)
  end.

Definition istep (clears guard_buf : bool) (s : istate) (o : iop) : istate :=
  match o with
  | IRead dgs =>
      let '(sl, next) := attach (i_slots s) (i_next s) in
      let '(sl', content) := deliver sl dgs (i_content s) in
      mkI sl' content next (i_tasks s) (i_puts s) (i_taken s)
  | ITake i =>
      match nth_error (i_slots s) i with
      | None => s
      | Some sl =>
          match (if guard_buf then s_buf sl else s_b0 sl), s_buf sl with
          | Some _, Some b =>
              match s_msg sl with
              | Some (payload, true) =>
                  let sl' := if clears then mkIS None None (s_msg sl) else mkIS (s_buf sl) None (s_msg sl) in
                  mkI (upd (i_slots s) i sl') (i_content s) (i_next s) (i_tasks s ++ [mkIT b payload false 0]) (i_puts s)
                      (i_taken s ++ [payload])
              | _ =>
                  (* no valid source address: the buffer goes back to the pool, the slot is detached *)
                  mkI (upd (i_slots s) i (mkIS None None (s_msg sl))) (i_content s) (i_next s) (i_tasks s) (i_puts s ++ [b])
                      (i_taken s)
              end
          | _, _ => s
          end
      end
  | IRun t =>
      match nth_error (i_tasks s) t with
      | Some tk =>
          if t_done tk then s
          else mkI (i_slots s) (i_content s) (i_next s)
                   (upd (i_tasks s) t (mkIT (t_buf tk) (t_expect tk) true (i_content s (t_buf tk))))
                   (i_puts s ++ [t_buf tk]) (i_taken s)
      | None => s
      end
  | IClose =>
      let puts := flat_map (fun sl => match (if guard_buf then s_buf sl else s_b0 sl), s_buf sl with
                                      | Some _, Some b => [b] | _, _ => [] end) (i_slots s) in
      mkI (map (fun sl => mkIS None None (s_msg sl)) (i_slots s)) (i_content s) (i_next s) (i_tasks s) (i_puts s ++ puts) (i_taken s)
  end.

Definition irun (clears guard_buf : bool) (nslots : nat) (ops : list iop) : istate :=
  fold_left (istep clears guard_buf) ops (i_init nslots).

(* the property on a state *)
Definition pending_bufs (s : istate) : list nat :=
  flat_map (fun tk => if t_done tk then [] else [t_buf tk]) (i_tasks s).
Definition slot_bufs (s : istate) : list nat :=
  flat_map (fun sl => match s_buf sl with Some b => [b] | None => [] end) (i_slots s).
Definition at_rest (s : istate) : bool :=
  forallb (fun sl => match s_buf sl with None => true | Some _ => false end) (i_slots s) && forallb t_done (i_tasks s).

Definition ingress_ok (s : istate) : Prop :=
  NoDup (i_puts s)                                              (* no buffer is returned twice *)
  /\ NoDup (pending_bufs s ++ slot_bufs s)                      (* no aliasing: one owner per buffer *)
  /\ (forall b, In b (pending_bufs s ++ slot_bufs s) -> ~ In b (i_puts s))   (* an owned buffer is not in the pool *)
  /\ (forall tk, In tk (i_tasks s) -> t_done tk = true -> t_handled tk = t_expect tk)   (* a task handles its own datagram *)
  /\ map t_expect (i_tasks s) = i_taken s                       (* one task per taken datagram, in order *)
  /\ (at_rest s = true -> forall b, b < i_next s -> In b (i_puts s)).        (* at rest every buffer is back *)
