(* C16 — lemmas. *)
From Coq Require Import List NArith ZArith Bool Lia.
From Dae Require Import C16_Spec C16_Model.
From Dae.gen Require Import C16_Consts.
Import ListNotations.
Open Scope N_scope.

Lemma C16_constants_documented_proof :
  thr_default = 1 /\ thr_udp_probe = 3 /\ thr_tcp_traffic = 10 /\ thr_udp_traffic = 50 /\ max_consecutive_failures = 3.
Proof. repeat split; reflexivity. Qed.

(* ---------- indices ---------- *)
Lemma dom_eqb_eq : forall a b, dom_eqb a b = true <-> a = b.
Proof. intros a b; split; [destruct a, b; cbv; congruence | intros ->; destruct b; reflexivity]. Qed.
Lemma dom_eqb_refl : forall a, dom_eqb a a = true.
Proof. destruct a; reflexivity. Qed.
Lemma canon_index : forall d, canon (index_of d) = index_of d.
Proof. destruct d; reflexivity. Qed.
Lemma index_eqb : forall a b, (index_of a =? index_of b) = dom_eqb a b.
Proof. destruct a, b; reflexivity. Qed.
Lemma threshold_doc : forall d t, threshold d t = if t then k_traffic d else k_probe d.
Proof. destruct d, t; reflexivity. Qed.
Lemma escalation_all : escalation_order = all_doms.
Proof. reflexivity. Qed.
Lemma maxfail_doc : max_consecutive_failures = k_deaths.
Proof. reflexivity. Qed.

(* ---------- the alive sets do not touch health state ---------- *)
Definition health_eq (m m' : mstate) : Prop :=
  m_d m' = m_d m /\ m_tracker m' = m_tracker m /\ m_supp m' = m_supp m /\ m_window m' = m_window m /\ m_tlog m' = m_tlog m.

Lemma inform_group_health : forall cfg m gi g n d alive l, health_eq m (inform_group cfg m gi g n d alive l).
Proof.
  intros. unfold inform_group.
  destruct (keeps_sets g && is_member n (g_members g)); [|repeat split].
  destruct (notify _ _ _ _ _ _ _) as [a' cbs]. repeat split.
Qed.
Lemma inform_groups_health : forall cfg gs m gi n d alive l, health_eq m (inform_groups cfg m gi gs n d alive l).
Proof.
  induction gs as [|g r IH]; intros; cbn [inform_groups]; [repeat split|].
  destruct (inform_group_health cfg m gi g n d alive l) as (A & B & C & D & E).
  destruct (IH (inform_group cfg m gi g n d alive l) (gi + 1) n d alive l) as (A' & B' & C' & D' & E').
  repeat split; congruence.
Qed.
Lemma inform_health : forall cfg m n d alive l, health_eq m (inform cfg m n d alive l).
Proof. intros; apply inform_groups_health. Qed.

(* ---------- refinement relation ---------- *)
Definition R (m : mstate) (s : sstate) : Prop :=
  (forall n d, d_alive (m_d m n) d = sa (s_dom s n d)) /\
  (forall n d, sa (s_dom s n d) = true ->
     md_fail (m_d m n) (index_of d) = sp (s_dom s n d) /\ md_traffic (m_d m n) (index_of d) = st (s_dom s n d)) /\
  (forall a, m_tracker m a = s_deaths s a) /\ m_supp m = s_supp s /\ m_window m = s_window s.

Lemma R_suppressed : forall m s, R m s -> m_suppressed m = suppressed s.
Proof. intros m s (_ & _ & _ & A & B). unfold m_suppressed, suppressed. now rewrite A, B. Qed.

(* reading a dialer after a point update *)
Lemma upd_same : forall A (f : N -> A) k v, upd f k v k = v.
Proof. intros; unfold upd; now rewrite N.eqb_refl. Qed.
Lemma upd_other : forall A (f : N -> A) k v x, (x =? k) = false -> upd f k v x = f x.
Proof. intros; unfold upd; now rewrite H. Qed.

Lemma point_alive : forall x d d' v f t,
  d_alive {| md_alive := upd (md_alive x) (canon (index_of d)) v; md_fail := f; md_traffic := t |} d'
  = if dom_eqb d' d then v else d_alive x d'.
Proof.
  intros. unfold d_alive; cbn [md_alive]. rewrite !canon_index. unfold upd. now rewrite index_eqb.
Qed.

(* generic step lemma: replacing the state of (n, d) on both sides *)
Lemma R_point : forall m s n d v f t x' sx,
  R m s ->
  md_alive x' = upd (md_alive (m_d m n)) (canon (index_of d)) v ->
  (forall d', dom_eqb d' d = false -> md_fail x' (index_of d') = md_fail (m_d m n) (index_of d')
                                    /\ md_traffic x' (index_of d') = md_traffic (m_d m n) (index_of d')) ->
  md_fail x' (index_of d) = f -> md_traffic x' (index_of d) = t ->
  sa sx = v -> (v = true -> sp sx = f /\ st sx = t) ->
  R (set_dialer m n x') (s_set s n d sx).
Proof.
  intros m s n d v f t x' sx (A & B & C & D & E) Hal Hoth Hf Ht Hv Hc.
  unfold R, set_dialer, s_set; cbn [m_d m_tracker m_supp m_window s_dom s_deaths s_supp s_window].
  split; [|split; [|split; [|split]]]; try assumption.
  - intros n' d'. unfold upd at 1. destruct (n' =? n) eqn:En; cbn [andb].
    + apply N.eqb_eq in En; subst n'.
      unfold d_alive. rewrite Hal, !canon_index. unfold upd. rewrite index_eqb.
      destruct (dom_eqb d' d); [now symmetry|]. rewrite <- canon_index. apply A.
    + apply A.
  - intros n' d' Hs. unfold upd at 1 2. destruct (n' =? n) eqn:En; cbn [andb] in *.
    + apply N.eqb_eq in En; subst n'. destruct (dom_eqb d' d) eqn:Ed.
      * apply dom_eqb_eq in Ed; subst d'. rewrite Hf, Ht. destruct Hc as (-> & ->); [congruence|]. now split.
      * destruct (Hoth d' Ed) as (-> & ->). now apply B.
    + now apply B.
Qed.

(* ---------- one-step theorems over arbitrary histories ---------- *)
Lemma m_run_snoc : forall cfg h e, m_run cfg (h ++ [e]) = m_step cfg (m_run cfg h) e.
Proof. intros; unfold m_run; now rewrite fold_left_app. Qed.

Lemma C16_forced_immediate_proof : forall cfg h n d ign l,
  model_alive cfg (h ++ [EFail n d KForced ign l]) n d = false.
Proof.
  intros. unfold model_alive. rewrite m_run_snoc. cbn [m_step]. unfold mark_forced.
  set (m := clear_logs (m_run cfg h)).
  match goal with |- d_alive (m_d (inform cfg ?M n d false l) n) d = false =>
    destruct (inform_health cfg M n d false l) as (E & _); rewrite E end.
  destruct (md_alive (m_d m n) (canon (index_of d)));
    cbn [log_transition set_dialer m_d]; rewrite upd_same; rewrite point_alive; now rewrite dom_eqb_refl.
Qed.

Lemma mark_avail_point : forall cfg m n d l,
  let m' := mark_avail cfg m n d l in
  d_alive (m_d m' n) d = true /\ md_fail (m_d m' n) (index_of d) = 0 /\ md_traffic (m_d m' n) (index_of d) = 0
  /\ (c_addr cfg n <> 0 -> m_tracker m' (c_addr cfg n) = 0).
Proof.
  intros. subst m'. unfold mark_avail.
  match goal with |- context [inform cfg ?M n d true l] =>
    destruct (inform_health cfg M n d true l) as (E & T & _); rewrite E, T end.
  destruct (c_addr cfg n =? 0) eqn:Ea; destruct (md_alive (m_d m n) (canon (index_of d)));
    cbn [log_transition set_dialer set_tracker m_d m_tracker]; rewrite upd_same; rewrite point_alive, dom_eqb_refl;
    cbn [md_fail md_traffic]; rewrite !upd_same; repeat split; try reflexivity; intros Hne;
    try (apply N.eqb_eq in Ea; contradiction); apply upd_same.
Qed.

Lemma C16_success_revives_and_clears_proof : forall cfg h n d l,
  let m := m_run cfg (h ++ [EProbeOk n d l]) in
  d_alive (m_d m n) d = true /\ md_fail (m_d m n) (index_of d) = 0 /\ md_traffic (m_d m n) (index_of d) = 0
  /\ (c_addr cfg n <> 0 -> m_tracker m (c_addr cfg n) = 0).
Proof. intros. subst m. rewrite m_run_snoc. cbn [m_step]. apply mark_avail_point. Qed.

Lemma C16_data_udp_traffic_revives_proof : forall cfg h n d l,
  is_data d = true ->
  let m := m_run cfg (h ++ [ETrafficOk n d l]) in
  d_alive (m_d m n) d = true /\ md_traffic (m_d m n) (index_of d) = 0.
Proof.
  intros cfg h n d l Hd m. subst m. rewrite m_run_snoc. cbn [m_step]. unfold traffic_ok. rewrite Hd. cbn [andb].
  set (m := clear_logs (m_run cfg h)).
  set (x' := if md_traffic (m_d m n) (index_of d) =? 0 then m_d m n else _).
  assert (Hx : m_d (set_dialer m n x') n = x') by (cbn [set_dialer m_d]; apply upd_same).
  destruct (md_alive x' (canon (index_of d))) eqn:Ea; cbn [negb].
  - rewrite Hx. split; [exact Ea|]. subst x'.
    destruct (md_traffic (m_d m n) (index_of d) =? 0) eqn:Et; [now apply N.eqb_eq in Et|]. cbn [md_traffic]. apply upd_same.
  - destruct (mark_avail_point cfg (set_dialer m n x') n d l) as (A & _ & C & _). now split.
Qed.

Definition same_health (m m' : mstate) : Prop :=
  m_d m' = m_d m /\ m_tracker m' = m_tracker m /\ m_sets m' = m_sets m /\ m_bits m' = m_bits m
  /\ m_supp m' = m_supp m /\ m_window m' = m_window m.

Lemma C16_ignorable_never_counts_proof : forall cfg h n d k l,
  k <> KForced ->
  same_health (m_run cfg h) (m_run cfg (h ++ [EFail n d k true l])) /\ m_tlog (m_run cfg (h ++ [EFail n d k true l])) = [].
Proof. intros. rewrite m_run_snoc. destruct k; try congruence; cbn; repeat split. Qed.

Lemma C16_suppressed_never_counts_proof : forall cfg h n d k ign l,
  k <> KForced -> m_suppressed (m_run cfg h) = true ->
  same_health (m_run cfg h) (m_run cfg (h ++ [EFail n d k ign l])) /\ m_tlog (m_run cfg (h ++ [EFail n d k ign l])) = [].
Proof.
  intros cfg h n d k ign l Hk Hs. rewrite m_run_snoc.
  assert (Hs' : m_suppressed (clear_logs (m_run cfg h)) = true) by exact Hs.
  destruct k; try congruence; destruct ign; cbn [m_step]; unfold mark_unavail; try rewrite Hs'; cbn; repeat split.
Qed.

(* ---------- the reload floor: full statement and its refutation ---------- *)
Definition wit_cfg1 : config :=
  {| c_addr := fun _ => 1; c_groups := [ {| g_policy := PMin; g_members := [(0, 0%Z)] |} ]; c_tol := 0%Z |}.

Fixpoint groups_from (i : N) (gs : list group) : list (N * group) :=
  match gs with [] => [] | g :: r => (i, g) :: groups_from (i + 1) r end.
Definition m_floor_ok (cfg : config) (m : mstate) : bool :=
  forallb (fun ge => negb (keeps_sets (snd ge)) || Nat.eqb (length (g_members (snd ge))) 0
                     || forallb (fun d => negb (Nat.eqb (length (as_entries (m_sets m (fst ge) d))) 0)) all_doms)
          (groups_from 0 (c_groups cfg)).
Definition C16_reload_floor_full_def : Prop :=
  forall cfg h l, m_floor_ok cfg (m_run cfg (h ++ [EReload l])) = true.

Definition wit_cfg2 : config :=
  {| c_addr := fun _ => 0;
     c_groups := [ {| g_policy := PMin; g_members := [(0, 0%Z); (1, 0%Z)] |}; {| g_policy := PMin; g_members := [(0, 0%Z); (2, 0%Z)] |} ];
     c_tol := 0%Z |}.
Definition wit_h_floor : list ev := [EFail 0 Tcp6 KCheck false []; EFail 1 Tcp6 KCheck false []; EReload []].

Lemma C16_reload_floor_refuted_proof :
  as_entries (m_sets (m_run wit_cfg2 wit_h_floor) 0 Tcp6) = [] /\ ~ C16_reload_floor_full_def.
Proof.
  split; [vm_compute; reflexivity|].
  intro H. specialize (H wit_cfg2 [EFail 0 Tcp6 KCheck false []; EFail 1 Tcp6 KCheck false []] []).
  vm_compute in H. discriminate.
Qed.

(* groups that share no node: nothing proved yet (open obligation C16_reload_floor_partial) *)

Lemma C16_nonvacuous_proof :
  (* three DNS-UDP probe failures kill, two do not; a success in between restarts the count; 50/49 traffic failures *)
  model_alive wit_cfg1 (repeat (EFail 0 DnsUdp4 KCheck false []) 2) 0 DnsUdp4 = true
  /\ model_alive wit_cfg1 (repeat (EFail 0 DnsUdp4 KCheck false []) 3) 0 DnsUdp4 = false
  /\ model_alive wit_cfg1 (repeat (EFail 0 DnsUdp4 KCheck false []) 2 ++ [EProbeOk 0 DnsUdp4 []] ++ repeat (EFail 0 DnsUdp4 KCheck false []) 2) 0 DnsUdp4 = true
  /\ model_alive wit_cfg1 (repeat (EFail 0 DataUdp6 KTraffic false []) 49) 0 DataUdp6 = true
  /\ model_alive wit_cfg1 (repeat (EFail 0 DataUdp6 KTraffic false []) 50) 0 DataUdp6 = false
  /\ model_alive wit_cfg1 [ESuppBegin; EFail 0 Tcp4 KCheck false []] 0 Tcp4 = true
  (* three death transitions on one address take every type of the node down *)
  /\ map (model_alive wit_cfg1 [EFail 0 Tcp4 KCheck false []; EFail 0 Tcp6 KCheck false []; EFail 0 DnsUdp4 KForced false []; EProbeOk 0 DnsUdp4 []] 0) all_doms
     = [false; false; true; true; true; true]
  /\ map (model_alive wit_cfg1 [EFail 0 Tcp4 KCheck false []; EFail 0 Tcp6 KCheck false []; EFail 0 Tcp4 KCheck false []; EProbeOk 0 Tcp4 []; EFail 0 Tcp4 KCheck false []; EFail 0 Tcp4 KTraffic false []] 0) all_doms
     = [false; false; true; true; true; true]
  /\ map (model_alive wit_cfg1 (repeat (EFail 0 Tcp4 KTraffic false []) 10 ++ [EFail 0 Tcp6 KCheck false []] ++ repeat (EFail 0 DnsUdp6 KTrans false []) 3) 0) all_doms
     = [false; false; false; false; false; false].
Proof. vm_compute. repeat split. Qed.

(* ---------- shared definitions for the history theorems (statements live in C16_Props.v) ---------- *)
Definition no_reload (e : ev) : bool := match e with EReload _ => false | _ => true end.
Definition s_run_from (cfg : config) (s : sstate) (h : list ev) : sstate := fold_left (fun s e => fst (s_step cfg s e)) h s.
Definition m_run_from (cfg : config) (m : mstate) (h : list ev) : mstate := fold_left (m_step cfg) h m.

(* the abstraction of a model state (counts read from the code's counters) *)
Definition abs_state (m : mstate) : sstate :=
  {| s_dom := fun n d => {| sa := d_alive (m_d m n) d; sp := md_fail (m_d m n) (index_of d); st := md_traffic (m_d m n) (index_of d) |};
     s_deaths := m_tracker m; s_supp := m_supp m; s_window := m_window m |}.

(* consecutive counted failures of one source, as the spec keeps them *)
Definition run_of (x : sdom) (traffic : bool) : N := if traffic then st x else sp x.
Definition k_of (d : dom) (traffic : bool) : N := if traffic then k_traffic d else k_probe d.

(* a callback log is valid from a0 to a1 when every entry is an actual flip of the flag it names and the
   flags reached at the end are a1 *)
Fixpoint walk_log (cur : N -> dom -> bool) (l : tlog) : option (N -> dom -> bool) :=
  match l with
  | [] => Some cur
  | (n, d, b) :: r =>
      if Bool.eqb (cur n d) b then None
      else walk_log (fun n' d' => if (n' =? n) && dom_eqb d' d then b else cur n' d') r
  end.
Definition valid_log (a0 : N -> dom -> bool) (l : tlog) (a1 : N -> dom -> bool) : Prop :=
  exists f, walk_log a0 l = Some f /\ forall n d, f n d = a1 n d.

(* the connectivity slot of a latency-policy group, from alive flags *)
Definition bit_of_alive (al : N -> dom -> bool) (g : group) (d : dom) : bool :=
  Nat.eqb (length (g_members g)) 0 || existsb (fun x => al x d) (map fst (g_members g)).

Definition groups_disjoint (cfg : config) : Prop :=
  forall i j gi gj x, i <> j -> nth_error (c_groups cfg) i = Some gi -> nth_error (c_groups cfg) j = Some gj ->
    In x (map fst (g_members gi)) -> ~ In x (map fst (g_members gj)).

(* the key function of the code (constants from the source) is the layout the kernel reads, for every outbound id *)
Lemma C16_slot_layout_proof : forall o d, conn_key o d = spec_slot o d.
Proof.
  intros o d. unfold conn_key, spec_slot, conn_slots_per_domain, conn_domains, conn_dom_tcp, conn_dom_dnsudp, conn_dom_dataudp.
  destruct d; lia.
Qed.
Lemma C16_slot_injective_proof : forall o d o' d', spec_slot o d = spec_slot o' d' -> o = o' /\ d = d'.
Proof. intros o d o' d'. unfold spec_slot. destruct d, d'; intros H; split; try reflexivity; lia. Qed.
