(* C13 — all-schedule theorems on the finer endpoint model (rename to C13_PropsFine.v once
   coq/C13_EpFineProofs.v closes the two lemmas; tools/c13.py picks the file up automatically). *)
From Coq Require Import List Arith Bool.
From Dae Require Import C13_Spec C13_Model C13_EpModel C13_EpFine C13_EpFineProofs.
Import ListNotations.

(* For every number of GetOrCreate callers and EVERY interleaving of their steps (between the yield points
   and the creation mutex) with writes, tuple registrations, health invalidations, resets, janitor sweeps and
   clock steps: a dialled endpoint's transport is closed at most once, exactly when the endpoint is closed,
   and once all callers have returned an endpoint that is not the pool's entry for its key has been closed —
   also endpoints removed from the map as generation-stale by a slow path. *)
Theorem C13_fine_close_once :
  forall thr sched e u,
    let s := frun thr sched in
    nth_error (p_eps (f_p s)) e = Some u -> u_failed u = false ->
    u_conn_closes u <= 1
    /\ (u_conn_closes u = 1 <-> u_closed u = true)
    /\ (fquiescent s = true -> p_pool (f_p s) (u_key u) <> Some e -> u_conn_closes u = 1).
Proof. exact C13_fine_close_once_proof. Qed.
Print Assumptions C13_fine_close_once.
