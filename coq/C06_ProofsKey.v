(* C06 — proofs for the QUIC long-header key / fingerprint parsing (C06_Key.v) against the
   structural spec (spec_fingerprint / spec_key_dcid in C06_Spec.v). *)
From Coq Require Import List NArith Bool Arith Lia ZifyBool ZifyN ZifyNat.
From Dae.gen Require Import C06_Extracted.
From Dae Require Import C06_Spec C06_Model C06_Key C06_Statements.
Import ListNotations.
Open Scope N_scope.

(* ------------------------------------------------------------------ small list facts *)
Lemma key_blen_cons : forall (a : N) (l : bytes), blen (a :: l) = 1 + blen l.
Proof. intros; unfold blen; cbn [length]; lia. Qed.

Lemma key_blen_cons6 : forall (a0 a1 a2 a3 a4 a5 : N) (l : bytes),
  blen (a0 :: a1 :: a2 :: a3 :: a4 :: a5 :: l) = 6 + blen l.
Proof. intros; unfold blen; cbn [length]; lia. Qed.

Lemma key_skipn_cons : forall (m : nat) (l : bytes) (x : N) (r : bytes),
  skipn m l = x :: r ->
  nth m l 0 = x /\ length l = (m + 1 + length r)%nat /\ skipn (S m) l = r.
Proof.
  induction m as [|m IH]; intros l x r H.
  - cbn [skipn] in H. subst l. cbn [nth length skipn]. split; [reflexivity | split; [lia | reflexivity]].
  - destruct l as [|a l].
    + cbn [skipn] in H. discriminate.
    + cbn [skipn] in H. destruct (IH _ _ _ H) as (H1 & H2 & H3).
      split; [| split].
      * cbn [nth]. exact H1.
      * cbn [length]. lia.
      * change (skipn (S (S m)) (a :: l)) with (skipn (S m) l). exact H3.
Qed.

Lemma key_skipn_nil : forall (m : nat) (l : bytes), skipn m l = [] -> (length l <= m)%nat.
Proof.
  induction m as [|m IH]; intros l H.
  - cbn [skipn] in H. subst l. cbn [length]. lia.
  - destruct l as [|a l].
    + cbn [length]. lia.
    + cbn [skipn] in H. apply IH in H. cbn [length]. lia.
Qed.

Lemma key_skipn6 : forall (a0 a1 a2 a3 a4 a5 : N) (l : bytes) (k : nat),
  skipn (6 + k) (a0 :: a1 :: a2 :: a3 :: a4 :: a5 :: l) = skipn k l.
Proof. intros. reflexivity. Qed.

Lemma key_nth6 : forall (a0 a1 a2 a3 a4 a5 : N) (l : bytes) (k : nat),
  nth (6 + k) (a0 :: a1 :: a2 :: a3 :: a4 :: a5 :: l) 0 = nth k l 0.
Proof. intros. reflexivity. Qed.

Lemma key_to_nat_6 : forall k : N, N.to_nat (6 + k) = (6 + N.to_nat k)%nat.
Proof. intros. lia. Qed.

Lemma key_sub6 : forall (a0 a1 a2 a3 a4 a5 : N) (l : bytes) (k : N),
  sub (a0 :: a1 :: a2 :: a3 :: a4 :: a5 :: l) 6 (6 + k) = firstn (N.to_nat k) l.
Proof.
  intros. unfold sub. replace (6 + k - 6) with k by lia. reflexivity.
Qed.

Lemma key_sub7 : forall (a0 a1 a2 a3 a4 a5 : N) (l : bytes) (dl sl x : N) (r : bytes),
  skipn (N.to_nat dl) l = x :: r ->
  sub (a0 :: a1 :: a2 :: a3 :: a4 :: a5 :: l) (6 + dl + 1) (6 + dl + 1 + sl) = firstn (N.to_nat sl) r.
Proof.
  intros until r. intro H. unfold sub.
  replace (6 + dl + 1 + sl - (6 + dl + 1)) with sl by lia.
  replace (N.to_nat (6 + dl + 1)) with (6 + S (N.to_nat dl))%nat by lia.
  rewrite key_skipn6.
  destruct (key_skipn_cons _ _ _ _ H) as (_ & _ & H3). rewrite H3. reflexivity.
Qed.

Lemma key_get5 : forall (a0 a1 a2 a3 a4 a5 a6 : N) (l : bytes),
  get (a0 :: a1 :: a2 :: a3 :: a4 :: a5 :: a6 :: l) 5 = Ok a5.
Proof.
  intros. unfold get. rewrite key_blen_cons6.
  replace (5 <? 6 + blen (a6 :: l)) with true by lia. reflexivity.
Qed.

Lemma key_slice15 : forall (a0 a1 a2 a3 a4 a5 : N) (l : bytes),
  slice (a0 :: a1 :: a2 :: a3 :: a4 :: a5 :: l) 1 5 = Ok [a1; a2; a3; a4].
Proof.
  intros. unfold slice. rewrite key_blen_cons6.
  replace ((1 <=? 5) && (5 <=? 6 + blen l)) with true by lia. reflexivity.
Qed.

Lemma key_get6 : forall (a0 a1 a2 a3 a4 a5 : N) (l : bytes) (k : N),
  k < blen l ->
  get (a0 :: a1 :: a2 :: a3 :: a4 :: a5 :: l) (6 + k) = Ok (nth (N.to_nat k) l 0).
Proof.
  intros. unfold get. rewrite key_blen_cons6.
  replace (6 + k <? 6 + blen l) with true by lia.
  rewrite key_to_nat_6, key_nth6. reflexivity.
Qed.

Lemma key_slice6 : forall (a0 a1 a2 a3 a4 a5 : N) (l : bytes) (k : N),
  k <= blen l ->
  slice (a0 :: a1 :: a2 :: a3 :: a4 :: a5 :: l) 6 (6 + k) = Ok (firstn (N.to_nat k) l).
Proof.
  intros. unfold slice. rewrite key_blen_cons6.
  replace ((6 <=? 6 + k) && (6 + k <=? 6 + blen l)) with true by lia.
  rewrite key_sub6. reflexivity.
Qed.

Lemma key_slice7 : forall (a0 a1 a2 a3 a4 a5 : N) (l : bytes) (dl sl x : N) (r : bytes),
  skipn (N.to_nat dl) l = x :: r ->
  sl <= blen r ->
  slice (a0 :: a1 :: a2 :: a3 :: a4 :: a5 :: l) (6 + dl + 1) (6 + dl + 1 + sl)
  = Ok (firstn (N.to_nat sl) r).
Proof.
  intros until r. intros H Hs. unfold slice. rewrite key_blen_cons6.
  destruct (key_skipn_cons _ _ _ _ H) as (_ & H2 & _).
  assert (blen l = dl + 1 + blen r) by (unfold blen in *; lia).
  replace ((6 + dl + 1 <=? 6 + dl + 1 + sl) && (6 + dl + 1 + sl <=? 6 + blen l)) with true by lia.
  rewrite (key_sub7 _ _ _ _ _ _ _ _ _ _ _ H). reflexivity.
Qed.

(* ------------------------------------------------------------------ the guard *)
Lemma key_likely_is_looks : forall data : bytes, is_likely_quic_initial data = looks_initial data.
Proof.
  intros. unfold is_likely_quic_initial, looks_initial.
  destruct (blen data <? 7) eqn:E.
  - replace (7 <=? blen data) with false by lia. reflexivity.
  - replace (7 <=? blen data) with true by lia.
    destruct data as [|f l].
    + unfold blen in E. cbn [length] in E. lia.
    + reflexivity.
Qed.

Lemma key_short_not_initial : forall data : bytes, blen data < 7 -> looks_initial data = false.
Proof.
  intros. unfold looks_initial. replace (7 <=? blen data) with false by lia. reflexivity.
Qed.

(* ------------------------------------------------------------------ the two parsers *)
Lemma key_fingerprint_exact : forall data : bytes, fingerprint data = Ok (spec_fingerprint data).
Proof.
  intros data. unfold fingerprint, spec_fingerprint. rewrite key_likely_is_looks.
  destruct (looks_initial data) eqn:EL; cbn [negb]; [| reflexivity].
  assert (H7 : 7 <= blen data).
  { destruct (N.lt_ge_cases (blen data) 7) as [Hlt | Hge]; [| exact Hge].
    rewrite (key_short_not_initial _ Hlt) in EL. discriminate. }
  unfold fp_minlen, fp_dcid_extra, fp_scid_extra, cid_max.
  replace (blen data <? 7) with false by lia.
  destruct data as [|f [|v1 [|v2 [|v3 [|v4 [|dl [|r0 rest']]]]]]];
    try (exfalso; unfold blen in H7; cbn [length] in H7; lia).
  remember (r0 :: rest') as rest eqn:Erest.
  rewrite key_slice15.
  rewrite Erest at 1. rewrite key_get5.
  destruct (20 <? dl) eqn:Edl; [reflexivity |].
  rewrite key_blen_cons6.
  destruct (skipn (N.to_nat dl) rest) as [|sl rest2] eqn:ES.
  - apply key_skipn_nil in ES.
    replace (6 + blen rest <? 6 + dl + 1) with true by (unfold blen; lia).
    reflexivity.
  - destruct (key_skipn_cons _ _ _ _ ES) as (Hn & Hl & _).
    assert (HB : blen rest = dl + 1 + blen rest2) by (unfold blen; lia).
    replace (6 + blen rest <? 6 + dl + 1) with false by lia.
    replace (blen rest <? dl + 1) with false by lia.
    rewrite key_slice6 by lia.
    rewrite key_get6 by lia.
    rewrite Hn.
    destruct (20 <? sl) eqn:Esl; [reflexivity |].
    destruct (blen rest2 <? sl) eqn:Er2.
    + replace (6 + blen rest <? 6 + dl + 1 + sl + 0) with true by lia. reflexivity.
    + replace (6 + blen rest <? 6 + dl + 1 + sl + 0) with false by lia.
      rewrite (key_slice7 _ _ _ _ _ _ _ _ _ _ _ ES) by lia.
      reflexivity.
Qed.

Lemma key_dcid_exact : forall data : bytes, key_dcid data = Ok (spec_key_dcid data).
Proof.
  intros data. unfold key_dcid, spec_key_dcid. rewrite key_likely_is_looks.
  destruct (looks_initial data) eqn:EL; cbn [negb andb]; [| reflexivity].
  assert (H7 : 7 <= blen data).
  { destruct (N.lt_ge_cases (blen data) 7) as [Hlt | Hge]; [| exact Hge].
    rewrite (key_short_not_initial _ Hlt) in EL. discriminate. }
  unfold key_minlen, key_dcid_extra, cid_max.
  replace (7 <=? blen data) with true by lia.
  destruct data as [|f [|v1 [|v2 [|v3 [|v4 [|dl [|r0 rest']]]]]]];
    try (exfalso; unfold blen in H7; cbn [length] in H7; lia).
  remember (r0 :: rest') as rest eqn:Erest.
  rewrite Erest at 1. rewrite key_get5.
  rewrite key_blen_cons6.
  destruct (0 <? dl) eqn:E0; cbn [andb]; [| reflexivity].
  destruct (dl <=? 20) eqn:E20; cbn [andb]; [| reflexivity].
  destruct (dl <=? blen rest) eqn:Er.
  - replace (6 + dl + 0 <=? 6 + blen rest) with true by lia.
    rewrite key_slice6 by lia. reflexivity.
  - replace (6 + dl + 0 <=? 6 + blen rest) with false by lia. reflexivity.
Qed.

(* ------------------------------------------------------------------ the statements *)
Lemma C06_key_fingerprint_exact_proof : C06_key_fingerprint_exact_stmt.
Proof.
  unfold C06_key_fingerprint_exact_stmt. intros data. split.
  - apply key_fingerprint_exact.
  - apply key_dcid_exact.
Qed.

Lemma C06_key_fingerprint_no_oob_proof : C06_key_fingerprint_no_oob_stmt.
Proof.
  unfold C06_key_fingerprint_no_oob_stmt. intros data.
  destruct (C06_key_fingerprint_exact_proof data) as [H1 H2].
  rewrite H1, H2. split; discriminate.
Qed.

Lemma C06_key_fingerprint_nonvacuous_proof : C06_key_fingerprint_nonvacuous_stmt.
Proof.
  unfold C06_key_fingerprint_nonvacuous_stmt. vm_compute. repeat split; reflexivity.
Qed.

Print Assumptions C06_key_fingerprint_exact_proof.
Print Assumptions C06_key_fingerprint_no_oob_proof.
Print Assumptions C06_key_fingerprint_nonvacuous_proof.
