(* C17 — comparison of the config.New model with the implementation (no proofs). *)
From Coq Require Import List NArith Bool.
From Dae Require Import C17_Spec C17_Schema C17_Build C17_Check.
From Dae.gen Require Import Extracted_C17_Schema.
Import ListNotations.
Open Scope N_scope.

Definition err_code (e : build_error) : N :=
  match e with
  | EMissingSection => 1 | EUnknownSection => 2 | EUnknownKey => 3 | EKeyless => 4 | EMissingParam => 5
  | EBadValue => 6 | EBadContext => 7 | EBadItemType => 8 | EBadResolver => 9 | EOutOfFuel => 99
  end.

Record build_case := {
  bc_sections : list gsection;                 (* what Parse returned for the text *)
  bc_oracle : list (N * str * bool);           (* FuzzyDecode answers: (type id, value, ok) *)
  bc_impl : N;                                 (* 0 accepted, k rejected with error kind k, 100 crash, 50 other error *)
  bc_global_strings : list (str * str);        (* accepted: effective values of string keys of 'global' *)
  bc_http_method : str;                        (* accepted: Global.TcpCheckHttpMethod after the patches *)
  bc_bootstrap : str                           (* accepted: Global.BootstrapResolver *)
}.

Definition oracle_of (tab : list (N * str * bool)) (ty : N) (v : str) : bool :=
  match find (fun e => (fst (fst e) =? ty) && str_eqb (snd (fst e)) v) tab with
  | Some e => snd e
  | None => false
  end.

(* the specification of building: a configuration that names an unknown section or key, lacks a required
   one, or holds text without a key must be answered with an error; otherwise documented defaults apply *)
Definition spec_must_reject (secs : list gsection) : bool :=
  existsb (fun t => t_required t && match lookup_last secs (t_name t) None with None => true | Some _ => false end) schema_tops
  || existsb (fun s => negb (str_eqb (fst s) C17_Build.include_name) && negb (existsb (fun t => str_eqb (t_name t) (fst s)) schema_tops)) secs
  || existsb (fun t => match t_kind t, lookup_last secs (t_name t) None with
                       | KStruct sid, Some items =>
                           match find_struct schema_structs sid with
                           | Some st =>
                               existsb (fun i => match i with
                                                 | GParamI p => match gp_key p with [] => true | k => match find_field (s_fields st) k with None => true | Some _ => false end end
                                                 | GSection n _ => match find_field (s_fields st) n with None => true | Some _ => false end
                                                 | GRule _ _ => negb (s_has_rules st)
                                                 end) items
                               || existsb (fun f => f_required f && negb (key_assigned items (f_key f))) (s_fields st)
                           | None => false
                           end
                       | _, _ => false
                       end) schema_tops.

(* the specification again, at any depth: some struct section - the empty one included - lacks a required key *)
Fixpoint missing_required_deep (fuel : nat) (k : fkind) (items : list gitem) : bool :=
  match fuel with
  | O => false
  | S fu =>
      match k with
      | KStruct sid =>
          match find_struct schema_structs sid with
          | Some st =>
              existsb (fun f => f_required f && negb (key_assigned items (f_key f))) (s_fields st)
              || existsb (fun i => match i with
                                   | GSection n sub => match find_field (s_fields st) n with
                                                       | Some f => missing_required_deep fu (f_kind f) sub
                                                       | None => false
                                                       end
                                   | _ => false
                                   end) items
          | None => false
          end
      | KStructList sid =>
          existsb (fun i => match i with GSection _ sub => missing_required_deep fu (KStruct sid) sub | _ => false end) items
      | _ => false
      end
  end.
Definition spec_missing_required (secs : list gsection) : bool :=
  existsb (fun t => match lookup_last secs (t_name t) None with
                    | Some items => missing_required_deep 8 (t_kind t) items
                    | None => false
                    end) schema_tops.

(* codes: 1 impl<>model, 2 impl<>spec, 9 crash, 3 model<>spec *)
Definition check_build (c : build_case) : list N :=
  let m := build schema_structs (oracle_of (bc_oracle c)) schema_tops schema_global_sid (bc_sections c) in
  let mcode := match m with BOk => 0 | BErr e => err_code e end in
  let must := spec_must_reject (bc_sections c) || spec_missing_required (bc_sections c) in
  let e_im := if mcode =? bc_impl c then [] else [1] in
  let e_is := if bc_impl c =? 100 then [9]
              else if must && (bc_impl c =? 0) then [2]
              else if (bc_impl c =? 0) &&
                      negb (forallb (fun kv => match lookup_last (bc_sections c) schema_global_name None with
                                               | Some items =>
                                                   match effective_string schema_structs schema_global_sid items (fst kv) with
                                                   | Some v => str_eqb v (snd kv)
                                                   | None => false
                                                   end
                                               | None => false
                                               end) (bc_global_strings c))
              then [2] else [] in
  let e_patch :=
      if bc_impl c =? 0 then
        (if str_eqb (effective_http_method schema_structs (oracle_of (bc_oracle c)) schema_global_sid (bc_sections c)) (bc_http_method c)
         then [] else [2])
        ++ (if str_eqb (trim_space (bc_bootstrap c)) (bootstrap_value schema_structs schema_global_sid (bc_sections c)) then [] else [1])
        ++ (match bootstrap_value schema_structs schema_global_sid (bc_sections c) with
            | [] => [] | v => if oracle_of (bc_oracle c) 7 v then [] else [2] end)
      else [] in
  let e_ms := if must && (mcode =? 0) then [3] else [] in
  e_im ++ e_is ++ e_patch ++ e_ms.

Definition build_signature (c : build_case) : N * N * N :=
  let m := build schema_structs (oracle_of (bc_oracle c)) schema_tops schema_global_sid (bc_sections c) in
  (match m with BOk => 0 | BErr e => err_code e end, N.of_nat (List.length (bc_sections c)),
   N.of_nat (fold_right (fun s a => (List.length (snd s) + a)%nat) O (bc_sections c))).
