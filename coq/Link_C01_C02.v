(* Link C01 + C02 — the OUTPUT of C01's builder satisfies the INPUT side conditions of C02's kernel theorems.

   C02_kscan_scan (kernel route() over the installed bytes = dns_adjust of RoutingMatcher.Match) is stated for an
   arbitrary match-set array `ms` with its LPM sets `tries`, under
       forallb (wf_mset (N.of_nat (length tries))) ms = true      (every field in its Go type's range, the LPM index
                                                                   names one of the generation's tries)
       forallb (forallb wf_prefix) tries = true.
   C01 proves what the array built from a routing program MEANS (C01_scan_lower) but never that it is in range.
   Here the range invariant is carried through the whole builder (patchMustOutbound, ParseOutbound, outboundToId,
   canonicalizePrefixes + the LPM dedup table, every add* callback, RulesBuilder.Apply, addFallback):
       Link_lowered_msets_in_range : wf_program p -> lower_program p = Ok b ->
                                     forallb (wf_mset (length (b_tries b))) (b_rules b) = true
   and the two developments are composed: for every well-formed program the kernel program decides dns_adjust of
   the first-matching-rule decision (Link_kernel_decides_program; Link_kernel_real_decides_program_closed for the
   kernel with C12's real LPM lookup, the hypothesis `lowered_msets_in_range` of Link_C02_C12 discharged). *)
From Coq Require Import ZArith List NArith Bool String Arith Lia ZifyBool ZifyN ZifyNat.
From Dae Require Import C01_Spec C01_Model C01_Proofs C01_Props.
From Dae Require Import C02_Spec C02_Model C02_Proofs C02_ProofsScan C02_Props.
From Dae Require Import Link_C01_C12 Link_C02_C12.
From Dae.gen Require Import C01_Consts C02_Consts.
Import ListNotations.
Open Scope N_scope.

(* ------------------------------------------------------------------------------------------------ *)
(* Part 1: the range invariant of the builder                                                         *)
(* ------------------------------------------------------------------------------------------------ *)

Definition NT (b : builder) : N := N.of_nat (List.length (b_tries b)).

(* every match-set emitted so far is in C02's range w.r.t. the CURRENT number of tries (which only grows); the dedup
   table points at existing tries (C01_Proofs.inv); every trie was stored together with a match-set *)
Definition rng (b : builder) : Prop :=
  forallb (wf_mset (NT b)) (b_rules b) = true /\ inv b /\ (List.length (b_tries b) <= List.length (b_rules b))%nat.

Definition bytes_ok (l : list N) : bool := forallb (fun x => x <? 256) l.

Lemma wf_mset_intro n t neg oid mark must lpm ps pe mask pname dscp :
  t <= MatchType_Fallback -> oid < 256 -> mark < 2 ^ 32 -> ps < 65536 -> pe < 65536 -> mask < 256 ->
  List.length pname = 16%nat -> bytes_ok pname = true -> dscp < 256 ->
  (is_lpm_type t = true -> lpm < n) ->
  wf_mset n {| m_type := t; m_not := neg; m_out := oid; m_mark := mark; m_must := must; m_lpm := lpm; m_ps := ps;
               m_pe := pe; m_mask := mask; m_pname := pname; m_dscp := dscp |} = true.
Proof.
  intros Ht Ho Hm Hps Hpe Hmask Hl Hb Hd Hlpm. unfold wf_mset.
  cbn [m_type m_out m_mark m_ps m_pe m_mask m_pname m_dscp m_lpm].
  unfold bytes_ok in Hb. rewrite Hb, Hl. change (Nat.eqb 16 16) with true.
  apply N.leb_le in Ht. apply N.ltb_lt in Ho, Hm, Hps, Hpe, Hmask, Hd. rewrite Ht, Ho, Hm, Hps, Hpe, Hmask, Hd.
  cbn [andb]. destruct (is_lpm_type t); [|reflexivity]. apply N.ltb_lt. now apply Hlpm.
Qed.

Lemma wf_mset_mono n n' m : wf_mset n m = true -> n <= n' -> wf_mset n' m = true.
Proof.
  unfold wf_mset. intros H Hn. rewrite !andb_true_iff in *. destruct (is_lpm_type (m_type m)); [|exact H].
  repeat split; try tauto. lia.
Qed.

Lemma forallb_wf_mono n n' ms : forallb (wf_mset n) ms = true -> n <= n' -> forallb (wf_mset n') ms = true.
Proof.
  intros H Hn. rewrite forallb_forall in *. intros m Hm. eapply wf_mset_mono; [now apply H|exact Hn].
Qed.

Lemma zeros16_len : List.length (repeat 0 16) = 16%nat.
Proof. reflexivity. Qed.
Lemma zeros16_bytes : bytes_ok (repeat 0 16) = true.
Proof. reflexivity. Qed.

Lemma rng_empty : rng empty_builder.
Proof. split; [reflexivity|]. split; [exact inv_empty|]. cbn. lia. Qed.

(* one emitted match-set, possibly after one trie was stored *)
Lemma rng_step b b1 m :
  rng b -> b_rules b1 = b_rules b ->
  (List.length (b_tries b) <= List.length (b_tries b1) <= S (List.length (b_tries b)))%nat -> inv b1 ->
  wf_mset (NT b1) m = true -> rng (append_rule b1 m).
Proof.
  intros (Hr & _ & Hlen) Hrules Ht Hi Hm. unfold rng, NT in *. cbn [append_rule b_rules b_tries].
  split; [|split].
  - rewrite Hrules, forallb_app. cbn [forallb]. rewrite Hm. cbn [andb]. rewrite andb_true_r.
    eapply forallb_wf_mono; [exact Hr|lia].
  - exact Hi.
  - rewrite Hrules, app_length. cbn [List.length]. lia.
Qed.

Lemma rng_step_same b m : rng b -> wf_mset (NT b) m = true -> rng (append_rule b m).
Proof. intros Hb Hm. apply (rng_step b b m Hb eq_refl); [lia|apply Hb|exact Hm]. Qed.

(* --- outboundToId: every id is one byte --- *)

Lemma oid_small gs name oid : groups_ok gs = true -> outbound_to_id gs name = Ok oid -> oid < 256.
Proof.
  intros Hg. unfold outbound_to_id.
  destruct (String.eqb name "<OR>"); [intros H; inversion H; reflexivity|].
  destruct (String.eqb name "<AND>"); [intros H; inversion H; reflexivity|].
  destruct (String.eqb name "must_rules"); [intros H; inversion H; reflexivity|].
  destruct (lookup gs name) as [id|] eqn:El; [|discriminate]. intros H. inversion H; subst.
  destruct (lookup_groups_ok gs name oid Hg El) as [Hlt _]. lia.
Qed.

(* --- ParseOutbound after patchMustOutbound: the mark is 32 bits --- *)

Definition marks_ok (ps : list oparam) : bool :=
  forallb (fun p => match p with OMark m => m <? 2 ^ 32 | OMust => true end) ps.

Lemma parse_params_mark : forall ps mk mu, marks_ok ps = true -> mk < 2 ^ 32 ->
  fst (parse_outbound_params ps mk mu) < 2 ^ 32.
Proof.
  induction ps as [|[m|] ps IH]; intros mk mu Hps Hmk; cbn [parse_outbound_params].
  - exact Hmk.
  - cbn [marks_ok forallb] in Hps. apply andb_true_iff in Hps. destruct Hps as [Hm Hps]. apply IH; [exact Hps|lia].
  - cbn [marks_ok forallb] in Hps. apply IH; [exact Hps|exact Hmk].
Qed.

Lemma parse_outbound_mark o : marks_ok (o_params o) = true -> po_mark (parse_outbound o) < 2 ^ 32.
Proof.
  intros H. unfold parse_outbound.
  pose proof (parse_params_mark (o_params o) 0 false H eq_refl) as Hm.
  destruct (parse_outbound_params (o_params o) 0 false) as [mk mu]. exact Hm.
Qed.

Lemma marks_ok_snoc ps : marks_ok ps = true -> marks_ok (ps ++ [OMust]) = true.
Proof. unfold marks_ok. intros H. rewrite forallb_app, H. reflexivity. Qed.

Lemma patch_rule_marks o : marks_ok (o_params o) = true -> marks_ok (o_params (patch_rule_outbound o)) = true.
Proof.
  intros H. unfold patch_rule_outbound. destruct (prefix "must_" (o_name o)); [|exact H].
  destruct (String.eqb (o_name o) "must_rules"); [exact H|]. cbn [o_params]. now apply marks_ok_snoc.
Qed.

Lemma patch_fallback_marks o : marks_ok (o_params o) = true -> marks_ok (o_params (patch_fallback o)) = true.
Proof.
  intros H. unfold patch_fallback. destruct (prefix "must_" (o_name o)); [|exact H].
  cbn [o_params]. now apply marks_ok_snoc.
Qed.

Lemma outbound_ok_marks gs fb o : outbound_ok gs fb o = true -> marks_ok (o_params o) = true.
Proof. unfold outbound_ok. intros H. apply andb_true_iff in H. exact (proj1 H). Qed.

(* --- the add* callbacks --- *)

Section Callbacks.
Variable gs : list (string * N).
Hypothesis Hgs : groups_ok gs = true.

(* the LPM-set dedup table: a hit names an existing trie, a miss appends one *)
Lemma ipset_pick b h cv idx b1 : inv b ->
  (match dedup_get (b_dedup b) h with
   | Some (eidx, eps) => if prefixes_equal eps cv then (eidx, b) else new_trie b h cv
   | None => new_trie b h cv end) = (idx, b1) ->
  b_rules b1 = b_rules b /\ inv b1 /\ idx < NT b1 /\
  (List.length (b_tries b) <= List.length (b_tries b1) <= S (List.length (b_tries b)))%nat.
Proof.
  intros Hinv E.
  assert (Hnew : forall idx b1, new_trie b h cv = (idx, b1) ->
            b_rules b1 = b_rules b /\ inv b1 /\ idx < NT b1 /\
            (List.length (b_tries b) <= List.length (b_tries b1) <= S (List.length (b_tries b)))%nat).
  { intros i' b' En. pose proof (new_trie_facts b h cv Hinv) as Hf. rewrite En in Hf.
    destruct Hf as (Hr & _ & Hi & _). unfold new_trie in En. inversion En; subst. unfold NT. cbn [b_tries b_rules].
    rewrite app_length. cbn [List.length]. repeat split; try exact Hi; lia. }
  destruct (dedup_get (b_dedup b) h) as [[eidx eps]|] eqn:Eg; [|now apply Hnew].
  destruct (prefixes_equal eps cv); [|now apply Hnew].
  inversion E; subst. split; [reflexivity|]. split; [exact Hinv|]. split; [|lia].
  apply Hinv in Eg. unfold NT. assert (N.to_nat idx < List.length (b_tries b1))%nat by (apply nth_error_Some; congruence). lia.
Qed.

Lemma add_ipset_rng t b neg vals ob b' :
  t = MatchType_IpSet \/ t = MatchType_SourceIpSet -> po_mark ob < 2 ^ 32 ->
  add_ipset t gs b neg vals ob = Ok b' -> rng b -> rng b'.
Proof.
  intros Ht Hmk H Hb. unfold add_ipset in H.
  set (cv := canonicalize vals) in *. set (h := hash_lpm_set cv) in *.
  destruct (match dedup_get (b_dedup b) h with
            | Some (eidx, eps) => if prefixes_equal eps cv then (eidx, b) else new_trie b h cv
            | None => new_trie b h cv end) as [idx b1] eqn:E.
  destruct (ipset_pick b h cv idx b1 (proj1 (proj2 Hb)) E) as (Hr & Hi & Hidx & Hlen).
  destruct (outbound_to_id gs (po_name ob)) as [oid|] eqn:Eo; [|discriminate]. inversion H; subst b'.
  apply (rng_step b b1); [exact Hb|exact Hr|exact Hlen|exact Hi|]. cbn [base_mset m_type m_not m_out m_mark m_must m_pname].
  apply wf_mset_intro; try reflexivity; try exact Hmk.
  - destruct Ht as [-> | ->]; discriminate.
  - eapply oid_small; eauto.
  - intros _. exact Hidx.
Qed.

Lemma add_mac_rng b neg macs ob b' :
  po_mark ob < 2 ^ 32 -> add_mac gs b neg macs ob = Ok b' -> rng b -> rng b'.
Proof.
  intros Hmk H Hb. unfold add_mac in H.
  destruct (outbound_to_id gs (po_name ob)) as [oid|] eqn:Eo; [|discriminate]. inversion H; subst b'. clear H.
  match goal with |- rng (append_rule ?B1 _) => set (b1 := B1) end.
  apply (rng_step b b1); [exact Hb|reflexivity| | |].
  - unfold b1. cbn [b_tries]. rewrite app_length. cbn [List.length]. lia.
  - intros h' idx ps E. unfold b1 in *. cbn [b_dedup b_tries] in *. apply (proj1 (proj2 Hb)) in E.
    rewrite nth_error_app1; [assumption|]. apply nth_error_Some. congruence.
  - cbn [base_mset m_type m_not m_out m_mark m_must m_pname].
    apply wf_mset_intro; try reflexivity; try exact Hmk.
    + discriminate.
    + eapply oid_small; eauto.
    + intros _. unfold NT, b1. cbn [b_tries]. rewrite app_length. cbn [List.length]. lia.
Qed.

Lemma add_domain_rng b neg key vals ob b' :
  po_mark ob < 2 ^ 32 -> add_domain gs b neg key vals ob = Ok b' -> rng b -> rng b'.
Proof.
  intros Hmk H Hb. unfold add_domain in H. destruct ((1 <=? key) && (key <=? 4)); [|discriminate].
  destruct (outbound_to_id gs (po_name ob)) as [oid|] eqn:Eo; [|discriminate]. inversion H; subst b'. clear H.
  match goal with |- rng (append_rule ?B1 _) => set (b1 := B1) end.
  apply (rng_step b b1); [exact Hb|reflexivity|unfold b1; cbn [b_tries]; lia|exact (proj1 (proj2 Hb))|].
  unfold base_mset. apply wf_mset_intro; try reflexivity; try exact Hmk.
  - discriminate.
  - eapply oid_small; eauto.
  - discriminate.
Qed.

Lemma add_mask_rng t b neg mask ob b' :
  t = MatchType_L4Proto \/ t = MatchType_IpVersion -> mask < 256 -> po_mark ob < 2 ^ 32 ->
  add_mask t gs b neg mask ob = Ok b' -> rng b -> rng b'.
Proof.
  intros Ht Hmask Hmk H Hb. unfold add_mask in H.
  destruct (outbound_to_id gs (po_name ob)) as [oid|] eqn:Eo; [|discriminate]. inversion H; subst b'. clear H.
  apply rng_step_same; [exact Hb|]. cbn [base_mset m_type m_not m_out m_mark m_must m_pname].
  apply wf_mset_intro; try reflexivity; try exact Hmk; try exact Hmask.
  - destruct Ht as [-> | ->]; discriminate.
  - eapply oid_small; eauto.
  - destruct Ht as [-> | ->]; discriminate.
Qed.

Lemma add_ports_rng t neg ob :
  t = MatchType_Port \/ t = MatchType_SourcePort -> po_mark ob < 2 ^ 32 ->
  forall vals b b', Forall (fun r => fst r < 65536 /\ snd r < 65536) vals ->
    add_ports t gs b neg vals ob = Ok b' -> rng b -> rng b'.
Proof.
  intros Ht Hmk. induction vals as [|[lo hi] vals IH]; intros b b' Hv H Hb; cbn [add_ports] in H.
  - inversion H; subst. exact Hb.
  - inversion Hv as [|? ? [Hlo Hhi] Hv']; subst. cbn [fst snd] in Hlo, Hhi.
    destruct (outbound_to_id gs (per_value_name ob vals)) as [oid|] eqn:Eo; [|discriminate].
    apply (IH _ _ Hv' H). apply rng_step_same; [exact Hb|]. cbn [base_mset m_type m_not m_out m_mark m_must m_pname].
    apply wf_mset_intro; try reflexivity; try exact Hmk; try assumption.
    + destruct Ht as [-> | ->]; discriminate.
    + eapply oid_small; eauto.
    + destruct Ht as [-> | ->]; discriminate.
Qed.

Lemma add_pnames_rng neg ob :
  po_mark ob < 2 ^ 32 ->
  forall vals b b', Forall (fun v => List.length v = 16%nat /\ bytes_ok v = true) vals ->
    add_pnames gs b neg vals ob = Ok b' -> rng b -> rng b'.
Proof.
  intros Hmk. induction vals as [|v vals IH]; intros b b' Hv H Hb; cbn [add_pnames] in H.
  - inversion H; subst. exact Hb.
  - inversion Hv as [|? ? [Hl Hbs] Hv']; subst.
    destruct (outbound_to_id gs (per_value_name ob vals)) as [oid|] eqn:Eo; [|discriminate].
    apply (IH _ _ Hv' H). apply rng_step_same; [exact Hb|]. cbn [base_mset m_type m_not m_out m_mark m_must m_pname].
    apply wf_mset_intro; try reflexivity; try exact Hmk; try assumption.
    + discriminate.
    + eapply oid_small; eauto.
    + discriminate.
Qed.

Lemma add_dscps_rng neg ob :
  po_mark ob < 2 ^ 32 ->
  forall vals b b', Forall (fun v => v < 256) vals ->
    add_dscps gs b neg vals ob = Ok b' -> rng b -> rng b'.
Proof.
  intros Hmk. induction vals as [|v vals IH]; intros b b' Hv H Hb; cbn [add_dscps] in H.
  - inversion H; subst. exact Hb.
  - inversion Hv as [|? ? Hd Hv']; subst.
    destruct (outbound_to_id gs (per_value_name ob vals)) as [oid|] eqn:Eo; [|discriminate].
    apply (IH _ _ Hv' H). apply rng_step_same; [exact Hb|]. cbn [base_mset m_type m_not m_out m_mark m_must m_pname].
    apply wf_mset_intro; try reflexivity; try exact Hmk; try assumption.
    + discriminate.
    + eapply oid_small; eauto.
    + discriminate.
Qed.

End Callbacks.

(* --- function_parser.go: the typed values of a key group are in range --- *)

Lemma collect_Forall {A} (f : value -> option A) (P : value -> Prop) (Q : A -> Prop) :
  (forall v x, P v -> f v = Some x -> Q x) ->
  forall vals l, collect f vals = Some l -> Forall P vals -> Forall Q l.
Proof.
  intros Hf. induction vals as [|v vals IH]; intros l Hc Hok; cbn [collect] in Hc.
  - inversion Hc; subst. constructor.
  - inversion Hok as [|? ? Hv Hr]; subst.
    destruct (f v) as [x|] eqn:Ex; [|discriminate]. destruct (collect f vals) as [l'|]; [|discriminate].
    inversion Hc; subst. constructor; [now apply (Hf v)|now apply IH].
Qed.

Lemma In_firstn {A} n (l : list A) x : In x (firstn n l) -> In x l.
Proof. intros H. rewrite <- (firstn_skipn n l). apply in_or_app. now left. Qed.

Lemma to_process_name_ok bs : bytes_ok bs = true ->
  List.length (to_process_name bs) = 16%nat /\ bytes_ok (to_process_name bs) = true.
Proof.
  intros Hb. unfold to_process_name. split.
  - rewrite firstn_length, app_length, repeat_length. lia.
  - unfold bytes_ok in *. rewrite forallb_forall in *. intros x Hx. apply In_firstn in Hx.
    apply in_app_or in Hx. destruct Hx as [Hx|Hx]; [now apply Hb|]. apply repeat_spec in Hx. subst x. reflexivity.
Qed.

Lemma or_all_small l : Forall (fun x => x = 1 \/ x = 2) l -> or_all l < 256.
Proof.
  intros H. unfold or_all. change 0 with (mask_code false false). rewrite (or_all_code l false false H).
  unfold mask_code. destruct (false || existsb (N.eqb 1) l), (false || existsb (N.eqb 2) l); reflexivity.
Qed.

Section Walk.
Variable gs : list (string * N).
Hypothesis Hgs : groups_ok gs = true.

Lemma parse_and_add_rng b k neg key vals ob b' :
  po_mark ob < 2 ^ 32 -> Forall (fun v => value_ok k key v = true) vals ->
  parse_and_add gs b k neg key vals ob = Ok b' -> rng b -> rng b'.
Proof.
  intros Hmk Hok H Hb. unfold parse_and_add, with_values in H. destruct k.
  - destruct (collect as_domain vals); [|discriminate]. exact (add_domain_rng gs Hgs b neg key _ ob b' Hmk H Hb).
  - destruct (collect as_prefix vals); [|discriminate].
    eapply (add_ipset_rng gs Hgs MatchType_IpSet); [left; reflexivity|exact Hmk|exact H|exact Hb].
  - destruct (collect as_prefix vals); [|discriminate].
    eapply (add_ipset_rng gs Hgs MatchType_SourceIpSet); [right; reflexivity|exact Hmk|exact H|exact Hb].
  - destruct (collect as_range vals) as [l|] eqn:E; [|discriminate].
    apply (add_ports_rng gs Hgs MatchType_Port neg ob (or_introl eq_refl) Hmk l b b'); [|exact H|exact Hb].
    eapply (collect_Forall as_range (fun v => value_ok FPort key v = true)); [|exact E|exact Hok].
    intros v x Hv Hx. destruct v; try discriminate Hx. cbn in Hx. inversion Hx; subst. cbn [fst snd]. cbn in Hv. lia.
  - destruct (collect as_range vals) as [l|] eqn:E; [|discriminate].
    apply (add_ports_rng gs Hgs MatchType_SourcePort neg ob (or_intror eq_refl) Hmk l b b'); [|exact H|exact Hb].
    eapply (collect_Forall as_range (fun v => value_ok FSport key v = true)); [|exact E|exact Hok].
    intros v x Hv Hx. destruct v; try discriminate Hx. cbn in Hx. inversion Hx; subst. cbn [fst snd]. cbn in Hv. lia.
  - destruct (collect as_proto vals) as [l|] eqn:E; [|discriminate].
    apply (add_mask_rng gs Hgs MatchType_L4Proto b neg (or_all l) ob b' (or_introl eq_refl)); [|exact Hmk|exact H|exact Hb].
    apply or_all_small.
    eapply (collect_Forall as_proto (fun v => True)); [|exact E|apply Forall_forall; auto].
    intros v x _ Hx. destruct v; try discriminate Hx. destruct p; inversion Hx; auto.
  - destruct (collect as_ver vals) as [l|] eqn:E; [|discriminate].
    apply (add_mask_rng gs Hgs MatchType_IpVersion b neg (or_all l) ob b' (or_intror eq_refl)); [|exact Hmk|exact H|exact Hb].
    apply or_all_small.
    eapply (collect_Forall as_ver (fun v => True)); [|exact E|apply Forall_forall; auto].
    intros v x _ Hx. destruct v; try discriminate Hx. destruct v; inversion Hx; auto.
  - destruct (collect as_mac vals); [|discriminate]. exact (add_mac_rng gs Hgs b neg _ ob b' Hmk H Hb).
  - destruct (collect as_pname vals) as [l|] eqn:E; [|discriminate].
    apply (add_pnames_rng gs Hgs neg ob Hmk l b b'); [|exact H|exact Hb].
    eapply (collect_Forall as_pname (fun v => value_ok FPname key v = true)); [|exact E|exact Hok].
    intros v x Hv Hx. destruct v; try discriminate Hx. cbn in Hx. inversion Hx; subst. apply to_process_name_ok. exact Hv.
  - destruct (collect as_dscp vals) as [l|] eqn:E; [|discriminate].
    apply (add_dscps_rng gs Hgs neg ob Hmk l b b'); [|exact H|exact Hb].
    eapply (collect_Forall as_dscp (fun v => value_ok FDscp key v = true)); [|exact E|exact Hok].
    intros v x Hv Hx. destruct v; try discriminate Hx. cbn in Hx. inversion Hx; subst. cbn in Hv. lia.
Qed.

Lemma apply_groups_rng k neg last_func ob : po_mark ob < 2 ^ 32 -> forall kgs b b',
  apply_groups gs b k neg kgs last_func ob = Ok b' ->
  (forall key vals, In (key, vals) kgs -> Forall (fun v => value_ok k key v = true) vals) ->
  rng b -> rng b'.
Proof.
  intros Hmk. induction kgs as [|[key vals] kgs IH]; intros b b' H Hall Hb; cbn [apply_groups] in H.
  - inversion H; subst. exact Hb.
  - match type of H with match ?X with _ => _ end = _ => destruct X as [b1|] eqn:E1; [|discriminate] end.
    apply (IH b1 b' H); [intros key' vals' Hin; apply Hall; now right|].
    eapply parse_and_add_rng; [|apply Hall; now left|exact E1|exact Hb]. exact Hmk.
Qed.

Lemma apply_funcs_rng ob : po_mark ob < 2 ^ 32 -> forall cs b b',
  apply_funcs gs b cs ob = Ok b' -> forallb cond_ok cs = true -> rng b -> rng b'.
Proof.
  intros Hmk. induction cs as [|c cs IH]; intros b b' H Hok Hb; cbn [apply_funcs] in H.
  - inversion H; subst. exact Hb.
  - cbn [forallb] in Hok. apply andb_true_iff in Hok. destruct Hok as [Hc Hcs].
    match type of H with match ?X with _ => _ end = _ => destruct X as [b1|] eqn:E1; [|discriminate] end.
    apply (IH b1 b' H Hcs). eapply apply_groups_rng; [exact Hmk|exact E1| |exact Hb].
    intros key vals Hin. unfold cond_ok in Hc. apply andb_true_iff in Hc. destruct Hc as [_ Hvals].
    destruct (group_by_key_ok (c_params c)) as [Hs _]. destruct (Hs key vals Hin) as [_ Hsub].
    apply Forall_forall. intros v Hv. rewrite forallb_forall in Hvals. apply (Hvals (key, v)). now apply Hsub.
Qed.

Lemma apply_rules_rng : forall rs b b',
  apply_rules gs b rs = Ok b' ->
  Forall (fun r => forallb cond_ok (r_conds r) = true /\ marks_ok (o_params (r_out r)) = true) rs ->
  rng b -> rng b'.
Proof.
  induction rs as [|r rs IH]; intros b b' H Hok Hb; cbn [apply_rules] in H.
  - inversion H; subst. exact Hb.
  - inversion Hok as [|? ? [Hc Hm] Hrs]; subst.
    match type of H with match ?X with _ => _ end = _ => destruct X as [b1|] eqn:E1; [|discriminate] end.
    apply (IH b1 b' H Hrs). eapply apply_funcs_rng; [|exact E1|exact Hc|exact Hb]. now apply parse_outbound_mark.
Qed.

End Walk.

(* ------------------------------------------------------------------------------------------------ *)
(* Part 2: the lowered program is in C02's quantifier                                                  *)
(* ------------------------------------------------------------------------------------------------ *)

Lemma lowered_rng p b : wf_program p = true -> lower_program p = Ok b -> rng b.
Proof.
  intros Hwf Hl. unfold wf_program in Hwf. apply andb_true_iff in Hwf. destruct Hwf as [Hwf Hfb].
  apply andb_true_iff in Hwf. destruct Hwf as [Hg Hrules].
  unfold lower_program in Hl.
  match type of Hl with match ?X with _ => _ end = _ => destruct X as [b1|] eqn:E1; [|discriminate] end.
  assert (Hb1 : rng b1).
  { eapply apply_rules_rng; [exact Hg|exact E1| |exact rng_empty].
    apply Forall_forall. intros r Hr. apply in_map_iff in Hr. destruct Hr as [r0 [<- Hr0]]. cbn [r_conds r_out].
    rewrite forallb_forall in Hrules. specialize (Hrules r0 Hr0). unfold rule_ok in Hrules.
    apply andb_true_iff in Hrules. destruct Hrules as [Hrules Hout]. apply andb_true_iff in Hrules.
    split; [now destruct Hrules|]. apply patch_rule_marks. eapply outbound_ok_marks; eauto. }
  unfold add_fallback in Hl.
  destruct (outbound_to_id (pr_groups p) _) as [oid|] eqn:Eo; [|discriminate]. inversion Hl; subst b. clear Hl.
  apply rng_step_same; [exact Hb1|]. unfold base_mset. apply wf_mset_intro; try reflexivity.
  - eapply oid_small; eauto.
  - apply parse_outbound_mark, patch_fallback_marks. eapply outbound_ok_marks; eauto.
  - discriminate.
Qed.

Theorem Link_lowered_msets_in_range :
  forall (p : program) (b : builder), wf_program p = true -> lower_program p = Ok b ->
    forallb (wf_mset (N.of_nat (List.length (b_tries b)))) (b_rules b) = true.
Proof. intros p b Hwf Hl. exact (proj1 (lowered_rng p b Hwf Hl)). Qed.

(* every stored LPM set belongs to a match-set: the generation never has more tries than match-sets *)
Theorem Link_lowered_tries_le_rules :
  forall (p : program) (b : builder), wf_program p = true -> lower_program p = Ok b ->
    (List.length (b_tries b) <= List.length (b_rules b))%nat.
Proof. intros p b Hwf Hl. exact (proj2 (proj2 (lowered_rng p b Hwf Hl))). Qed.

Theorem Link_lowered_tries_wf_prefix :
  forall (p : program) (b : builder), wf_program p = true -> lower_program p = Ok b ->
    forallb (forallb wf_prefix) (b_tries b) = true.
Proof. intros p b Hwf Hl. apply tries_ok_wf_prefix. now apply (Link_lowered_tries_ok p). Qed.

Lemma lowered_last_fallback p b : lower_program p = Ok b -> last (map m_type (b_rules b)) 255 = MatchType_Fallback.
Proof.
  unfold lower_program. destruct (apply_rules _ _ _) as [b1|]; [|discriminate]. unfold add_fallback.
  destruct (outbound_to_id _ _); [|discriminate]. intros H. inversion H; subst.
  cbn [append_rule b_rules]. rewrite map_app. cbn [map]. now rewrite last_last.
Qed.

(* ------------------------------------------------------------------------------------------------ *)
(* Part 3: the composed theorems                                                                      *)
(* ------------------------------------------------------------------------------------------------ *)

(* what RoutingMatcher.Match answers on the lowered program: the first-matching-rule decision (C01_scan_lower, read on
   the builder's arrays instead of through model_route) *)
Lemma lowered_match_is_decide p b dm pk :
  wf_program p = true -> lower_program p = Ok b -> C01_domain_oracle_agrees p dm pk ->
  match_sets {| mt_sets := b_rules b; mt_tries := b_tries b |} dm (args_of_packet pk) = Ok (decide p pk).
Proof.
  intros Hwf Hl Hdom. pose proof (C01_scan_lower p pk dm Hwf Hdom) as Hr. unfold model_route in Hr. rewrite Hl in Hr.
  unfold build_userspace in Hr. destruct (last (map m_type (b_rules b)) 255 =? MatchType_Fallback); [exact Hr|discriminate].
Qed.

(* C01 + C02.  For every well-formed routing program, every ring offset and earlier content of the kernel maps, and
   every probe of C02's quantifier: if buildRoutingKernspace installs the generation built from the program, the kernel
   routing program — route() over the installed BYTES, its result word decoded as its callers decode it — answers
   dns_adjust of the first-matching-rule decision of the program as written. *)
Theorem Link_kernel_decides_program :
  forall (p : program) (b : builder) (prev : kmaps) (alloc : N) (dm : string -> list N) (pk : packet) (wan : bool) (km : kmaps),
    wf_program p = true -> lower_program p = Ok b ->
    install prev (b_rules b) (b_tries b) alloc = Ok km ->
    probe_ok pk wan = true ->
    bitmap_ok (dm (p_domain pk)) = true ->
    C01_domain_oracle_agrees p dm pk ->
    let bm := if String.eqb (p_domain pk) "" then None else Some (dm (p_domain pk)) in
    kernel_decides prev (b_rules b) (b_tries b) alloc (dom_entry bm) pk wan
    = Ok (Some (dns_adjust (p_dport pk) (decide p pk))).
Proof.
  intros p b prev alloc dm pk wan km Hwf Hl Hinst Hprobe Hbm Hdom bm. subst bm.
  pose proof (C02_kscan_scan prev (b_rules b) (b_tries b) alloc dm pk wan km
                (Link_lowered_msets_in_range p b Hwf Hl) (Link_lowered_tries_wf_prefix p b Hwf Hl) Hprobe Hbm Hinst) as H.
  cbv zeta in H. rewrite H. rewrite (lowered_match_is_decide p b dm pk Hwf Hl Hdom). reflexivity.
Qed.

(* C01 + C02 + C12: the same for the kernel whose route_match_lpm is C12's trie_lookup_elem over the installed struct
   lpm_key bytes — Link_C02_C12.Link_kernel_real_decides_program with its hypothesis `lowered_msets_in_range` discharged *)
Theorem Link_lowered_msets_in_range_named :
  forall (p : program) (b : builder), wf_program p = true -> lower_program p = Ok b -> lowered_msets_in_range b.
Proof. exact Link_lowered_msets_in_range. Qed.

Theorem Link_kernel_real_decides_program_closed :
  forall (p : program) (b : builder) (prev : kmaps) (alloc : N) (dm : string -> list N) (pk : packet) (wan : bool) (km : kmaps),
    wf_program p = true -> lower_program p = Ok b ->
    install prev (b_rules b) (b_tries b) alloc = Ok km ->
    probe_ok pk wan = true ->
    bitmap_ok (dm (p_domain pk)) = true ->
    C01_domain_oracle_agrees p dm pk ->
    let bm := if String.eqb (p_domain pk) "" then None else Some (dm (p_domain pk)) in
    kernel_decides_real prev (b_rules b) (b_tries b) alloc (dom_entry bm) pk wan
    = Ok (Some (dns_adjust (p_dport pk) (decide p pk))).
Proof.
  intros p b prev alloc dm pk wan km Hwf Hl Hinst Hprobe Hbm Hdom.
  exact (Link_kernel_real_decides_program p b prev alloc dm pk wan km Hwf Hl
           (Link_lowered_msets_in_range_named p b Hwf Hl) Hprobe Hbm Hinst Hdom).
Qed.

(* ------------------------------------------------------------------------------------------------ *)
(* Part 4: when buildRoutingKernspace succeeds                                                        *)
(* ------------------------------------------------------------------------------------------------ *)

(* The only way `install` rejects the generation of a well-formed program is its SIZE: more than MaxMatchSetLen (1024)
   match-sets.  (The trie count needs no separate condition: never more tries than match-sets.  The other error paths —
   fallback not last, an LPM index beyond the trie count — are excluded by the builder.) *)
Theorem Link_install_total :
  forall (p : program) (b : builder) (prev : kmaps) (alloc : N),
    wf_program p = true -> lower_program p = Ok b ->
    (List.length (b_rules b) <= 1024)%nat ->
    exists km, install prev (b_rules b) (b_tries b) alloc = Ok km.
Proof.
  intros p b prev alloc Hwf Hl Hn. apply C02_install_total.
  - now apply (Link_lowered_msets_in_range p).
  - pose proof (Link_lowered_tries_le_rules p b Hwf Hl). lia.
  - exact Hn.
  - now apply (lowered_last_fallback p).
Qed.

(* ... and the size condition is exactly what install checks: it fails iff there are more than 1024 match-sets *)
Theorem Link_install_fails_iff_too_large :
  forall (p : program) (b : builder) (prev : kmaps) (alloc : N),
    wf_program p = true -> lower_program p = Ok b ->
    ((exists km, install prev (b_rules b) (b_tries b) alloc = Ok km) <-> (List.length (b_rules b) <= 1024)%nat).
Proof.
  intros p b prev alloc Hwf Hl. split; [|now apply (Link_install_total p)].
  intros [km Hk]. destruct (install_facts _ _ _ _ _ Hk (Link_lowered_msets_in_range p b Hwf Hl)) as (_ & _ & _ & _ & _ & Hm & _).
  lia.
Qed.

(* the composed statement without the `install ... = Ok km` hypothesis: a well-formed program of at most 1024
   match-sets IS installed and decided *)
Theorem Link_kernel_decides_program_total :
  forall (p : program) (b : builder) (prev : kmaps) (alloc : N) (dm : string -> list N) (pk : packet) (wan : bool),
    wf_program p = true -> lower_program p = Ok b ->
    (List.length (b_rules b) <= 1024)%nat ->
    probe_ok pk wan = true ->
    bitmap_ok (dm (p_domain pk)) = true ->
    C01_domain_oracle_agrees p dm pk ->
    let bm := if String.eqb (p_domain pk) "" then None else Some (dm (p_domain pk)) in
    kernel_decides prev (b_rules b) (b_tries b) alloc (dom_entry bm) pk wan
    = Ok (Some (dns_adjust (p_dport pk) (decide p pk))).
Proof.
  intros p b prev alloc dm pk wan Hwf Hl Hn Hprobe Hbm Hdom.
  destruct (Link_install_total p b prev alloc Hwf Hl Hn) as [km Hk].
  exact (Link_kernel_decides_program p b prev alloc dm pk wan km Hwf Hl Hk Hprobe Hbm Hdom).
Qed.

Theorem Link_kernel_real_decides_program_total :
  forall (p : program) (b : builder) (prev : kmaps) (alloc : N) (dm : string -> list N) (pk : packet) (wan : bool),
    wf_program p = true -> lower_program p = Ok b ->
    (List.length (b_rules b) <= 1024)%nat ->
    probe_ok pk wan = true ->
    bitmap_ok (dm (p_domain pk)) = true ->
    C01_domain_oracle_agrees p dm pk ->
    let bm := if String.eqb (p_domain pk) "" then None else Some (dm (p_domain pk)) in
    kernel_decides_real prev (b_rules b) (b_tries b) alloc (dom_entry bm) pk wan
    = Ok (Some (dns_adjust (p_dport pk) (decide p pk))).
Proof.
  intros p b prev alloc dm pk wan Hwf Hl Hn Hprobe Hbm Hdom.
  destruct (Link_install_total p b prev alloc Hwf Hl Hn) as [km Hk].
  exact (Link_kernel_real_decides_program_closed p b prev alloc dm pk wan km Hwf Hl Hk Hprobe Hbm Hdom).
Qed.

(* ------------------------------------------------------------------------------------------------ *)
(* Part 5: findings about the interface of the two models, with witnesses                             *)
(* ------------------------------------------------------------------------------------------------ *)

(* FINDING 1 (size).  C01's quantifier (wf_program) puts no bound on the size of a program, C02's installation does:
   routing_map has MaxMatchSetLen = 1024 entries.  A well-formed program of 1025 one-condition rules lowers (C01 is
   total) to 1026 match-sets; the userspace matcher decides it, buildRoutingKernspace rejects it (BatchUpdate beyond
   max_entries, error class E_TOO_MANY_RULES).  So `install ... = Ok km` (equivalently: at most 1024 match-sets,
   Link_install_fails_iff_too_large) is a genuine extra hypothesis of the composition, not derivable from wf_program. *)
Definition big_program : program :=
  {| pr_rules := repeat {| r_conds := [ {| c_kind := FPort; c_neg := false; c_params := [(0, VRange 80 80)] |} ];
                           r_out := {| o_name := "direct"; o_params := [] |} |} 1025;
     pr_fallback := {| o_name := "direct"; o_params := [] |};
     pr_groups := [("direct"%string, 0)] |}.

Example Link_install_needs_size_bound :
  wf_program big_program = true /\
  match lower_program big_program with
  | Ok b => Nat.eqb (List.length (b_rules b)) 1026 &&
            match install empty_kmaps (b_rules b) (b_tries b) 0 with Err e => e =? E_TOO_MANY_RULES | Ok _ => false end &&
            match build_userspace b with Ok _ => true | Err _ => false end
  | Err _ => false
  end = true.
Proof. split; vm_compute; reflexivity. Qed.

(* FINDING 2 (sharpness of the mark bound; no mismatch).  The one numeric side condition of wf_program that exists only
   for the sake of the kernel encoding is outbound_ok's `mark < 2^32` (struct match_set.mark is a __u32, the result word
   carries 32 mark bits).  It is exactly what wf_mset asks, and it cannot be dropped: with direct(mark: 2^32) as the
   fallback the userspace model answers mark 2^32, the kernel mark 0. *)
Definition wide_mark_program : program :=
  {| pr_rules := []; pr_fallback := {| o_name := "direct"; o_params := [OMark (2 ^ 32)] |};
     pr_groups := [("direct"%string, 0)] |}.

Example Link_mark_bound_is_needed :
  let pk := C01_Proofs.ex_pk 80 "" 0 0xffff01020304 (repeat 0 16) 0 in
  wf_program wide_mark_program = false /\
  decide wide_mark_program pk = (0, 2 ^ 32, false) /\
  model_route wide_mark_program (fun _ => []) pk = Ok (0, 2 ^ 32, false) /\
  match lower_program wide_mark_program with
  | Ok b => negb (forallb (wf_mset (N.of_nat (List.length (b_tries b)))) (b_rules b)) &&
            match kernel_decides empty_kmaps (b_rules b) (b_tries b) 0 None pk false with
            | Ok (Some (0, 0, false)) => true | _ => false end
  | Err _ => false
  end = true.
Proof. cbv zeta. repeat split; vm_compute; reflexivity. Qed.

(* ------------------------------------------------------------------------------------------------ *)
(* Part 6: non-vacuity on C01's example program                                                       *)
(* ------------------------------------------------------------------------------------------------ *)

(* C01's ex_program (all ten functions, negation, must_rules, a must_ prefix, a mark): 13 match-sets, 3 tries, two
   domain sets (indices 2 and 3).  The hypotheses of Link_kernel_decides_program hold for it at ring offset 1022
   (wrapping), for a LAN probe decided at rule 2, a WAN probe with process name decided at rule 3, a LAN probe decided
   by the fallback, and a TCP DNS probe that no must rule covers (handed to the control plane); the values are also
   computed directly from the installed bytes. *)
Definition ex_dm12 : string -> list N :=
  fun s => if String.eqb s "www.example.com" then 4 :: repeat 0 31 else repeat 0 32.
Definition ex_tcp_dns : packet :=
  {| p_src := 0xffffc0a80101; p_dst := 0xffff08080808; p_sport := 40000; p_dport := 53; p_l4 := TCP; p_ipver := V4;
     p_domain := ""; p_regex_hits := []; p_pname := repeat 0 16; p_mac := 0x0242ac110003; p_dscp := 0 |}.

Lemma ex_oracle pk : (p_domain pk = "www.example.com"%string \/ p_domain pk = ""%string) -> p_regex_hits pk = [] ->
  C01_domain_oracle_agrees ex_program ex_dm12 pk.
Proof.
  intros Hd Hh b Hb. vm_compute in Hb. inversion Hb; subst b. clear Hb. intros i key vals Hin. cbn [b_domsets] in Hin.
  rewrite Hh. destruct Hd as [-> | ->]; destruct Hin as [E|[E|[]]]; inversion E; subst; vm_compute; reflexivity.
Qed.

Example Link_C01_C02_nonvacuous :
  let curl := ([99; 117; 114; 108] ++ repeat 0 12)%list in
  let pk1 := C01_Proofs.ex_pk 53 "www.example.com" 1 0xffff01020304 (repeat 0 16) 0 in
  let pk2 := C01_Proofs.ex_pk 53 "www.example.com" 0 0xffff0a010203 curl 8 in
  let pk3 := C01_Proofs.ex_pk 80 "" 0 0xffff01020304 (repeat 0 16) 0 in
  let kd pk wan :=
    match lower_program ex_program with
    | Ok b => kernel_decides empty_kmaps (b_rules b) (b_tries b) 1022
                (dom_entry (if String.eqb (p_domain pk) "" then None else Some (ex_dm12 (p_domain pk)))) pk wan
    | Err e => Err e
    end in
  wf_program ex_program = true /\
  (exists b km, lower_program ex_program = Ok b /\ List.length (b_rules b) = 13%nat /\ List.length (b_tries b) = 3%nat /\
                forallb (wf_mset 3) (b_rules b) = true /\ install empty_kmaps (b_rules b) (b_tries b) 1022 = Ok km) /\
  probe_ok pk1 false = true /\ probe_ok pk2 true = true /\ probe_ok pk3 false = true /\ probe_ok ex_tcp_dns false = true /\
  bitmap_ok (ex_dm12 "www.example.com") = true /\ bitmap_ok (ex_dm12 "") = true /\
  C01_domain_oracle_agrees ex_program ex_dm12 pk1 /\ C01_domain_oracle_agrees ex_program ex_dm12 pk2 /\
  C01_domain_oracle_agrees ex_program ex_dm12 pk3 /\ C01_domain_oracle_agrees ex_program ex_dm12 ex_tcp_dns /\
  kd pk1 false = Ok (Some (2, 16, true)) /\ decide ex_program pk1 = (2, 16, true) /\
  kd pk2 true = Ok (Some (1, 0, true)) /\ decide ex_program pk2 = (1, 0, true) /\
  kd pk3 false = Ok (Some (0, 0, false)) /\ decide ex_program pk3 = (0, 0, false) /\
  kd ex_tcp_dns false = Ok (Some (CONTROL_PLANE_ROUTING, 0, false)) /\ decide ex_program ex_tcp_dns = (0, 0, false).
Proof.
  cbv zeta. split; [vm_compute; reflexivity|].
  split. { eexists. eexists. split; [vm_compute; reflexivity|]. repeat split; vm_compute; reflexivity. }
  do 6 (split; [vm_compute; reflexivity|]).
  do 4 (split; [apply ex_oracle; [cbn; auto|reflexivity]|]).
  repeat split; vm_compute; reflexivity.
Qed.

Print Assumptions Link_lowered_msets_in_range.
Print Assumptions Link_lowered_tries_le_rules.
Print Assumptions Link_lowered_tries_wf_prefix.
Print Assumptions Link_kernel_decides_program.
Print Assumptions Link_kernel_real_decides_program_closed.
Print Assumptions Link_install_total.
Print Assumptions Link_install_fails_iff_too_large.
Print Assumptions Link_kernel_decides_program_total.
Print Assumptions Link_kernel_real_decides_program_total.
Print Assumptions Link_install_needs_size_bound.
Print Assumptions Link_mark_bound_is_needed.
Print Assumptions Link_C01_C02_nonvacuous.

(* WHAT IS DISCHARGED / WHAT REMAINS
   Discharged: both INPUT side conditions of C02's theorems, for the arrays C01's builder emits from a well-formed
     program:
       - forallb (wf_mset (length (b_tries b))) (b_rules b)  = Link_lowered_msets_in_range (new: the invariant `rng`
         through patch_rule_outbound / patch_fallback, parse_outbound (mark < 2^32 from outbound_ok), outbound_to_id
         (ids < 256: groups_ok gives < 0xFC, the logical ids are 252/254/255), canonicalize + the LPM dedup table
         (C01_Proofs.inv: a dedup hit names an existing trie; b_tries only grows), add_ipset, add_mac, add_domain,
         add_mask (or_all of the codes 1/2 <= 3), add_ports (value_ok: < 65536), add_pnames (to_process_name: 16 bytes
         < 256), add_dscps (< 256), parse_and_add, apply_groups (passes po_mark through), apply_funcs, apply_rules,
         add_fallback);
       - forallb (forallb wf_prefix) (b_tries b) = Link_lowered_tries_wf_prefix (Link_C01_C12.Link_lowered_tries_ok +
         Link_C02_C12.tries_ok_wf_prefix).
     Hence the named hypothesis `lowered_msets_in_range b` of Link_C02_C12.Link_kernel_real_decides_program is gone
     (Link_kernel_real_decides_program_closed), and C02_kscan_scan composes with C01_scan_lower
     (Link_kernel_decides_program).  `install ... = Ok km` is characterised: for the generation of a well-formed
     program it holds iff there are at most 1024 match-sets (Link_install_total, Link_install_fails_iff_too_large; the
     trie limit follows from Link_lowered_tries_le_rules), giving the `_total` variants without that hypothesis.
   No range mismatch: every range wf_mset asks follows from wf_program; none had to be kept as a hypothesis.
   Findings: (1) size — wf_program does not bound the number of match-sets, install does (witness big_program, 1026
     match-sets: Link_install_needs_size_bound); (2) the mark bound of outbound_ok is exactly the one the kernel
     encoding needs and cannot be dropped (Link_mark_bound_is_needed).
   Remaining hypotheses of Link_kernel_decides_program / Link_kernel_real_decides_program_closed:
     wf_program p, lower_program p = Ok b (always some b: C01_lower_total), install ... = Ok km (or, in the _total
     variants, length (b_rules b) <= 1024), probe_ok pk wan (wf_packet + a LAN probe carries no process name: C02's
     quantifier, necessary by C02_kscan_scan_unrestricted_refuted), bitmap_ok (dm (p_domain pk)) (the domain matcher
     returns 32 words of 32 bits: interface to C11), C01_domain_oracle_agrees p dm pk (interface to C11), and, inside
     the statement, that the domain_routing_map entry of the destination is dom_entry of that bitmap (interface to C10).
   Used as stated: C01_Props.C01_scan_lower, C02_Props.C02_kscan_scan, C02_install_total,
     Link_C02_C12.Link_kernel_real_decides_program, Link_C01_C12.Link_lowered_tries_ok.  From Proofs files (helper
     lemmas): C01_Proofs.inv, inv_empty, new_trie_facts, lookup_groups_ok, or_all_code, group_by_key_ok;
     C02_ProofsScan.install_facts. *)
