(* C03 — every field a hook reads of a parsed frame fits its width, provided the frame's bytes are
   bytes.  No axioms. *)
From Coq Require Import List NArith ZArith Bool Lia ZifyBool ZifyN ZifyNat.
From Dae Require Import C03_Spec C03_Model C03_ParseProofs.
From Dae.gen Require Import C03_Consts.
Import ListNotations.
Open Scope N_scope.

Definition bytes_ok (f : frame) : Prop := Forall (fun b => b < 256) f.

(* ---------- loads keep bytes bytes ---------- *)
Lemma firstn_bytes_ok : forall n (l : list N), bytes_ok l -> bytes_ok (firstn n l).
Proof.
  unfold bytes_ok. induction n as [| n IH]; intros l H; cbn [firstn]; [constructor |].
  destruct l as [| a l]; [constructor |]. inversion H; subst. constructor; [assumption |]. apply IH; assumption.
Qed.

Lemma skipn_bytes_ok : forall n (l : list N), bytes_ok l -> bytes_ok (skipn n l).
Proof.
  unfold bytes_ok. induction n as [| n IH]; intros l H; cbn [skipn]; [exact H |].
  destruct l as [| a l]; [constructor |]. inversion H; subst. apply IH; assumption.
Qed.

Lemma slice_bytes_ok : forall f o n, bytes_ok f -> bytes_ok (slice f o n).
Proof. intros f o n H. unfold slice. apply firstn_bytes_ok, skipn_bytes_ok, H. Qed.

Lemma rd_bytes_ok : forall f off n h, bytes_ok f -> rd f off n = Some h -> bytes_ok h.
Proof.
  intros f off n h Hf. unfold rd. destruct (off + N.of_nat n <=? len f); [| discriminate].
  intro H; injection H as <-. apply slice_bytes_ok; exact Hf.
Qed.

Lemma rd_length : forall f off n h, rd f off n = Some h -> length h = n.
Proof.
  intros f off n h. unfold rd, len. destruct (off + N.of_nat n <=? N.of_nat (length f)) eqn:E; [| discriminate].
  intro H; injection H as <-. unfold slice. apply firstn_length_le. rewrite skipn_length. lia.
Qed.

Lemma rd_ok : forall f off n h, rd f off n = Some h -> bytes_ok f -> bytes_ok h /\ length h = n.
Proof. intros f off n h E Hf. split; [eapply rd_bytes_ok; eauto | eapply rd_length; eauto]. Qed.

(* ---------- field readers ---------- *)
Lemma byte_lt : forall h i, bytes_ok h -> byte h i < 256.
Proof.
  unfold byte, bytes_ok. intros h i H.
  destruct (nth_in_or_default i h 0) as [Hin | ->]; [| reflexivity].
  rewrite Forall_forall in H. apply H; exact Hin.
Qed.

Lemma be16_lt : forall h i, bytes_ok h -> be16 h i < 65536.
Proof.
  intros h i H. unfold be16. pose proof (byte_lt h i H). pose proof (byte_lt h (S i) H). lia.
Qed.

Lemma be32_lt : forall h i, bytes_ok h -> be32 h i < 4294967296.
Proof.
  intros h i H. unfold be32. pose proof (be16_lt h i H). pose proof (be16_lt h (i + 2) H). lia.
Qed.

Lemma fold_be_lt : forall l a, bytes_ok l ->
  fold_left (fun acc b => acc * 256 + b) l a + 1 <= (a + 1) * 256 ^ N.of_nat (length l).
Proof.
  induction l as [| b l IH]; intros a H.
  - cbn [fold_left length]. change (N.of_nat 0) with 0. rewrite N.pow_0_r. lia.
  - unfold bytes_ok in H. inversion H as [| ? ? Hb Hl]; subst. cbn [fold_left length].
    rewrite Nat2N.inj_succ, N.pow_succ_r'.
    specialize (IH (a * 256 + b) Hl).
    set (p := 256 ^ N.of_nat (length l)) in *.
    set (X := fold_left (fun acc b0 : N => acc * 256 + b0) l (a * 256 + b)) in *.
    assert ((a * 256 + b + 1) * p <= (a * 256 + 256) * p) by (apply N.mul_le_mono_r; lia).
    lia.
Qed.

Lemma be_val_lt : forall l, bytes_ok l -> be_val l < 256 ^ N.of_nat (length l).
Proof.
  intros l H. unfold be_val. pose proof (fold_be_lt l 0 H) as P.
  rewrite N.add_0_l, N.mul_1_l in P.
  set (p := 256 ^ N.of_nat (length l)) in *. lia.
Qed.

Lemma be_val_slice_lt : forall h o n, bytes_ok h -> be_val (slice h o n) < 256 ^ N.of_nat n.
Proof.
  intros h o n H. eapply N.lt_le_trans; [apply be_val_lt, slice_bytes_ok; exact H |].
  apply N.pow_le_mono_r; [discriminate |].
  unfold slice. pose proof (firstn_le_length n (skipn o h)). lia.
Qed.

Lemma pow_256_6 : 256 ^ N.of_nat 6 = 2 ^ 48.
Proof. vm_compute. reflexivity. Qed.
Lemma pow_256_16 : 256 ^ N.of_nat 16 = 2 ^ 128.
Proof. vm_compute. reflexivity. Qed.

Lemma be_val_slice6_lt : forall h o, bytes_ok h -> be_val (slice h o 6) < 2 ^ 48.
Proof. intros h o H. rewrite <- pow_256_6. apply be_val_slice_lt; exact H. Qed.
Lemma be_val_slice16_lt : forall h o, bytes_ok h -> be_val (slice h o 16) < 2 ^ 128.
Proof. intros h o H. rewrite <- pow_256_16. apply be_val_slice_lt; exact H. Qed.

Lemma v4mapped_lt : forall x, x < 4294967296 -> V4MAPPED + x < 2 ^ 128.
Proof.
  intros x H. apply N.lt_le_trans with (2 ^ 48).
  - change (2 ^ 48) with 281474976710656. unfold V4MAPPED. lia.
  - apply N.pow_le_mono_r; [discriminate |]. discriminate.
Qed.

(* ---------- DSCP, by exhausting the byte values ---------- *)
Definition all_bytes : list N := map N.of_nat (seq 0 256).

Lemma in_all_bytes : forall b, b < 256 -> In b all_bytes.
Proof.
  intros b H. unfold all_bytes. rewrite <- (N2Nat.id b). apply in_map. apply in_seq. lia.
Qed.

Lemma byte_forall : forall P : N -> bool, forallb P all_bytes = true -> forall b, b < 256 -> P b = true.
Proof. intros P H b Hb. rewrite forallb_forall in H. apply H, in_all_bytes, Hb. Qed.

Lemma dscp4_lt : forall tos, tos < 256 -> N.shiftr (N.land tos 0xfc) 2 < 64.
Proof.
  intros tos H. apply N.ltb_lt.
  apply (byte_forall (fun b => N.shiftr (N.land b 0xfc) 2 <? 64)); [vm_compute; reflexivity | exact H].
Qed.

Lemma dscp6_lt : forall b0 b1, b0 < 256 -> b1 < 256 ->
  N.lor (N.shiftl (N.land b0 0x0f) 2) (N.shiftr b1 6) < 64.
Proof.
  intros b0 b1 H0 H1. apply N.ltb_lt.
  apply (byte_forall (fun y => N.lor (N.shiftl (N.land b0 0x0f) 2) (N.shiftr y 6) <? 64)); [| exact H1].
  apply (byte_forall (fun x => forallb (fun y => N.lor (N.shiftl (N.land x 0x0f) 2) (N.shiftr y 6) <? 64) all_bytes));
    [vm_compute; reflexivity | exact H0].
Qed.

(* ---------- the headers ---------- *)
Definition eth_ok (e : eth_t) : Prop := eh_source e < 2 ^ 48.
Definition ip4_ok (i : ip4_t) : Prop := i4_tos i < 256 /\ i4_saddr i < 4294967296 /\ i4_daddr i < 4294967296.
Definition ip6_ok (i : ip6_t) : Prop :=
  i6_b0 i < 256 /\ i6_b1 i < 256 /\ i6_saddr i < 2 ^ 128 /\ i6_daddr i < 2 ^ 128.
Definition tcp_ok (t : tcp_t) : Prop := t_sport t < 65536 /\ t_dport t < 65536.
Definition udp_ok (u : udp_t) : Prop := u_sport u < 65536 /\ u_dport u < 65536.
(* all the fields get_tuples and classify read *)
Definition ctx_ok (c : pctx) : Prop :=
  eth_ok (c_eth c) /\ ip4_ok (c_ip4 c) /\ ip6_ok (c_ip6 c) /\ tcp_ok (c_tcp c) /\ udp_ok (c_udp c) /\
  c_l4proto c < 256.

Lemma eth_of_ok : forall h, bytes_ok h -> eth_ok (eth_of h).
Proof. intros h H. unfold eth_ok, eth_of. cbn [eh_source]. apply be_val_slice6_lt; exact H. Qed.
Lemma eth_l3_ok : forall proto, eth_ok (mk_eth proto 0 0).
Proof. intro proto. unfold eth_ok. cbn [eh_source]. reflexivity. Qed.
Lemma z_ip4_ok : ip4_ok z_ip4.
Proof. unfold ip4_ok, z_ip4. cbn [i4_tos i4_saddr i4_daddr]. repeat split. Qed.
Lemma z_ip6_ok : ip6_ok z_ip6.
Proof. unfold ip6_ok, z_ip6. cbn [i6_b0 i6_b1 i6_saddr i6_daddr]. repeat split. Qed.
Lemma z_tcp_ok : tcp_ok z_tcp.
Proof. unfold tcp_ok, z_tcp. cbn [t_sport t_dport]. repeat split. Qed.
Lemma z_udp_ok : udp_ok z_udp.
Proof. unfold udp_ok, z_udp. cbn [u_sport u_dport]. repeat split. Qed.
Lemma ip4_of_ok : forall h, bytes_ok h -> ip4_ok (ip4_of h).
Proof.
  intros h H. unfold ip4_ok, ip4_of. cbn [i4_tos i4_saddr i4_daddr].
  split; [apply byte_lt; exact H |]. split; apply be32_lt; exact H.
Qed.
Lemma ip4_proto_lt : forall h, bytes_ok h -> i4_proto (ip4_of h) < 256.
Proof. intros h H. unfold ip4_of. cbn [i4_proto]. apply byte_lt; exact H. Qed.
Lemma ip6_of_ok : forall h, bytes_ok h -> ip6_ok (ip6_of h).
Proof.
  intros h H. unfold ip6_ok, ip6_of. cbn [i6_b0 i6_b1 i6_saddr i6_daddr].
  split; [apply byte_lt; exact H |]. split; [apply byte_lt; exact H |].
  split; apply be_val_slice16_lt; exact H.
Qed.
Lemma tcp_of_ok : forall h, bytes_ok h -> tcp_ok (tcp_slow_of h).
Proof. intros h H. unfold tcp_ok, tcp_slow_of. cbn [t_sport t_dport]. split; apply be16_lt; exact H. Qed.
Lemma udp_of_ok : forall h, bytes_ok h -> udp_ok (udp_of h).
Proof. intros h H. unfold udp_ok, udp_of. cbn [u_sport u_dport]. split; apply be16_lt; exact H. Qed.

Lemma ctx_mk_ok : forall e i4 i6 ic t u ihl l4 lst,
  eth_ok e -> ip4_ok i4 -> ip6_ok i6 -> tcp_ok t -> udp_ok u -> l4 < 256 ->
  ctx_ok (mk_pctx e i4 i6 ic t u ihl l4 lst).
Proof.
  intros. unfold ctx_ok. cbn [c_eth c_ip4 c_ip6 c_tcp c_udp c_l4proto].
  do 5 (split; [assumption |]). assumption.
Qed.
Lemma z_ctx_ok : ctx_ok z_ctx.
Proof.
  unfold z_ctx. apply ctx_mk_ok;
    [apply eth_l3_ok | apply z_ip4_ok | apply z_ip6_ok | apply z_tcp_ok | apply z_udp_ok | reflexivity].
Qed.

(* ---------- the IPv6 extension-header loop only hands out bytes ---------- *)
Definition xres_ok (x : xres) : Prop :=
  match x with XRet _ l4 => l4 < 256 | XDone _ nh l4 => nh < 256 /\ l4 < 256 end.

Lemma v6_slow_ok : forall fuel f off nh l4, bytes_ok f -> nh < 256 -> l4 < 256 ->
  xres_ok (v6_ext_slow fuel f off nh l4).
Proof.
  induction fuel as [| fuel IH]; intros f off nh l4 Hf Hnh Hl4; cbn [v6_ext_slow].
  - cbn [xres_ok]. split; assumption.
  - destruct (nh =? IPPROTO_NONE); [exact Hl4 |].
    destruct (nh =? IPPROTO_FRAGMENT).
    { destruct (rd f off 8) as [h |] eqn:E; [| exact Hl4].
      pose proof (rd_bytes_ok _ _ _ _ Hf E) as Hh.
      destruct (negb (N.land (be16 h 2) 65528 =? 0)).
      - cbn [xres_ok]. apply byte_lt; exact Hh.
      - apply IH; [exact Hf | apply byte_lt; exact Hh | apply byte_lt; exact Hh]. }
    destruct (negb (is_extension_header nh)); [cbn [xres_ok]; split; assumption |].
    destruct (rd f off 1) as [h0 |] eqn:E0; [| exact Hl4].
    destruct (rd f (off + 1) 1) as [h1 |] eqn:E1; [| exact Hl4].
    apply IH; [exact Hf | | exact Hl4]. apply byte_lt. exact (rd_bytes_ok _ _ _ _ Hf E0).
Qed.

(* ---------- the slow parser ---------- *)
Ltac leaf :=
  cbn [snd];
  first [ apply z_ctx_ok
        | apply ctx_mk_ok;
          first [ assumption | apply z_ip4_ok | apply z_ip6_ok | apply z_tcp_ok | apply z_udp_ok
                | apply ip4_of_ok; assumption | apply ip6_of_ok; assumption
                | apply tcp_of_ok; assumption | apply udp_of_ok; assumption
                | apply ip4_proto_lt; assumption | reflexivity ] ].

Lemma parse_slow_ok : forall eth proto f, bytes_ok f -> ctx_ok (snd (parse_slow eth proto f)).
Proof.
  intros eth proto f Hf. unfold parse_slow. cbv zeta.
  set (eo := if eth then _ else _).
  assert (Heo : forall e off, eo = Some (e, off) -> eth_ok e).
  { intros e off. subst eo. destruct eth.
    - destruct (rd f 0 14) as [h |] eqn:E; [| discriminate].
      intro H; injection H as <- _. apply eth_of_ok. exact (rd_bytes_ok _ _ _ _ Hf E).
    - intro H; injection H as <- _. apply eth_l3_ok. }
  clearbody eo. destruct eo as [[e off] |]; [| leaf].
  specialize (Heo e off eq_refl).
  destruct (eh_proto e =? ETH_P_IP).
  { destruct (rd f off 20) as [h |] eqn:Eh; [| leaf].
    pose proof (rd_bytes_ok _ _ _ _ Hf Eh) as Hh.
    destruct (lo4 (byte h 0) <? 5); [leaf |].
    destruct (negb (ip4_frag h =? 0)); [leaf |].
    destruct (i4_proto (ip4_of h) =? IPPROTO_TCP).
    { destruct (rd f (off + i4_ihl (ip4_of h) * 4) 20) as [t |] eqn:Et; [| leaf].
      pose proof (rd_bytes_ok _ _ _ _ Hf Et) as Ht. leaf. }
    destruct (i4_proto (ip4_of h) =? IPPROTO_UDP).
    { destruct (rd f (off + i4_ihl (ip4_of h) * 4) 8) as [u |] eqn:Eu; [| leaf].
      pose proof (rd_bytes_ok _ _ _ _ Hf Eu) as Hu. leaf. }
    leaf. }
  destruct (eh_proto e =? ETH_P_IPV6); [| leaf].
  destruct (rd f off 40) as [h |] eqn:Eh; [| leaf].
  pose proof (rd_bytes_ok _ _ _ _ Hf Eh) as Hh.
  assert (H0 : 0 < 256) by reflexivity.
  pose proof (v6_slow_ok (N.to_nat IPV6_MAX_EXTENSIONS) f (off + 40) (byte h 6) 0 Hf (byte_lt h 6 Hh) H0) as S.
  destruct (v6_ext_slow (N.to_nat IPV6_MAX_EXTENSIONS) f (off + 40) (byte h 6) 0) as [r l4 | off' nh l4];
    cbn [xres_ok] in S.
  { destruct (r <? 0)%Z; leaf. }
  destruct S as [Hnh _].
  destruct (is_extension_header nh); [leaf |].
  destruct (nh =? IPPROTO_TCP).
  { destruct (rd f off' 20) as [t |] eqn:Et; [| leaf].
    pose proof (rd_bytes_ok _ _ _ _ Hf Et) as Ht. leaf. }
  destruct (nh =? IPPROTO_UDP).
  { destruct (rd f off' 8) as [u |] eqn:Eu; [| leaf].
    pose proof (rd_bytes_ok _ _ _ _ Hf Eu) as Hu. leaf. }
  destruct (nh =? IPPROTO_ICMPV6).
  { destruct (rd f off' 8) as [i |] eqn:Ei; [| leaf]. leaf. }
  leaf.
Qed.

Lemma parse_transport_ok : forall eth proto pf lin f, bytes_ok f ->
  ctx_ok (snd (parse_transport eth proto pf lin f)).
Proof. intros. rewrite parse_transport_eq_proof. apply parse_slow_ok; assumption. Qed.

(* ---------- get_tuples ---------- *)
Definition key_ok (k : fkey) : Prop :=
  k_sip k < 2 ^ 128 /\ k_dip k < 2 ^ 128 /\ k_sport k < 65536 /\ k_dport k < 65536 /\ k_proto k < 256.

Lemma get_tuples_ok : forall c, ctx_ok c -> key_ok (fst (get_tuples c)) /\ snd (get_tuples c) < 64.
Proof.
  intros c (He & (Htos & Hs4 & Hd4) & (Hb0 & Hb1 & Hs6 & Hd6) & (Hts & Htd) & (Hus & Hud) & Hl4).
  unfold get_tuples. cbv zeta. cbn [fst snd]. unfold key_ok. cbn [k_sip k_dip k_sport k_dport k_proto].
  split.
  - split; [destruct (i4_ver (c_ip4 c) =? 4); [apply v4mapped_lt |]; assumption |].
    split; [destruct (i4_ver (c_ip4 c) =? 4); [apply v4mapped_lt |]; assumption |].
    split; [destruct (c_l4proto c =? IPPROTO_TCP); assumption |].
    split; [destruct (c_l4proto c =? IPPROTO_TCP); assumption | assumption].
  - destruct (i4_ver (c_ip4 c) =? 4); [apply dscp4_lt | apply dscp6_lt]; assumption.
Qed.

Lemma z_key_ok : key_ok z_key.
Proof. unfold key_ok, z_key. cbn [k_sip k_dip k_sport k_dport k_proto]. repeat split. Qed.

(* ---------- the packet of the specification ---------- *)
Lemma classify_ok : forall r, ctx_ok (snd r) ->
  key_ok (p_key (classify r)) /\ p_mac (classify r) < 2 ^ 48 /\ p_dscp (classify r) < 64.
Proof.
  intros [ret c] Hc. cbn [snd] in Hc. unfold classify.
  destruct (ret <? 0)%Z.
  { cbn [p_key p_mac p_dscp]. split; [apply z_key_ok |]. split; reflexivity. }
  destruct ((0 <? ret)%Z || (c_l4proto c =? IPPROTO_ICMPV6)).
  { cbn [p_key p_mac p_dscp]. split; [apply z_key_ok |]. split; reflexivity. }
  pose proof (get_tuples_ok c Hc) as [Hk Hd].
  destruct (get_tuples c) as [k d]. cbn [fst snd] in Hk, Hd.
  destruct Hc as (He & _).
  destruct (c_l4proto c =? IPPROTO_TCP); cbn [p_key p_mac p_dscp];
    (split; [exact Hk |]; split; [exact He | exact Hd]).
Qed.

Lemma parse_field_ranges_proof : forall eth proto pf lin f,
  bytes_ok f ->
  let p := classify (parse_transport eth proto pf lin f) in
  k_sip (p_key p) < 2 ^ 128 /\ k_dip (p_key p) < 2 ^ 128 /\ k_sport (p_key p) < 65536 /\ k_dport (p_key p) < 65536 /\
  k_proto (p_key p) < 256 /\ p_mac p < 2 ^ 48 /\ p_dscp p < 64.
Proof.
  intros eth proto pf lin f Hf p.
  destruct (classify_ok _ (parse_transport_ok eth proto pf lin f Hf)) as ((H1 & H2 & H3 & H4 & H5) & H6 & H7).
  fold p in H1, H2, H3, H4, H5, H6, H7.
  repeat split; assumption.
Qed.

Lemma query_field_ranges_proof : forall eth proto pf lin f e wan,
  bytes_ok f ->
  let q := query e (classify (parse_transport eth proto pf lin f)) wan in
  q_sip q < 2 ^ 128 /\ q_dip q < 2 ^ 128 /\ q_sport q < 65536 /\ q_dport q < 65536 /\ q_mac q < 2 ^ 48 /\ q_dscp q < 256.
Proof.
  intros eth proto pf lin f e wan Hf q.
  destruct (parse_field_ranges_proof eth proto pf lin f Hf) as (H1 & H2 & H3 & H4 & _ & H6 & H7).
  subst q. unfold query. cbn [q_sip q_dip q_sport q_dport q_mac q_dscp].
  split; [exact H1 |]. split; [exact H2 |]. split; [exact H3 |]. split; [exact H4 |]. split; [exact H6 |].
  eapply N.lt_trans; [exact H7 | reflexivity].
Qed.

Lemma rquery_of_field_ranges_proof : forall eth proto pf lin f e wan pname ret pk,
  bytes_ok f -> parse_packet (parse_transport eth proto pf lin f) = (ret, Some pk) ->
  let q := rquery_of e pk wan pname in
  q_sip q < 2 ^ 128 /\ q_dip q < 2 ^ 128 /\ q_sport q < 65536 /\ q_dport q < 65536 /\ q_mac q < 2 ^ 48 /\ q_dscp q < 256.
Proof.
  intros eth proto pf lin f e wan pname ret pk Hf Hp q.
  pose proof (parse_transport_ok eth proto pf lin f Hf) as Hc.
  destruct (parse_transport eth proto pf lin f) as [r c]. cbn [snd] in Hc.
  unfold parse_packet in Hp.
  destruct (r <? 0)%Z; [discriminate |].
  destruct (c_l4proto c =? IPPROTO_ICMPV6); [discriminate |].
  pose proof (get_tuples_ok c Hc) as [(H1 & H2 & H3 & H4 & _) Hd].
  destruct (get_tuples c) as [k d]. cbn [fst snd] in H1, H2, H3, H4, Hd.
  destruct Hc as (He & _). unfold eth_ok in He.
  injection Hp as _ <-.
  subst q. unfold rquery_of. cbn [q_sip q_dip q_sport q_dport q_mac q_dscp pp_key pp_hsource pp_dscp].
  split; [exact H1 |]. split; [exact H2 |]. split; [exact H3 |]. split; [exact H4 |]. split; [exact He |].
  eapply N.lt_trans; [exact Hd | reflexivity].
Qed.

Print Assumptions parse_field_ranges_proof.
Print Assumptions query_field_ranges_proof.
Print Assumptions rquery_of_field_ranges_proof.
