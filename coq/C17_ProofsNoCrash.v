(* C17 — the parser model never answers with a crash: every answer is a value or an error. *)
From Coq Require Import List NArith Bool Lia.
From Dae Require Import C17_Spec C17_Model C17_ProofsMerge.
Import ListNotations.
Open Scope N_scope.

Definition not_crash (w : witem) : Prop := w <> WCrash.

(* the walker crashes only on an item that is a crash *)
Lemma walk_items_nc : forall l, Forall not_crash l -> walk_items l <> WCrashed.
Proof.
  induction l as [|w l IH]; simpl; intro HF.
  - discriminate.
  - inversion HF as [|x y Hw Hl]; subst. specialize (IH Hl).
    destruct w.
    + destruct (walk_items l); try discriminate. exact IH.
    + destruct (walk_items l); try discriminate. exact IH.
    + discriminate.
    + exfalso. apply Hw. reflexivity.
Qed.

Lemma walk_sections_nc : forall (ss : list (str * wres (list gitem))),
    Forall (fun p => snd p <> WCrashed) ss -> walk_sections ss <> WCrashed.
Proof.
  induction ss as [|[n w] ss IH]; simpl; intro HF.
  - discriminate.
  - inversion HF as [|x y Hw Hl]; subst. specialize (IH Hl). simpl in Hw.
    destruct w.
    + destruct (walk_sections ss); try discriminate. exact IH.
    + destruct (walk_sections ss); try discriminate. exact IH.
    + exfalso. apply Hw. reflexivity.
Qed.

(* a sub-parser that answers, answers with something satisfying P *)
Definition yields {A : Type} (P : A -> Prop) (r : res (A * list tok)) : Prop :=
  match r with
  | Ok (x, _) => P x
  | _ => True
  end.

(* follow the chain of matches at the head of the goal and split on the innermost scrutinee *)
Ltac nc_scrut e :=
  lazymatch e with
  | match ?x with _ => _ end => nc_scrut x
  | _ => e
  end.
Ltac nc_call L s :=
  let G := fresh "G" in
  pose proof L as G; unfold yields in G; revert G; destruct s as [[? ?]| |]; intro G.
Ltac nc_step tac :=
  lazymatch goal with
  | |- match ?x with _ => _ end =>
      let s := nc_scrut x in first [ tac s | destruct s ]
  end;
  cbv beta iota zeta.
Ltac nc_item :=
  simpl; try exact I; try discriminate;
  try (match goal with |- context[all_some ?x] => destruct (all_some x) end; discriminate).

Lemma parse_rule_nc : forall fuel ts, yields not_crash (parse_rule fuel ts).
Proof.
  intros fuel ts. unfold yields, not_crash, parse_rule. cbv beta iota zeta.
  repeat (nc_step ltac:(fun s => fail)); nc_item.
Qed.

Lemma parse_decl_nc : forall fuel key ts, yields not_crash (parse_decl fuel key ts).
Proof.
  intros fuel key ts. unfold yields, not_crash, parse_decl. cbv beta iota zeta.
  repeat (nc_step ltac:(fun s => fail)); nc_item.
Qed.

Lemma parse_items_nc : forall fuel ts, yields (Forall not_crash) (parse_items fuel ts).
Proof.
  induction fuel as [|f IH]; intro ts; [exact I|].
  cbn [parse_items]. unfold yields. cbv beta iota zeta.
  repeat (nc_step ltac:(fun s => lazymatch s with
                                  | parse_items f ?x => nc_call (IH x) s
                                  | parse_rule ?g ?x => nc_call (parse_rule_nc g x) s
                                  | parse_decl ?g ?k ?x => nc_call (parse_decl_nc g k x) s
                                  end));
    simpl in *; try exact I;
    repeat match goal with
           | |- Forall _ [] => constructor
           | |- Forall _ (_ :: _) => constructor; [|assumption]
           end;
    try assumption; try (unfold not_crash; discriminate).
  all: match goal with
       | H : Forall not_crash ?l |- context[walk_items ?l] =>
           pose proof (walk_items_nc l H) as W; destruct (walk_items l)
       end; unfold not_crash; try discriminate.
  all: exfalso; apply W; reflexivity.
Qed.

Lemma parse_sections_nc : forall fuel ts ss,
    parse_sections fuel ts = Ok ss -> Forall (fun p => snd p <> WCrashed) ss.
Proof.
  induction fuel as [|f IH]; intros ts ss H; [discriminate|].
  cbn [parse_sections] in H.
  destruct ts as [|t ts]; [inversion H; constructor|]. destruct t; try discriminate.
  destruct ts as [|t ts]; [discriminate|]. destruct t; try discriminate.
  pose proof (parse_items_nc (S f) ts) as G. unfold yields in G.
  destruct (parse_items (S f) ts) as [[is r]| |]; try discriminate.
  destruct r as [|t r]; [discriminate|]. destruct t; try discriminate.
  destruct (parse_sections f r) as [ss'| |] eqn:E; try discriminate.
  inversion H; subst. constructor.
  - simpl. apply walk_items_nc. exact G.
  - apply (IH r). exact E.
Qed.

Lemma parse_tokens_never_crashes : forall ts, parse_tokens ts <> PCrash.
Proof.
  intro ts. unfold parse_tokens.
  destruct (parse_sections (S (length ts)) ts) as [ss| |] eqn:E; try discriminate.
  pose proof (walk_sections_nc ss (parse_sections_nc _ _ _ E)) as W.
  destruct (walk_sections ss); try discriminate. exfalso. apply W. reflexivity.
Qed.

Lemma parse_never_crashes : forall text : str, parse text <> PCrash.
Proof.
  intro text. unfold parse.
  destruct (lex (S (length text)) text) as [ts| |]; try discriminate.
  apply parse_tokens_never_crashes.
Qed.

Lemma parse_answers : forall text : str, (exists ss, parse text = POk ss) \/ parse text = PErr.
Proof.
  intro text. pose proof (parse_total text) as Hf. pose proof (parse_never_crashes text) as Hc.
  destruct (parse text) as [ss| | |].
  - left. exists ss. reflexivity.
  - right. reflexivity.
  - exfalso. apply Hc. reflexivity.
  - exfalso. apply Hf. reflexivity.
Qed.
