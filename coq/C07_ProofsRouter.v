(* C07 — lemmas about the daedns router (component/daedns/router.go, client.go): the compiled sub/node/subnode
   matchers are the internal selectors of the written request list; the dialer asks the resolver the spec names. *)
From Coq Require Import List NArith Bool String Ascii Arith Lia ZifyBool ZifyN ZifyNat.
From Dae Require Import C07_Spec C07_Model C07_Proofs C07_ProofsSplit.
From Dae.gen Require Import C07_Consts.
Import ListNotations.
Open Scope N_scope.

(* the named upstream handed to a dialer is a defined, non-reserved, non-empty tag *)
Definition named_ok (ups : list string) (named : option string) : Prop :=
  match named with None => True | Some n => n <> ""%string /\ reserved n = false /\ defined ups n = true end.

(* ------------------------------------------------------------------------------------------------ *)
(* generic                                                                                            *)
(* ------------------------------------------------------------------------------------------------ *)
Lemma forallb_ext_R {A} (f g : A -> bool) l : (forall x, f x = g x) -> forallb f l = forallb g l.
Proof. intros H. induction l as [|x l IH]; [reflexivity|]. cbn [forallb]. now rewrite H, IH. Qed.
Lemma existsb_ext_R {A} (f g : A -> bool) l : (forall x, f x = g x) -> existsb f l = existsb g l.
Proof. intros H. induction l as [|x l IH]; [reflexivity|]. cbn [existsb]. now rewrite H, IH. Qed.

Lemma index_of_in : forall l s i k, index_of l s i = Some k -> In s l.
Proof.
  induction l as [|t r IH]; intros s i k H; [discriminate|]. cbn [index_of] in H.
  destruct (String.eqb t s) eqn:E.
  - apply String.eqb_eq in E. now left.
  - right. eapply IH; eauto.
Qed.

Lemma defined_has_tag ups t : defined ups t = true -> has_tag ups t = true.
Proof.
  unfold defined, has_tag. intros H. destruct (existsb (String.eqb t) ups) eqn:E; [reflexivity|].
  rewrite (index_of_none ups t 0 E) in H. discriminate.
Qed.

(* ------------------------------------------------------------------------------------------------ *)
(* groupParamValuesByKey (router.go)                                                                  *)
(* ------------------------------------------------------------------------------------------------ *)
Lemma skey_eqb_eq a b : skey_eqb a b = true -> a = b.
Proof. destruct a, b; intros H; try reflexivity; vm_compute in H; discriminate H. Qed.

Lemma sadd_existsb (f : skey -> string -> bool) key v : forall gs,
  existsb (fun g => existsb (f (fst g)) (snd g)) (sadd_to_group key v gs)
  = existsb (fun g => existsb (f (fst g)) (snd g)) gs || f key v.
Proof.
  induction gs as [|[k vs] rest IH]; cbn [sadd_to_group].
  - cbn [existsb fst snd]. now rewrite !orb_false_r.
  - destruct (skey_eqb k key) eqn:E.
    + apply skey_eqb_eq in E. subst k. cbn [existsb fst snd]. rewrite existsb_app. cbn [existsb]. rewrite orb_false_r.
      rewrite <- !orb_assoc. f_equal. apply orb_comm.
    + cbn [existsb fst snd]. rewrite IH. apply orb_assoc.
Qed.

Lemma sadd_forallb (P : skey -> bool) key v : forall gs,
  forallb (fun g => P (fst g)) (sadd_to_group key v gs) = forallb (fun g => P (fst g)) gs && P key.
Proof.
  induction gs as [|[k vs] rest IH]; cbn [sadd_to_group].
  - cbn [forallb fst]. now rewrite andb_true_r.
  - destruct (skey_eqb k key) eqn:E.
    + apply skey_eqb_eq in E. subst k. cbn [forallb fst]. destruct (P key); cbn [andb]; [now rewrite andb_true_r|reflexivity].
    + cbn [forallb fst]. rewrite IH. apply andb_assoc.
Qed.

Lemma sgroup_existsb_gen (f : skey -> string -> bool) : forall params acc,
  existsb (fun g => existsb (f (fst g)) (snd g)) (fold_left (fun gs kv => sadd_to_group (fst kv) (snd kv) gs) params acc)
  = existsb (fun g => existsb (f (fst g)) (snd g)) acc || existsb (fun kv => f (fst kv) (snd kv)) params.
Proof.
  induction params as [|[key v] ps IH]; intros acc; cbn [fold_left existsb fst snd].
  - now rewrite orb_false_r.
  - rewrite IH, sadd_existsb. now rewrite orb_assoc.
Qed.

Lemma sgroup_existsb (f : skey -> string -> bool) params :
  existsb (fun g => existsb (f (fst g)) (snd g)) (sgroup_by_key params) = existsb (fun kv => f (fst kv) (snd kv)) params.
Proof. unfold sgroup_by_key. now rewrite sgroup_existsb_gen. Qed.

Lemma sgroup_forallb_gen (P : skey -> bool) : forall params acc,
  forallb (fun g => P (fst g)) (fold_left (fun gs kv => sadd_to_group (fst kv) (snd kv) gs) params acc)
  = forallb (fun g => P (fst g)) acc && forallb (fun kv => P (fst kv)) params.
Proof.
  induction params as [|[key v] ps IH]; intros acc; cbn [fold_left forallb fst snd].
  - now rewrite andb_true_r.
  - rewrite IH, sadd_forallb. now rewrite andb_assoc.
Qed.

Lemma sgroup_forallb (P : skey -> bool) params :
  forallb (fun g => P (fst g)) (sgroup_by_key params) = forallb (fun kv => P (fst kv)) params.
Proof. unfold sgroup_by_key. now rewrite sgroup_forallb_gen. Qed.

(* ------------------------------------------------------------------------------------------------ *)
(* one selector: compile*Predicate                                                                    *)
(* ------------------------------------------------------------------------------------------------ *)
Definition m0 : meta := {| m_subtag := ""; m_name := ""; m_link := ""; m_host := ""; m_hits := [] |}.
Definition key_ok (k : ikind) (key : skey) : bool :=
  match param_holds k key "" m0 with Some _ => true | None => false end.
Definition pt (k : ikind) (m : meta) (key : skey) (v : string) : bool := param_true k m (key, v).

Lemma param_key_ok k key v m : (match param_holds k key v m with Some _ => true | None => false end) = key_ok k key.
Proof. destruct k, key; reflexivity. Qed.

Lemma compile_condition_ok k key vs : key_ok k key = true ->
  exists c, compile_condition k key vs = Ok c /\ forall m, ccond_eval c m = existsb (pt k m key) vs.
Proof.
  destruct k, key; intros H; vm_compute in H; try discriminate H;
    (eexists; split; [reflexivity|intros m; reflexivity]).
Qed.

Lemma compile_groups_ok k : forall gs, forallb (fun g => key_ok k (fst g)) gs = true ->
  exists cs, compile_groups k gs = Ok cs /\
    forall m, existsb (fun c => ccond_eval c m) cs = existsb (fun g => existsb (pt k m (fst g)) (snd g)) gs.
Proof.
  induction gs as [|[key vs] gs IH]; intros H.
  - exists []. split; [reflexivity|]. intros m. reflexivity.
  - cbn [forallb fst] in H. apply andb_true_iff in H. destruct H as [H1 H2].
    destruct (compile_condition_ok k key vs H1) as [c [Hc Hce]]. destruct (IH H2) as [cs [Hcs Hev]].
    exists (c :: cs). split.
    + cbn [compile_groups]. now rewrite Hc, Hcs.
    + intros m. cbn [existsb fst snd]. now rewrite Hce, Hev.
Qed.

Lemma compile_predicate_ok k s : selector_ok k s = true ->
  exists p, compile_predicate k s = Ok p /\ forall m, cpred_eval p m = selector_holds k s m.
Proof.
  intros Hok.
  assert (Hkeys : forallb (fun g => key_ok k (fst g)) (sgroup_by_key (s_params s)) = true).
  { rewrite sgroup_forallb. rewrite <- Hok. unfold selector_ok. apply forallb_ext_R. intros p. cbv beta.
    symmetry. apply param_key_ok. }
  destruct (compile_groups_ok k _ Hkeys) as [cs [Hcs Hev]].
  eexists. split. { unfold compile_predicate. rewrite Hcs. reflexivity. }
  intros m. unfold cpred_eval. cbn [cp_kind cp_not cp_any cp_conds]. rewrite Hev.
  rewrite (sgroup_existsb (pt k m)).
  rewrite (existsb_ext_R _ (param_true k m)) by (intros [a b]; reflexivity).
  unfold selector_holds. destruct (s_params s) as [|p ps].
  - cbn [existsb]. destruct k, (s_neg s), (String.eqb (m_subtag m) ""); reflexivity.
  - cbv beta iota zeta. generalize (existsb (param_true k m) (p :: ps)). intros e.
    destruct k, (s_neg s), e, (String.eqb (m_subtag m) ""); reflexivity.
Qed.

(* ------------------------------------------------------------------------------------------------ *)
(* one rule, one rule list                                                                            *)
(* ------------------------------------------------------------------------------------------------ *)
Lemma compile_preds_ok k : forall cs,
  forallb (is_int_cond k) cs = true ->
  forallb (fun c => match c with RInt _ s => selector_ok k s | RDns _ => false end) cs = true ->
  exists ps, compile_preds k cs = Ok ps /\
    forall m, forallb (fun p => cpred_eval p m) ps
            = forallb (fun c => match c with RInt k' s => ikind_eqb k k' && selector_holds k s m | RDns _ => false end) cs.
Proof.
  induction cs as [|c cs IH]; intros H1 H2.
  - exists []. split; [reflexivity|]. intros m. reflexivity.
  - cbn [forallb] in H1, H2. apply andb_true_iff in H1. apply andb_true_iff in H2.
    destruct H1 as [H1 H1']. destruct H2 as [H2 H2']. destruct c as [c|k' s]; [discriminate|]. cbn [is_int_cond] in H1.
    destruct (IH H1' H2') as [ps [Hps Hev]]. destruct (compile_predicate_ok k s H2) as [p [Hp Hpe]].
    exists (p :: ps). split.
    + cbn [compile_preds]. rewrite H1. cbn [negb]. now rewrite Hp, Hps.
    + intros m. cbn [forallb]. now rewrite H1, Hpe, Hev.
Qed.

(* a rule has shape ShInt k iff it is non-empty and consists of selectors of kind k only *)
Lemma int_shape k r :
  has_shape (ShInt k) r = negb (Nat.eqb (List.length (rr_conds r)) 0) && forallb (is_int_cond k) (rr_conds r).
Proof.
  unfold has_shape, shape_of. destruct (rr_conds r) as [|c cs]; [reflexivity|].
  cbn [List.length Nat.eqb negb andb forallb]. destruct c as [c|k' s]; cbn [is_dns_cond is_int_cond andb].
  - destruct (forallb is_dns_cond cs); destruct k; reflexivity.
  - destruct k, k'; cbn [ikind_eqb andb];
      repeat match goal with |- context [forallb ?f cs] => destruct (forallb f cs) end; reflexivity.
Qed.

Lemma shape_int_inv k r : has_shape (ShInt k) r = true -> shape_of r = ShInt k.
Proof.
  unfold has_shape. destruct (shape_of r) as [|k'|]; cbn [shape_eqb]; try discriminate.
  intros E. apply ikind_eqb_eq in E. now subst.
Qed.

Lemma int_rule_shape k r m : int_rule_holds k r m = true -> has_shape (ShInt k) r = true.
Proof.
  rewrite int_shape. unfold int_rule_holds. intros H. apply andb_true_iff in H. destruct H as [H1 H2].
  rewrite H1. cbn [andb]. rewrite forallb_forall in *. intros c Hc. specialize (H2 c Hc).
  destruct c as [c|k' s]; [discriminate|]. apply andb_true_iff in H2. now destruct H2.
Qed.

Lemma int_rule_parts ups k r : rrule_ok ups r = true -> has_shape (ShInt k) r = true ->
  reserved (rr_target r) = false /\ defined ups (rr_target r) = true /\
  forallb (fun c => match c with RInt _ s => selector_ok k s | RDns _ => false end) (rr_conds r) = true.
Proof.
  intros H E. unfold rrule_ok in H. rewrite (shape_int_inv k r E) in H.
  apply andb_true_iff in H. destruct H as [H _].
  apply andb_true_iff in H. destruct H as [H H3]. apply andb_true_iff in H. destruct H as [H1 H2].
  apply negb_true_iff in H1. auto.
Qed.

Lemma compile_rules_int ups k : forall rs, forallb (rrule_ok ups) rs = true ->
  exists crs, compile_rules ups k (filter (has_shape (ShInt k)) rs) = Ok crs /\
    forall m, cmatch crs m = first_internal k rs m.
Proof.
  induction rs as [|r rs IH]; intros H.
  - exists []. split; [reflexivity|]. intros m. reflexivity.
  - cbn [forallb] in H. apply andb_true_iff in H. destruct H as [H1 H2]. destruct (IH H2) as [crs [Hcrs Hev]].
    cbn [filter]. destruct (has_shape (ShInt k) r) eqn:E.
    + destruct (int_rule_parts ups k r H1 E) as [Hres [Hdef Hsel]].
      pose proof E as E'. rewrite int_shape in E'. apply andb_true_iff in E'. destruct E' as [Hne Hint].
      destruct (compile_preds_ok k (rr_conds r) Hint Hsel) as [ps [Hps Hpe]].
      exists ({| cr_preds := ps; cr_upstream := rr_target r |} :: crs). split.
      * cbn [compile_rules]. rewrite (defined_has_tag ups _ Hdef). cbn [negb]. now rewrite Hps, Hcrs.
      * intros m. cbn [cmatch first_internal cr_preds cr_upstream]. unfold int_rule_holds.
        rewrite Hne, Hpe, Hev. reflexivity.
    + exists crs. split; [exact Hcrs|]. intros m. cbn [first_internal].
      destruct (int_rule_holds k r m) eqn:Eh; [|apply Hev].
      rewrite (int_rule_shape k r m Eh) in E. discriminate.
Qed.

Lemma first_internal_named ups k m :
  forallb (fun t => negb (String.eqb t "")) ups = true ->
  forall rs, forallb (rrule_ok ups) rs = true -> named_ok ups (first_internal k rs m).
Proof.
  intros Htags. induction rs as [|r rs IH]; intros H; [exact I|].
  cbn [forallb] in H. apply andb_true_iff in H. destruct H as [H1 H2]. cbn [first_internal].
  destruct (int_rule_holds k r m) eqn:Eh; [|now apply IH].
  destruct (int_rule_parts ups k r H1 (int_rule_shape k r m Eh)) as [Hres [Hdef _]].
  cbn [named_ok]. split; [|split; assumption].
  intros Heq. rewrite Heq in Hdef. unfold defined in Hdef.
  destruct (index_of ups "" 0) as [i|] eqn:Ei; [|discriminate]. apply index_of_in in Ei.
  rewrite forallb_forall in Htags. specialize (Htags _ Ei). discriminate.
Qed.

(* ------------------------------------------------------------------------------------------------ *)
(* NewWithOption                                                                                      *)
(* ------------------------------------------------------------------------------------------------ *)
Definition router_body (rc : rconfig) (sp : split) : res (option router) :=
  match build_matcher Request (rc_upstreams rc) {| rt_rules := map to_rule (sp_dns sp); rt_fallback := rc_fallback rc |} with
  | Err e => Err e
  | Ok rq =>
    match compile_rules (rc_upstreams rc) ISub (sp_sub sp) with
    | Err e => Err e
    | Ok s =>
      match compile_rules (rc_upstreams rc) INode (sp_node sp) with
      | Err e => Err e
      | Ok n =>
        match compile_rules (rc_upstreams rc) ISubNode (sp_subnode sp) with
        | Err e => Err e
        | Ok sn => Ok (Some {| ro_ups := rc_upstreams rc; ro_req := rq; ro_sub := s; ro_node := n; ro_subnode := sn |})
        end
      end
    end
  end.

Lemma router_new_eq rc :
  router_new rc =
  match split_request_rules (rc_request rc) with
  | Err e => Err e
  | Ok sp =>
    if Nat.eqb (List.length (sp_dns sp) + List.length (sp_sub sp) + List.length (sp_node sp) + List.length (sp_subnode sp)) 0
    then Ok None else router_body rc sp
  end.
Proof.
  unfold router_new, router_body. destruct (split_request_rules (rc_request rc)) as [sp|e]; [|reflexivity].
  destruct sp as [a b c d]. cbn [sp_dns sp_sub sp_node sp_subnode].
  destruct a; [destruct b; [destruct c; [destruct d|]|]|]; reflexivity.
Qed.

Definition req_routing (rc : rconfig) : routing :=
  {| rt_rules := map to_rule (filter (has_shape ShDns) (rc_request rc)); rt_fallback := rc_fallback rc |}.

Lemma req_routing_ok rc : wf_rconfig rc = true -> routing_ok false (rc_upstreams rc) (req_routing rc) = true.
Proof.
  intros H. destruct (wf_rconfig_split rc H) as [_ Hc]. destruct (wf_config_parts _ Hc) as [_ [Hq _]]. exact Hq.
Qed.

Lemma router_build rc : wf_rconfig rc = true ->
  exists rq s n sn,
    build_matcher Request (rc_upstreams rc) (req_routing rc) = Ok rq /\
    (forall m, cmatch s m = first_internal ISub (rc_request rc) m) /\
    (forall m, cmatch n m = first_internal INode (rc_request rc) m) /\
    (forall m, cmatch sn m = first_internal ISubNode (rc_request rc) m) /\
    router_body rc (split_of (rc_request rc))
    = Ok (Some {| ro_ups := rc_upstreams rc; ro_req := rq; ro_sub := s; ro_node := n; ro_subnode := sn |}).
Proof.
  intros H. destruct (wf_rconfig_parts rc H) as [Hw [Hrs [Hf Hp]]].
  pose proof (req_routing_ok rc H) as Hq.
  destruct (refinement_core Request _ _
              {| x_q := {| q_name := ""; q_type := 0; q_regex_hits := [] |}; x_ips := []; x_from := SAsIs |} None Hw Hq)
    as [rq [Hrq _]].
  destruct (compile_rules_int (rc_upstreams rc) ISub _ Hrs) as [s [Hs Hs']].
  destruct (compile_rules_int (rc_upstreams rc) INode _ Hrs) as [n [Hn Hn']].
  destruct (compile_rules_int (rc_upstreams rc) ISubNode _ Hrs) as [sn [Hsn Hsn']].
  exists rq, s, n, sn. split; [exact Hrq|]. split; [exact Hs'|]. split; [exact Hn'|]. split; [exact Hsn'|].
  unfold router_body, split_of. cbn [sp_dns sp_sub sp_node sp_subnode]. fold (req_routing rc).
  now rewrite Hrq, Hs, Hn, Hsn.
Qed.

Lemma router_fields rc r : wf_rconfig rc = true -> router_new rc = Ok (Some r) ->
  ro_ups r = rc_upstreams rc /\
  build_matcher Request (rc_upstreams rc) (req_routing rc) = Ok (ro_req r) /\
  (forall m, cmatch (ro_sub r) m = first_internal ISub (rc_request rc) m) /\
  (forall m, cmatch (ro_node r) m = first_internal INode (rc_request rc) m) /\
  (forall m, cmatch (ro_subnode r) m = first_internal ISubNode (rc_request rc) m).
Proof.
  intros H Hr. destruct (router_build rc H) as [rq [s [n [sn [Hrq [Hs [Hn [Hsn Hb]]]]]]]].
  rewrite router_new_eq, (proj1 (wf_rconfig_split rc H)) in Hr.
  destruct (Nat.eqb _ 0) in Hr; [discriminate|]. rewrite Hb in Hr. inversion Hr; subst r.
  cbn [ro_ups ro_req ro_sub ro_node ro_subnode]. auto.
Qed.

Lemma C07_router_total_proof (rc : rconfig) :
  wf_rconfig rc = true -> exists o, router_new rc = Ok o /\ (o = None <-> rc_request rc = []).
Proof.
  intros H. destruct (router_build rc H) as [rq [s [n [sn [_ [_ [_ [_ Hb]]]]]]]].
  pose proof (proj1 (wf_rconfig_split rc H)) as Hsp.
  destruct (C07_split_nothing_dropped_proof _ _ Hsp) as [_ Hlen].
  rewrite router_new_eq, Hsp, <- Hlen.
  destruct (Nat.eqb (List.length (rc_request rc)) 0) eqn:E.
  - apply Nat.eqb_eq in E. apply length_zero_iff_nil in E. exists None. split; [reflexivity|]. tauto.
  - rewrite Hb. eexists. split; [reflexivity|]. split; [discriminate|].
    intros E'. rewrite E' in E. discriminate E.
Qed.

Lemma C07_router_selectors_proof (rc : rconfig) (r : router) (m : meta) :
  wf_rconfig rc = true -> router_new rc = Ok (Some r) ->
  match_node_upstream r m = node_upstream (rc_request rc) m /\
  match_subscription_upstream r m = subscription_upstream (rc_request rc) m /\
  named_ok (rc_upstreams rc) (node_upstream (rc_request rc) m) /\
  named_ok (rc_upstreams rc) (subscription_upstream (rc_request rc) m).
Proof.
  intros H Hr. destruct (router_fields rc r H Hr) as [Hu [Hb [Hs [Hn Hsn]]]].
  destruct (wf_rconfig_parts rc H) as [Hw [Hrs _]]. pose proof (wf_rconfig_tags rc H) as Htags.
  pose proof (first_internal_named (rc_upstreams rc) ISubNode m Htags _ Hrs) as NSN.
  pose proof (first_internal_named (rc_upstreams rc) INode m Htags _ Hrs) as NN.
  pose proof (first_internal_named (rc_upstreams rc) ISub m Htags _ Hrs) as NS.
  split; [|split; [|split]].
  - unfold match_node_upstream, node_upstream. rewrite Hsn, Hn.
    destruct (String.eqb (m_subtag m) ""); reflexivity.
  - unfold match_subscription_upstream, subscription_upstream. apply Hs.
  - unfold node_upstream. destruct (String.eqb (m_subtag m) ""); [exact NN|].
    destruct (first_internal ISubNode (rc_request rc) m) eqn:E; [exact NSN|exact NN].
  - exact NS.
Qed.

Lemma C07_router_lookup_plan_proof (rc : rconfig) (r : router) (named : option string) (control host : string) (bm : list N) (q : question) :
  wf_rconfig rc = true -> router_new rc = Ok (Some r) -> named_ok (rc_upstreams rc) named ->
  oracle_agrees (ro_req r) bm q ->
  dialer_plan r named control host bm q = Ok (lookup_plan rc named control host q).
Proof.
  intros H Hr Hn Hor. destruct (router_fields rc r H Hr) as [Hu [Hb _]].
  destruct (wf_rconfig_parts rc H) as [Hw _].
  destruct named as [n|].
  - destruct Hn as [Hne [Hres Hdef]]. unfold defined in Hdef.
    destruct (index_of (rc_upstreams rc) n 0) as [i|] eqn:Ei; [|discriminate].
    assert (Hn0 : String.eqb n "" = false) by now apply String.eqb_neq.
    assert (Hsel : select_upstream r n bm q = Ok (PlanUp i)).
    { unfold select_upstream. rewrite Hn0. cbn [negb]. rewrite Hu, (name2id_index _ n Hw), Ei. reflexivity. }
    unfold dialer_plan, lookup_plan. rewrite Ei, Hn0. destruct (same_host host control); exact Hsel.
  - unfold dialer_plan, lookup_plan. destruct (same_host host control); [reflexivity|].
    unfold select_upstream. change (negb (String.eqb "" "")) with false. cbv iota.
    unfold request_route_raw. rewrite C07_split_preserves_first_match_proof.
    pose proof (req_routing_ok rc H) as Hq.
    set (x := {| x_q := q; x_ips := []; x_from := SAsIs |}).
    destruct (refinement_core Request _ _ x (Some bm) Hw Hq) as [b [Hb' Href]].
    rewrite Hb in Hb'. inversion Hb'; subst b. clear Hb'.
    assert (Hagree : dom_agree x (Some bm) (ro_req r)) by (intros ds Hin; apply Hor; exact Hin).
    specialize (Href Hagree).
    destruct (verdict_req _ _ Hw (routing_ok_first_target Request _ _ x Hq)) as [oid [v [Hoid [Hv Hpost]]]].
    cbn [req_routing rt_rules rt_fallback] in Href, Hoid, Hv.
    change {| a_qtype := q_type q; a_ips := []; a_from := from_index SAsIs |} with (args_of x).
    rewrite Href, Hoid, Hu, Hv.
    destruct ((oid =? DnsRequestOutboundIndex_AsIs) || (oid =? DnsRequestOutboundIndex_Reject)).
    + inversion Hpost; subst v. destruct (oid =? DnsRequestOutboundIndex_AsIs); reflexivity.
    + destruct (N.of_nat (List.length (rc_upstreams rc)) <=? oid); [discriminate|]. inversion Hpost; subst v. reflexivity.
Qed.
