(* C18 — lemmas. *)
From Coq Require Import List NArith ZArith Bool Lia ZifyBool ZifyN.
From Dae Require Import C18_GoStrings C18_ParseAddr C18_Spec C18_Model.
From Dae.gen Require Import C18_Consts.
Import ListNotations.
Open Scope N_scope.

(* ---------------------------------------------------------------------------------------------
   byte strings
   --------------------------------------------------------------------------------------------- *)
Lemma str_eqb_refl : forall s, str_eqb s s = true.
Proof. induction s; cbn [str_eqb]; auto. rewrite N.eqb_refl. auto. Qed.

Lemma str_eqb_eq : forall a b, str_eqb a b = true <-> a = b.
Proof.
  induction a; destruct b; cbn [str_eqb]; split; intros H; try congruence; auto.
  - apply andb_true_iff in H. destruct H as [H1 H2]. apply N.eqb_eq in H1. apply IHa in H2. congruence.
  - inversion H; subst. rewrite N.eqb_refl. cbn. apply IHa. reflexivity.
Qed.

Lemma contains_app : forall c a b, contains c (a ++ b) = contains c a || contains c b.
Proof. intros. unfold contains. apply existsb_app. Qed.

Lemma contains_cons : forall c x s, contains c (x :: s) = (c =? x) || contains c s.
Proof. reflexivity. Qed.

Lemma contains_nil : forall c, contains c [] = false.
Proof. reflexivity. Qed.

Lemma break_last_none : forall c s, contains c s = false -> break_last c s = None.
Proof.
  induction s; cbn [break_last]; intros H; auto.
  rewrite contains_cons in H. apply orb_false_iff in H. destruct H as [H1 H2].
  rewrite IHs by auto. rewrite N.eqb_sym. rewrite H1. reflexivity.
Qed.

Lemma break_last_app : forall c a b, contains c b = false -> break_last c (a ++ c :: b) = Some (a, b).
Proof.
  induction a; intros b H; cbn [app break_last].
  - rewrite break_last_none by auto. rewrite N.eqb_refl. reflexivity.
  - rewrite IHa by auto. reflexivity.
Qed.

Lemma break_last_eq : forall c s a b, break_last c s = Some (a, b) -> s = a ++ c :: b /\ contains c b = false.
Proof.
  induction s; cbn [break_last]; intros a0 b H; try discriminate.
  destruct (break_last c s) as [[a1 b1]|] eqn:E.
  - inversion H; subst. destruct (IHs _ _ eq_refl) as [H1 H2]. split; auto. cbn. congruence.
  - destruct (a =? c) eqn:Ec; try discriminate. inversion H; subst. apply N.eqb_eq in Ec. subst.
    split; auto.
    clear IHs H. induction b; auto. cbn [break_last] in E.
    destruct (break_last c b) as [[? ?]|]; try discriminate.
    destruct (a =? c) eqn:E2; try discriminate.
    rewrite contains_cons. rewrite N.eqb_sym. rewrite E2. cbn. apply IHb. reflexivity.
Qed.

Lemma break_at_app : forall c a b, contains c a = false -> break_at c (a ++ c :: b) = Some (a, b).
Proof.
  induction a; intros b H; cbn [app break_at].
  - rewrite N.eqb_refl. reflexivity.
  - rewrite contains_cons in H. apply orb_false_iff in H. destruct H as [H1 H2].
    rewrite N.eqb_sym. rewrite H1. rewrite IHa by auto. reflexivity.
Qed.

Lemma break_at_eq : forall c s a b, break_at c s = Some (a, b) -> s = a ++ c :: b /\ contains c a = false.
Proof.
  induction s; cbn [break_at]; intros a0 b H; try discriminate.
  destruct (a =? c) eqn:Ec.
  - inversion H; subst. apply N.eqb_eq in Ec. subst. split; auto.
  - destruct (break_at c s) as [[a1 b1]|] eqn:E; try discriminate. inversion H; subst.
    destruct (IHs _ _ eq_refl) as [H1 H2]. split.
    + cbn. congruence.
    + rewrite contains_cons. rewrite N.eqb_sym. rewrite Ec. cbn. exact H2.
Qed.

Lemma no_brackets_iff : forall s, no_brackets s = true <-> contains c_lbr s = false /\ contains c_rbr s = false.
Proof.
  intros. unfold no_brackets. rewrite andb_true_iff. rewrite !negb_true_iff. tauto.
Qed.

(* net.SplitHostPort inverts net.JoinHostPort on every host without brackets and every port without
   colon or bracket *)
Lemma split_join_roundtrip :
  forall h p, no_brackets h = true -> no_brackets p = true -> contains c_colon p = false ->
              split_host_port (join_host_port h p) = Some (h, p).
Proof.
  intros h p Hh Hp Hc.
  apply no_brackets_iff in Hh. destruct Hh as [Hl Hr].
  apply no_brackets_iff in Hp. destruct Hp as [Hpl Hpr].
  unfold join_host_port. destruct (contains c_colon h) eqn:Ech.
  - unfold split_host_port.
    replace (c_lbr :: h ++ [c_rbr; c_colon] ++ p) with ((c_lbr :: h ++ [c_rbr]) ++ c_colon :: p)
      by (cbn; rewrite <- app_assoc; reflexivity).
    rewrite break_last_app by auto.
    cbn [app]. rewrite N.eqb_refl.
    replace ((h ++ [c_rbr]) ++ c_colon :: p) with (h ++ c_rbr :: c_colon :: p) by (rewrite <- app_assoc; reflexivity).
    rewrite break_at_app by auto.
    rewrite N.eqb_refl. rewrite Hc, Hl, Hpl, Hpr. reflexivity.
  - unfold split_host_port. cbn [app]. rewrite break_last_app by auto.
    destruct h as [|x h'].
    + cbn [app]. replace (c_colon =? c_lbr) with false by reflexivity.
      rewrite contains_nil. rewrite !contains_cons. rewrite Hpl, Hpr. reflexivity.
    + cbn [app]. rewrite contains_cons in Hl. apply orb_false_iff in Hl. destruct Hl as [Hl1 Hl2].
      rewrite N.eqb_sym. rewrite Hl1. rewrite Ech.
      rewrite contains_cons in Hr. apply orb_false_iff in Hr. destruct Hr as [Hr1 Hr2].
      rewrite !contains_cons. rewrite !contains_app. rewrite !contains_cons.
      rewrite Hl1, Hl2, Hr1, Hr2, Hpl, Hpr. reflexivity.
Qed.

(* what SplitHostPort returns never contains a bracket, and the port has no colon *)
Lemma split_host_port_clean :
  forall s h p, split_host_port s = Some (h, p) ->
                no_brackets h = true /\ no_brackets p = true /\ contains c_colon p = false.
Proof.
  intros s h p H. unfold split_host_port in H.
  destruct (break_last c_colon s) as [[before port]|] eqn:EL; try discriminate.
  destruct s as [|x tl]; try discriminate.
  destruct (x =? c_lbr) eqn:Ex.
  - destruct (break_at c_rbr tl) as [[host after]|] eqn:EA; try discriminate.
    destruct after as [|c p']; try discriminate.
    destruct ((c =? c_colon) && negb (contains c_colon p')) eqn:E1; try discriminate.
    destruct (contains c_lbr host || contains c_lbr p') eqn:E2; try discriminate.
    destruct (contains c_rbr p') eqn:E3; try discriminate.
    inversion H; subst. apply break_at_eq in EA. destruct EA as [_ EA].
    apply orb_false_iff in E2. destruct E2 as [E2a E2b].
    apply andb_true_iff in E1. destruct E1 as [_ E1]. apply negb_true_iff in E1.
    repeat split; auto; apply no_brackets_iff; auto.
  - destruct (contains c_colon before) eqn:E1; try discriminate.
    destruct (contains c_lbr (x :: tl)) eqn:E2; try discriminate.
    destruct (contains c_rbr (x :: tl)) eqn:E3; try discriminate.
    inversion H; subst. apply break_last_eq in EL. destruct EL as [Es Ep].
    rewrite Es in E2, E3. rewrite contains_app, contains_cons in E2, E3.
    apply orb_false_iff in E2. destruct E2 as [E2a E2b]. apply orb_false_iff in E2b. destruct E2b as [_ E2b].
    apply orb_false_iff in E3. destruct E3 as [E3a E3b]. apply orb_false_iff in E3b. destruct E3b as [_ E3b].
    repeat split; auto; apply no_brackets_iff; auto.
Qed.

(* strconv.Itoa yields decimal digits only *)
Definition is_digit (c : N) : Prop := 48 <= c /\ c <= 57.

Lemma itoa_aux_digits : forall fuel n acc, Forall is_digit acc -> Forall is_digit (itoa_aux fuel n acc).
Proof.
  induction fuel; intros n acc H; cbn [itoa_aux]; auto.
  assert (Hd : is_digit (48 + n mod 10)).
  { unfold is_digit. pose proof (N.mod_lt n 10). lia. }
  destruct (n / 10 =? 0); auto.
Qed.

Lemma itoa_digits : forall n, Forall is_digit (itoa n).
Proof. intros. apply itoa_aux_digits. constructor. Qed.

Lemma digits_not_contain : forall c s, Forall is_digit s -> 57 < c -> contains c s = false.
Proof.
  induction 1; intros Hc; auto. rewrite contains_cons. rewrite IHForall by auto.
  unfold is_digit in H. replace (c =? x) with false by lia. reflexivity.
Qed.

Lemma itoa_clean : forall n, no_brackets (itoa n) = true /\ contains c_colon (itoa n) = false.
Proof.
  intros. pose proof (itoa_digits n) as H. split.
  - apply no_brackets_iff. split; apply digits_not_contain; auto; unfold c_lbr, c_rbr; lia.
  - apply digits_not_contain; auto. unfold c_colon. lia.
Qed.

Lemma has_prefix1_contains : forall c s, has_prefix1 c s = true -> contains c s = true.
Proof.
  destruct s; cbn; intros H; try discriminate. rewrite N.eqb_sym. rewrite H. reflexivity.
Qed.

Lemma unbracket_clean : forall s, no_brackets s = true -> unbracket s = s.
Proof.
  intros s H. apply no_brackets_iff in H. destruct H as [Hl _]. unfold unbracket.
  destruct (has_prefix1 c_lbr s) eqn:E; auto. apply has_prefix1_contains in E. congruence.
Qed.

(* ---------------------------------------------------------------------------------------------
   the decision
   --------------------------------------------------------------------------------------------- *)
Definition knowledge_of (is_ip : str -> bool) (l : lookups) : knowledge :=
  {| k_resolved := l_dns l; k_verified := if l_real_known l then Some (l_real_real l) else None |}.

Section Decision.
  Variable is_ip : str -> bool.

  (* isIPLikeDomain is the spec's ip_like of the class; the second bracket removal in the code is dead *)
  Lemma ip_like_domain_class :
    forall d, is_ip_like_domain is_ip d = ip_like is_ip (classify is_ip d).
  Proof.
    intros d. unfold is_ip_like_domain, classify. destruct d as [|x d']; auto.
    destruct (is_ip (unbracket (x :: d'))) eqn:E; auto.
    destruct (split_host_port (unbracket (x :: d'))) as [[h p]|] eqn:ES; auto.
    cbn [ip_like]. apply split_host_port_clean in ES. destruct ES as [Hh _].
    rewrite unbracket_clean by auto. reflexivity.
  Qed.

  Lemma classify_nonempty : forall x d, classify is_ip (x :: d) <> CEmpty.
  Proof.
    intros. unfold classify. destruct (is_ip _); try discriminate.
    destruct (split_host_port _) as [[? ?]|]; discriminate.
  Qed.

  Lemma decide_spec :
    forall mode outbound domain l,
      let k := knowledge_of is_ip l in
      let c := classify is_ip domain in
      let '(use_name, reroute, _, _, _) := decide is_ip mode outbound domain l in
      use_name = spec_use_name is_ip mode (is_reserved outbound) c k /\
      reroute = spec_reroute is_ip mode (is_reserved outbound) c k.
  Proof.
    intros mode outbound domain l. cbv zeta.
    unfold decide. destruct domain as [|x d].
    - cbn [classify]. rewrite andb_false_r. cbn. destruct mode; auto.
    - pose proof (classify_nonempty x d) as Hne.
      rewrite ip_like_domain_class.
      remember (classify is_ip (x :: d)) as c.
      destruct (is_reserved outbound) eqn:ER; cbn [negb andb].
      + unfold spec_reroute, spec_use_name. destruct c; try congruence; destruct mode; auto.
      + unfold spec_reroute, spec_use_name, genuine, knowledge_of. cbn [k_resolved k_verified].
        destruct mode.
        * destruct c; try congruence; auto.
        * destruct (ip_like is_ip c) eqn:EL; cbn [negb andb].
          { destruct c; try congruence; auto. }
          { destruct (l_dns l); cbn [orb].
            - destruct c; try congruence; auto.
            - destruct (l_real_known l).
              + destruct (l_real_real l); destruct c; try congruence; auto.
              + destruct c; try congruence; auto. }
        * destruct c; try congruence; auto.
        * destruct c; try congruence; auto.
  Qed.

  Lemma dst_string_denotes :
    forall dst, dest_wf dst = true -> split_host_port (dst_string dst) = Some (d_ip dst, itoa (d_port dst)).
  Proof.
    intros dst H. unfold dest_wf in H. apply andb_true_iff in H. destruct H as [Hb Hc].
    destruct (itoa_clean (d_port dst)) as [Hp1 Hp2].
    unfold dst_string. destruct (d_is4 dst) eqn:E4.
    - cbn in Hc. apply negb_true_iff in Hc.
      pose proof (split_join_roundtrip (d_ip dst) (itoa (d_port dst)) Hb Hp1 Hp2) as R.
      unfold join_host_port in R. rewrite Hc in R. exact R.
    - destruct (contains c_colon (d_ip dst)) eqn:Ec.
      + pose proof (split_join_roundtrip (d_ip dst) (itoa (d_port dst)) Hb Hp1 Hp2) as R.
        unfold join_host_port in R. rewrite Ec in R. exact R.
      + (* an address text without colon in bracket form still splits (not produced by netip) *)
        apply no_brackets_iff in Hb. destruct Hb as [Hl Hr].
        apply no_brackets_iff in Hp1. destruct Hp1 as [Hpl Hpr].
        unfold split_host_port.
        replace (c_lbr :: d_ip dst ++ [c_rbr; c_colon] ++ itoa (d_port dst))
          with ((c_lbr :: d_ip dst ++ [c_rbr]) ++ c_colon :: itoa (d_port dst))
          by (cbn; rewrite <- app_assoc; reflexivity).
        rewrite break_last_app by auto. cbn [app]. rewrite N.eqb_refl.
        replace ((d_ip dst ++ [c_rbr]) ++ c_colon :: itoa (d_port dst))
          with (d_ip dst ++ c_rbr :: c_colon :: itoa (d_port dst)) by (rewrite <- app_assoc; reflexivity).
        rewrite break_at_app by auto. rewrite N.eqb_refl. rewrite Hp2, Hl, Hpl, Hpr. reflexivity.
  Qed.

  Lemma denotes_intro : forall t h p, split_host_port t = Some (h, p) -> denotes t (h, p) = true.
  Proof. intros. unfold denotes. rewrite H. cbn. rewrite !str_eqb_refl. reflexivity. Qed.

  Lemma denotes_elim : forall t e, denotes t e = true -> split_host_port t = Some e.
  Proof.
    intros t [h p] H. unfold denotes in H. destruct (split_host_port t) as [[h' p']|]; try discriminate.
    apply andb_true_iff in H. destruct H as [H1 H2]. apply str_eqb_eq in H1. apply str_eqb_eq in H2.
    cbn in *. congruence.
  Qed.

  (* the name branch of the second switch denotes the endpoint of the class *)
  Lemma domain_target_denotes :
    forall dst x d,
      let c := classify is_ip (x :: d) in
      literal_clean c = true ->
      match c with CName h => no_brackets h = true | _ => True end ->
      split_host_port (fst (domain_target is_ip dst (x :: d))) =
      Some (match c with
            | CIpLit a => (a, itoa (d_port dst))
            | CHostPort h p => (h, p)
            | CName h => (h, itoa (d_port dst))
            | CEmpty => ([], [])
            end).
  Proof.
    intros dst x d. cbv zeta. unfold classify, domain_target.
    destruct (itoa_clean (d_port dst)) as [Hp1 Hp2].
    destruct (is_ip (unbracket (x :: d))) eqn:E.
    - cbn [literal_clean fst]. intros Hc _. apply split_join_roundtrip; auto.
    - destruct (split_host_port (unbracket (x :: d))) as [[h p]|] eqn:ES.
      + cbn [fst]. intros _ _. exact ES.
      + cbn [fst]. intros _ Hn. apply split_join_roundtrip; auto.
  Qed.

  Lemma choose_table :
    forall mode outbound dst domain l,
      let k := knowledge_of is_ip l in
      let c := classify is_ip domain in
      let r := is_reserved outbound in
      let o := choose_dial_target is_ip mode outbound dst domain l in
      o_use_name o = spec_use_name is_ip mode r c k /\
      o_reroute o = spec_reroute is_ip mode r c k /\
      (dest_wf dst = true -> literal_clean c = true -> endpoint_constrained is_ip mode r c k = true ->
       denotes (o_target o) (spec_endpoint is_ip mode r (d_ip dst) (d_port dst) c k) = true).
  Proof.
    intros mode outbound dst domain l. cbv zeta.
    pose proof (decide_spec mode outbound domain l) as HD. cbv zeta in HD.
    unfold choose_dial_target.
    destruct (decide is_ip mode outbound domain l) as [[[[use_name reroute] a_dns] a_real] probe].
    destruct HD as [HU HR].
    destruct use_name.
    - destruct (domain_target is_ip dst domain) as [target dial_ip] eqn:ET. cbn [o_use_name o_reroute o_target].
      split; auto. split; auto.
      intros Hwf Hlc Hec. unfold spec_endpoint, endpoint_constrained in *. rewrite <- HU in *.
      destruct domain as [|x d].
      { cbn in HU. destruct (is_reserved outbound); destruct mode; discriminate. }
      pose proof (domain_target_denotes dst x d) as HT. cbv zeta in HT. rewrite ET in HT. cbn [fst] in HT.
      pose proof (classify_nonempty x d) as Hne.
      destruct (classify is_ip (x :: d)) eqn:EC; try congruence.
      + apply denotes_intro. apply HT; auto.
      + apply denotes_intro. apply HT; auto.
      + apply denotes_intro. apply HT; auto.
    - cbn [o_use_name o_reroute o_target]. split; auto. split; auto.
      intros Hwf _ _. unfold spec_endpoint. rewrite <- HU.
      apply denotes_intro. apply dst_string_denotes. exact Hwf.
  Qed.
End Decision.

(* ---------------------------------------------------------------------------------------------
   consequences of the table
   --------------------------------------------------------------------------------------------- *)
Section Consequences.
  Variable is_ip : str -> bool.

  Lemma choose_no_name :
    forall mode outbound dst domain l,
      let o := choose_dial_target is_ip mode outbound dst domain l in
      o_use_name o = false -> o_target o = dst_string dst /\ o_dial_ip o = true.
  Proof.
    intros mode outbound dst domain l. cbv zeta. unfold choose_dial_target.
    destruct (decide is_ip mode outbound domain l) as [[[[use_name reroute] a_dns] a_real] probe].
    destruct use_name.
    - destruct (domain_target is_ip dst domain). cbn. discriminate.
    - cbn. auto.
  Qed.

  Lemma ip_when_not_allowed :
    forall mode outbound dst domain l,
      (mode = ModeIp \/ domain = [] \/ is_reserved outbound = true \/
       (mode = ModeDomain /\ genuine (knowledge_of is_ip l) = false)) ->
      let o := choose_dial_target is_ip mode outbound dst domain l in
      o_target o = dst_string dst /\ o_reroute o = false /\ o_dial_ip o = true.
  Proof.
    intros mode outbound dst domain l H. cbv zeta.
    destruct (choose_table is_ip mode outbound dst domain l) as [HU [HR _]].
    assert (HF : spec_use_name is_ip mode (is_reserved outbound) (classify is_ip domain) (knowledge_of is_ip l) = false).
    { unfold spec_use_name. destruct H as [H | [H | [H | [H1 H2]]]]; subst.
      - destruct (classify is_ip domain); auto; destruct (is_reserved outbound); auto.
      - reflexivity.
      - rewrite H. destruct (classify is_ip domain); auto.
      - rewrite H2. rewrite andb_false_r. destruct (classify is_ip domain); auto; destruct (is_reserved outbound); auto. }
    rewrite HF in HU. destruct (choose_no_name mode outbound dst domain l HU) as [HT HI].
    repeat split; auto. rewrite HR. unfold spec_reroute. rewrite HF. destruct mode; auto.
  Qed.

  Lemma reroute_iff :
    forall mode outbound dst domain l,
      let o := choose_dial_target is_ip mode outbound dst domain l in
      o_reroute o = true <->
      (is_reserved outbound = false /\ domain <> [] /\
       (mode = ModeDomainCao \/
        (mode = ModeDomain /\ ip_like is_ip (classify is_ip domain) = false /\ genuine (knowledge_of is_ip l) = true))).
  Proof.
    intros mode outbound dst domain l. cbv zeta.
    destruct (choose_table is_ip mode outbound dst domain l) as [_ [HR _]]. rewrite HR. clear HR.
    unfold spec_reroute, spec_use_name.
    destruct domain as [|x d].
    - cbn [classify]. split.
      + destruct mode; discriminate.
      + intros [_ [H _]]. congruence.
    - pose proof (classify_nonempty is_ip x d) as Hne.
      destruct (classify is_ip (x :: d)) eqn:EC; try congruence;
        destruct (is_reserved outbound); destruct mode; cbn [negb andb];
          try (split; [discriminate | intros [H1 [H2 [H3 | [H3 _]]]]; discriminate]);
          try (split; [intros _; split; [reflexivity | split; [discriminate | left; reflexivity]] | reflexivity]);
          try (split; [ intros H; split; [reflexivity | split; [discriminate | right; split; [reflexivity|]]];
                        apply andb_true_iff in H; destruct H as [Ha Hb]; apply negb_true_iff in Ha; split; assumption
                      | intros [_ [_ [H | [_ [Ha Hb]]]]]; [discriminate | rewrite Ha, Hb; reflexivity] ]).
  Qed.

  Lemma wellformed_target :
    forall mode outbound dst domain l,
      let k := knowledge_of is_ip l in
      let c := classify is_ip domain in
      let r := is_reserved outbound in
      let o := choose_dial_target is_ip mode outbound dst domain l in
      dest_wf dst = true -> literal_clean c = true -> endpoint_constrained is_ip mode r c k = true ->
      exists h p, split_host_port (o_target o) = Some (h, p) /\
                  (h, p) = spec_endpoint is_ip mode r (d_ip dst) (d_port dst) c k /\
                  no_brackets h = true /\ no_brackets p = true /\ contains c_colon p = false.
  Proof.
    intros mode outbound dst domain l. cbv zeta. intros Hwf Hlc Hec.
    destruct (choose_table is_ip mode outbound dst domain l) as [_ [_ HT]].
    specialize (HT Hwf Hlc Hec). apply denotes_elim in HT.
    destruct (spec_endpoint is_ip mode (is_reserved outbound) (d_ip dst) (d_port dst) (classify is_ip domain)
                            (knowledge_of is_ip l)) as [h p] eqn:EE.
    exists h, p. split; auto. split; auto. apply split_host_port_clean in HT. exact HT.
  Qed.
End Consequences.

(* ---------------------------------------------------------------------------------------------
   histories: the state behind the look-ups is exactly what the past events say
   --------------------------------------------------------------------------------------------- *)
Open Scope Z_scope.

Lemma str_eqb_neq : forall a b, str_eqb a b = false <-> a <> b.
Proof.
  intros. split; intros H.
  - intros E. apply str_eqb_eq in E. congruence.
  - destruct (str_eqb a b) eqn:E; auto. apply str_eqb_eq in E. contradiction.
Qed.

Lemma str_eqb_sym : forall a b, str_eqb a b = str_eqb b a.
Proof.
  intros. destruct (str_eqb a b) eqn:E.
  - apply str_eqb_eq in E. subst. symmetry. apply str_eqb_refl.
  - symmetry. apply str_eqb_neq. apply str_eqb_neq in E. congruence.
Qed.

Lemma assoc_get_del_same : forall k m, assoc_get k (assoc_del k m) = None.
Proof.
  intros k m. unfold assoc_get, assoc_del. induction m as [|[k' v] m IH]; cbn; auto.
  destruct (str_eqb k' k) eqn:E; cbn; auto. rewrite E. exact IH.
Qed.

Lemma assoc_get_del_other : forall k k' m, k' <> k -> assoc_get k' (assoc_del k m) = assoc_get k' m.
Proof.
  intros k k' m H. unfold assoc_get, assoc_del. induction m as [|[k2 v] m IH]; cbn; auto.
  destruct (str_eqb k2 k) eqn:E; cbn.
  - apply str_eqb_eq in E. subst. replace (str_eqb k k') with false.
    + exact IH.
    + symmetry. apply str_eqb_neq. congruence.
  - destruct (str_eqb k2 k'); auto.
Qed.

Lemma assoc_get_set_same : forall k v m, assoc_get k (assoc_set k v m) = Some v.
Proof. intros. unfold assoc_get, assoc_set. cbn. rewrite str_eqb_refl. reflexivity. Qed.

Lemma assoc_get_set_other : forall k k' v m, k' <> k -> assoc_get k' (assoc_set k v m) = assoc_get k' m.
Proof.
  intros. unfold assoc_set. unfold assoc_get at 1. cbn [find fst].
  replace (str_eqb k k') with false by (symmetry; apply str_eqb_neq; congruence).
  apply assoc_get_del_other. assumption.
Qed.

Definition ev_res (evs : list event) (key : str) (x : Z) : Prop := In (EvResolved key x) evs.
Definition ev_ver (evs : list event) (name : str) (t : Z) (b : bool) : Prop := In (EvVerified name t b) evs.

Lemma resolved_now_true : forall evs key now,
    resolved_now evs key now = true <-> exists x, ev_res evs key x /\ now < x.
Proof.
  intros. unfold resolved_now. rewrite existsb_exists. split.
  - intros [[k x|n t b] [Hin H]]; try discriminate.
    apply andb_true_iff in H. destruct H as [H1 H2]. apply str_eqb_eq in H1. subst.
    exists x. split; auto. lia.
  - intros [x [Hin H]]. exists (EvResolved key x). split; auto.
    rewrite str_eqb_refl. cbn. lia.
Qed.

Lemma verified_true_ex : forall evs name,
    existsb (fun e => match e with EvVerified n _ true => str_eqb n name | _ => false end) evs = true
    <-> exists t, ev_ver evs name t true.
Proof.
  intros. rewrite existsb_exists. split.
  - intros [[k x|n t b] [Hin H]]; try discriminate. destruct b; try discriminate.
    apply str_eqb_eq in H. subst. exists t. exact Hin.
  - intros [t Hin]. exists (EvVerified name t true). split; auto. apply str_eqb_refl.
Qed.

Lemma verified_false_ex : forall ttl evs name now,
    existsb (fun e => match e with EvVerified n t false => str_eqb n name && (now <? t + ttl) | _ => false end) evs = true
    <-> exists t, ev_ver evs name t false /\ now < t + ttl.
Proof.
  intros. rewrite existsb_exists. split.
  - intros [[k x|n t b] [Hin H]]; try discriminate. destruct b; try discriminate.
    apply andb_true_iff in H. destruct H as [H1 H2]. apply str_eqb_eq in H1. subst. exists t. split; auto. lia.
  - intros [t [Hin H]]. exists (EvVerified name t false). split; auto. rewrite str_eqb_refl. cbn. lia.
Qed.

Lemma neg_ttl_nonneg : 0 <= neg_ttl.
Proof. unfold neg_ttl, real_domain_negative_cache_ttl_ns. lia. Qed.

Record Inv (st : cp_state) (evs : list event) : Prop := {
  inv_dns : forall key, key <> [] ->
      match assoc_get key (s_dns st) with
      | Some e => ev_res evs key e /\ forall x, ev_res evs key x -> x <= e \/ x <= s_now st
      | None => forall x, ev_res evs key x -> x <= s_now st
      end;
  inv_real : forall name, existsb (str_eqb name) (s_real st) = true <-> exists t, ev_ver evs name t true;
  inv_neg : forall name, (forall t, ~ ev_ver evs name t true) ->
      match assoc_get name (s_neg st) with
      | Some e => (exists t, ev_ver evs name t false /\ e = t + neg_ttl) /\
                  forall t, ev_ver evs name t false -> t + neg_ttl <= e \/ t + neg_ttl <= s_now st
      | None => forall t, ev_ver evs name t false -> t + neg_ttl <= s_now st
      end }.

Lemma inv_init : forall now, Inv (init_state now) [].
Proof.
  intros. constructor; cbn.
  - intros key _ x H. destruct H.
  - intros name. split; [discriminate | intros [t H]; destruct H].
  - intros name _ t H. destruct H.
Qed.

(* HasDnsKnowledge answers what the events say *)
Lemma has_dns_knowledge_spec : forall st evs key,
    Inv st evs ->
    fst (has_dns_knowledge st key) = match key with [] => false | _ => resolved_now evs key (s_now st) end.
Proof.
  intros st evs key HI. unfold has_dns_knowledge. destruct key as [|c key']; auto.
  pose proof (inv_dns _ _ HI (c :: key')) as H. specialize (H ltac:(discriminate)).
  destruct (assoc_get (c :: key') (s_dns st)) as [e|].
  - destruct H as [Hin Hmax]. destruct (e <=? s_now st) eqn:E; cbn [fst].
    + symmetry. apply not_true_is_false. intros HR. apply resolved_now_true in HR.
      destruct HR as [x [Hx Hlt]]. destruct (Hmax x Hx); lia.
    + symmetry. apply resolved_now_true. exists e. split; auto. lia.
  - cbn [fst]. symmetry. apply not_true_is_false. intros HR. apply resolved_now_true in HR.
    destruct HR as [x [Hx Hlt]]. specialize (H x Hx). lia.
Qed.

Lemma has_dns_knowledge_inv : forall st evs key,
    Inv st evs ->
    let st' := snd (has_dns_knowledge st key) in
    Inv st' evs /\ s_now st' = s_now st /\ s_real st' = s_real st /\ s_neg st' = s_neg st.
Proof.
  intros st evs key HI. cbv zeta. unfold has_dns_knowledge. destruct key as [|c key']; cbn [snd]; auto.
  destruct (assoc_get (c :: key') (s_dns st)) as [e|] eqn:EG; cbn [snd]; auto.
  destruct (e <=? s_now st) eqn:E; cbn [snd]; auto.
  split; [|cbn; auto]. constructor; cbn [s_dns s_now s_real s_neg].
  - intros k Hk. destruct (str_eqb k (c :: key')) eqn:EK.
    + apply str_eqb_eq in EK. subst. rewrite assoc_get_del_same.
      pose proof (inv_dns _ _ HI (c :: key') Hk) as H. rewrite EG in H. destruct H as [_ Hmax].
      intros x Hx. destruct (Hmax x Hx); lia.
    + apply str_eqb_neq in EK. rewrite assoc_get_del_other by auto. apply (inv_dns _ _ HI k Hk).
  - apply (inv_real _ _ HI).
  - apply (inv_neg _ _ HI).
Qed.

(* lookupRealDomainCache answers what the events say *)
Lemma lookup_real_spec : forall st evs name,
    Inv st evs ->
    let '(known, real, _) := lookup_real_domain_cache st name in
    (if known then Some real else None) = verified_now neg_ttl evs name (s_now st).
Proof.
  intros st evs name HI. unfold lookup_real_domain_cache, verified_now.
  destruct (existsb (str_eqb name) (s_real st)) eqn:ER.
  - apply (inv_real _ _ HI) in ER. apply verified_true_ex in ER. rewrite ER. reflexivity.
  - assert (HN : forall t, ~ ev_ver evs name t true).
    { intros t Ht. assert (existsb (str_eqb name) (s_real st) = true) by (apply (inv_real _ _ HI); eauto). congruence. }
    replace (existsb (fun e => match e with EvVerified n _ true => str_eqb n name | _ => false end) evs) with false.
    2:{ symmetry. apply not_true_is_false. intros H. apply verified_true_ex in H. destruct H as [t Ht]. exact (HN t Ht). }
    pose proof (inv_neg _ _ HI name HN) as H.
    destruct (assoc_get name (s_neg st)) as [e|].
    + destruct H as [[t [Ht He]] Hmax]. destruct (s_now st <? e) eqn:E.
      * replace (existsb _ evs) with true; auto. symmetry. apply verified_false_ex. exists t. split; auto. lia.
      * replace (existsb _ evs) with false; auto. symmetry. apply not_true_is_false. intros HF.
        apply verified_false_ex in HF. destruct HF as [t' [Ht' Hlt]]. destruct (Hmax t' Ht'); lia.
    + replace (existsb _ evs) with false; auto. symmetry. apply not_true_is_false. intros HF.
      apply verified_false_ex in HF. destruct HF as [t' [Ht' Hlt]]. specialize (H t' Ht'). lia.
Qed.

Lemma lookup_real_inv : forall st evs name,
    Inv st evs ->
    let st' := snd (lookup_real_domain_cache st name) in
    Inv st' evs /\ s_now st' = s_now st /\ s_real st' = s_real st /\ s_dns st' = s_dns st.
Proof.
  intros st evs name HI. cbv zeta. unfold lookup_real_domain_cache.
  destruct (existsb (str_eqb name) (s_real st)) eqn:ER; cbn [snd]; auto.
  destruct (assoc_get name (s_neg st)) as [e|] eqn:EG; cbn [snd]; auto.
  destruct (s_now st <? e) eqn:E; cbn [snd]; auto.
  split; [|cbn; auto]. constructor; cbn [s_dns s_now s_real s_neg].
  - apply (inv_dns _ _ HI).
  - apply (inv_real _ _ HI).
  - intros n HN. destruct (str_eqb n name) eqn:EK.
    + apply str_eqb_eq in EK. subst. rewrite assoc_get_del_same.
      pose proof (inv_neg _ _ HI name HN) as H. rewrite EG in H. destruct H as [_ Hmax].
      intros t Ht. destruct (Hmax t Ht); lia.
    + apply str_eqb_neq in EK. rewrite assoc_get_del_other by auto. apply (inv_neg _ _ HI n HN).
Qed.

(* a second look-up right after an "unknown" answer is again unknown and changes nothing *)
Lemma lookup_real_unknown_again : forall st name known real st',
    lookup_real_domain_cache st name = (known, real, st') -> known = false ->
    lookup_real_domain_cache st' name = (false, false, st').
Proof.
  intros st name known real st' H Hk. subst. unfold lookup_real_domain_cache in *.
  destruct (existsb (str_eqb name) (s_real st)) eqn:ER; try (inversion H; fail).
  destruct (assoc_get name (s_neg st)) as [e|] eqn:EG.
  - destruct (s_now st <? e) eqn:E; inversion H; subst. cbn [s_real s_neg s_now].
    rewrite ER. rewrite assoc_get_del_same. reflexivity.
  - inversion H; subst. rewrite ER, EG. reflexivity.
Qed.

Lemma inv_remember : forall st evs key e,
    Inv st evs -> Inv (remember_dns_knowledge st key e) (evs ++ [EvResolved key e]).
Proof.
  intros st evs key e HI.
  assert (Hres : forall k x, ev_res (evs ++ [EvResolved key e]) k x <-> ev_res evs k x \/ (k = key /\ x = e)).
  { intros. unfold ev_res. rewrite in_app_iff. cbn. split; intros [H|H]; auto.
    - destruct H as [H|[]]. inversion H; auto.
    - destruct H; subst. auto. }
  assert (Hver : forall n t b, ev_ver (evs ++ [EvResolved key e]) n t b <-> ev_ver evs n t b).
  { intros. unfold ev_ver. rewrite in_app_iff. cbn. split; auto. intros [H|[H|[]]]; auto. discriminate. }
  unfold remember_dns_knowledge. destruct key as [|c key'].
  - constructor.
    + intros k Hk. pose proof (inv_dns _ _ HI k Hk) as H. destruct (assoc_get k (s_dns st)).
      * destruct H as [H1 H2]. split.
        { apply Hres. auto. }
        { intros x Hx. apply Hres in Hx. destruct Hx as [Hx|[Hx _]]; auto. congruence. }
      * intros x Hx. apply Hres in Hx. destruct Hx as [Hx|[Hx _]]; auto. congruence.
    + intros n. rewrite (inv_real _ _ HI n). split; intros [t Ht]; exists t; apply Hver; auto.
    + intros n HN. assert (HN' : forall t, ~ ev_ver evs n t true) by (intros t Ht; apply (HN t); apply Hver; auto).
      pose proof (inv_neg _ _ HI n HN') as H. destruct (assoc_get n (s_neg st)).
      * destruct H as [[t [Ht He]] Hmax]. split.
        { exists t. split; auto. apply Hver; auto. }
        { intros t' Ht'. apply Hver in Ht'. auto. }
      * intros t Ht. apply Hver in Ht. auto.
  - set (key := c :: key') in *.
    assert (Hreal : forall st', s_real st' = s_real st ->
                                forall n, existsb (str_eqb n) (s_real st') = true <-> exists t, ev_ver (evs ++ [EvResolved key e]) n t true).
    { intros st' E n. rewrite E. rewrite (inv_real _ _ HI n). split; intros [t Ht]; exists t; apply Hver; auto. }
    assert (Hneg : forall st', s_neg st' = s_neg st -> s_now st' = s_now st ->
                               forall n, (forall t, ~ ev_ver (evs ++ [EvResolved key e]) n t true) ->
                                         match assoc_get n (s_neg st') with
                                         | Some e0 => (exists t, ev_ver (evs ++ [EvResolved key e]) n t false /\ e0 = t + neg_ttl) /\
                                                      forall t, ev_ver (evs ++ [EvResolved key e]) n t false -> t + neg_ttl <= e0 \/ t + neg_ttl <= s_now st'
                                         | None => forall t, ev_ver (evs ++ [EvResolved key e]) n t false -> t + neg_ttl <= s_now st'
                                         end).
    { intros st' E1 E2 n HN. rewrite E1, E2.
      assert (HN' : forall t, ~ ev_ver evs n t true) by (intros t Ht; apply (HN t); apply Hver; auto).
      pose proof (inv_neg _ _ HI n HN') as H. destruct (assoc_get n (s_neg st)).
      - destruct H as [[t [Ht He]] Hmax]. split.
        + exists t. split; auto. apply Hver; auto.
        + intros t' Ht'. apply Hver in Ht'. auto.
      - intros t Ht. apply Hver in Ht. auto. }
    pose proof (inv_dns _ _ HI key ltac:(discriminate)) as HK.
    assert (Hdns_store :
              (match assoc_get key (s_dns st) with Some cur => cur < e | None => True end) ->
              forall k, k <> [] ->
                match assoc_get k (assoc_set key e (s_dns st)) with
                | Some e0 => ev_res (evs ++ [EvResolved key e]) k e0 /\
                             forall x, ev_res (evs ++ [EvResolved key e]) k x -> x <= e0 \/ x <= s_now st
                | None => forall x, ev_res (evs ++ [EvResolved key e]) k x -> x <= s_now st
                end).
    { intros Hcur k Hk. destruct (str_eqb k key) eqn:EK.
      - apply str_eqb_eq in EK. subst k. rewrite assoc_get_set_same. split.
        + apply Hres. auto.
        + intros x Hx. apply Hres in Hx. destruct Hx as [Hx|[_ Hx]]; [|lia].
          destruct (assoc_get key (s_dns st)) as [cur|].
          * destruct HK as [_ Hmax]. destruct (Hmax x Hx); lia.
          * specialize (HK x Hx). lia.
      - apply str_eqb_neq in EK. rewrite assoc_get_set_other by auto.
        pose proof (inv_dns _ _ HI k Hk) as H. destruct (assoc_get k (s_dns st)).
        + destruct H as [H1 H2]. split; [apply Hres; auto|].
          intros x Hx. apply Hres in Hx. destruct Hx as [Hx|[Hx _]]; auto. congruence.
        + intros x Hx. apply Hres in Hx. destruct Hx as [Hx|[Hx _]]; auto. congruence. }
    destruct (assoc_get key (s_dns st)) as [cur|] eqn:EG.
    + destruct (cur <? e) eqn:EC.
      * constructor; cbn [s_dns s_now s_real s_neg].
        { apply Hdns_store. lia. }
        { apply Hreal. reflexivity. }
        { apply (Hneg {| s_now := s_now st; s_dns := assoc_set key e (s_dns st); s_real := s_real st; s_neg := s_neg st |}); reflexivity. }
      * constructor.
        { intros k Hk. destruct (str_eqb k key) eqn:EK.
          - apply str_eqb_eq in EK. subst k. rewrite EG. destruct HK as [H1 H2]. split; [apply Hres; auto|].
            intros x Hx. apply Hres in Hx. destruct Hx as [Hx|[_ Hx]]; auto. lia.
          - apply str_eqb_neq in EK. pose proof (inv_dns _ _ HI k Hk) as H. destruct (assoc_get k (s_dns st)).
            + destruct H as [H1 H2]. split; [apply Hres; auto|].
              intros x Hx. apply Hres in Hx. destruct Hx as [Hx|[Hx _]]; auto. congruence.
            + intros x Hx. apply Hres in Hx. destruct Hx as [Hx|[Hx _]]; auto. congruence. }
        { apply Hreal. reflexivity. }
        { apply Hneg; reflexivity. }
    + constructor; cbn [s_dns s_now s_real s_neg].
      { apply Hdns_store. exact I. }
      { apply Hreal. reflexivity. }
      { apply (Hneg {| s_now := s_now st; s_dns := assoc_set key e (s_dns st); s_real := s_real st; s_neg := s_neg st |}); reflexivity. }
Qed.

Lemma inv_advance : forall st evs dt, Inv st evs -> Inv (advance st dt) evs.
Proof.
  intros st evs dt HI. constructor; cbn [advance s_dns s_now s_real s_neg].
  - intros k Hk. pose proof (inv_dns _ _ HI k Hk) as H. destruct (assoc_get k (s_dns st)).
    + destruct H as [H1 H2]. split; auto. intros x Hx. destruct (H2 x Hx); lia.
    + intros x Hx. specialize (H x Hx). lia.
  - apply (inv_real _ _ HI).
  - intros n HN. pose proof (inv_neg _ _ HI n HN) as H. destruct (assoc_get n (s_neg st)).
    + destruct H as [H1 H2]. split; auto. intros t Ht. destruct (H2 t Ht); lia.
    + intros t Ht. specialize (H t Ht). lia.
Qed.

Lemma unknown_fixed : forall st name,
    lookup_real_domain_cache st name = (false, false, st) ->
    existsb (str_eqb name) (s_real st) = false /\ assoc_get name (s_neg st) = None.
Proof.
  intros st name H. unfold lookup_real_domain_cache in H.
  destruct (existsb (str_eqb name) (s_real st)) eqn:ER; try discriminate. split; auto.
  destruct (assoc_get name (s_neg st)) as [e|] eqn:EG; auto.
  destruct (s_now st <? e); try discriminate.
  inversion H as [H1]. rewrite <- H1 in EG at 1. cbn [s_neg] in EG.
  rewrite assoc_get_del_same in EG. discriminate.
Qed.


Lemma ev_ver_snoc : forall evs nm t0 b0 n t b,
    ev_ver (evs ++ [EvVerified nm t0 b0]) n t b <-> ev_ver evs n t b \/ (n = nm /\ t = t0 /\ b = b0).
Proof.
  intros. unfold ev_ver. rewrite in_app_iff. cbn. split.
  - intros [H|[H|[]]]; auto. inversion H; auto.
  - intros [H|[H1 [H2 H3]]]; auto. subst. auto.
Qed.

Lemma ev_res_snoc_ver : forall evs nm t0 b0 k x,
    ev_res (evs ++ [EvVerified nm t0 b0]) k x <-> ev_res evs k x.
Proof.
  intros. unfold ev_res. rewrite in_app_iff. cbn. split; auto. intros [H|[H|[]]]; auto. discriminate.
Qed.

Section History.
  Variable is_ip : str -> bool.

  Lemma inv_probe : forall st evs name hr ans,
      Inv st evs -> lookup_real_domain_cache st name = (false, false, st) ->
      let '(asked, st') := probe_and_update is_ip st name hr ans in
      Inv st' (evs ++ probe_events name (s_now st) asked ans) /\ s_now st' = s_now st.
  Proof.
    intros st evs name hr ans HI HL. unfold probe_and_update.
    destruct name as [|c name']. { cbn. rewrite app_nil_r. auto. }
    set (name := c :: name') in *.
    destruct (is_ip_like_domain is_ip name). { cbn. rewrite app_nil_r. auto. }
    rewrite HL. cbn [negb]. rewrite HL.
    destruct hr; cbn [negb]. 2:{ cbn. rewrite app_nil_r. auto. }
    destruct (unknown_fixed _ _ HL) as [HR HG].
    assert (HNT : forall t, ~ ev_ver evs name t true).
    { intros t Ht. assert (existsb (str_eqb name) (s_real st) = true) by (apply (inv_real _ _ HI); eauto). congruence. }
    destruct ans; cbn [probe_events].
    - (* found *)
      split; [|reflexivity]. constructor; cbn [s_dns s_now s_real s_neg].
      + intros k Hk. pose proof (inv_dns _ _ HI k Hk) as H. destruct (assoc_get k (s_dns st)).
        * destruct H as [H1 H2]. split; [apply ev_res_snoc_ver; auto|]. intros x Hx. apply ev_res_snoc_ver in Hx. auto.
        * intros x Hx. apply ev_res_snoc_ver in Hx. auto.
      + intros n. cbn [existsb]. destruct (str_eqb n name) eqn:EN.
        * apply str_eqb_eq in EN. subst n. cbn. split; auto. intros _. exists (s_now st). apply ev_ver_snoc. auto.
        * apply str_eqb_neq in EN. cbn. rewrite (inv_real _ _ HI n). split; intros [t Ht]; exists t.
          { apply ev_ver_snoc. auto. }
          { apply ev_ver_snoc in Ht. destruct Ht as [Ht|[Ht _]]; auto. congruence. }
      + intros n HN. assert (Hne : n <> name).
        { intros E. subst n. apply (HN (s_now st)). apply ev_ver_snoc. auto. }
        rewrite assoc_get_del_other by auto.
        assert (HN' : forall t, ~ ev_ver evs n t true) by (intros t Ht; apply (HN t); apply ev_ver_snoc; auto).
        pose proof (inv_neg _ _ HI n HN') as H. destruct (assoc_get n (s_neg st)).
        * destruct H as [[t [Ht He]] Hmax]. split.
          { exists t. split; auto. apply ev_ver_snoc; auto. }
          { intros t' Ht'. apply ev_ver_snoc in Ht'. destruct Ht' as [Ht'|[Ht' _]]; auto. congruence. }
        * intros t Ht. apply ev_ver_snoc in Ht. destruct Ht as [Ht|[Ht _]]; auto. congruence.
    - (* no record *)
      split; [|reflexivity]. constructor; cbn [s_dns s_now s_real s_neg].
      + intros k Hk. pose proof (inv_dns _ _ HI k Hk) as H. destruct (assoc_get k (s_dns st)).
        * destruct H as [H1 H2]. split; [apply ev_res_snoc_ver; auto|]. intros x Hx. apply ev_res_snoc_ver in Hx. auto.
        * intros x Hx. apply ev_res_snoc_ver in Hx. auto.
      + intros n. rewrite (inv_real _ _ HI n). split; intros [t Ht]; exists t.
        * apply ev_ver_snoc. auto.
        * apply ev_ver_snoc in Ht. destruct Ht as [Ht|[_ [_ Ht]]]; auto. discriminate.
      + intros n HN.
        assert (HN' : forall t, ~ ev_ver evs n t true) by (intros t Ht; apply (HN t); apply ev_ver_snoc; auto).
        destruct (str_eqb n name) eqn:EN.
        * apply str_eqb_eq in EN. subst n. rewrite assoc_get_set_same.
          pose proof (inv_neg _ _ HI name HN') as H. rewrite HG in H. split.
          { exists (s_now st). split; auto. apply ev_ver_snoc. auto. }
          { intros t Ht. apply ev_ver_snoc in Ht. destruct Ht as [Ht|[_ [Ht _]]].
            - right. apply H. exact Ht.
            - left. lia. }
        * apply str_eqb_neq in EN. rewrite assoc_get_set_other by auto.
          pose proof (inv_neg _ _ HI n HN') as H. destruct (assoc_get n (s_neg st)).
          { destruct H as [[t [Ht He]] Hmax]. split.
            - exists t. split; auto. apply ev_ver_snoc; auto.
            - intros t' Ht'. apply ev_ver_snoc in Ht'. destruct Ht' as [Ht'|[Ht' _]]; auto. congruence. }
          { intros t Ht. apply ev_ver_snoc in Ht. destruct Ht as [Ht|[Ht _]]; auto. congruence. }
    - (* failure *)
      rewrite app_nil_r. auto.
  Qed.

  Lemma decide_flags : forall mode outbound domain l,
      let '(u, r, ad, ar, p) := decide is_ip mode outbound domain l in
      (p = true -> ar = true /\ l_real_known l = false) /\ (ar = true -> ad = true).
  Proof.
    intros. unfold decide.
    destruct (negb (is_reserved outbound) && negb match domain with [] => true | _ => false end).
    2:{ split; intros; discriminate. }
    destruct mode; try (split; intros; discriminate).
    destruct (is_ip_like_domain is_ip domain); try (split; intros; discriminate).
    destruct (l_dns l); try (split; intros; discriminate).
    destruct (l_real_known l) eqn:E.
    - destruct (l_real_real l); split; intros; auto; discriminate.
    - split; intros; auto.
  Qed.


  Lemma choose_step_ok : forall mode st evs outbound dst domain ka k6 hr ans,
      Inv st evs ->
      let '(o, asked, st') := choose_step is_ip mode st outbound dst domain ka k6 hr ans in
      step_ok is_ip mode evs (s_now st) outbound dst domain (if d_is4 dst then ka else k6) o /\
      Inv st' (evs ++ probe_events domain (s_now st) asked ans) /\ s_now st' = s_now st.
  Proof.
    intros mode st evs outbound dst domain ka k6 hr ans HI. unfold choose_step.
    set (key := if d_is4 dst then ka else k6).
    pose proof (has_dns_knowledge_spec st evs key HI) as HD.
    pose proof (has_dns_knowledge_inv st evs key HI) as HDI. cbv zeta in HDI.
    destruct (has_dns_knowledge st key) as [dns st_d]. cbn [fst snd] in *.
    destruct HDI as [HId [Hnow_d [Hreal_d Hneg_d]]].
    pose proof (lookup_real_spec st_d evs domain HId) as HR.
    pose proof (lookup_real_inv st_d evs domain HId) as HRI. cbv zeta in HRI.
    destruct (lookup_real_domain_cache st_d domain) as [[known real] st_r] eqn:ELR. cbn [snd] in HRI.
    destruct HRI as [HIr [Hnow_r _]].
    set (l := {| l_dns := dns; l_real_known := known; l_real_real := real |}).
    assert (HK : knowledge_of is_ip l = knowledge_now neg_ttl evs key domain (s_now st)).
    { unfold knowledge_of, knowledge_now. cbn [l_dns l_real_known l_real_real l]. rewrite HD. rewrite HR. rewrite Hnow_d. reflexivity. }
    pose proof (choose_table is_ip mode outbound dst domain l) as HT. cbv zeta in HT. rewrite HK in HT.
    pose proof (decide_flags mode outbound domain l) as HF.
    unfold choose_dial_target in *.
    destruct (decide is_ip mode outbound domain l) as [[[[u r] ad] ar] p].
    destruct (if u then domain_target is_ip dst domain else (dst_string dst, true)) as [target dial_ip].
    cbn [o_probe o_asked_real o_asked_dns] in *.
    destruct HF as [HF1 HF2].
    destruct p.
    - destruct (HF1 eq_refl) as [Har Hkn]. subst ar. cbn [l_real_known l] in Hkn. subst known.
      pose proof (lookup_real_unknown_again _ _ _ _ _ ELR eq_refl) as HL2.
      pose proof (inv_probe st_r evs domain hr ans HIr HL2) as HP.
      destruct (probe_and_update is_ip st_r domain hr ans) as [asked st2].
      destruct HP as [HP1 HP2]. rewrite Hnow_r, Hnow_d in HP1.
      split; [exact HT|]. split; [exact HP1|]. lia.
    - cbn [probe_events]. rewrite app_nil_r. split; [exact HT|].
      destruct ar.
      + split; [exact HIr|lia].
      + destruct ad; split; auto.
  Qed.



  Lemma history_ok_inv : forall mode h st evs, Inv st evs -> history_ok is_ip mode st evs h.
  Proof.
    induction h as [|o h IH]; intros st evs HI; cbn [history_ok]; auto.
    destruct o as [key e | dt | ob dst dom ka k6 hr ans]; cbn [step].
    - split; auto. apply IH. cbn [op_events]. apply inv_remember. exact HI.
    - split; auto. apply IH. cbn [op_events]. rewrite app_nil_r. apply inv_advance. exact HI.
    - pose proof (choose_step_ok mode st evs ob dst dom ka k6 hr ans HI) as H.
      destruct (choose_step is_ip mode st ob dst dom ka k6 hr ans) as [[oc asked] st'].
      destruct H as [H1 [H2 _]]. split; auto.
  Qed.

  Lemma history_table : forall mode now0 h, history_ok is_ip mode (init_state now0) [] h.
  Proof. intros. apply history_ok_inv. apply inv_init. Qed.
End History.

(* in mode domain a call that uses the name finds, among the past events, a resolution through dae for
   the destination's family that has not run out, or a positive verification of that very name *)
Lemma name_only_if_genuine : forall is_ip evs now ob dst dom key o,
    step_ok is_ip ModeDomain evs now ob dst dom key o -> o_use_name o = true ->
    (exists x, In (EvResolved key x) evs /\ now < x) \/ (exists t, In (EvVerified dom t true) evs).
Proof.
  intros is_ip evs now ob dst dom key o [HU _] Hn. rewrite Hn in HU. symmetry in HU.
  unfold spec_use_name in HU.
  assert (HG : genuine (knowledge_now neg_ttl evs key dom now) = true).
  { destruct (classify is_ip dom); try discriminate; destruct (is_reserved ob); try discriminate;
      apply andb_true_iff in HU; tauto. }
  unfold genuine, knowledge_now in HG. cbn [k_resolved k_verified] in HG.
  apply orb_true_iff in HG. destruct HG as [HG|HG].
  - left. destruct key; try discriminate. apply resolved_now_true in HG. exact HG.
  - right. unfold verified_now in HG.
    destruct (existsb (fun e => match e with EvVerified n _ true => str_eqb n dom | _ => false end) evs) eqn:E.
    + apply verified_true_ex in E. exact E.
    + exfalso. destruct (existsb _ evs) in HG; cbn in HG; discriminate HG.
Qed.

From Coq Require Import String.
Open Scope string_scope.
Open Scope Z_scope.
Definition nv_is_ip (s : str) : bool := str_eqb s (bs "1.2.3.4") || str_eqb s (bs "::1").
Definition nv_dst : dest := {| d_is4 := true; d_ip := bs "8.8.8.8"; d_port := 443%N |}.
Definition nv_history : list op :=
  [ OpChoose 2%N nv_dst (bs "example.com") (bs "example.com.1") (bs "example.com.28") true PFound;
    OpChoose 2%N nv_dst (bs "example.com") (bs "example.com.1") (bs "example.com.28") true PFail;
    OpRemember (bs "x.org.1") 100;
    OpChoose 2%N nv_dst (bs "x.org") (bs "x.org.1") (bs "x.org.28") true PNoRecord;
    OpAdvance 100;
    OpChoose 2%N nv_dst (bs "x.org") (bs "x.org.1") (bs "x.org.28") true PNoRecord;
    OpChoose 2%N nv_dst (bs "x.org") (bs "x.org.1") (bs "x.org.28") true PFound;
    OpChoose 2%N nv_dst (bs "[::1]") (bs "[::1].1") (bs "[::1].28") true PFound;
    OpChoose 0%N nv_dst (bs "example.com") (bs "example.com.1") (bs "example.com.28") true PFound ].
Definition nv_view (r : option (outcome * bool)) : option (str * bool * bool) :=
  match r with Some (o, asked) => Some (o_target o, o_reroute o, asked) | None => None end.

Lemma nonvacuous_proof :
  map nv_view (fst (run nv_is_ip ModeDomain (init_state 0) nv_history)) =
  [ Some (bs "8.8.8.8:443", false, true);        (* unknown name: IP now, verification started *)
    Some (bs "example.com:443", true, false);    (* verified: name, routed again *)
    None;
    Some (bs "x.org:443", true, false);          (* resolved through dae, TTL running *)
    None;
    Some (bs "8.8.8.8:443", false, true);        (* TTL over: IP, verification says no record *)
    Some (bs "8.8.8.8:443", false, false);       (* remembered as not existing *)
    Some (bs "8.8.8.8:443", false, false);       (* bracketed literal in mode domain: IP *)
    Some (bs "8.8.8.8:443", false, false) ]      (* built-in outbound *)
  /\ o_target (choose_dial_target nv_is_ip ModeDomainPlus 2%N nv_dst (bs "[::1]")
                                  {| l_dns := false; l_real_known := false; l_real_real := false |}) = bs "[::1]:443"
  /\ o_target (choose_dial_target nv_is_ip ModeDomainCao 2%N nv_dst (bs "1.2.3.4:80")
                                  {| l_dns := false; l_real_known := false; l_real_real := false |}) = bs "1.2.3.4:80"
  /\ split_host_port (bs "[fe80::1%a]b]:443") = None.
Proof. vm_compute. repeat split; reflexivity. Qed.

(* ---------------------------------------------------------------------------------------------
   IsReserved (names of OutboundIndex.String) = outside the user-defined range, for every uint8 index
   --------------------------------------------------------------------------------------------- *)
Open Scope N_scope.
Lemma forall_below_256 : forall P : N -> bool,
    forallb P (map N.of_nat (seq 0 256)) = true -> forall n, n < 256 -> P n = true.
Proof.
  intros P H n Hn. rewrite forallb_forall in H. apply H.
  rewrite in_map_iff. exists (N.to_nat n). split.
  - apply Nnat.N2Nat.id.
  - apply in_seq. lia.
Qed.

Lemma reserved_is_builtin : forall ob, ob < 256 -> is_reserved ob = builtin_outbound ob.
Proof.
  intros ob H.
  pose proof (forall_below_256 (fun n => Bool.eqb (is_reserved n) (builtin_outbound n))) as F.
  cbv beta in F. apply eqb_prop. apply F; [vm_compute; reflexivity | exact H].
Qed.

(* ---------------------------------------------------------------------------------------------
   NormalizeDomain on the classes the statement names
   --------------------------------------------------------------------------------------------- *)
Close Scope string_scope.
Lemma has_suffix1_app : forall c a, has_suffix1 c (a ++ [c]) = true.
Proof. intros. unfold has_suffix1. rewrite rev_app_distr. cbn. apply N.eqb_refl. Qed.

Lemma trim_left_brackets_clean : forall s, match s with x :: _ => is_bracket x = false | [] => True end ->
                                           trim_left_brackets s = s.
Proof. destruct s; cbn; auto. intros H. rewrite H. reflexivity. Qed.

Lemma no_brackets_forall : forall s, no_brackets s = true -> forall x, In x s -> is_bracket x = false.
Proof.
  intros s H x Hin. apply no_brackets_iff in H. destruct H as [Hl Hr]. unfold is_bracket.
  unfold contains in *.
  assert (A : (x =? c_lbr) = false).
  { destruct (x =? c_lbr) eqn:E; auto. apply N.eqb_eq in E. subst.
    assert (existsb (N.eqb c_lbr) s = true) by (apply existsb_exists; exists c_lbr; split; auto; apply N.eqb_refl). congruence. }
  assert (B : (x =? c_rbr) = false).
  { destruct (x =? c_rbr) eqn:E; auto. apply N.eqb_eq in E. subst.
    assert (existsb (N.eqb c_rbr) s = true) by (apply existsb_exists; exists c_rbr; split; auto; apply N.eqb_refl). congruence. }
  rewrite A, B. reflexivity.
Qed.

Lemma trim_brackets_bracketed : forall a, no_brackets a = true ->
                                          trim_brackets (c_lbr :: a ++ [c_rbr]) = a.
Proof.
  intros a H. pose proof (no_brackets_forall a H) as HF. unfold trim_brackets.
  cbn [trim_left_brackets]. replace (is_bracket c_lbr) with true by reflexivity.
  assert (E1 : trim_left_brackets (a ++ [c_rbr]) = match a with [] => [] | _ => a ++ [c_rbr] end).
  { destruct a as [|x a']; auto. cbn [app trim_left_brackets]. rewrite (HF x) by (left; reflexivity). reflexivity. }
  rewrite E1. destruct a as [|x a']; auto.
  remember (x :: a') as b eqn:Eb.
  rewrite rev_app_distr. change (rev [c_rbr]) with [c_rbr]. cbn [app trim_left_brackets].
  replace (is_bracket c_rbr) with true by reflexivity.
  rewrite trim_left_brackets_clean.
  - apply rev_involutive.
  - destruct (rev b) as [|y r] eqn:ER; auto. apply HF. apply in_rev. rewrite ER. left. reflexivity.
Qed.

Section Normalize.
  Variable is_ip : str -> bool.

  (* "[literal]" comes out as the literal and is then classified as an IP literal;
     "host:port" / "[literal]:port" come out as the bare host, which carries no bracket *)
  Lemma normalize_classes :
    (forall a, no_brackets a = true -> normalize_lowered (c_lbr :: a ++ [c_rbr]) = a) /\
    (forall a x, no_brackets (x :: a) = true -> is_ip (x :: a) = true ->
                 classify is_ip (normalize_lowered (c_lbr :: (x :: a) ++ [c_rbr])) = CIpLit (x :: a)) /\
    (forall lt h p, has_suffix1 c_rbr lt = false -> split_host_port lt = Some (h, p) ->
                    normalize_lowered lt = h /\ no_brackets h = true).
  Proof.
    split; [|split].
    - intros a H. unfold normalize_lowered.
      replace (c_lbr :: a ++ [c_rbr]) with ((c_lbr :: a) ++ [c_rbr]) by reflexivity.
      rewrite has_suffix1_app. cbn [app]. apply trim_brackets_bracketed. exact H.
    - intros a x H Hip. unfold normalize_lowered.
      replace (c_lbr :: (x :: a) ++ [c_rbr]) with ((c_lbr :: x :: a) ++ [c_rbr]) by reflexivity.
      rewrite has_suffix1_app. cbn [app].
      replace (c_lbr :: x :: a ++ [c_rbr]) with (c_lbr :: (x :: a) ++ [c_rbr]) by reflexivity.
      rewrite trim_brackets_bracketed by exact H.
      unfold classify. rewrite unbracket_clean by exact H. rewrite Hip. reflexivity.
    - intros lt h p Hs Hsp. unfold normalize_lowered. rewrite Hs, Hsp. split; auto.
      apply split_host_port_clean in Hsp. tauto.
  Qed.
End Normalize.

(* ---------------------------------------------------------------------------------------------
   with Go's own ParseAddr (model of C18_ParseAddr.v): the side condition literal_clean is needed
   --------------------------------------------------------------------------------------------- *)
Open Scope string_scope.
Definition wellformed_target_full : Prop :=
  forall mode outbound dst domain l,
    let k := knowledge_of go_parse_addr l in
    let c := classify go_parse_addr domain in
    let r := is_reserved outbound in
    let o := choose_dial_target go_parse_addr mode outbound dst domain l in
    dest_wf dst = true -> endpoint_constrained go_parse_addr mode r c k = true ->
    exists h p, split_host_port (o_target o) = Some (h, p) /\
                (h, p) = spec_endpoint go_parse_addr mode r (d_ip dst) (d_port dst) c k.

(* sniffed "::%[" : an IPv6 literal for netip.ParseAddr (zone "["); JoinHostPort gives "[::%[]:443",
   which SplitHostPort rejects *)
Lemma wellformed_target_refuted : ~ wellformed_target_full.
Proof.
  intros H.
  specialize (H ModeDomainPlus 2%N nv_dst (bs "::%[") {| l_dns := false; l_real_known := false; l_real_real := false |}
                eq_refl eq_refl).
  destruct H as [h [p [Hs _]]]. vm_compute in Hs. discriminate Hs.
Qed.
Close Scope string_scope.

(* ---------------------------------------------------------------------------------------------
   chooseProxyDialer: the second decision after re-routing
   --------------------------------------------------------------------------------------------- *)
Section Dial.
  Variable is_ip : str -> bool.

  Lemma decide_probe : forall mode outbound domain l,
      let '(u, r, ad, ar, p) := decide is_ip mode outbound domain l in
      p = true -> r = false /\ is_reserved outbound = false.
  Proof.
    intros. unfold decide. destruct (is_reserved outbound); cbn [negb andb]; try discriminate.
    destruct domain; cbn [negb]; try discriminate.
    destruct mode; try discriminate.
    destruct (is_ip_like_domain is_ip (n :: domain)); try discriminate.
    destruct (l_dns l); try discriminate.
    destruct (l_real_known l); [destruct (l_real_real l); discriminate|]. auto.
  Qed.

  Lemma choose_step_asked : forall mode st outbound dst domain ka k6 hr ans,
      let '(o, asked, _) := choose_step is_ip mode st outbound dst domain ka k6 hr ans in
      asked = true -> o_reroute o = false /\ is_reserved outbound = false.
  Proof.
    intros. unfold choose_step.
    destruct (has_dns_knowledge st (if d_is4 dst then ka else k6)) as [dns st_d].
    destruct (lookup_real_domain_cache st_d domain) as [[known real] st_r].
    set (l := {| l_dns := dns; l_real_known := known; l_real_real := real |}).
    pose proof (decide_probe mode outbound domain l) as HP.
    unfold choose_dial_target.
    destruct (decide is_ip mode outbound domain l) as [[[[u r] ad] ar] p].
    destruct (if u then domain_target is_ip dst domain else (dst_string dst, true)) as [target dial_ip].
    cbn [o_probe o_asked_real o_asked_dns o_reroute].
    destruct p.
    - destruct (probe_and_update is_ip _ domain hr ans) as [asked st2]. intros _. apply HP. reflexivity.
    - discriminate.
  Qed.

  Lemma cpr_reserved : is_reserved outbound_control_plane_routing = true.
  Proof. vm_compute. reflexivity. Qed.

  Lemma dial_ok : forall mode st evs outbound route_to dst domain ka k6 hr ans,
      Inv st evs ->
      let '(o, fin, asked, st') := choose_proxy_dialer is_ip mode st outbound route_to dst domain ka k6 hr ans in
      let key := if d_is4 dst then ka else k6 in
      let k := knowledge_now neg_ttl evs key domain (s_now st) in
      fin = spec_final_outbound is_ip mode (is_reserved outbound) outbound route_to (classify is_ip domain) k /\
      step_ok is_ip mode evs (s_now st) fin dst domain key o /\
      Inv st' (evs ++ probe_events domain (s_now st) asked ans).
  Proof.
    intros mode st evs outbound route_to dst domain ka k6 hr ans HI. unfold choose_proxy_dialer.
    pose proof (choose_step_ok is_ip mode st evs outbound dst domain ka k6 hr ans HI) as H1.
    pose proof (choose_step_asked mode st outbound dst domain ka k6 hr ans) as HA.
    destruct (choose_step is_ip mode st outbound dst domain ka k6 hr ans) as [[o1 asked1] st1].
    destruct H1 as [HS1 [HI1 Hnow1]].
    assert (HR : o_reroute o1 = spec_reroute is_ip mode (is_reserved outbound) (classify is_ip domain)
                                             (knowledge_now neg_ttl evs (if d_is4 dst then ka else k6) domain (s_now st)))
      by (destruct HS1 as [_ [HR _]]; exact HR).
    unfold spec_final_outbound. rewrite <- HR.
    assert (HC : ((if o_reroute o1 then outbound_control_plane_routing else outbound) =? outbound_control_plane_routing)%N
                 = o_reroute o1 || (outbound =? outbound_control_plane_routing)%N).
    { destruct (o_reroute o1); [apply N.eqb_refl | reflexivity]. }
    rewrite HC.
    destruct (o_reroute o1 || (outbound =? outbound_control_plane_routing)%N) eqn:E2.
    - assert (Hna : asked1 = false).
      { destruct asked1; auto. destruct (HA eq_refl) as [Hr Hres]. rewrite Hr in E2. cbn in E2.
        apply N.eqb_eq in E2. rewrite E2 in Hres. rewrite cpr_reserved in Hres. discriminate. }
      subst asked1. cbn [probe_events] in HI1. rewrite app_nil_r in HI1.
      pose proof (choose_step_ok is_ip mode st1 evs route_to dst domain ka k6 hr ans HI1) as H2.
      destruct (choose_step is_ip mode st1 route_to dst domain ka k6 hr ans) as [[o2 asked2] st2].
      destruct H2 as [HS2 [HI2 _]]. rewrite Hnow1 in HS2, HI2. cbn [orb]. auto.
    - auto.
  Qed.
End Dial.

(* ---------------------------------------------------------------------------------------------
   raw sniffed value -> NormalizeDomain -> ChooseDialTarget
   --------------------------------------------------------------------------------------------- *)
Close Scope string_scope.
Open Scope N_scope.

Lemma has_suffix1_contains : forall c s, has_suffix1 c s = true -> contains c s = true.
Proof.
  intros c s H. unfold has_suffix1 in H. destruct (rev s) as [|x r] eqn:E; try discriminate.
  apply N.eqb_eq in H. subst x. unfold contains. apply existsb_exists. exists c. split; [|apply N.eqb_refl].
  apply in_rev. rewrite E. left. reflexivity.
Qed.

Lemma has_suffix1_app_cons : forall c a x b, has_suffix1 c (a ++ x :: b) = has_suffix1 c (x :: b).
Proof.
  intros. unfold has_suffix1. rewrite rev_app_distr.
  destruct (rev (x :: b)) as [|y r] eqn:E.
  - apply (f_equal (@List.length N)) in E. rewrite rev_length in E. discriminate.
  - reflexivity.
Qed.

Lemma split_not_rbr_suffix : forall s h p, split_host_port s = Some (h, p) -> has_suffix1 c_rbr s = false.
Proof.
  intros s h p H. unfold split_host_port in H.
  destruct (break_last c_colon s) as [[before port]|] eqn:EL; try discriminate.
  destruct s as [|x tl]; try discriminate.
  destruct (x =? c_lbr) eqn:Ex.
  - destruct (break_at c_rbr tl) as [[host after]|] eqn:EA; try discriminate.
    destruct after as [|c p']; try discriminate.
    destruct ((c =? c_colon) && negb (contains c_colon p')) eqn:E1; try discriminate.
    destruct (contains c_lbr host || contains c_lbr p') eqn:E2; try discriminate.
    destruct (contains c_rbr p') eqn:E3; try discriminate.
    apply break_at_eq in EA. destruct EA as [EA _]. subst tl.
    apply andb_true_iff in E1. destruct E1 as [E1 _]. apply N.eqb_eq in E1. subst c.
    replace (x :: host ++ c_rbr :: c_colon :: p') with ((x :: host ++ [c_rbr]) ++ c_colon :: p')
      by (cbn; rewrite <- app_assoc; reflexivity).
    rewrite has_suffix1_app_cons.
    destruct (has_suffix1 c_rbr (c_colon :: p')) eqn:ES; auto.
    apply has_suffix1_contains in ES. rewrite contains_cons in ES. rewrite E3 in ES. discriminate.
  - destruct (contains c_colon before); try discriminate.
    destruct (contains c_lbr (x :: tl)); try discriminate.
    destruct (contains c_rbr (x :: tl)) eqn:E3; try discriminate.
    destruct (has_suffix1 c_rbr (x :: tl)) eqn:ES; auto.
    apply has_suffix1_contains in ES. congruence.
Qed.

Lemma bracketed_shape : forall s, has_prefix1 c_lbr s = true -> has_suffix1 c_rbr s = true ->
                                  s = c_lbr :: drop_first_last s ++ [c_rbr].
Proof.
  intros s Hp Hs. destruct s as [|x tl]; try discriminate. cbn in Hp. apply N.eqb_eq in Hp. subst x.
  unfold has_suffix1 in Hs. destruct (rev (c_lbr :: tl)) as [|y r] eqn:E; try discriminate.
  apply N.eqb_eq in Hs. subst y.
  assert (E' : c_lbr :: tl = rev r ++ [c_rbr]).
  { rewrite <- (rev_involutive (c_lbr :: tl)). rewrite E. reflexivity. }
  destruct (rev r) as [|z r'] eqn:ER.
  - cbn in E'. inversion E'.
  - cbn in E'. inversion E'; subst. unfold drop_first_last. cbn [tl]. rewrite removelast_last. reflexivity.
Qed.

Lemma contains_removelast : forall c s, contains c s = false -> contains c (removelast s) = false.
Proof.
  intros c s H. destruct s as [|x r]; auto.
  assert (Hne : x :: r <> []) by discriminate.
  rewrite (app_removelast_last 0 Hne) in H. rewrite contains_app in H. apply orb_false_iff in H. tauto.
Qed.

Lemma trim_suffix_dot_clean : forall s, no_brackets s = true -> no_brackets (trim_suffix_dot s) = true.
Proof.
  intros s H. unfold trim_suffix_dot. destruct (has_suffix1 c_dot s); auto.
  apply no_brackets_iff in H. destruct H. apply no_brackets_iff. split; apply contains_removelast; auto.
Qed.

Section Sniffed.
  Variable is_ip : str -> bool.

  (* wherever the spec names the sniffed host, NormalizeDomain returns exactly it; it has no bracket, and
     it is an IP literal or has no colon *)
  Lemma sniffed_host_normalize : forall lt h,
      spec_sniffed_host is_ip lt = Some h ->
      normalize_lowered lt = h /\ no_brackets h = true /\ (is_ip h = true \/ contains c_colon h = false).
  Proof.
    intros lt h H. unfold spec_sniffed_host in H. unfold normalize_lowered.
    destruct (split_host_port lt) as [[h' p']|] eqn:ES.
    - destruct (negb (contains c_colon h') || is_ip h') eqn:EK; try discriminate.
      inversion H; subst. rewrite (split_not_rbr_suffix _ _ _ ES). split; auto. split.
      + apply split_host_port_clean in ES. tauto.
      + apply orb_true_iff in EK. destruct EK as [EK|EK]; auto. apply negb_true_iff in EK. auto.
    - destruct (has_prefix1 c_lbr lt && has_suffix1 c_rbr lt) eqn:EB.
      + apply andb_true_iff in EB. destruct EB as [EP ESf].
        destruct (is_ip (drop_first_last lt) && no_brackets (drop_first_last lt)) eqn:EI; try discriminate.
        inversion H; subst. apply andb_true_iff in EI. destruct EI as [EIp EN]. rewrite ESf.
        split; [|split; auto]. rewrite (bracketed_shape lt EP ESf) at 1. apply trim_brackets_bracketed. exact EN.
      + destruct (no_brackets lt) eqn:EN; cbn [negb] in H; try discriminate.
        assert (ESf : has_suffix1 c_rbr lt = false).
        { destruct (has_suffix1 c_rbr lt) eqn:E; auto. apply has_suffix1_contains in E.
          apply no_brackets_iff in EN. destruct EN. congruence. }
        rewrite ESf. destruct (is_ip lt) eqn:EIp.
        * destruct (has_suffix1 c_dot lt) eqn:ED; try discriminate. inversion H; subst.
          unfold trim_suffix_dot. rewrite ED. auto.
        * destruct (contains c_colon lt) eqn:ECo; try discriminate. inversion H; subst.
          split; auto. split; [apply trim_suffix_dot_clean; exact EN|]. right.
          unfold trim_suffix_dot. destruct (has_suffix1 c_dot lt); auto. apply contains_removelast. exact ECo.
  Qed.

  Lemma sniffed_host_class : forall h,
      no_brackets h = true -> (is_ip h = true \/ contains c_colon h = false) ->
      classify is_ip h = match h with [] => CEmpty | _ => if is_ip h then CIpLit h else CName h end.
  Proof.
    intros h HC HK. unfold classify. destruct h as [|x h']; auto. rewrite (unbracket_clean _ HC).
    destruct (is_ip (x :: h')) eqn:E; auto. destruct HK as [HK|HK]; try discriminate.
    unfold split_host_port. rewrite (break_last_none _ _ HK). reflexivity.
  Qed.

  (* the composition: for every raw value whose host the spec names, normalise-then-choose decides as
     the table says for the class of THAT host, and the target is well-formed: SplitHostPort accepts it,
     its host is the sniffed host (no bracket, no port) or the original IP, its port has no colon *)
  Lemma sniffed_to_target :
    forall mode outbound dst lt h l,
      spec_sniffed_host is_ip lt = Some h ->
      let k := knowledge_of is_ip l in
      let c := classify is_ip h in
      let r := is_reserved outbound in
      let o := choose_dial_target is_ip mode outbound dst (normalize_lowered lt) l in
      o_use_name o = spec_use_name is_ip mode r c k /\
      o_reroute o = spec_reroute is_ip mode r c k /\
      (dest_wf dst = true ->
       exists th tp, split_host_port (o_target o) = Some (th, tp) /\
                     (th, tp) = spec_endpoint is_ip mode r (d_ip dst) (d_port dst) c k /\
                     (th = h \/ th = d_ip dst) /\ tp = itoa (d_port dst) /\ no_brackets th = true).
  Proof.
    intros mode outbound dst lt h l HS. cbv zeta.
    destruct (sniffed_host_normalize lt h HS) as [HN [HC HK]]. rewrite HN.
    destruct (choose_table is_ip mode outbound dst h l) as [HU [HR HT]].
    split; auto. split; auto. intros Hwf.
    pose proof (sniffed_host_class h HC HK) as Hcls.
    assert (Hlc : literal_clean (classify is_ip h) = true).
    { rewrite Hcls. destruct h; auto. destruct (is_ip (n :: h)); cbn; auto. }
    assert (Hec : endpoint_constrained is_ip mode (is_reserved outbound) (classify is_ip h) (knowledge_of is_ip l) = true).
    { unfold endpoint_constrained. destruct (spec_use_name _ _ _ _ _); auto.
      rewrite Hcls. destruct h; auto. destruct (is_ip (n :: h)); auto. }
    specialize (HT Hwf Hlc Hec). apply denotes_elim in HT.
    destruct (spec_endpoint is_ip mode (is_reserved outbound) (d_ip dst) (d_port dst) (classify is_ip h) (knowledge_of is_ip l))
      as [th tp] eqn:EE.
    exists th, tp. split; auto. split; auto.
    pose proof (split_host_port_clean _ _ _ HT) as [Hth _].
    assert (Hcases : (th, tp) = (h, itoa (d_port dst)) \/ (th, tp) = (d_ip dst, itoa (d_port dst))).
    { unfold spec_endpoint in EE. rewrite Hcls in EE.
      destruct h as [|x h']; [|destruct (is_ip (x :: h'))];
        match type of EE with (if ?b then _ else _) = _ => destruct b end; inversion EE; auto. }
    destruct Hcases as [E|E]; inversion E; subst; repeat split; auto.
  Qed.
End Sniffed.

(* ---------------------------------------------------------------------------------------------
   the DNS-knowledge keys: store side (wire-form question name) and lookup side (sniffed name)
   --------------------------------------------------------------------------------------------- *)
Close Scope string_scope.
Open Scope N_scope.

Lemma suffix_shape : forall c s, has_suffix1 c s = true -> s = removelast s ++ [c].
Proof.
  intros c s H. unfold has_suffix1 in H. destruct (rev s) as [|y r] eqn:E; try discriminate.
  apply N.eqb_eq in H. subst y.
  assert (E' : s = rev r ++ [c]) by (rewrite <- (rev_involutive s); rewrite E; reflexivity).
  rewrite E' at 2. rewrite removelast_last. exact E'.
Qed.

(* name without a trailing backslash once its final dot is removed (no escaped final dot) *)
Definition no_escaped_dot (n : str) : bool := negb (has_suffix1 c_bslash (trim_suffix_dot n)).
Definition no_pipe (n : str) : bool := negb (contains c_pipe n).

Lemma fqdn_trim : forall n, no_escaped_dot n = true -> fqdn n = trim_suffix_dot n ++ [c_dot].
Proof.
  intros n H. unfold no_escaped_dot in H. apply negb_true_iff in H.
  unfold fqdn, is_fqdn, trim_suffix_dot in *. destruct (has_suffix1 c_dot n) eqn:E.
  - rewrite H. apply suffix_shape. exact E.
  - reflexivity.
Qed.

Lemma ascii_lower_app : forall a b, ascii_lower (a ++ b) = ascii_lower a ++ ascii_lower b.
Proof. intros. unfold ascii_lower. apply map_app. Qed.

(* the code's key is the spec's key: normal form of the name (lower case, no trailing dot) + "." + type *)
Lemma key_canonical : forall n q, no_escaped_dot n = true -> cache_key n q = spec_key n q.
Proof.
  intros n q H. unfold cache_key, canonical_name, spec_key, name_norm.
  rewrite (fqdn_trim n H). rewrite ascii_lower_app. rewrite <- app_assoc. reflexivity.
Qed.

Lemma contains_pipe_lower : forall s, contains c_pipe (ascii_lower s) = contains c_pipe s.
Proof.
  induction s as [|x s IH]; auto. cbn [ascii_lower map]. rewrite !contains_cons. fold (ascii_lower s). rewrite IH.
  f_equal. unfold c_pipe. destruct ((65 <=? x) && (x <=? 90)) eqn:E; auto. lia.
Qed.

Lemma break_at_none : forall c s, contains c s = false -> break_at c s = None.
Proof.
  induction s as [|x s IH]; auto. intros H. rewrite contains_cons in H. apply orb_false_iff in H. destruct H as [H1 H2].
  cbn [break_at]. rewrite N.eqb_sym. rewrite H1. rewrite IH by auto. reflexivity.
Qed.

Lemma cache_key_no_pipe : forall n q, no_escaped_dot n = true -> no_pipe n = true -> contains c_pipe (cache_key n q) = false.
Proof.
  intros n q H1 H2. rewrite key_canonical by auto. unfold spec_key, name_norm. unfold no_pipe in H2. apply negb_true_iff in H2.
  rewrite !contains_app. rewrite contains_pipe_lower.
  assert (contains c_pipe (trim_suffix_dot n) = false).
  { unfold trim_suffix_dot. destruct (has_suffix1 c_dot n); auto. apply contains_removelast. exact H2. }
  rewrite H. cbn [orb]. replace (contains c_pipe [c_dot]) with false by reflexivity. cbn [orb].
  apply digits_not_contain; [apply itoa_digits | unfold c_pipe; lia].
Qed.

Lemma store_key_canonical : forall n q scope,
    no_escaped_dot n = true -> no_pipe n = true -> store_key n q scope = spec_key n q.
Proof.
  intros n q scope H1 H2. unfold store_key. pose proof (cache_key_no_pipe n q H1 H2) as HP.
  destruct scope as [|c sc].
  - rewrite app_nil_r. unfold base_key. rewrite break_at_none by auto. apply key_canonical. auto.
  - unfold base_key. rewrite break_at_app by auto. apply key_canonical. auto.
Qed.

(* store-key(question name) = lookup-key(sniffed name) whenever the names are equal up to ASCII case and
   a trailing dot *)
Lemma store_key_is_lookup_key : forall qname dom q scope,
    same_name qname dom = true ->
    no_escaped_dot qname = true -> no_pipe qname = true -> no_escaped_dot dom = true ->
    store_key qname q scope = lookup_key dom q.
Proof.
  intros qname dom q scope HS H1 H2 H3. rewrite store_key_canonical by auto.
  unfold lookup_key. rewrite key_canonical by auto. unfold spec_key. unfold same_name in HS.
  apply str_eqb_eq in HS. rewrite HS. reflexivity.
Qed.

(* the variant "canonicalise only when the trailing dot is missing" breaks that agreement *)
Definition cache_key_only_without_dot (qname : str) (qtype : N) : str :=
  (if has_suffix1 c_dot qname then qname else canonical_name qname) ++ itoa qtype.

Open Scope string_scope.
Lemma key_variant_refuted :
  exists qname dom q,
    same_name qname dom = true /\ no_escaped_dot qname = true /\ no_pipe qname = true /\ no_escaped_dot dom = true /\
    base_key (cache_key_only_without_dot qname q) <> cache_key_only_without_dot dom q.
Proof.
  exists (bs "wWw.SeEd-DeMo.ExAmPlE."), (bs "www.seed-demo.example"), 1.
  repeat split; try (vm_compute; reflexivity). vm_compute. discriminate.
Qed.
Close Scope string_scope.

Open Scope Z_scope.
(* a name resolved through dae (question name in wire form) whose original TTL is running is "resolved"
   for every sniffed spelling of that name *)
Lemma resolved_name_is_known : forall evs qname q scope e now dom ttl,
    In (EvResolved (store_key qname q scope) e) evs -> now < e ->
    same_name qname dom = true ->
    no_escaped_dot qname = true -> no_pipe qname = true -> no_escaped_dot dom = true ->
    k_resolved (knowledge_now ttl evs (lookup_key dom q) dom now) = true.
Proof.
  intros evs qname q scope e now dom ttl Hin Hlt HS H1 H2 H3.
  rewrite (store_key_is_lookup_key qname dom q scope HS H1 H2 H3) in Hin.
  unfold knowledge_now. cbn [k_resolved].
  assert (Hne : lookup_key dom q <> []).
  { unfold lookup_key. rewrite key_canonical by auto. unfold spec_key. destruct (name_norm dom); discriminate. }
  destruct (lookup_key dom q) eqn:EK; try congruence. rewrite <- EK in *.
  apply resolved_now_true. exists e. split; auto.
Qed.

Lemma history_table_wire : forall is_ip mode now0 (h : list wire_op),
    history_ok is_ip mode (init_state now0) [] (map op_of_wire h).
Proof. intros. apply history_table. Qed.

(* direct and block are among the indices the real IsReserved answered true for *)
Lemma builtin_direct_block :
  is_reserved outbound_direct = true /\ is_reserved outbound_block = true /\
  builtin_outbound outbound_direct = true /\ builtin_outbound outbound_block = true.
Proof. vm_compute. repeat split; reflexivity. Qed.

(* every attempt of one routeDial carries the same dial parameters, hence the same target *)
Lemma every_attempt_same_target :
  forall (is_ip : str -> bool) mode outbound dst domain l first_fails d,
    In d (route_dial_domains domain first_fails) ->
    d = domain /\ choose_dial_target is_ip mode outbound dst d l = choose_dial_target is_ip mode outbound dst domain l.
Proof.
  intros is_ip mode outbound dst domain l ff d H.
  assert (E : d = domain).
  { unfold route_dial_domains, retry_domain in H. destruct H as [H|H]; auto.
    destruct ff; [|destruct H]. destruct H as [H|[]]. rewrite <- H. reflexivity. }
  subst. auto.
Qed.

Open Scope string_scope.
Lemma attempt_without_domain_refuted :
  exists mode outbound dst domain l d,
    In d (route_dial_domains_dropping domain true) /\
    o_target (choose_dial_target nv_is_ip mode outbound dst d l) <>
    o_target (choose_dial_target nv_is_ip mode outbound dst domain l).
Proof.
  exists ModeDomainPlus, 2%N, nv_dst, (bs "example.com"), {| l_dns := false; l_real_known := false; l_real_real := false |}, [].
  split; [right; left; reflexivity|]. vm_compute. discriminate.
Qed.
Close Scope string_scope.
