(* Link C03 + C02 (+ C01 through Link_C01_C02) — the datapath hooks with the REAL kernel route() in place of the oracle.

   C03's hook models (lan_ingress / wan_egress) and its specification take the installed rule program as an oracle
   `e_route : rquery -> Z` (the s64 that route() returns).  C02 models route() itself over the bytes that
   buildRoutingKernspace installs (k_route over kmaps) and proves it equal to the userspace matcher (C02_kscan_scan);
   Link_C01_C02 continues to C01's first-matching-rule `decide` of the program as written.

   WHAT THE HOOK PASSES TO route().  C03's hook model does not build the __u32 flag[8] / l4hdr / saddr / daddr / mac
   arguments: it abstracts them into the record `rquery` (l4 code 1/2, ip version code 1/2, process name, dscp, is_wan,
   source MAC, ports, addresses, all as numbers).  C02's `kargs` are the byte-level arguments.  The adapter
   [kargs_of_query] lays a query out as C02's kargs (flag words, big-endian port bytes, 16 address bytes, MAC in the
   low six of 16 bytes, process name = the 16 comm bytes, most significant first, as C03 stores it in conn_state), and
   [kargs_of_query_packet] proves that for every query a hook can make (codes in range: rquery_of_wf / query_wf) this
   is exactly C02's `kargs_of` of the C01 packet description with the same fields — the description C02's and C01's
   theorems quantify over.  So nothing about the arguments is assumed; what is NOT covered by either model is the C
   statement sequence that fills `params` from the skb (C02's harness drives route() with kargs_of; C03's harness
   observes the hooks end to end). *)
From Coq Require Import List Arith NArith ZArith Bool String Lia.
From Dae Require Import C01_Spec C01_Model C01_Props C02_Spec C02_Model C02_Props.
From Dae.gen Require Import C02_Consts.
From Dae Require Import Link_C02_C10 Link_C01_C02.
Import ListNotations.
Open Scope N_scope.

(* ====================================================================================================== *)
(* Part A: fields -> kargs, fields -> C01 packet description (only C01 / C02 names in scope)                *)
(* ====================================================================================================== *)

(* the arguments of route() for a query given by its fields *)
Definition kargs_of_fields (l4 ipver pname dscp wan mac sport dport sip dip : N) : kargs :=
  let pn := bytes_be 16 pname in
  {| ka_flag := [l4; ipver; le32 pn 0; le32 pn 4; le32 pn 8; le32 pn 12; dscp; wan];
     ka_l4hdr := be16_bytes sport ++ be16_bytes dport;
     ka_saddr := bytes_be 16 sip;
     ka_daddr := bytes_be 16 dip;
     ka_mac := bytes_be 16 mac |}.

(* the packet description (C01 / C02 quantifier) with these fields; the domain and the regexp oracle data are what
   the control plane knows about the flow — the kernel sees the domain only through domain_routing_map *)
Definition pk_of_fields (l4 ipver pname dscp mac sport dport sip dip : N) (dom : string) (hits : list string)
  : C01_Spec.packet :=
  C01_Spec.Build_packet sip dip sport dport (if l4 =? 1 then TCP else UDP) (if ipver =? 1 then V4 else V6)
                        dom hits (bytes_be 16 pname) mac dscp.

Lemma kargs_of_fields_packet : forall l4 ipver pname dscp wan mac sport dport sip dip dom hits,
  (l4 = 1 \/ l4 = 2) -> (ipver = 1 \/ ipver = 2) -> (wan = 0 \/ wan = 1) ->
  kargs_of_fields l4 ipver pname dscp wan mac sport dport sip dip
  = kargs_of (pk_of_fields l4 ipver pname dscp mac sport dport sip dip dom hits) (wan =? 1).
Proof.
  intros l4 ipver pname dscp wan mac sport dport sip dip dom hits [->| ->] [->| ->] [->| ->]; reflexivity.
Qed.

(* the s64 route() returns: the result word, or -errno *)
Definition zword (r : kret) : Z := match r with KWord w => Z.of_N w | KErrno e => (- Z.of_N e)%Z end.

Lemma k_route_errno : forall km a e, k_route km a = KErrno e -> e = K_EPERM.
Proof.
  intros km a e H. unfold k_route in H. cbv zeta in H.
  destruct (k_loop _ _ _ _ _ _ _) as [[w|e']|]; inversion H; reflexivity.
Qed.

Lemma zword_neg : forall km a, (zword (k_route km a) <? 0)%Z = match k_route km a with KWord _ => false | KErrno _ => true end.
Proof.
  intros km a. destruct (k_route km a) as [w|e] eqn:E; cbn [zword].
  - apply Z.ltb_ge. lia.
  - rewrite (k_route_errno km a e E). reflexivity.
Qed.

(* route() over installed maps whose domain_routing_map is the table d *)
Definition kernel_route_fields (km : kmaps) (d : list N -> option (list N))
           (l4 ipver pname dscp wan mac sport dport sip dip : N) : kret :=
  k_route (with_domain_map km d) (kargs_of_fields l4 ipver pname dscp wan mac sport dport sip dip).

(* C02_kscan_scan at the level of one route() call *)
Lemma kernel_route_fields_scan :
  forall prev ms tries alloc km (d : list N -> option (list N)) (dm : string -> list N)
         l4 ipver pname dscp wan mac sport dport sip dip dom hits,
    let pk := pk_of_fields l4 ipver pname dscp mac sport dport sip dip dom hits in
    (l4 = 1 \/ l4 = 2) -> (ipver = 1 \/ ipver = 2) -> (wan = 0 \/ wan = 1) ->
    forallb (wf_mset (N.of_nat (List.length tries))) ms = true ->
    forallb (forallb wf_prefix) tries = true ->
    probe_ok pk (wan =? 1) = true ->
    bitmap_ok (dm dom) = true ->
    install prev ms tries alloc = Ok km ->
    d (bytes_be 16 dip) = dom_entry (if String.eqb dom "" then None else Some (dm dom)) ->
    decode_word (kernel_route_fields km d l4 ipver pname dscp wan mac sport dport sip dip)
    = expected dport (user_answer (match_sets {| mt_sets := ms; mt_tries := tries |} dm (args_of_packet pk))).
Proof.
  intros prev ms tries alloc km d dm l4 ipver pname dscp wan mac sport dport sip dip dom hits pk
         Hl4 Hv Hw Hms Htr Hprobe Hbm Hinst Hd.
  pose proof (C02_kscan_scan prev ms tries alloc dm pk (wan =? 1) km Hms Htr Hprobe Hbm Hinst) as H.
  cbv zeta in H. change (p_domain pk) with dom in H. rewrite <- Hd in H.
  change (bytes_be 16 dip) with (bytes_be 16 (p_dst pk)) in H.
  rewrite <- kernel_decides_table_at in H. unfold kernel_decides_table in H. rewrite Hinst in H.
  injection H as H1.
  unfold kernel_route_fields. rewrite (kargs_of_fields_packet l4 ipver pname dscp wan mac sport dport sip dip dom hits Hl4 Hv Hw).
  exact H1.
Qed.

(* ... and for the program as written (Link_C01_C02) *)
Lemma kernel_route_fields_program :
  forall (p : program) (b : builder) prev alloc km (d : list N -> option (list N)) (dm : string -> list N)
         l4 ipver pname dscp wan mac sport dport sip dip dom hits,
    let pk := pk_of_fields l4 ipver pname dscp mac sport dport sip dip dom hits in
    (l4 = 1 \/ l4 = 2) -> (ipver = 1 \/ ipver = 2) -> (wan = 0 \/ wan = 1) ->
    wf_program p = true -> lower_program p = Ok b ->
    install prev (b_rules b) (b_tries b) alloc = Ok km ->
    probe_ok pk (wan =? 1) = true ->
    bitmap_ok (dm dom) = true ->
    C01_domain_oracle_agrees p dm pk ->
    d (bytes_be 16 dip) = dom_entry (if String.eqb dom "" then None else Some (dm dom)) ->
    decode_word (kernel_route_fields km d l4 ipver pname dscp wan mac sport dport sip dip)
    = Some (dns_adjust dport (C01_Spec.decide p pk)).
Proof.
  intros p b prev alloc km d dm l4 ipver pname dscp wan mac sport dport sip dip dom hits pk
         Hl4 Hv Hw Hwf Hl Hinst Hprobe Hbm Hdom Hd.
  pose proof (Link_kernel_decides_program p b prev alloc dm pk (wan =? 1) km Hwf Hl Hinst Hprobe Hbm Hdom) as H.
  cbv zeta in H. change (p_domain pk) with dom in H. rewrite <- Hd in H.
  change (bytes_be 16 dip) with (bytes_be 16 (p_dst pk)) in H.
  rewrite <- kernel_decides_table_at in H. unfold kernel_decides_table in H. rewrite Hinst in H.
  injection H as H1.
  unfold kernel_route_fields. rewrite (kargs_of_fields_packet l4 ipver pname dscp wan mac sport dport sip dip dom hits Hl4 Hv Hw).
  exact H1.
Qed.

(* ====================================================================================================== *)
(* Part B: the hooks of C03 with route() := C02's kernel scan                                              *)
(* ====================================================================================================== *)
From Dae Require Import C03_Spec C03_Model C03_Proofs C03_SeqProofs C03_HookProofs C03_FreshProofs C03_Props.

(* ---------- the adapter: C03's abstract query <-> C02's byte-level arguments ---------- *)
Definition kargs_of_query (q : rquery) : kargs :=
  kargs_of_fields (q_l4 q) (q_ipver q) (q_pname q) (q_dscp q) (q_wan q) (q_mac q) (q_sport q) (q_dport q) (q_sip q) (q_dip q).

(* the C01 / C02 packet description of a query; dom / hits: what the control plane knows of the flow's name *)
Definition pk_of_query (q : rquery) (dom : string) (hits : list string) : C01_Spec.packet :=
  pk_of_fields (q_l4 q) (q_ipver q) (q_pname q) (q_dscp q) (q_mac q) (q_sport q) (q_dport q) (q_sip q) (q_dip q) dom hits.

(* the codes a hook can pass *)
Definition query_wf (q : rquery) : Prop :=
  (q_l4 q = 1 \/ q_l4 q = 2) /\ (q_ipver q = 1 \/ q_ipver q = 2) /\ (q_wan q = 0 \/ q_wan q = 1).

(* every query the hook MODEL makes (rquery_of) and every query of the SPECIFICATION (query) has its codes in range *)
Lemma rquery_of_wf : forall e pk wan pname, query_wf (rquery_of e pk wan pname).
Proof.
  intros e pk wan pname. unfold query_wf, rquery_of. cbn [q_l4 q_ipver q_wan].
  destruct (pp_l4 pk =? IPPROTO_TCP), (e_v4 e), wan; auto.
Qed.
Lemma query_wf_spec : forall e p wan, query_wf (query e p wan).
Proof.
  intros e p wan. unfold query_wf, query. cbn [q_l4 q_ipver q_wan].
  destruct (k_proto (p_key p) =? IPPROTO_TCP), (e_v4 e), wan; auto.
Qed.

(* THE ADAPTER LEMMA: for such a query the arguments are C02's kargs_of of the packet description with the same
   fields — l4 / ip-version enum values, the four little-endian words of the 16 comm bytes, dscp, is_wan, ports in
   network order, addresses and MAC as 16 bytes *)
Theorem Link_kargs_of_query_packet : forall q dom hits,
  query_wf q -> kargs_of_query q = kargs_of (pk_of_query q dom hits) (q_wan q =? 1).
Proof. intros q dom hits (H1 & H2 & H3). now apply kargs_of_fields_packet. Qed.
Print Assumptions Link_kargs_of_query_packet.

(* and the description carries exactly the query's fields *)
Lemma pk_of_query_fields : forall q dom hits,
  let pk := pk_of_query q dom hits in
  C01_Spec.p_src pk = q_sip q /\ C01_Spec.p_dst pk = q_dip q /\ C01_Spec.p_sport pk = q_sport q /\
  C01_Spec.p_dport pk = q_dport q /\ C01_Spec.p_mac pk = q_mac q /\ C01_Spec.p_dscp pk = q_dscp q /\
  C01_Spec.p_pname pk = bytes_be 16 (q_pname q) /\ C01_Spec.p_domain pk = dom /\
  C01_Spec.p_l4 pk = (if q_l4 q =? 1 then TCP else UDP) /\ C01_Spec.p_ipver pk = (if q_ipver q =? 1 then V4 else V6).
Proof. intros. repeat split. Qed.

(* ---------- route(): the installed generation km, domain_routing_map d ---------- *)
Definition kernel_route (km : kmaps) (d : list N -> option (list N)) : rquery -> Z :=
  fun q => zword (k_route (with_domain_map km d) (kargs_of_query q)).

(* the C02 decision as C03's record *)
Definition dec3 (x : C01_Spec.decision) : C03_Spec.decision := let '(o, m, mu) := x in mk_dec o m (b2n mu).

(* the callers' decoding of the s64 (C03_Spec.decide, C03_Model.unpack) is C02's decode_word *)
Lemma land_one_b2n : forall x, N.land x 1 = b2n (N.land x 1 =? 1).
Proof.
  intros x. change 1 with (N.ones 1) at 1 2. rewrite N.land_ones. change (2 ^ 1) with 2.
  pose proof (N.mod_upper_bound x 2). destruct (N.eqb_spec (x mod 2) 1) as [E|E]; cbn [b2n]; lia.
Qed.

Lemma decide_kernel_route : forall km d q,
  C03_Spec.decide (kernel_route km d q) = option_map dec3 (decode_word (k_route (with_domain_map km d) (kargs_of_query q))).
Proof.
  intros km d q. unfold kernel_route, C03_Spec.decide. rewrite zword_neg.
  destruct (k_route (with_domain_map km d) (kargs_of_query q)) as [w|e]; [|reflexivity].
  cbn [zword decode_word option_map dec3]. rewrite N2Z.id. f_equal. f_equal.
  - change 0xffffffff with (N.ones 32). now rewrite N.land_ones.
  - apply land_one_b2n.
Qed.

Lemma unpack_kernel_route : forall km d q o m mu,
  decode_word (k_route (with_domain_map km d) (kargs_of_query q)) = Some (o, m, mu) ->
  (0 <= kernel_route km d q)%Z /\ unpack (kernel_route km d q) = (o, m, b2n mu).
Proof.
  intros km d q o m mu H. unfold kernel_route.
  destruct (k_route (with_domain_map km d) (kargs_of_query q)) as [w|e]; [|discriminate].
  cbn [zword decode_word] in *. injection H as <- <- <-. split; [lia|].
  unfold unpack. rewrite N2Z.id. f_equal; [f_equal|].
  - change 0xffffffff with (N.ones 32). now rewrite N.land_ones.
  - apply land_one_b2n.
Qed.

(* ---------- the oracle, discharged ---------- *)
(* the premises about the installed program and the flow's description, shared by all statements below *)
Record routed (p : program) (b : builder) (prev : kmaps) (alloc : N) (km : kmaps)
       (d : list N -> option (list N)) (dm : string -> list N) (q : rquery) (dom : string) (hits : list string) : Prop := {
  rt_wf : wf_program p = true;                                   (* the program as written is well formed ... *)
  rt_lower : lower_program p = Ok b;                             (* ... lowers to match-sets b ... *)
  rt_install : install prev (b_rules b) (b_tries b) alloc = Ok km;   (* ... which buildRoutingKernspace installs as km *)
  rt_probe : probe_ok (pk_of_query q dom hits) (q_wan q =? 1) = true;  (* C02's quantifier: field ranges, name alphabet,
                                                                          a LAN packet carries no process name *)
  rt_bitmap : bitmap_ok (dm dom) = true;                         (* C02: the userspace bitmap has 32 words *)
  rt_oracle : C01_domain_oracle_agrees p dm (pk_of_query q dom hits);  (* C01/C11 interface (discharged in Link_C01_C11) *)
  rt_entry : d (bytes_be 16 (q_dip q))
             = dom_entry (if String.eqb dom "" then None else Some (dm dom)) }.   (* C02/C10 interface (Link_C02_C10) *)

(* THE ROUTE ORACLE IS THE KERNEL SCAN IS THE FIRST MATCHING RULE: for every query a hook makes, the decision it reads
   from route() over the installed bytes is dns_adjust of C01's `decide` of the program as written *)
Theorem Link_C03_route_is_first_match :
  forall p b prev alloc km d dm q dom hits,
    query_wf q -> routed p b prev alloc km d dm q dom hits ->
    C03_Spec.decide (kernel_route km d q)
    = Some (dec3 (dns_adjust (q_dport q) (C01_Spec.decide p (pk_of_query q dom hits)))).
Proof.
  intros p b prev alloc km d dm q dom hits (H1 & H2 & H3) R. rewrite decide_kernel_route.
  unfold kargs_of_query, pk_of_query in *.
  fold (kernel_route_fields km d (q_l4 q) (q_ipver q) (q_pname q) (q_dscp q) (q_wan q) (q_mac q) (q_sport q) (q_dport q) (q_sip q) (q_dip q)).
  rewrite (kernel_route_fields_program p b prev alloc km d dm _ _ _ _ _ _ _ _ _ _ dom hits H1 H2 H3
             (rt_wf _ _ _ _ _ _ _ _ _ _ R) (rt_lower _ _ _ _ _ _ _ _ _ _ R) (rt_install _ _ _ _ _ _ _ _ _ _ R)
             (rt_probe _ _ _ _ _ _ _ _ _ _ R) (rt_bitmap _ _ _ _ _ _ _ _ _ _ R) (rt_oracle _ _ _ _ _ _ _ _ _ _ R)
             (rt_entry _ _ _ _ _ _ _ _ _ _ R)).
  reflexivity.
Qed.
Print Assumptions Link_C03_route_is_first_match.

(* the same for ANY installed match-set array (C02 alone): the decision is dns_adjust of RoutingMatcher.Match *)
Theorem Link_C03_route_is_kernel_scan :
  forall prev ms tries alloc km d dm q dom hits,
    query_wf q ->
    forallb (wf_mset (N.of_nat (List.length tries))) ms = true -> forallb (forallb wf_prefix) tries = true ->
    probe_ok (pk_of_query q dom hits) (q_wan q =? 1) = true -> bitmap_ok (dm dom) = true ->
    install prev ms tries alloc = Ok km ->
    d (bytes_be 16 (q_dip q)) = dom_entry (if String.eqb dom "" then None else Some (dm dom)) ->
    C03_Spec.decide (kernel_route km d q)
    = option_map dec3 (expected (q_dport q)
                         (user_answer (match_sets {| mt_sets := ms; mt_tries := tries |} dm
                                                  (args_of_packet (pk_of_query q dom hits))))).
Proof.
  intros prev ms tries alloc km d dm q dom hits (H1 & H2 & H3) Hms Htr Hp Hb Hi Hd. rewrite decide_kernel_route.
  unfold kargs_of_query, pk_of_query in *.
  fold (kernel_route_fields km d (q_l4 q) (q_ipver q) (q_pname q) (q_dscp q) (q_wan q) (q_mac q) (q_sport q) (q_dport q) (q_sip q) (q_dip q)).
  now rewrite (kernel_route_fields_scan prev ms tries alloc km d dm _ _ _ _ _ _ _ _ _ _ dom hits H1 H2 H3 Hms Htr Hp Hb Hi Hd).
Qed.
Print Assumptions Link_C03_route_is_kernel_scan.

(* ---------- the verdict of a NEW flow ---------- *)
(* the decision of the first matching rule of the program as written, for the packet of frame f seen by a hook *)
Definition first_match_decision (p : program) (e : env) (pkt : C03_Spec.packet) (wan : bool)
           (dom : string) (hits : list string) : C03_Spec.decision :=
  dec3 (dns_adjust (k_dport (p_key pkt)) (C01_Spec.decide p (pk_of_query (query e pkt wan) dom hits))).

(* LAN ingress.  For every configured program that installs, every state, environment whose route() is the kernel
   scan over the installed bytes, every frame that parses to a pure TCP SYN on either parse path: the observed
   datapath verdict is the verdict the specification assigns to the outbound / mark / must that the first matching
   rule as written names (direct: pass with the rule's mark; block: drop; dead group: drop; else redirect to dae,
   and the control plane recovers exactly that decision with DSCP and source MAC). *)
Theorem Link_C03_new_flow_verdict_lan :
  forall p b prev alloc km d dm dom hits P e st eth proto pf lin f,
    inv st -> 0 < e_now e -> fresh_syn eth proto f ->
    e_route e = kernel_route km d ->
    let pkt := classify (parse_slow eth proto f) in
    routed p b prev alloc km d dm (query e pkt false) dom hits ->
    let D := first_match_decision p e pkt false dom hits in
    fresh_lan P e st eth proto pf lin f = lan_verdict P e pkt D (the_record e pkt D false).
Proof.
  intros p b prev alloc km d dm dom hits P e st eth proto pf lin f Hi Hnow [Hc Hn] He pkt R D.
  unfold fresh_lan. apply (lan_fresh_tcp_proof P e st eth proto pf lin f D Hi Hnow Hc Hn).
  rewrite He. exact (Link_C03_route_is_first_match p b prev alloc km d dm _ dom hits (query_wf_spec e pkt false) R).
Qed.
Print Assumptions Link_C03_new_flow_verdict_lan.

(* WAN egress (locally originated, not sent by dae itself): direct without mark passes; block and dead groups drop;
   everything else, direct with a mark included, goes to dae with the record carrying the sender process *)
Theorem Link_C03_new_flow_verdict_wan :
  forall p b prev alloc km d dm dom hits P e st eth proto pf lin f,
    inv st -> 0 < e_now e -> fresh_syn eth proto f -> wan_local P e ->
    e_route e = kernel_route km d ->
    let pkt := classify (parse_slow eth proto f) in
    routed p b prev alloc km d dm (query e pkt true) dom hits ->
    let D := first_match_decision p e pkt true dom hits in
    fresh_wan P e st eth proto pf lin f = wan_verdict e pkt D (the_record e pkt D true).
Proof.
  intros p b prev alloc km d dm dom hits P e st eth proto pf lin f Hi Hnow [Hc Hn] [Hif Hf] He pkt R D.
  unfold fresh_wan. apply (wan_fresh_tcp_proof P e st eth proto pf lin f D Hi Hnow Hif Hf Hc Hn).
  rewrite He. exact (Link_C03_route_is_first_match p b prev alloc km d dm _ dom hits (query_wf_spec e pkt true) R).
Qed.
Print Assumptions Link_C03_new_flow_verdict_wan.
