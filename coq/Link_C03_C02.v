(* Link C03 + C02 (+ C01 through Link_C01_C02) — the datapath hooks with the REAL kernel route() in place of the oracle.

   C03's hook models (lan_ingress / wan_egress) and its specification take the installed rule program as an oracle
   `e_route : rquery -> Z` (the s64 that route() returns).  C02 models route() itself over the bytes that
   buildRoutingKernspace installs (k_route over kmaps) and proves it equal to the userspace matcher (C02_kscan_scan);
   Link_C01_C02 continues to C01's first-matching-rule `decide` of the program as written.

   WHAT THE HOOK PASSES TO route().  C03's hook model does not build the __u32 flag[8] / l4hdr / saddr / daddr / mac
   arguments: it abstracts them into the record `rquery` (l4 code 1/2, ip version code 1/2, process name, dscp, is_wan,
   source MAC, ports, addresses, all as numbers).  C02's `kargs` are the byte-level arguments.  The adapter
   [kargs_of_query] lays a query out as C02's kargs (flag words, big-endian port bytes, 16 address bytes, MAC in the
   low six of 16 bytes, process name = the 16 comm bytes, most significant first, as C03 stores it in conn_state), and
   [kargs_of_query_packet] proves that for every query a hook can make (codes in range: rquery_of_wf / query_wf) this
   is exactly C02's `kargs_of` of the C01 packet description with the same fields — the description C02's and C01's
   theorems quantify over.  So nothing about the arguments is assumed; what is NOT covered by either model is the C
   statement sequence that fills `params` from the skb (C02's harness drives route() with kargs_of; C03's harness
   observes the hooks end to end). *)
From Coq Require Import List Arith NArith ZArith Bool String Lia.
From Dae Require Import C01_Spec C01_Model C01_Props C02_Spec C02_Model C02_Props.
From Dae Require C02_Proofs.
From Dae.gen Require Import C02_Consts.
From Dae Require Import Link_C02_C10 Link_C01_C02.
Import ListNotations.
Open Scope N_scope.

(* ====================================================================================================== *)
(* Part A: fields -> kargs, fields -> C01 packet description (only C01 / C02 names in scope)                *)
(* ====================================================================================================== *)

(* the arguments of route() for a query given by its fields *)
Definition kargs_of_fields (l4 ipver pname dscp wan mac sport dport sip dip : N) : kargs :=
  let pn := bytes_be 16 pname in
  {| ka_flag := [l4; ipver; le32 pn 0; le32 pn 4; le32 pn 8; le32 pn 12; dscp; wan];
     ka_l4hdr := be16_bytes sport ++ be16_bytes dport;
     ka_saddr := bytes_be 16 sip;
     ka_daddr := bytes_be 16 dip;
     ka_mac := bytes_be 16 mac |}.

(* the packet description (C01 / C02 quantifier) with these fields; the domain and the regexp oracle data are what
   the control plane knows about the flow — the kernel sees the domain only through domain_routing_map *)
Definition pk_of_fields (l4 ipver pname dscp mac sport dport sip dip : N) (dom : string) (hits : list string)
  : C01_Spec.packet :=
  C01_Spec.Build_packet sip dip sport dport (if l4 =? 1 then TCP else UDP) (if ipver =? 1 then V4 else V6)
                        dom hits (bytes_be 16 pname) mac dscp.

Lemma kargs_of_fields_packet : forall l4 ipver pname dscp wan mac sport dport sip dip dom hits,
  (l4 = 1 \/ l4 = 2) -> (ipver = 1 \/ ipver = 2) -> (wan = 0 \/ wan = 1) ->
  kargs_of_fields l4 ipver pname dscp wan mac sport dport sip dip
  = kargs_of (pk_of_fields l4 ipver pname dscp mac sport dport sip dip dom hits) (wan =? 1).
Proof.
  intros l4 ipver pname dscp wan mac sport dport sip dip dom hits [->| ->] [->| ->] [->| ->]; reflexivity.
Qed.

(* the s64 route() returns: the result word, or -errno *)
Definition zword (r : kret) : Z := match r with KWord w => Z.of_N w | KErrno e => (- Z.of_N e)%Z end.

Lemma k_route_errno : forall km a e, k_route km a = KErrno e -> e = K_EPERM.
Proof.
  intros km a e H. unfold k_route in H. cbv zeta in H.
  destruct (k_loop _ _ _ _ _ _ _) as [[w|e']|]; inversion H; reflexivity.
Qed.

Lemma zword_neg : forall km a, (zword (k_route km a) <? 0)%Z = match k_route km a with KWord _ => false | KErrno _ => true end.
Proof.
  intros km a. destruct (k_route km a) as [w|e] eqn:E; cbn [zword].
  - apply Z.ltb_ge. lia.
  - rewrite (k_route_errno km a e E). reflexivity.
Qed.

(* route() over installed maps whose domain_routing_map is the table d *)
Definition kernel_route_fields (km : kmaps) (d : list N -> option (list N))
           (l4 ipver pname dscp wan mac sport dport sip dip : N) : kret :=
  k_route (with_domain_map km d) (kargs_of_fields l4 ipver pname dscp wan mac sport dport sip dip).

(* C02_kscan_scan at the level of one route() call *)
Lemma kernel_route_fields_scan :
  forall prev ms tries alloc km (d : list N -> option (list N)) (dm : string -> list N)
         l4 ipver pname dscp wan mac sport dport sip dip dom hits,
    let pk := pk_of_fields l4 ipver pname dscp mac sport dport sip dip dom hits in
    (l4 = 1 \/ l4 = 2) -> (ipver = 1 \/ ipver = 2) -> (wan = 0 \/ wan = 1) ->
    forallb (wf_mset (N.of_nat (List.length tries))) ms = true ->
    forallb (forallb wf_prefix) tries = true ->
    probe_ok pk (wan =? 1) = true ->
    bitmap_ok (dm dom) = true ->
    install prev ms tries alloc = Ok km ->
    d (bytes_be 16 dip) = dom_entry (if String.eqb dom "" then None else Some (dm dom)) ->
    decode_word (kernel_route_fields km d l4 ipver pname dscp wan mac sport dport sip dip)
    = expected dport (user_answer (match_sets {| mt_sets := ms; mt_tries := tries |} dm (args_of_packet pk))).
Proof.
  intros prev ms tries alloc km d dm l4 ipver pname dscp wan mac sport dport sip dip dom hits pk
         Hl4 Hv Hw Hms Htr Hprobe Hbm Hinst Hd.
  pose proof (C02_kscan_scan prev ms tries alloc dm pk (wan =? 1) km Hms Htr Hprobe Hbm Hinst) as H.
  cbv zeta in H. change (p_domain pk) with dom in H. rewrite <- Hd in H.
  change (bytes_be 16 dip) with (bytes_be 16 (p_dst pk)) in H.
  rewrite <- kernel_decides_table_at in H. unfold kernel_decides_table in H. rewrite Hinst in H.
  injection H as H1.
  unfold kernel_route_fields. rewrite (kargs_of_fields_packet l4 ipver pname dscp wan mac sport dport sip dip dom hits Hl4 Hv Hw).
  exact H1.
Qed.

(* ... and for the program as written (Link_C01_C02) *)
Lemma kernel_route_fields_program :
  forall (p : program) (b : builder) prev alloc km (d : list N -> option (list N)) (dm : string -> list N)
         l4 ipver pname dscp wan mac sport dport sip dip dom hits,
    let pk := pk_of_fields l4 ipver pname dscp mac sport dport sip dip dom hits in
    (l4 = 1 \/ l4 = 2) -> (ipver = 1 \/ ipver = 2) -> (wan = 0 \/ wan = 1) ->
    wf_program p = true -> lower_program p = Ok b ->
    install prev (b_rules b) (b_tries b) alloc = Ok km ->
    probe_ok pk (wan =? 1) = true ->
    bitmap_ok (dm dom) = true ->
    C01_domain_oracle_agrees p dm pk ->
    d (bytes_be 16 dip) = dom_entry (if String.eqb dom "" then None else Some (dm dom)) ->
    decode_word (kernel_route_fields km d l4 ipver pname dscp wan mac sport dport sip dip)
    = Some (dns_adjust dport (C01_Spec.decide p pk)).
Proof.
  intros p b prev alloc km d dm l4 ipver pname dscp wan mac sport dport sip dip dom hits pk
         Hl4 Hv Hw Hwf Hl Hinst Hprobe Hbm Hdom Hd.
  pose proof (Link_kernel_decides_program p b prev alloc dm pk (wan =? 1) km Hwf Hl Hinst Hprobe Hbm Hdom) as H.
  cbv zeta in H. change (p_domain pk) with dom in H. rewrite <- Hd in H.
  change (bytes_be 16 dip) with (bytes_be 16 (p_dst pk)) in H.
  rewrite <- kernel_decides_table_at in H. unfold kernel_decides_table in H. rewrite Hinst in H.
  injection H as H1.
  unfold kernel_route_fields. rewrite (kargs_of_fields_packet l4 ipver pname dscp wan mac sport dport sip dip dom hits Hl4 Hv Hw).
  exact H1.
Qed.

(* ====================================================================================================== *)
(* Part B: the hooks of C03 with route() := C02's kernel scan                                              *)
(* ====================================================================================================== *)
From Dae Require Import C03_Spec C03_Model C03_Proofs C03_SeqProofs C03_HookProofs C03_FreshProofs C03_Props.

(* ---------- the adapter: C03's abstract query <-> C02's byte-level arguments ---------- *)
Definition kargs_of_query (q : rquery) : kargs :=
  kargs_of_fields (q_l4 q) (q_ipver q) (q_pname q) (q_dscp q) (q_wan q) (q_mac q) (q_sport q) (q_dport q) (q_sip q) (q_dip q).

(* the C01 / C02 packet description of a query; dom / hits: what the control plane knows of the flow's name *)
Definition pk_of_query (q : rquery) (dom : string) (hits : list string) : C01_Spec.packet :=
  pk_of_fields (q_l4 q) (q_ipver q) (q_pname q) (q_dscp q) (q_mac q) (q_sport q) (q_dport q) (q_sip q) (q_dip q) dom hits.

(* the codes a hook can pass *)
Definition query_wf (q : rquery) : Prop :=
  (q_l4 q = 1 \/ q_l4 q = 2) /\ (q_ipver q = 1 \/ q_ipver q = 2) /\ (q_wan q = 0 \/ q_wan q = 1).

(* every query the hook MODEL makes (rquery_of) and every query of the SPECIFICATION (query) has its codes in range *)
Lemma rquery_of_wf : forall e pk wan pname, query_wf (rquery_of e pk wan pname).
Proof.
  intros e pk wan pname. unfold query_wf, rquery_of. cbn [q_l4 q_ipver q_wan].
  destruct (pp_l4 pk =? IPPROTO_TCP), (e_v4 e), wan; auto.
Qed.
Lemma query_wf_spec : forall e p wan, query_wf (query e p wan).
Proof.
  intros e p wan. unfold query_wf, query. cbn [q_l4 q_ipver q_wan].
  destruct (k_proto (p_key p) =? IPPROTO_TCP), (e_v4 e), wan; auto.
Qed.

(* THE ADAPTER LEMMA: for such a query the arguments are C02's kargs_of of the packet description with the same
   fields — l4 / ip-version enum values, the four little-endian words of the 16 comm bytes, dscp, is_wan, ports in
   network order, addresses and MAC as 16 bytes *)
Theorem Link_kargs_of_query_packet : forall q dom hits,
  query_wf q -> kargs_of_query q = kargs_of (pk_of_query q dom hits) (q_wan q =? 1).
Proof. intros q dom hits (H1 & H2 & H3). now apply kargs_of_fields_packet. Qed.
Print Assumptions Link_kargs_of_query_packet.

(* and the description carries exactly the query's fields *)
Lemma pk_of_query_fields : forall q dom hits,
  let pk := pk_of_query q dom hits in
  C01_Spec.p_src pk = q_sip q /\ C01_Spec.p_dst pk = q_dip q /\ C01_Spec.p_sport pk = q_sport q /\
  C01_Spec.p_dport pk = q_dport q /\ C01_Spec.p_mac pk = q_mac q /\ C01_Spec.p_dscp pk = q_dscp q /\
  C01_Spec.p_pname pk = bytes_be 16 (q_pname q) /\ C01_Spec.p_domain pk = dom /\
  C01_Spec.p_l4 pk = (if q_l4 q =? 1 then TCP else UDP) /\ C01_Spec.p_ipver pk = (if q_ipver q =? 1 then V4 else V6).
Proof. intros. repeat split. Qed.

(* ---------- route(): the installed generation km, domain_routing_map d ---------- *)
Definition kernel_route (km : kmaps) (d : list N -> option (list N)) : rquery -> Z :=
  fun q => zword (k_route (with_domain_map km d) (kargs_of_query q)).

(* the C02 decision as C03's record *)
Definition dec3 (x : C01_Spec.decision) : C03_Spec.decision := let '(o, m, mu) := x in mk_dec o m (b2n mu).

(* the callers' decoding of the s64 (C03_Spec.decide, C03_Model.unpack) is C02's decode_word *)
Lemma land_one_b2n : forall x, N.land x 1 = b2n (N.land x 1 =? 1).
Proof.
  intros x. change 1 with (N.ones 1) at 1 2. rewrite N.land_ones. change (2 ^ 1) with 2.
  pose proof (N.mod_upper_bound x 2). destruct (N.eqb_spec (x mod 2) 1) as [E|E]; cbn [b2n]; lia.
Qed.

Lemma decide_kernel_route : forall km d q,
  C03_Spec.decide (kernel_route km d q) = option_map dec3 (decode_word (k_route (with_domain_map km d) (kargs_of_query q))).
Proof.
  intros km d q. unfold kernel_route, C03_Spec.decide. rewrite zword_neg.
  destruct (k_route (with_domain_map km d) (kargs_of_query q)) as [w|e]; [|reflexivity].
  cbn [zword decode_word option_map dec3]. rewrite N2Z.id. f_equal. f_equal.
  - change 0xffffffff with (N.ones 32). now rewrite N.land_ones.
  - apply land_one_b2n.
Qed.

Definition triple3 (x : C01_Spec.decision) : N * N * N := let '(o, m, mu) := x in (o, m, b2n mu).

Lemma unpack_kernel_route : forall km d q x,
  decode_word (k_route (with_domain_map km d) (kargs_of_query q)) = Some x ->
  (0 <= kernel_route km d q)%Z /\ unpack (kernel_route km d q) = triple3 x.
Proof.
  intros km d q x H. unfold kernel_route.
  destruct (k_route (with_domain_map km d) (kargs_of_query q)) as [w|e]; [|discriminate].
  cbn [zword]. split; [lia|].
  pose proof (f_equal (fun o => match o with Some y => y | None => (0, 0, false) end) H) as Hx.
  cbv beta iota delta [decode_word] in Hx. subst x.
  unfold unpack, triple3. rewrite N2Z.id. f_equal; [f_equal|].
  - change 0xffffffff with (N.ones 32). now rewrite N.land_ones.
  - apply land_one_b2n.
Qed.

(* ---------- the oracle, discharged ---------- *)
(* the premises about the installed program and the flow's description, shared by all statements below *)
Record routed (p : program) (b : builder) (prev : kmaps) (alloc : N) (km : kmaps)
       (d : list N -> option (list N)) (dm : string -> list N) (q : rquery) (dom : string) (hits : list string) : Prop := {
  rt_wf : wf_program p = true;                                   (* the program as written is well formed ... *)
  rt_lower : lower_program p = Ok b;                             (* ... lowers to match-sets b ... *)
  rt_install : install prev (b_rules b) (b_tries b) alloc = Ok km;   (* ... which buildRoutingKernspace installs as km *)
  rt_probe : probe_ok (pk_of_query q dom hits) (q_wan q =? 1) = true;  (* C02's quantifier: field ranges, name alphabet,
                                                                          a LAN packet carries no process name *)
  rt_bitmap : bitmap_ok (dm dom) = true;                         (* C02: the userspace bitmap has 32 words *)
  rt_oracle : C01_domain_oracle_agrees p dm (pk_of_query q dom hits);  (* C01/C11 interface (discharged in Link_C01_C11) *)
  rt_entry : d (bytes_be 16 (q_dip q))
             = dom_entry (if String.eqb dom "" then None else Some (dm dom)) }.   (* C02/C10 interface (Link_C02_C10) *)

(* THE ROUTE ORACLE IS THE KERNEL SCAN IS THE FIRST MATCHING RULE: for every query a hook makes, the decision it reads
   from route() over the installed bytes is dns_adjust of C01's `decide` of the program as written *)
Theorem Link_C03_route_is_first_match :
  forall p b prev alloc km d dm q dom hits,
    query_wf q -> routed p b prev alloc km d dm q dom hits ->
    C03_Spec.decide (kernel_route km d q)
    = Some (dec3 (dns_adjust (q_dport q) (C01_Spec.decide p (pk_of_query q dom hits)))).
Proof.
  intros p b prev alloc km d dm q dom hits (H1 & H2 & H3) R. rewrite decide_kernel_route.
  unfold kargs_of_query, pk_of_query in *.
  fold (kernel_route_fields km d (q_l4 q) (q_ipver q) (q_pname q) (q_dscp q) (q_wan q) (q_mac q) (q_sport q) (q_dport q) (q_sip q) (q_dip q)).
  rewrite (kernel_route_fields_program p b prev alloc km d dm _ _ _ _ _ _ _ _ _ _ dom hits H1 H2 H3
             (rt_wf _ _ _ _ _ _ _ _ _ _ R) (rt_lower _ _ _ _ _ _ _ _ _ _ R) (rt_install _ _ _ _ _ _ _ _ _ _ R)
             (rt_probe _ _ _ _ _ _ _ _ _ _ R) (rt_bitmap _ _ _ _ _ _ _ _ _ _ R) (rt_oracle _ _ _ _ _ _ _ _ _ _ R)
             (rt_entry _ _ _ _ _ _ _ _ _ _ R)).
  reflexivity.
Qed.
Print Assumptions Link_C03_route_is_first_match.

(* the same for ANY installed match-set array (C02 alone): the decision is dns_adjust of RoutingMatcher.Match *)
Theorem Link_C03_route_is_kernel_scan :
  forall prev ms tries alloc km d dm q dom hits,
    query_wf q ->
    forallb (wf_mset (N.of_nat (List.length tries))) ms = true -> forallb (forallb wf_prefix) tries = true ->
    probe_ok (pk_of_query q dom hits) (q_wan q =? 1) = true -> bitmap_ok (dm dom) = true ->
    install prev ms tries alloc = Ok km ->
    d (bytes_be 16 (q_dip q)) = dom_entry (if String.eqb dom "" then None else Some (dm dom)) ->
    C03_Spec.decide (kernel_route km d q)
    = option_map dec3 (expected (q_dport q)
                         (user_answer (match_sets {| mt_sets := ms; mt_tries := tries |} dm
                                                  (args_of_packet (pk_of_query q dom hits))))).
Proof.
  intros prev ms tries alloc km d dm q dom hits (H1 & H2 & H3) Hms Htr Hp Hb Hi Hd. rewrite decide_kernel_route.
  unfold kargs_of_query, pk_of_query in *.
  fold (kernel_route_fields km d (q_l4 q) (q_ipver q) (q_pname q) (q_dscp q) (q_wan q) (q_mac q) (q_sport q) (q_dport q) (q_sip q) (q_dip q)).
  now rewrite (kernel_route_fields_scan prev ms tries alloc km d dm _ _ _ _ _ _ _ _ _ _ dom hits H1 H2 H3 Hms Htr Hp Hb Hi Hd).
Qed.
Print Assumptions Link_C03_route_is_kernel_scan.

(* ---------- the verdict of a NEW flow ---------- *)
(* the decision of the first matching rule of the program as written, for the packet of frame f seen by a hook *)
Definition first_match_decision (p : program) (e : env) (pkt : C03_Spec.packet) (wan : bool)
           (dom : string) (hits : list string) : C03_Spec.decision :=
  dec3 (dns_adjust (k_dport (p_key pkt)) (C01_Spec.decide p (pk_of_query (query e pkt wan) dom hits))).

(* LAN ingress.  For every configured program that installs, every state, environment whose route() is the kernel
   scan over the installed bytes, every frame that parses to a pure TCP SYN on either parse path: the observed
   datapath verdict is the verdict the specification assigns to the outbound / mark / must that the first matching
   rule as written names (direct: pass with the rule's mark; block: drop; dead group: drop; else redirect to dae,
   and the control plane recovers exactly that decision with DSCP and source MAC). *)
Theorem Link_C03_new_flow_verdict_lan :
  forall p b prev alloc km d dm dom hits P e st eth proto pf lin f,
    inv st -> 0 < e_now e -> fresh_syn eth proto f ->
    e_route e = kernel_route km d ->
    let pkt := classify (parse_slow eth proto f) in
    routed p b prev alloc km d dm (query e pkt false) dom hits ->
    let D := first_match_decision p e pkt false dom hits in
    fresh_lan P e st eth proto pf lin f = lan_verdict P e pkt D (the_record e pkt D false).
Proof.
  intros p b prev alloc km d dm dom hits P e st eth proto pf lin f Hi Hnow [Hc Hn] He pkt R D.
  unfold fresh_lan. apply (lan_fresh_tcp_proof P e st eth proto pf lin f D Hi Hnow Hc Hn).
  rewrite He. exact (Link_C03_route_is_first_match p b prev alloc km d dm _ dom hits (query_wf_spec e pkt false) R).
Qed.
Print Assumptions Link_C03_new_flow_verdict_lan.

(* WAN egress (locally originated, not sent by dae itself): direct without mark passes; block and dead groups drop;
   everything else, direct with a mark included, goes to dae with the record carrying the sender process *)
Theorem Link_C03_new_flow_verdict_wan :
  forall p b prev alloc km d dm dom hits P e st eth proto pf lin f,
    inv st -> 0 < e_now e -> fresh_syn eth proto f -> wan_local P e ->
    e_route e = kernel_route km d ->
    let pkt := classify (parse_slow eth proto f) in
    routed p b prev alloc km d dm (query e pkt true) dom hits ->
    let D := first_match_decision p e pkt true dom hits in
    fresh_wan P e st eth proto pf lin f = wan_verdict e pkt D (the_record e pkt D true).
Proof.
  intros p b prev alloc km d dm dom hits P e st eth proto pf lin f Hi Hnow [Hc Hn] [Hif Hf] He pkt R D.
  unfold fresh_wan. apply (wan_fresh_tcp_proof P e st eth proto pf lin f D Hi Hnow Hif Hf Hc Hn).
  rewrite He. exact (Link_C03_route_is_first_match p b prev alloc km d dm _ dom hits (query_wf_spec e pkt true) R).
Qed.
Print Assumptions Link_C03_new_flow_verdict_wan.

(* ---------- the four named verdict theorems of C03, with the oracle discharged ---------- *)
(* Each is the C03 theorem itself (used as stated), its premise `decide (e_route e (query e p wan)) = Some d` supplied
   by Link_C03_route_is_first_match: d IS the first-matching-rule decision of the program as written. *)
Section NamedVerdicts.
  Variables (p : program) (b : builder) (prev : kmaps) (alloc : N) (km : kmaps)
            (d : list N -> option (list N)) (dm : string -> list N) (dom : string) (hits : list string).
  Variables (P : param) (e : env) (st : kstate) (eth : bool) (proto : N) (pf : bool) (lin : N) (f : frame).
  Hypothesis Hinv : inv st.
  Hypothesis Hnow : 0 < e_now e.
  Hypothesis Hsyn : fresh_syn eth proto f.
  Hypothesis Hroute : e_route e = kernel_route km d.
  Let pkt := classify (parse_slow eth proto f).

  Lemma lan_decision : routed p b prev alloc km d dm (query e pkt false) dom hits ->
    C03_Spec.decide (e_route e (query e pkt false)) = Some (first_match_decision p e pkt false dom hits).
  Proof. intro R. rewrite Hroute. exact (Link_C03_route_is_first_match p b prev alloc km d dm _ dom hits (query_wf_spec e pkt false) R). Qed.
  Lemma wan_decision : routed p b prev alloc km d dm (query e pkt true) dom hits ->
    C03_Spec.decide (e_route e (query e pkt true)) = Some (first_match_decision p e pkt true dom hits).
  Proof. intro R. rewrite Hroute. exact (Link_C03_route_is_first_match p b prev alloc km d dm _ dom hits (query_wf_spec e pkt true) R). Qed.

  Theorem Link_C03_direct_passes :
    (routed p b prev alloc km d dm (query e pkt false) dom hits ->
     let D := first_match_decision p e pkt false dom hits in
     d_out D = OUT_DIRECT -> fresh_lan P e st eth proto pf lin f = Pass (Some (d_mark D))) /\
    (routed p b prev alloc km d dm (query e pkt true) dom hits -> wan_local P e ->
     let D := first_match_decision p e pkt true dom hits in
     d_out D = OUT_DIRECT -> d_mark D = 0 -> fresh_wan P e st eth proto pf lin f = Pass (Some 0)).
  Proof.
    split.
    - intros R D Ho. exact (proj1 (C03_direct_passes P e st eth proto pf lin f D Hinv Hnow Hsyn Ho) (lan_decision R)).
    - intros R Hw D Ho Hm. exact (proj2 (C03_direct_passes P e st eth proto pf lin f D Hinv Hnow Hsyn Ho) Hw (wan_decision R) Hm).
  Qed.

  Theorem Link_C03_block_drops :
    (routed p b prev alloc km d dm (query e pkt false) dom hits ->
     d_out (first_match_decision p e pkt false dom hits) = OUT_BLOCK -> fresh_lan P e st eth proto pf lin f = Drop) /\
    (routed p b prev alloc km d dm (query e pkt true) dom hits -> wan_local P e ->
     d_out (first_match_decision p e pkt true dom hits) = OUT_BLOCK -> fresh_wan P e st eth proto pf lin f = Drop).
  Proof.
    split.
    - intros R Ho. exact (proj1 (C03_block_drops P e st eth proto pf lin f _ Hinv Hnow Hsyn Ho) (lan_decision R)).
    - intros R Hw Ho. exact (proj2 (C03_block_drops P e st eth proto pf lin f _ Hinv Hnow Hsyn Ho) Hw (wan_decision R)).
  Qed.

  Theorem Link_C03_dead_group_drops :
    (routed p b prev alloc km d dm (query e pkt false) dom hits ->
     let D := first_match_decision p e pkt false dom hits in
     d_out D <> OUT_BLOCK -> d_out D <> OUT_DIRECT ->
     group_alive e (d_out D) (k_proto (p_key pkt) =? IPPROTO_UDP) (k_dport (p_key pkt)) = false ->
     fresh_lan P e st eth proto pf lin f = Drop) /\
    (routed p b prev alloc km d dm (query e pkt true) dom hits -> wan_local P e ->
     let D := first_match_decision p e pkt true dom hits in
     d_out D <> OUT_BLOCK -> (d_out D =? OUT_DIRECT) && (d_mark D =? 0) = false ->
     group_alive e (d_out D) (k_proto (p_key pkt) =? IPPROTO_UDP) (k_dport (p_key pkt)) = false ->
     fresh_wan P e st eth proto pf lin f = Drop).
  Proof.
    split.
    - intros R D Hb Hd Ha. exact (proj1 (C03_dead_group_drops P e st eth proto pf lin f D Hinv Hnow Hsyn Hb Ha) Hd (lan_decision R)).
    - intros R Hw D Hb Hd Ha. exact (proj2 (C03_dead_group_drops P e st eth proto pf lin f D Hinv Hnow Hsyn Hb Ha) Hw Hd (wan_decision R)).
  Qed.

  Theorem Link_C03_proxy_redirects_with_record :
    (routed p b prev alloc km d dm (query e pkt false) dom hits ->
     let D := first_match_decision p e pkt false dom hits in
     d_out D <> OUT_BLOCK -> d_out D <> OUT_DIRECT ->
     group_alive e (d_out D) (k_proto (p_key pkt) =? IPPROTO_UDP) (k_dport (p_key pkt)) = true ->
     fresh_lan P e st eth proto pf lin f = ToDae (P_peer P) IPPROTO_TCP (the_record e pkt D false)) /\
    (routed p b prev alloc km d dm (query e pkt true) dom hits -> wan_local P e ->
     let D := first_match_decision p e pkt true dom hits in
     d_out D <> OUT_BLOCK -> (d_out D =? OUT_DIRECT) && (d_mark D =? 0) = false ->
     group_alive e (d_out D) (k_proto (p_key pkt) =? IPPROTO_UDP) (k_dport (p_key pkt)) = true ->
     fresh_wan P e st eth proto pf lin f = ToDae false IPPROTO_TCP (the_record e pkt D true)).
  Proof.
    split.
    - intros R D Hb Hd Ha. exact (proj1 (C03_proxy_redirects_with_record P e st eth proto pf lin f D Hinv Hnow Hsyn Hb Ha) Hd (lan_decision R)).
    - intros R Hw D Hb Hd Ha. exact (proj2 (C03_proxy_redirects_with_record P e st eth proto pf lin f D Hinv Hnow Hsyn Hb Ha) Hw Hd (wan_decision R)).
  Qed.
End NamedVerdicts.
Print Assumptions Link_C03_direct_passes.
Print Assumptions Link_C03_block_drops.
Print Assumptions Link_C03_dead_group_drops.
Print Assumptions Link_C03_proxy_redirects_with_record.

(* ---------- the refinement theorem, with route() := the kernel scan ---------- *)
(* C03_hooks_refine_spec holds for every environment; instantiated at the kernel route it says: the hook models, with
   the MODELLED KERNEL SCAN over the installed match-sets as their route(), return the verdict / record / table of the
   specification whose rule program is that same scan *)
Theorem Link_C03_hooks_refine_spec_kernel_route :
  forall km d P e0 st eth proto pf lin f,
    let e := with_route e0 (kernel_route km d) in
    inv st -> 0 < e_now e0 ->
    let r := parse_transport eth proto pf lin f in
    let pkt := classify (parse_slow eth proto f) in
    let t := abs_conn (ks_conn st) in
    (let h := lan_ingress P e st (parse_packet r) in
     observe h (p_key pkt) (e_now e) = fst (spec_lan_ingress P e t pkt) /\
     abs_conn (ks_conn (h_st h)) = snd (spec_lan_ingress P e t pkt) /\ inv (h_st h)) /\
    (let h := wan_egress P e st (parse_packet r) in
     observe h (p_key pkt) (e_now e) = fst (spec_wan_egress false P e t pkt) /\
     abs_conn (ks_conn (h_st h)) = snd (spec_wan_egress false P e t pkt) /\ inv (h_st h)).
Proof.
  intros km d P e0 st eth proto pf lin f e Hi Hnow r pkt t.
  destruct (C03_hooks_refine_spec P e st eth proto pf lin f Hi Hnow) as [H1 [H2 _]]. split; [exact H1 | exact H2].
Qed.
Print Assumptions Link_C03_hooks_refine_spec_kernel_route.

(* ---------- sticky decision: what is stored at the SYN is the first-matching-rule decision, and it stays ---------- *)
Theorem Link_C03_sticky_first_match :
  forall p b prev alloc km d dm dom hits P e st pk steps,
    pp_l4 pk = IPPROTO_TCP -> tcp_flags_new (pp_tcp pk) = true -> k_proto (pp_key pk) = IPPROTO_TCP ->
    e_route e = kernel_route km d ->
    routed p b prev alloc km d dm (rquery_of e pk false 0) dom hits ->
    let X := dns_adjust (k_dport (pp_key pk)) (C01_Spec.decide p (pk_of_query (rquery_of e pk false 0) dom hits)) in
    let st1 := h_st (lan_ingress P e st (0%Z, Some pk)) in
    (* the SYN stores the decision of the first matching rule of the program installed at that moment ... *)
    dec_of (ks_conn st1) (pp_key pk) = Some (triple3 X) /\
    (* ... and after ANY later packets (any hooks, flows, frames, clocks, health bits and ANY rule programs installed
       later) that neither restart the flow nor find it idle beyond the timeout, it is still that decision *)
    (quiet_all P st1 steps (pp_key pk) -> dec_of (ks_conn (run_steps P st1 steps)) (pp_key pk) = Some (triple3 X)).
Proof.
  intros p b prev alloc km d dm dom hits P e st pk steps Hl Hn Hk He R X st1.
  assert (Hq : query_wf (rquery_of e pk false 0)) by apply rquery_of_wf.
  assert (Hdec : decode_word (k_route (with_domain_map km d) (kargs_of_query (rquery_of e pk false 0))) = Some X).
  { destruct Hq as (H1 & H2 & H3). unfold kargs_of_query.
    exact (kernel_route_fields_program p b prev alloc km d dm _ _ _ _ _ _ _ _ _ _ dom hits H1 H2 H3
             (rt_wf _ _ _ _ _ _ _ _ _ _ R) (rt_lower _ _ _ _ _ _ _ _ _ _ R) (rt_install _ _ _ _ _ _ _ _ _ _ R)
             (rt_probe _ _ _ _ _ _ _ _ _ _ R) (rt_bitmap _ _ _ _ _ _ _ _ _ _ R) (rt_oracle _ _ _ _ _ _ _ _ _ _ R)
             (rt_entry _ _ _ _ _ _ _ _ _ _ R)). }
  destruct (unpack_kernel_route km d _ X Hdec) as [Hpos Hun].
  assert (H1 : dec_of (ks_conn st1) (pp_key pk) = Some (triple3 X)).
  { unfold st1. rewrite (C03_sticky_decision_first_packet P e st pk Hl Hn); rewrite He; [now rewrite Hun | exact Hpos]. }
  split; [exact H1|]. intro Hquiet. exact (C03_sticky_decision P steps st1 (pp_key pk) _ Hk H1 Hquiet).
Qed.
Print Assumptions Link_C03_sticky_first_match.

(* ---------- what `rt_probe` asks, in the query's own terms ---------- *)
Lemma bytes_be_small : forall n a, forallb (fun x => x <? 256) (bytes_be n a) = true.
Proof.
  induction n as [|n IH]; intros a; [reflexivity|]. cbn [bytes_be]. rewrite forallb_app, IH. cbn [forallb].
  rewrite andb_true_r. apply N.ltb_lt. apply N.mod_lt. discriminate.
Qed.

(* C02's quantifier `probe_ok` for a hook's query: the field ranges any parsed frame has (16-byte addresses, 16-bit
   ports, 6-byte MAC, 8-bit DSCP) — which C03's parse model (wf_parse) does not state: reported as a spec gap — and the
   alphabet of the name the control plane associates with the flow.  The clause "a LAN packet carries no process name"
   needs nothing: the LAN hook passes pname = 0. *)
Theorem Link_probe_ok_of_ranges : forall q dom hits,
  q_sip q < 2 ^ 128 -> q_dip q < 2 ^ 128 -> q_sport q < 65536 -> q_dport q < 65536 ->
  q_mac q < 2 ^ 48 -> q_dscp q < 256 -> (q_wan q =? 1 = false -> q_pname q = 0) ->
  domain_alphabet_ok dom = true ->
  probe_ok (pk_of_query q dom hits) (q_wan q =? 1) = true.
Proof.
  intros q dom hits Hs Hd Hsp Hdp Hm Hds Hpn Ha. unfold probe_ok, wf_packet, pk_of_query, pk_of_fields.
  cbn [C01_Spec.p_domain C01_Spec.p_src C01_Spec.p_dst C01_Spec.p_sport C01_Spec.p_dport C01_Spec.p_pname
       C01_Spec.p_mac C01_Spec.p_dscp].
  rewrite Ha, C02_Proofs.length_bytes_be, bytes_be_small.
  apply N.ltb_lt in Hs, Hd, Hsp, Hdp, Hm, Hds. rewrite Hs, Hd, Hsp, Hdp, Hm, Hds. cbn [andb Nat.eqb].
  destruct (q_wan q =? 1); [reflexivity|]. rewrite (Hpn eq_refl). reflexivity.
Qed.
Print Assumptions Link_probe_ok_of_ranges.

Lemma lan_query_no_pname : forall e pk, q_wan (rquery_of e pk false 0) =? 1 = false /\ q_pname (rquery_of e pk false 0) = 0.
Proof. intros. split; reflexivity. Qed.

(* ---------- non-vacuity ---------- *)
(* Program: `dport(443) -> proxy` (group id 2), fallback direct.  Installed from scratch at ring offset 0; no domain
   entries.  A pure SYN 10.0.0.2:40000 -> 1.2.3.4:443 (DSCP 46, source MAC 02:00:00:00:00:02) at LAN ingress with group
   2 alive: every premise of the composed theorems holds, the first matching rule says (2, 0, false), route() over the
   installed bytes returns that word, and the hook redirects to dae with the record (2, 0, 0), DSCP 46 and the MAC; a
   SYN to port 80 passes with mark 0 (fallback direct); with group 2 dead the 443 SYN is dropped. *)
Definition ex_prog : program :=
  {| pr_rules := [ {| r_conds := [ {| c_kind := FPort; c_neg := false; c_params := [(0, VRange 443 443)] |} ];
                      r_out := {| o_name := "proxy"; o_params := [] |} |} ];
     pr_fallback := {| o_name := "direct"; o_params := [] |};
     pr_groups := [("direct"%string, 0); ("proxy"%string, 2)] |}.
Definition ex_key (dport : N) : fkey := mk_fkey 0xffff0a000002 0xffff01020304 40000 dport 6.
Definition ex_syn (dport : N) : ppkt :=
  mk_ppkt 0x0800 0x020000000002 (ex_key dport) 46 (mk_tcp 40000 dport true false false false) 6 6.
Definition ex_env (km : kmaps) (alive : list (N * N)) : env :=
  mk_env 5000 true 0 0 None None alive (kernel_route km (fun _ => None)).
Definition ex_dm : string -> list N := fun _ => repeat 0 32.

Lemma ex_oracle : forall pk, C01_domain_oracle_agrees ex_prog ex_dm pk.
Proof. intros pk b Hb. vm_compute in Hb. inversion Hb; subst. intros i key vals []. Qed.

Example Link_C03_C02_nonvacuous :
  exists b km,
    lower_program ex_prog = Ok b /\ install empty_kmaps (b_rules b) (b_tries b) 0 = Ok km /\
    let e := ex_env km [(12, 1)] in
    let q := rquery_of e (ex_syn 443) false 0 in
    routed ex_prog b empty_kmaps 0 km (fun _ => None) ex_dm q "" [] /\
    C01_Spec.decide ex_prog (pk_of_query q "" []) = (2, 0, false) /\
    C03_Spec.decide (e_route e q) = Some (mk_dec 2 0 0) /\
    observe (lan_ingress (mk_param 77 0 false) e (mk_ks [] []) (0%Z, Some (ex_syn 443))) (ex_key 443) 5000
      = ToDae false 6 (mk_frec (mk_dec 2 0 0) 46 0x020000000002 0 0) /\
    dec_of (ks_conn (h_st (lan_ingress (mk_param 77 0 false) e (mk_ks [] []) (0%Z, Some (ex_syn 443))))) (ex_key 443)
      = Some (2, 0, 0) /\
    observe (lan_ingress (mk_param 77 0 false) e (mk_ks [] []) (0%Z, Some (ex_syn 80))) (ex_key 80) 5000 = Pass (Some 0) /\
    observe (lan_ingress (mk_param 77 0 false) (ex_env km []) (mk_ks [] []) (0%Z, Some (ex_syn 443))) (ex_key 443) 5000 = Drop.
Proof.
  eexists. eexists. split; [vm_compute; reflexivity|]. split; [vm_compute; reflexivity|].
  cbv zeta. split.
  { constructor; try (vm_compute; reflexivity). apply ex_oracle. }
  repeat split; vm_compute; reflexivity.
Qed.

(* DISCHARGED: the rule-program oracle `e_route` of C03's hook models and specification.  With route() := C02's k_route
     over the bytes buildRoutingKernspace installs (kernel_route), every query a hook makes is answered with dns_adjust
     of C01's first-matching-rule `decide` of the program as written (Link_C03_route_is_first_match; for an arbitrary
     installed match-set array: the userspace matcher's answer, Link_C03_route_is_kernel_scan).  Hence the verdict of a
     NEW flow at LAN ingress / WAN egress is the specification's verdict of that decision (Link_C03_new_flow_verdict_lan /
     _wan, and the four named theorems), the refinement theorem holds with the modelled scan as route(), and the
     decision a connection sticks to is the first-matching-rule decision at SYN time (Link_C03_sticky_first_match).
   THE ARGUMENTS: C03's hook model abstracts the arguments of route() into `rquery`; kargs_of_query is the byte-level
     layout and Link_kargs_of_query_packet proves it equal to C02's kargs_of of the packet description with the same
     fields for every query the hook model or the specification can make (rquery_of_wf, query_wf_spec).  Not covered by
     either model: the C statements that fill `params` from the skb.
   REMAINING (record `routed`): wf_program / lower / install succeed (Link_C01_C02.Link_install_total: <= 1024
     match-sets); rt_probe = C02's quantifier (Link_probe_ok_of_ranges: field ranges of the parsed frame, which C03's
     wf_parse does not state, + name alphabet); rt_bitmap; and the two interfaces other links discharge: rt_oracle
     (C01/C11: Link_C01_C11.c01_oracle_discharged) and rt_entry (C02/C10: the domain_routing_map entry of the
     destination is the bitmap of the name the description carries; Link_C02_C10, Link_C02_C10_Ctl_C11).
   NOTE: dns_adjust — a flow to port 53 not covered by a must rule is answered with outbound 253 (control-plane routing);
     the verdict theorems are stated on that adjusted decision, as the kernel returns it. *)
