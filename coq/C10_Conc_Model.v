(* C10 — concurrent calls of domainRoutingTracker.syncOwner (control/domain_routing_tracker.go).
   No proofs in this file.

   syncOwner is a straight-line program over the shared tracker, the kernel map and the tracker mutex:
       Lock      t.mu.Lock()
       Plan      read t.owners / t.ips, desiredBitmapForKeyLocked per affected key -> the two batches (locals)
       Write     verifObserveDomainRouting + BpfMapBatchUpdate / BpfMapBatchDelete of the planned batches
       Apply     applyOwnerSnapshotLocked (the bookkeeping)
       Unlock    t.mu.Unlock() (deferred: at return)
   The ORDER of these instructions, in particular where the mutex is released relative to Write and
   Apply, is extracted from the source by shape on every run (tools/c10.py -> gen/C10_SyncProg.v,
   `sync_prog`).  The semantics below runs ANY such program: the mutex constrains only Lock (enabled
   when free) - Plan, Write and Apply execute whether or not the thread holds it, as in Go.

   Threads are concurrent goroutines, each with a list of syncOwner calls still to make (owner key and
   snapshot = an `op` of C10_Spec); thread identifiers are natural numbers and the thread table is a
   total function (any number of threads).  A schedule is the list of thread identifiers that take the
   next step; a step that is not enabled (Lock on a held mutex, nothing left to do) leaves the state
   unchanged, so every list is a schedule and the reachable states are exactly { crun prog g0 s }.
   Plan / Write / Apply are the three pieces of C10_Model.sync_owner:
       sync_owner t o s = (plan t o s, apply_owner_snapshot t o s). *)
From Coq Require Import List NArith Bool Arith.
From Dae Require Import C10_Spec C10_Model.
Import ListNotations.

Inductive instr := ILock | IPlan | IWrite | IApply | IUnlock.

Definition instr_eqb (a b : instr) : bool :=
  match a, b with
  | ILock, ILock | IPlan, IPlan | IWrite, IWrite | IApply, IApply | IUnlock, IUnlock => true
  | _, _ => false
  end.

(* the program as it stands in the source: the mutex is held from before Plan until after Apply *)
Definition code_prog : list instr := [ILock; IPlan; IWrite; IApply; IUnlock].

(* the variant that does not hold the mutex across the kernel write *)
Definition unlocked_write_prog : list instr := [ILock; IPlan; IUnlock; IWrite; ILock; IApply; IUnlock].

Definition empty_batches : batches := {| b_updates := []; b_deletes := [] |}.

(* the planning phase of syncOwner: the batches computed from the tracker state it reads *)
Definition plan (t : tracker) (o : op) : batches := fst (sync_owner t (fst o) (snd o)).

Record thread := {
  th_todo : list op;                       (* calls not yet started *)
  th_cur : option (op * list instr);       (* the call in progress and its remaining instructions *)
  th_plan : batches                        (* keysToUpdate/valuesToUpdate/keysToDelete of the call in progress *)
}.

Record gstate := {
  g_tracker : tracker;
  g_kmap : kmap;
  g_lock : option nat;                     (* holder of t.mu *)
  g_threads : nat -> thread;
  g_hist : list (nat * op)                 (* ghost: the calls in the order their bookkeeping was applied *)
}.

Definition set_thread (ths : nat -> thread) (i : nat) (th : thread) : nat -> thread :=
  fun j => if Nat.eqb j i then th else ths j.

Definition with_thread (g : gstate) (i : nat) (th : thread) : gstate :=
  {| g_tracker := g_tracker g; g_kmap := g_kmap g; g_lock := g_lock g;
     g_threads := set_thread (g_threads g) i th; g_hist := g_hist g |}.

(* one step of thread i *)
Definition cstep (prog : list instr) (g : gstate) (i : nat) : gstate :=
  let th := g_threads g i in
  match th_cur th with
  | None =>
      match th_todo th with
      | [] => g
      | o :: rest =>                                                     (* the call begins *)
          with_thread g i {| th_todo := rest; th_cur := Some (o, prog); th_plan := empty_batches |}
      end
  | Some (o, []) =>                                                      (* return *)
      with_thread g i {| th_todo := th_todo th; th_cur := None; th_plan := empty_batches |}
  | Some (o, ins :: pc) =>
      let th' := {| th_todo := th_todo th; th_cur := Some (o, pc); th_plan := th_plan th |} in
      match ins with
      | ILock =>
          match g_lock g with
          | None => {| g_tracker := g_tracker g; g_kmap := g_kmap g; g_lock := Some i;
                       g_threads := set_thread (g_threads g) i th'; g_hist := g_hist g |}
          | Some _ => g                                                  (* blocked *)
          end
      | IPlan =>
          with_thread g i {| th_todo := th_todo th; th_cur := Some (o, pc); th_plan := plan (g_tracker g) o |}
      | IWrite =>
          {| g_tracker := g_tracker g; g_kmap := apply_batches (g_kmap g) (th_plan th); g_lock := g_lock g;
             g_threads := set_thread (g_threads g) i th'; g_hist := g_hist g |}
      | IApply =>
          {| g_tracker := apply_owner_snapshot (g_tracker g) (fst o) (snd o); g_kmap := g_kmap g;
             g_lock := g_lock g; g_threads := set_thread (g_threads g) i th'; g_hist := g_hist g ++ [(i, o)] |}
      | IUnlock =>
          match g_lock g with
          | Some j => if Nat.eqb j i
                      then {| g_tracker := g_tracker g; g_kmap := g_kmap g; g_lock := None;
                              g_threads := set_thread (g_threads g) i th'; g_hist := g_hist g |}
                      else g                                             (* not the holder: Go would panic *)
          | None => g
          end
      end
  end.

Definition crun (prog : list instr) (g : gstate) (sched : list nat) : gstate :=
  fold_left (cstep prog) sched g.

Definition cinit (todos : nat -> list op) : gstate :=
  {| g_tracker := new_tracker; g_kmap := fun _ => None; g_lock := None;
     g_threads := fun i => {| th_todo := todos i; th_cur := None; th_plan := empty_batches |};
     g_hist := [] |}.

(* the calls of thread i whose bookkeeping has been applied, in order *)
Definition done_by (h : list (nat * op)) (i : nat) : list op :=
  map snd (filter (fun e => Nat.eqb (fst e) i) h).

(* the calls of a thread whose bookkeeping has not been applied yet *)
Definition pending (th : thread) : list op :=
  match th_cur th with
  | None => th_todo th
  | Some (o, pc) => if existsb (instr_eqb IApply) pc then o :: th_todo th else th_todo th
  end.

(* a sync has just completed (its critical section is over or about to be left) or nothing is running *)
Definition settled (g : gstate) : Prop :=
  match g_lock g with
  | None => True
  | Some i => exists o, th_cur (g_threads g i) = Some (o, [IUnlock])
  end.

Definition finished (th : thread) : bool :=
  match th_cur th, th_todo th with None, [] => true | _, _ => false end.
