(* C16 — the reload hand-over is keyed by dialer instance (the old instance of the same node in the same group). *)
From Coq Require Import List NArith ZArith Bool Lia.
From Dae Require Import C16_Spec C16_Model C16_Proofs C16_ProofsHealth C16_ProofsEdges.
From Dae.gen Require Import C16_Consts.
Import ListNotations.
Open Scope N_scope.

(* In the model a dialer instance is a number; a node that has its own instance in a group (check options
   overridden) is simply two numbers, each a member of its own group, and the new generation's instance n of a
   group is restored from the old generation's instance n of that group: `inherit` is called with old := m_d m. *)

(* restoring instance n from an old instance o: n's flags become exactly o's for every type, its counters 0,
   every other instance is untouched *)
Lemma C16_restore_exact_proof : forall cfg o m n l,
  let m' := restore cfg o m n l in
  (forall d, d_alive (m_d m' n) d = d_alive o d)
  /\ (forall n', n' <> n -> m_d m' n' = m_d m n').
Proof.
  intros cfg o m n l m'. subst m'. rewrite restore_eq.
  destruct (restore_loop2 cfg n l (snd (fold_left (loop1_body o) all_idx (m_d m n, [])))
              (set_dialer m n (fst (fold_left (loop1_body o) all_idx (m_d m n, []))))) as (E & _).
  rewrite E. cbn [set_dialer m_d]. split.
  - intros d. rewrite upd_same. apply loop1_flags.
  - intros n' Hn. apply upd_other. now apply N.eqb_neq.
Qed.

(* the hand-over with an arbitrary matching of new instances to old ones *)
Definition m_reload_matched (pick : N -> N) (cfg : config) (m : mstate) (l : latmap) : mstate :=
  inherit cfg (fun n => m_d m (pick n)) (m_fresh_generation cfg m) 0 (c_groups cfg) l.

Lemma m_reload_is_instance_matched : forall cfg m l, m_reload cfg m l = m_reload_matched (fun n => n) cfg m l.
Proof. reflexivity. Qed.

(* name-only matching (one map over all previous groups, the last group listed wins): instances 0 and 1 are the
   same node X (own instance in the second group), instance 2 is a shared node Y.  X's second instance is dead on
   tcp4, the first is alive; name-only matching hands the first instance the second one's state. *)
Definition wit_cfg_inst : config :=
  {| c_addr := fun _ => 0;
     c_groups := [ {| g_policy := PMin; g_members := [(0, 0%Z); (2, 0%Z)] |}; {| g_policy := PMin; g_members := [(1, 0%Z); (2, 0%Z)] |} ];
     c_tol := 0%Z |}.
Definition pick_by_name (n : N) : N := if n =? 0 then 1 else n.
Definition wit_h_inst : list ev := [EFail 1 Tcp4 KForced false []].

Lemma C16_reload_name_only_refuted_proof :
  model_alive wit_cfg_inst wit_h_inst 0 Tcp4 = true
  /\ model_alive wit_cfg_inst (wit_h_inst ++ [EReload []]) 0 Tcp4 = true
  /\ model_alive wit_cfg_inst (wit_h_inst ++ [EReload []]) 1 Tcp4 = false
  /\ d_alive (m_d (m_reload_matched pick_by_name wit_cfg_inst (clear_logs (m_run wit_cfg_inst wit_h_inst)) []) 0) Tcp4 = false
  /\ m_tlog (m_reload_matched pick_by_name wit_cfg_inst (clear_logs (m_run wit_cfg_inst wit_h_inst)) []) = [(0, Tcp4, false); (1, Tcp4, false)].
Proof. vm_compute. repeat split. Qed.

Print Assumptions C16_restore_exact_proof.
Print Assumptions C16_reload_name_only_refuted_proof.
