(* C06 — lemmas behind C06_Props.v. *)
From Coq Require Import List NArith Bool Arith Lia ZifyBool ZifyN ZifyNat.
From Dae.gen Require Import C06_Extracted.
From Dae Require Import C06_Spec C06_Model C06_Async C06_Session C06_Clock C06_Key C06_HttpVar C06_Statements.
From Dae Require Export C06_ProofsCarried C06_ProofsOob C06_ProofsTls C06_ProofsChunk C06_ProofsHttp C06_ProofsQuic C06_ProofsAsync C06_ProofsSession C06_ProofsClock C06_ProofsKey C06_ProofsDecrypt.
Import ListNotations.
Open Scope N_scope.

(* ------------------------------------------------------------------ non-vacuity *)
Lemma C06_nonvacuous_proof : C06_nonvacuous_stmt.
Proof. vm_compute. repeat split; reflexivity. Qed.

(* ------------------------------------------------------------------ replay *)
Lemma sniff_loop_buffer :
  forall script st r st' rest,
    sniff_tcp_loop script st = (r, st', rest) ->
    exists n : nat, rest = skipn n script
                    /\ s_buf st' = s_buf st ++ concat (map rd_data (firstn n script)).
Proof.
  induction script as [|e script IH]; intros st r st' rest Hrun.
  - cbn in Hrun. inversion Hrun; subst. exists 0%nat. cbn. rewrite app_nil_r. auto.
  - cbn [sniff_tcp_loop] in Hrun.
    assert (Hone : forall (x : bytes), s_buf st ++ x = s_buf st ++ concat (map rd_data (firstn 1 (e :: script))) -> True) by auto.
    destruct (rd_status e) eqn:Hs.
    1,2:
      (destruct ((length (s_buf st ++ rd_data e) =? 0)%nat);
       [ inversion Hrun; subst; exists 1%nat; cbn; rewrite app_nil_r; auto
       | destruct (sniff_group_tcp (s_buf st ++ rd_data e) (zeros (blen (s_buf st) + rd_window e - blen (s_buf st ++ rd_data e)))) eqn:Hg;
         try (inversion Hrun; subst; exists 1%nat; cbn; rewrite app_nil_r; auto; fail);
         apply IH in Hrun; destruct Hrun as [n [Hr Hb]]; exists (S n); cbn [skipn firstn map concat s_buf] in *;
         split; [exact Hr | rewrite Hb; rewrite <- app_assoc; reflexivity] ]).
    + inversion Hrun; subst. exists 1%nat. cbn. rewrite app_nil_r. auto.
    + inversion Hrun; subst. exists 1%nat. cbn. rewrite app_nil_r. auto.
Qed.

Lemma C06_replay_exact_proof : C06_replay_exact_stmt.
Proof.
  unfold C06_replay_exact_stmt. intros script. unfold sniff_tcp.
  destruct (sniff_tcp_loop script new_stream) as [[r st] rest] eqn:Hrun.
  destruct (sniff_loop_buffer _ _ _ _ _ Hrun) as [n [Hr Hb]].
  exists n. split; [exact Hr|]. split; [exact Hb|].
  unfold relay_prefix_copy. destruct (relay_conn rest). reflexivity.
Qed.

Lemma sniff_loop_dataerr :
  forall script st r st' rest,
    sniff_tcp_loop script st = (r, st', rest) ->
    r <> IoError -> s_dataerr st' = None.
Proof.
  induction script as [|e script IH]; intros st r st' rest Hrun H2.
  - cbn in Hrun. inversion Hrun; subst. reflexivity.
  - cbn [sniff_tcp_loop] in Hrun.
    destruct (rd_status e).
    1,2:
      (destruct ((length (s_buf st ++ rd_data e) =? 0)%nat);
       [ inversion Hrun; subst; reflexivity
       | destruct (sniff_group_tcp (s_buf st ++ rd_data e) (zeros (blen (s_buf st) + rd_window e - blen (s_buf st ++ rd_data e))));
         try (inversion Hrun; subst; reflexivity);
         eapply IH; eauto ]).
    + inversion Hrun; subst. reflexivity.
    + inversion Hrun; subst. congruence.
Qed.

Lemma C06_usable_after_timeout_proof : C06_usable_after_timeout_stmt.
Proof.
  unfold C06_usable_after_timeout_stmt. intros script p. unfold sniff_tcp.
  destruct (sniff_tcp_loop script new_stream) as [[r st] rest] eqn:Hrun.
  intros H2. unfold relay_read_all, relay_prefix_copy.
  rewrite (sniff_loop_dataerr _ _ _ _ _ Hrun H2). reflexivity.
Qed.

Lemma C06_usable_after_timeout_nonvacuous_proof : C06_usable_after_timeout_nonvacuous_stmt.
Proof. vm_compute. split; reflexivity. Qed.

Lemma C06_udp_data_exact_proof : C06_udp_data_exact_stmt.
Proof.
  unfold C06_udp_data_exact_stmt. intros st d oracle. split; [reflexivity|].
  unfold sniff_udp.
  destruct (negb (length (u_sniffed st) =? 0)%nat); [auto|].
  destruct ((length (u_buf st) =? 0)%nat); [auto|].
  destruct ((length (u_cryptos st) =? 0)%nat && negb (is_likely_quic_initial (skipn (N.to_nat (u_next st)) (u_buf st)))); [auto|].
  unfold sniff_quic.
  destruct (quic_blocks _ _ _ _ _) as [[early cr] orc].
  destruct early as [r|].
  - destruct (norm_outcome r); cbn; auto.
  - destruct (extract_sni_linear cr); cbn; auto.
Qed.

(* ------------------------------------------------------------------ glue *)
Lemma C06_chunking_invariant_proof : C06_chunking_invariant_stmt.
Proof. exact (C06_chunking_from_stream C06_tls_stream_roundtrip_proof). Qed.

Lemma C06_quic_roundtrip_proof : C06_quic_roundtrip_stmt.
Proof.
  unfold C06_quic_roundtrip_stmt. intros h packets Hwf Hf Hc.
  rewrite (C06_crypto_reassembly_proof (enc_handshake h) packets).
  - apply C06_quic_single_block. exact Hwf.
  - unfold enc_handshake. discriminate.
  - exact Hf.
  - exact Hc.
Qed.

Lemma C06_frames_roundtrip_proof : C06_frames_roundtrip_stmt.
Proof. exact C06_reassemble_roundtrip. Qed.

(* ------------------------------------------------------------------ HTTP: the head ends at the empty line *)
Lemma C06_http_no_host_no_name_proof : C06_http_no_host_no_name_stmt.
Proof.
  unfold C06_http_no_host_no_name_stmt. intros q body slack Hwf Hnone.
  rewrite (C06_http_roundtrip_proof q body slack Hwf). unfold host_of. rewrite Hnone. reflexivity.
Qed.

(* GET / HTTP/1.1 CRLF X:1 CRLF CRLF | Host: evil CRLF CRLF *)
Definition past_head_witness : http_head :=
  {| q_method := [71; 69; 84]; q_target := [47]; q_version := [72; 84; 84; 80; 47; 49; 46; 49];
     q_headers := [([88], [49])] |}.
Definition past_body_witness : bytes := [72; 111; 115; 116; 58; 32; 101; 118; 105; 108; 13; 10; 13; 10].

Lemma C06_http_scan_past_head_refuted_proof : C06_http_scan_past_head_refuted_stmt.
Proof.
  exists past_head_witness, past_body_witness. vm_compute.
  split; [reflexivity|]. split; [reflexivity|]. split; [discriminate|]. eexists. reflexivity.
Qed.
