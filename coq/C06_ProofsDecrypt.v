(* C06 — lemmas about the arithmetic of DecryptQuic_ (C06_Decrypt.v). *)
From Coq Require Import List NArith Bool Arith Lia ZifyBool ZifyN ZifyNat.
From Dae.gen Require Import C06_Extracted.
From Dae Require Import C06_Spec C06_Model C06_Decrypt.
Import ListNotations.
Open Scope N_scope.

Lemma bound_ok : forall lo hi len, lo <= hi -> hi <= len -> bound lo hi len = Ok tt.
Proof.
  intros lo hi len H1 H2. unfold bound.
  destruct ((lo <=? hi) && (hi <=? len)) eqn:E; [reflexivity | lia].
Qed.

Lemma C06_decrypt_arith_no_oob_proof :
  forall len pnoff blockend pnlen : N,
    1 <= pnoff -> pnoff + max_pn_len <= len -> blockend <= len -> 1 <= pnlen <= max_pn_len ->
    decrypt_arith quic_sample_guard_on_block len pnoff blockend pnlen <> Err Oob.
Proof.
  intros len pnoff blockend pnlen H1 H2 H3 [H4 H5].
  unfold decrypt_arith, quic_sample_guard_on_block, quic_sample_size, max_pn_len in *.
  destruct (blockend <? pnoff + 4 + 16) eqn:E; [discriminate|].
  rewrite (bound_ok (pnoff + 4) (pnoff + 4 + 16) len) by lia.
  rewrite (bound_ok 1 pnoff len) by lia.
  rewrite (bound_ok pnoff (pnoff + 4) len) by lia.
  rewrite (bound_ok (pnoff + pnlen) blockend len) by lia.
  rewrite (bound_ok 0 (pnoff + pnlen) len) by lia.
  destruct (blockend - (pnoff + pnlen) <? 16) eqn:E2; [lia | discriminate].
Qed.

Lemma C06_decrypt_buffer_guard_refuted_proof :
  exists len pnoff blockend pnlen : N,
    1 <= pnoff /\ pnoff + max_pn_len <= len /\ blockend <= len /\ 1 <= pnlen <= max_pn_len
    /\ decrypt_arith false len pnoff blockend pnlen = Err Oob.
Proof.
  (* 0xc0 ver(4) dcidlen 8 dcid scidlen 0 tokenlen 0 Length 0 : pnOffset = 17 = blockEnd, 40 trailing bytes *)
  exists 57, 17, 17, 1. vm_compute. repeat split; discriminate.
Qed.
