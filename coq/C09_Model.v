(* C09 — code-shaped executable models (no proofs in this file).

   Part F  cachedDnsForwarder.beginUse/endUse/retire/closeNow (control/dns_control.go): small-step system,
           one atomic operation of the Go code per step, any number of user and retirer goroutines.
   Part P  pipelinedConn (control/dns.go): idBitmap.Allocate/Release, pending table, readLoop dispatch,
           RoundTrip completion, timeout => connection closed.
   Part U  DoUDP.ForwardDNS receive loop over a pooled socket (ID test only - as the code is).
   Part C  DnsController.HandleWithResponseWriter_: route -> cache lookup -> singleflight.Do -> per-waiter
           post-processing; singleflight abstracted to its contract (one leader per key, result fanned out). *)
From Coq Require Import List NArith ZArith Bool.
From Dae Require Import C09_Spec.
From Dae.gen Require Import C09_Consts.
Import ListNotations.
Open Scope N_scope.

(* ------------------------------------------------------------------------------------------------ *)
(* Part F: forwarder lifecycle                                                                       *)
(* ------------------------------------------------------------------------------------------------ *)

(* program counter of a user goroutine running  ok := beginUse(); if ok { ForwardDNS; endUse() }  *)
Inductive upc :=
| UIdle    (* before beginUse *)
| UB1      (* beginUse: first retired.Load() returned false *)
| UB2      (* beginUse: inFlight.Add(1) done *)
| UB3      (* beginUse: second retired.Load() returned true; must undo *)
| UUsing   (* beginUse returned true; inside forwarder.ForwardDNS *)
| UE1      (* endUse: inFlight.Add(-1) returned 0; retired.Load() still to come *)
| UE2      (* endUse: retired.Load() returned true; the re-read inFlight.Load() still to come *)
| UOk      (* finished, had the forwarder *)
| UFail.   (* finished, beginUse returned false *)

(* endUse():  if inFlight.Add(-1) == 0 && retired.Load() && inFlight.Load() == 0 { closeNow }
   retire():  retired.Store(true) ; if inFlight.Load() == 0 { closeNow } *)
Inductive rpc := RIdle | RStored | RDone.

Record fstate := {
  f_inflight : Z;
  f_retired : bool;
  f_closed : bool;       (* closeOnce has fired: forwarder.Close() ran *)
  f_calls : N;           (* number of closeNow() invocations *)
  f_bad : bool;          (* ghost: Close ran while some user was inside ForwardDNS, or while not retired, or
                            with inFlight <> 0 at the closing step's load; or a user entered after Close *)
  f_users : list upc;
  f_rets : list rpc
}.

Inductive fev := FSpawnU | FSpawnR | FU (i : nat) | FR (j : nat).

Definition finit : fstate :=
  {| f_inflight := 0%Z; f_retired := false; f_closed := false; f_calls := 0; f_bad := false; f_users := []; f_rets := [] |}.

Fixpoint set_nth {A} (l : list A) (i : nat) (x : A) : list A :=
  match l, i with
  | [], _ => []
  | _ :: t, O => x :: t
  | h :: t, S k => h :: set_nth t k x
  end.

Definition is_using (p : upc) : bool := match p with UUsing => true | _ => false end.
Definition is_ue1 (p : upc) : bool := match p with UE1 | UE2 => true | _ => false end.
Definition counted (p : upc) : bool := match p with UB2 | UB3 | UUsing => true | _ => false end.
Definition user_quiet (p : upc) : bool := match p with UIdle | UOk | UFail => true | _ => false end.
Definition ret_quiet (r : rpc) : bool := match r with RIdle | RDone => true | _ => false end.
Definition is_rdone (r : rpc) : bool := match r with RDone => true | _ => false end.

(* closeNow(): sync.Once around forwarder.Close() *)
Definition do_close (s : fstate) : fstate :=
  {| f_inflight := f_inflight s; f_retired := f_retired s; f_closed := true; f_calls := f_calls s + 1;
     f_bad := f_bad s || (negb (f_closed s) && (existsb is_using (f_users s) || negb (f_retired s)
                                                 || negb (f_inflight s =? 0)%Z));
     f_users := f_users s; f_rets := f_rets s |}.

Definition with_user (s : fstate) (i : nat) (p : upc) (infl : Z) (bad : bool) : fstate :=
  {| f_inflight := infl; f_retired := f_retired s; f_closed := f_closed s; f_calls := f_calls s;
     f_bad := bad; f_users := set_nth (f_users s) i p; f_rets := f_rets s |}.

Definition with_ret (s : fstate) (j : nat) (r : rpc) (retired : bool) : fstate :=
  {| f_inflight := f_inflight s; f_retired := retired; f_closed := f_closed s; f_calls := f_calls s;
     f_bad := f_bad s; f_users := f_users s; f_rets := set_nth (f_rets s) j r |}.

Definition user_step (s : fstate) (i : nat) : fstate :=
  match nth_error (f_users s) i with
  | None => s
  | Some pc =>
      match pc with
      | UIdle => if f_retired s then with_user s i UFail (f_inflight s) (f_bad s)
                 else with_user s i UB1 (f_inflight s) (f_bad s)
      | UB1 => with_user s i UB2 (f_inflight s + 1)%Z (f_bad s)
      | UB2 => if f_retired s then with_user s i UB3 (f_inflight s) (f_bad s)
               else with_user s i UUsing (f_inflight s) (f_bad s || f_closed s)
      | UB3 => let n := (f_inflight s - 1)%Z in
               let s' := with_user s i UFail n (f_bad s) in
               if (n =? 0)%Z then do_close s' else s'
      | UUsing => let n := (f_inflight s - 1)%Z in
                  if (n =? 0)%Z then with_user s i UE1 n (f_bad s) else with_user s i UOk n (f_bad s)
      | UE1 => if f_retired s then with_user s i UE2 (f_inflight s) (f_bad s)
               else with_user s i UOk (f_inflight s) (f_bad s)
      | UE2 => let s' := with_user s i UOk (f_inflight s) (f_bad s) in
               if (f_inflight s =? 0)%Z then do_close s' else s'
      | UOk | UFail => s
      end
  end.

Definition ret_step (s : fstate) (j : nat) : fstate :=
  match nth_error (f_rets s) j with
  | None => s
  | Some RIdle => with_ret s j RStored true
  | Some RStored => let s' := with_ret s j RDone (f_retired s) in
                    if (f_inflight s =? 0)%Z then do_close s' else s'
  | Some RDone => s
  end.

Definition fstep (s : fstate) (e : fev) : fstate :=
  match e with
  | FSpawnU => {| f_inflight := f_inflight s; f_retired := f_retired s; f_closed := f_closed s;
                  f_calls := f_calls s; f_bad := f_bad s;
                  f_users := f_users s ++ [UIdle]; f_rets := f_rets s |}
  | FSpawnR => {| f_inflight := f_inflight s; f_retired := f_retired s; f_closed := f_closed s;
                  f_calls := f_calls s; f_bad := f_bad s;
                  f_users := f_users s; f_rets := f_rets s ++ [RIdle] |}
  | FU i => user_step s i
  | FR j => ret_step s j
  end.

Definition frun (evs : list fev) : fstate := fold_left fstep evs finit.

Definition fwd_obs_of (s : fstate) : fwd_obs :=
  {| fo_closes := if f_closed s then 1 else 0;
     fo_close_in_flight := f_bad s;
     fo_retired := f_retired s;
     fo_retire_done := existsb is_rdone (f_rets s);
     fo_quiescent := forallb user_quiet (f_users s) && forallb ret_quiet (f_rets s) |}.

(* ------------------------------------------------------------------------------------------------ *)
(* Part P: pipelined connection                                                                      *)
(* ------------------------------------------------------------------------------------------------ *)

Definition in_set (x : N) (l : list N) : bool := existsb (N.eqb x) l.
Definition ids64 : list N := map N.of_nat (seq 0 64).

(* bits.TrailingZeros64(^old) of word w: lowest clear bit *)
Definition word_free_bit (al : list N) (w : N) : option N :=
  find (fun b => negb (in_set (w * 64 + b) al)) ids64.

Fixpoint first_word (al : list N) (sw : N) (is : list N) : option N :=
  match is with
  | [] => None
  | i :: r => let w := (sw + i) mod 64 in
              match word_free_bit al w with
              | Some b => Some (w * 64 + b)
              | None => first_word al sw r
              end
  end.

(* idBitmap.Allocate with next = [next] before the Add(1) *)
Definition alloc_id (al : list N) (next : N) : option N := first_word al ((next / 64) mod 64) ids64.

Definition remove_id (x : N) (l : list N) : list N := filter (fun y => negb (y =? x)) l.

Fixpoint lookup {V} (k : N) (l : list (N * V)) : option V :=
  match l with
  | [] => None
  | (k', v) :: t => if k' =? k then Some v else lookup k t
  end.
Definition remove_key {V} (k : N) (l : list (N * V)) : list (N * V) :=
  filter (fun kv => negb (fst kv =? k)) l.
Definition set_key {V} (k : N) (v : V) (l : list (N * V)) : list (N * V) := (k, v) :: remove_key k l.

Inductive cst :=
| CWait (id : N)                     (* registered, request written, waiting on the slot *)
| CGot (id : N) (m : message)        (* readLoop put m into the slot; goroutine not yet resumed *)
| CErr (id : N)                      (* connection closed under it (nil in slot) or own timeout *)
| CDoneOk (id : N) (m : message)     (* RoundTrip returned m; id released *)
| CDoneErr.                          (* RoundTrip returned an error; id released *)

Record pstate := {
  p_alloc : list N;               (* set bits of the bitmap *)
  p_next : N;
  p_pending : list (N * N);       (* wire id -> client *)
  p_closed : bool;
  p_clients : list (N * cst);
  p_log : list (N * N)            (* (client, wire id) in start order, newest first *)
}.

Inductive pev := PStart (c : N) | PResp (m : message) | PFinish (c : N) | PTimeout (c : N).

Definition pinit : pstate :=
  {| p_alloc := []; p_next := 0; p_pending := []; p_closed := false; p_clients := []; p_log := [] |}.

Definition fail_waiters (pend : list (N * N)) (cl : list (N * cst)) : list (N * cst) :=
  map (fun kc => match snd kc with
                 | CWait id => if in_set (fst kc) (map snd pend) then (fst kc, CErr id) else kc
                 | _ => kc
                 end) cl.

Definition pstep (s : pstate) (e : pev) : pstate :=
  match e with
  | PStart c =>
      match lookup c (p_clients s) with
      | Some _ => s
      | None =>
          if p_closed s then
            {| p_alloc := p_alloc s; p_next := p_next s + 1; p_pending := p_pending s; p_closed := true;
               p_clients := (c, CDoneErr) :: p_clients s; p_log := p_log s |}
          else
            match alloc_id (p_alloc s) (p_next s) with
            | None =>
                {| p_alloc := p_alloc s; p_next := p_next s + 1; p_pending := p_pending s; p_closed := false;
                   p_clients := (c, CDoneErr) :: p_clients s; p_log := p_log s |}
            | Some id =>
                {| p_alloc := id :: p_alloc s; p_next := p_next s + 1;
                   p_pending := (id, c) :: p_pending s; p_closed := false;
                   p_clients := (c, CWait id) :: p_clients s; p_log := (c, id) :: p_log s |}
            end
      end
  | PResp m =>
      if p_closed s then s
      else if m_id m <? dnsPipelineMaxIDs then
        match lookup (m_id m) (p_pending s) with
        | Some c =>
            {| p_alloc := p_alloc s; p_next := p_next s; p_pending := remove_key (m_id m) (p_pending s);
               p_closed := false; p_clients := set_key c (CGot (m_id m) m) (p_clients s); p_log := p_log s |}
        | None => s
        end
      else s
  | PFinish c =>
      match lookup c (p_clients s) with
      | Some (CGot id m) =>
          {| p_alloc := remove_id id (p_alloc s); p_next := p_next s; p_pending := p_pending s;
             p_closed := p_closed s; p_clients := set_key c (CDoneOk id m) (p_clients s); p_log := p_log s |}
      | Some (CErr id) =>
          {| p_alloc := remove_id id (p_alloc s); p_next := p_next s; p_pending := p_pending s;
             p_closed := p_closed s; p_clients := set_key c CDoneErr (p_clients s); p_log := p_log s |}
      | _ => s
      end
  | PTimeout c =>
      match lookup c (p_clients s) with
      | Some (CWait id) =>
          {| p_alloc := p_alloc s; p_next := p_next s; p_pending := []; p_closed := true;
             p_clients := fail_waiters ((id, c) :: p_pending s) (p_clients s); p_log := p_log s |}
      | _ => s
      end
  end.

Definition prun (evs : list pev) : pstate := fold_left pstep evs pinit.

Definition held_id (c : cst) : option N :=
  match c with CWait id | CGot id _ | CErr id => Some id | _ => None end.

Fixpoint held_ids (cl : list (N * cst)) : list N :=
  match cl with
  | [] => []
  | (_, c) :: t => match held_id c with Some id => id :: held_ids t | None => held_ids t end
  end.

(* ------------------------------------------------------------------------------------------------ *)
(* Part U: DoUDP.ForwardDNS receive loop over the pooled socket                                      *)
(* ------------------------------------------------------------------------------------------------ *)

Inductive dgram := DShort | DMsg (m : message) | DGarbage (id : N).

Inductive ures := UOkMsg (m : message) | UTrunc (m : message) | UTimeout | UStale | UUnpack.

(* returns (result, what is left in the socket buffer, socket goes back to the pool) *)
Fixpoint udp_read (q : list dgram) (orig stale : N) : ures * list dgram * bool :=
  match q with
  | [] => (UTimeout, [], true)
  | d :: rest =>
      let skip := if maxStaleResponses <? stale + 1 then (UStale, rest, false)
                  else udp_read rest orig (stale + 1) in
      match d with
      | DShort => skip
      | DMsg m => if m_id m =? orig
                  then (if m_tc m then UTrunc m else UOkMsg m, rest, true)
                  else skip
      | DGarbage id => if id =? orig then (UUnpack, rest, false) else skip
      end
  end.

Inductive uev :=
| UQ (id : N) (script : list dgram)   (* a query with this wire ID; the upstream enqueues [script] on receipt *)
| ULate (d : dgram).                  (* a datagram reaches the idle pooled socket between two queries *)

(* pool state: the buffer of the one idle socket, if any (sequential use) *)
Definition ustep (st : option (list dgram) * list ures) (e : uev) : option (list dgram) * list ures :=
  match e with
  | UQ id script =>
      let buf := match fst st with Some b => b | None => [] end in
      let '(r, rest, keep) := udp_read (buf ++ script) id 0 in
      (if keep then Some rest else None, snd st ++ [r])
  | ULate d =>
      (match fst st with Some b => Some (b ++ [d]) | None => None end, snd st)
  end.

Definition urun (evs : list uev) : list ures := snd (fold_left ustep evs (None, [])).

(* ------------------------------------------------------------------------------------------------ *)
(* Part C: controller (HandleWithResponseWriter_ with a response writer)                             *)
(* ------------------------------------------------------------------------------------------------ *)

Inductive fres := FErr | FTruncErr | FMsg (m : message).

Record centry := { ce_name : N; ce_type : N; ce_ans : list rr }.

Definition ckey := (N * N)%type.
Definition ckey_eqb (a b : ckey) : bool := (fst a =? fst b) && (snd a =? snd b).

Fixpoint klookup {V} (k : ckey) (l : list (ckey * V)) : option V :=
  match l with
  | [] => None
  | (k', v) :: t => if ckey_eqb k' k then Some v else klookup k t
  end.
Definition kremove {V} (k : ckey) (l : list (ckey * V)) : list (ckey * V) :=
  filter (fun kv => negb (ckey_eqb (fst kv) k)) l.
Definition kset {V} (k : ckey) (v : V) (l : list (ckey * V)) : list (ckey * V) := (k, v) :: kremove k l.

Record cstate := {
  c_cache : list (ckey * centry);
  c_udp : list (ckey * list fres);     (* scripted results of the primary forwarder, per question *)
  c_tcp : list (ckey * list fres);     (* scripted results of the TCP fallback forwarder *)
  c_calls : list ckey                  (* every upstream resolution performed (one entry per sf leader) *)
}.

Inductive resolution := RErr | RMsg (m : message) (stored : bool).
Inductive outcome := OReply (m : message) | OError.

Definition pop (k : ckey) (l : list (ckey * list fres)) : fres * list (ckey * list fres) :=
  match klookup k l with
  | Some (r :: rest) => (r, kset k rest l)
  | _ => (FErr, l)
  end.

(* cache hit reply.  packed = the pre-packed bytes are used (deadlineNano set); otherwise
   fillIntoWithTTLInPlace fills the client's own message. *)
Definition hit_reply (packed : bool) (c : client_query) (e : centry) : message :=
  if packed then
    {| m_id := cq_id c;
       m_q := Some {| q_name := ce_name e; q_case := 0; q_type := ce_type e; q_class := 1 |};
       m_rcode := 0; m_tc := false; m_ans := ce_ans e |}
  else
    {| m_id := cq_id c; m_q := Some (cq_q c); m_rcode := 0; m_tc := false; m_ans := ce_ans e |}.

Definition with_id (m : message) (id : N) : message :=
  {| m_id := id; m_q := m_q m; m_rcode := m_rcode m; m_tc := m_tc m; m_ans := m_ans m |}.

(* NormalizeAndCacheDnsResp_: stores under the REQUEST's key whatever the response carries *)
Definition cacheable (m : message) : option centry :=
  match m_q m with
  | Some q => if m_rcode m =? 0 then Some {| ce_name := q_name q; ce_type := q_type q; ce_ans := m_ans m |} else None
  | None => None
  end.

(* checkDnsResponseQuestion: same type and class, same name ignoring case *)
Definition question_checked (lq : question) (m : message) : bool :=
  match m_q m with Some q => question_equiv lq q | None => false end.

(* forwardWithFallback + dialSend for one singleflight leader asking lq *)
Definition resolve (fallback : bool) (lq : question) (s : cstate) : resolution * cstate :=
  let k := key_of lq in
  let '(r1, udp') := pop k (c_udp s) in
  let s1 := {| c_cache := c_cache s; c_udp := udp'; c_tcp := c_tcp s; c_calls := c_calls s ++ [k] |} in
  let finish (m : message) (s2 : cstate) :=
    (* a response whose question section is missing or differs from the request is an error: nothing
       is relayed, nothing is cached, no fallback *)
    if negb (question_checked lq m) then (RErr, s2) else
    match cacheable m with
    | Some e => (RMsg m true,
                 {| c_cache := kset k e (c_cache s2); c_udp := c_udp s2; c_tcp := c_tcp s2; c_calls := c_calls s2 |})
    | None => (RMsg m false, s2)
    end in
  match r1 with
  | FMsg m => finish m s1
  | _ =>
      if fallback then
        let '(r2, tcp') := pop k (c_tcp s1) in
        let s2 := {| c_cache := c_cache s1; c_udp := c_udp s1; c_tcp := tcp'; c_calls := c_calls s1 |} in
        match r2 with
        | FMsg m => finish m s2
        | _ => (RErr, s2)
        end
      else (RErr, s1)
  end.

Definition waiter_outcome (packed : bool) (c : client_query) (r : resolution) : outcome :=
  match r with
  | RErr => OError
  | RMsg m true => match cacheable m with
                   | Some e => OReply (hit_reply packed c e)
                   | None => OReply (with_id m (cq_id c))
                   end
  | RMsg m false => OReply (with_id m (cq_id c))
  end.

(* one round = clients that are in flight together.  cache0 = cache when the round starts.
   packed: entries that were in the cache when the round started are served from their pre-packed bytes
   (deadlineNano set: after a reload, CloneForReload); pnew: entries stored during this round are. *)
Fixpoint round_clients (packed pnew fallback : bool) (cache0 : list (ckey * centry))
         (cs : list client_query) (resolved : list (ckey * resolution)) (s : cstate)
  : list outcome * cstate :=
  match cs with
  | [] => ([], s)
  | c :: rest =>
      let k := key_of (cq_q c) in
      match klookup k cache0 with
      | Some e =>
          let '(os, s') := round_clients packed pnew fallback cache0 rest resolved s in
          (OReply (hit_reply packed c e) :: os, s')
      | None =>
          match klookup k resolved with
          | Some r =>
              let '(os, s') := round_clients packed pnew fallback cache0 rest resolved s in
              (waiter_outcome pnew c r :: os, s')
          | None =>
              let '(r, s1) := resolve fallback (cq_q c) s in
              let '(os, s') := round_clients packed pnew fallback cache0 rest ((k, r) :: resolved) s1 in
              (waiter_outcome pnew c r :: os, s')
          end
      end
  end.

Definition run_round (packed pnew fallback : bool) (s : cstate) (cs : list client_query) : list outcome * cstate :=
  round_clients packed pnew fallback (c_cache s) cs [] s.

Fixpoint run_rounds (packed pnew fallback : bool) (s : cstate) (rounds : list (list client_query))
  : list (list outcome) * cstate :=
  match rounds with
  | [] => ([], s)
  | r :: rest =>
      let '(os, s1) := run_round packed pnew fallback s r in
      let '(oss, s2) := run_rounds packed pnew fallback s1 rest in
      (os :: oss, s2)
  end.

(* ------------------------------------------------------------------------------------------------ *)
(* Part W: the per-waiter tail of HandleWithResponseWriter_ after singleflight returned a result    *)
(*         that is not in the cache:  u := respMsg.Copy(); u.Id = own id; WriteMsg(u)  (writer packs) *)
(* ------------------------------------------------------------------------------------------------ *)
(* Messages are heap objects: the leader's result is object 0, shared by every waiter.  One step = one of
   copy / stamp the ID / enter WriteMsg / the writer packs the object it was handed.  [copy = false] is the
   variant that stamps and writes the shared object itself. *)
Inductive wpc :=
| WStart
| WCopied (o : nat)                  (* holds object o (its private copy, or the shared object) *)
| WStamped (o : nat)                 (* o.Id = own id done *)
| WInWrite (o : nat)                 (* inside WriteMsg(o), not yet packed *)
| WDone (o : nat) (packed : message).

Record wstate := {
  w_heap : nat -> message;
  w_next : nat;                      (* next free object *)
  w_ws : list (N * wpc)              (* per waiter: its client's transaction ID, program counter *)
}.

Definition hupd (h : nat -> message) (o : nat) (m : message) : nat -> message :=
  fun o' => if Nat.eqb o' o then m else h o'.

Definition winit (m0 : message) (ids : list N) : wstate :=
  {| w_heap := fun _ => m0; w_next := 1; w_ws := map (fun id => (id, WStart)) ids |}.

Definition wstep (copy : bool) (s : wstate) (i : nat) : wstate :=
  match nth_error (w_ws s) i with
  | None => s
  | Some (id, pc) =>
      match pc with
      | WStart =>
          if copy then
            {| w_heap := hupd (w_heap s) (w_next s) (w_heap s 0%nat); w_next := S (w_next s);
               w_ws := set_nth (w_ws s) i (id, WCopied (w_next s)) |}
          else
            {| w_heap := w_heap s; w_next := w_next s; w_ws := set_nth (w_ws s) i (id, WCopied 0%nat) |}
      | WCopied o =>
          {| w_heap := hupd (w_heap s) o (with_id (w_heap s o) id); w_next := w_next s;
             w_ws := set_nth (w_ws s) i (id, WStamped o) |}
      | WStamped o =>
          {| w_heap := w_heap s; w_next := w_next s; w_ws := set_nth (w_ws s) i (id, WInWrite o) |}
      | WInWrite o =>
          {| w_heap := w_heap s; w_next := w_next s; w_ws := set_nth (w_ws s) i (id, WDone o (w_heap s o)) |}
      | WDone _ _ => s
      end
  end.

Definition wrun (copy : bool) (m0 : message) (ids : list N) (sched : list nat) : wstate :=
  fold_left (wstep copy) sched (winit m0 ids).

Definition wobj (pc : wpc) : option nat :=
  match pc with WStart => None | WCopied o | WStamped o | WInWrite o | WDone o _ => Some o end.

(* ------------------------------------------------------------------------------------------------ *)
(* Part K: the forwarder cache of DnsController (one key): getOrCreateDnsForwarder, forwardWithDialArg, *)
(*         retireCachedDnsForwarder (CompareAndDelete + retire), retireAllDnsForwarders (reload),      *)
(*         closeAllDnsForwarders (Close).                                                              *)
(* ------------------------------------------------------------------------------------------------ *)
(* One step = one sync.Map operation or one method of a cachedDnsForwarder (beginUse / endUse / retire /
   closeNow taken as atomic here: their internal interleavings are the subject of Part F).
   [cas = false] is the variant whose retire-by-key deletes the slot unconditionally. *)
Record fent := { fe_inflight : Z; fe_retired : bool; fe_closed : bool }.

Inductive qpc :=
| QIdle                      (* before getOrCreateDnsForwarder (first attempt) *)
| QCreating (a : nat)        (* Load missed; inside dnsForwarderFactory; a = attempt *)
| QHold (e : nat) (a : nat)  (* got entry e; beginUse still to come *)
| QUsing (e : nat)           (* inside entry.forwarder.ForwardDNS *)
| QEnded (e : nat)           (* endUse done *)
| QRetiring (e : nat)        (* retireCachedDnsForwarder removed e from the cache; entry.retire() to come *)
| QDone (r : N).             (* 0 answered, 1 forward error, 2 "retired before request could start" *)

Record kstate := {
  k_ents : list fent;              (* every forwarder instance ever created, by creation order *)
  k_cache : option nat;            (* dnsForwarderCache[key] *)
  k_qs : list (bool * qpc);        (* per query: will its ForwardDNS fail?, program counter *)
  k_bad : bool                     (* ghost: an instance was closed by endUse/retire while a query was inside it *)
}.

Inductive kev := KSpawn (fail : bool) | KQ (t : nat) | KReload | KCloseAll.

Definition kinit : kstate := {| k_ents := []; k_cache := None; k_qs := []; k_bad := false |}.

Definition fresh_ent : fent := {| fe_inflight := 0; fe_retired := false; fe_closed := false |}.
Definition is_qusing (e : nat) (q : bool * qpc) : bool :=
  match snd q with QUsing e' => Nat.eqb e' e | _ => false end.
Definition is_qretiring (e : nat) (q : bool * qpc) : bool :=
  match snd q with QRetiring e' => Nat.eqb e' e | _ => false end.
Definition q_quiet (q : bool * qpc) : bool := match snd q with QDone _ => true | _ => false end.

(* retire(): retired = true; close if nothing in flight *)
Definition ent_retire (en : fent) : fent :=
  {| fe_inflight := fe_inflight en; fe_retired := true;
     fe_closed := fe_closed en || (fe_inflight en =? 0)%Z |}.
(* endUse(): decrement; close if it reached zero and the entry is retired *)
Definition ent_enduse (en : fent) : fent :=
  {| fe_inflight := fe_inflight en - 1; fe_retired := fe_retired en;
     fe_closed := fe_closed en || ((fe_inflight en - 1 =? 0)%Z && fe_retired en) |}.
Definition ent_begin (en : fent) : fent :=
  {| fe_inflight := fe_inflight en + 1; fe_retired := fe_retired en; fe_closed := fe_closed en |}.
Definition ent_close (en : fent) : fent :=
  {| fe_inflight := fe_inflight en; fe_retired := fe_retired en; fe_closed := true |}.

Definition kset_q (s : kstate) (t : nat) (q : bool * qpc) : kstate :=
  {| k_ents := k_ents s; k_cache := k_cache s; k_qs := set_nth (k_qs s) t q; k_bad := k_bad s |}.

(* the close performed by en -> en' is new and some query is inside instance e *)
Definition close_in_flight (en en' : fent) (e : nat) (qs : list (bool * qpc)) : bool :=
  negb (fe_closed en) && fe_closed en' && existsb (is_qusing e) qs.

(* getOrCreateDnsForwarder, first half: Load *)
Definition k_lookup (s : kstate) (t : nat) (f : bool) (a : nat) : kstate :=
  match k_cache s with
  | Some e => kset_q s t (f, QHold e a)
  | None => kset_q s t (f, QCreating a)
  end.

Definition kq_step (cas : bool) (s : kstate) (t : nat) : kstate :=
  match nth_error (k_qs s) t with
  | None => s
  | Some (f, pc) =>
      match pc with
      | QIdle => k_lookup s t f 0
      | QCreating a =>
          let n := length (k_ents s) in
          match k_cache s with
          | None =>     (* LoadOrStore stored the new instance *)
              {| k_ents := k_ents s ++ [fresh_ent]; k_cache := Some n;
                 k_qs := set_nth (k_qs s) t (f, QHold n a); k_bad := k_bad s |}
          | Some e =>   (* another query won: the redundant instance is closed at once, never used *)
              {| k_ents := k_ents s ++ [ent_close fresh_ent]; k_cache := Some e;
                 k_qs := set_nth (k_qs s) t (f, QHold e a); k_bad := k_bad s |}
          end
      | QHold e a =>
          match nth_error (k_ents s) e with
          | None => kset_q s t (f, QDone 2)
          | Some en =>
              if fe_retired en then
                match a with
                | O => k_lookup s t f 1          (* beginUse failed: second round of the loop *)
                | _ => kset_q s t (f, QDone 2)
                end
              else
                {| k_ents := set_nth (k_ents s) e (ent_begin en); k_cache := k_cache s;
                   k_qs := set_nth (k_qs s) t (f, QUsing e); k_bad := k_bad s |}
          end
      | QUsing e =>
          match nth_error (k_ents s) e with
          | None => s
          | Some en =>
              let qs' := set_nth (k_qs s) t (f, QEnded e) in
              {| k_ents := set_nth (k_ents s) e (ent_enduse en); k_cache := k_cache s; k_qs := qs';
                 k_bad := k_bad s || close_in_flight en (ent_enduse en) e qs' |}
          end
      | QEnded e =>
          if f then
            (* retireCachedDnsForwarder(key, entry) *)
            if cas then
              match k_cache s with
              | Some e' => if Nat.eqb e' e
                           then {| k_ents := k_ents s; k_cache := None;
                                   k_qs := set_nth (k_qs s) t (f, QRetiring e); k_bad := k_bad s |}
                           else kset_q s t (f, QDone 1)
              | None => kset_q s t (f, QDone 1)
              end
            else {| k_ents := k_ents s; k_cache := None;
                    k_qs := set_nth (k_qs s) t (f, QRetiring e); k_bad := k_bad s |}
          else kset_q s t (f, QDone 0)
      | QRetiring e =>
          match nth_error (k_ents s) e with
          | None => s
          | Some en =>
              let qs' := set_nth (k_qs s) t (f, QDone 1) in
              {| k_ents := set_nth (k_ents s) e (ent_retire en); k_cache := k_cache s; k_qs := qs';
                 k_bad := k_bad s || close_in_flight en (ent_retire en) e qs' |}
          end
      | QDone _ => s
      end
  end.

Definition kstep (cas : bool) (s : kstate) (ev : kev) : kstate :=
  match ev with
  | KSpawn f => {| k_ents := k_ents s; k_cache := k_cache s; k_qs := k_qs s ++ [(f, QIdle)]; k_bad := k_bad s |}
  | KQ t => kq_step cas s t
  | KReload =>       (* retireAllDnsForwarders: Range, CompareAndDelete, retire *)
      match k_cache s with
      | None => s
      | Some e =>
          match nth_error (k_ents s) e with
          | None => s
          | Some en =>
              {| k_ents := set_nth (k_ents s) e (ent_retire en); k_cache := None; k_qs := k_qs s;
                 k_bad := k_bad s || close_in_flight en (ent_retire en) e (k_qs s) |}
          end
      end
  | KCloseAll =>     (* closeAllDnsForwarders: Delete, closeNow (shutdown: closes whatever is in flight) *)
      match k_cache s with
      | None => s
      | Some e =>
          match nth_error (k_ents s) e with
          | None => s
          | Some en => {| k_ents := set_nth (k_ents s) e (ent_close en); k_cache := None; k_qs := k_qs s;
                          k_bad := k_bad s |}
          end
      end
  end.

Definition krun (cas : bool) (evs : list kev) : kstate := fold_left (kstep cas) evs kinit.

Definition k_quiescent (s : kstate) : bool := forallb q_quiet (k_qs s).

(* ------------------------------------------------------------------------------------------------ *)
(* Part S: one singleflight flight of HandleWithResponseWriter_ with clients of mixed kinds           *)
(* ------------------------------------------------------------------------------------------------ *)
(* A client is a transparent-UDP client (no response writer, req.lConn set: replies are datagrams sent to
   its socket) or a listener / DNS-over-TCP client (response writer, lConn nil).  The leader's outer cache
   lookup missed; the shared resolution (resolveForSingleflight: the leader's message and req, an internal
   msgCapturer as writer) looks the cache up AGAIN - an earlier flight for the same key may have published
   the answer in between - and otherwise forwards upstream.  writeCachedResponse routes a cached answer by
   (writer present, req present, lConn present); its two conditions [wc], [nc] are parameters here and are
   instantiated with the terms generated from the source (gen/C09_Route.v). *)
Record fclient := { fc_q : client_query; fc_w : bool; fc_lc : bool }.

Inductive pubpoint :=
| PNever                        (* nobody publishes: the shared resolution forwards upstream *)
| PWindow (e : centry)          (* published between the leader's outer miss and the shared lookup *)
| PBefore (e : centry).         (* published before anybody looked: plain cache hits, no flight *)

Inductive sfres := SFErr | SFOk (m : message).

(* 0 = responseWriter.WriteMsg, 1 = datagram to the client's socket, 2 = error *)
Definition route (wc nc : bool -> bool -> bool -> bool) (w lc : bool) : N :=
  if wc w true lc then 0 else if nc w true lc then 2 else 1.

(* what the callers (udp.go fast path / dns_listener.go / tcp.go) send when the handler returns an error *)
Definition servfail (c : client_query) : message :=
  {| m_id := cq_id c; m_q := Some (cq_q c); m_rcode := 2; m_tc := false; m_ans := [] |}.

(* the shared resolution: result for singleflight, datagrams it sent straight to the leader's client,
   cache entry for the key afterwards *)
Definition shared (wc nc : bool -> bool -> bool -> bool) (p : bool) (L : fclient) (pb : pubpoint) (up : fres)
  : sfres * list message * option centry :=
  match pb with
  | PWindow e | PBefore e =>
      match route wc nc true (fc_lc L) with
      | 0%N => (SFOk (hit_reply p (fc_q L) e), [], Some e)          (* written to the capturer *)
      | 1%N => (SFErr, [hit_reply p (fc_q L) e], Some e)            (* capturer stays empty *)
      | _ => (SFErr, [], Some e)
      end
  | PNever =>
      match up with
      | FMsg m => if question_checked (cq_q (fc_q L)) m
                  then (SFOk (with_id m (cq_id (fc_q L))), [], cacheable m)
                  else (SFErr, [], None)
      | _ => (SFErr, [], None)
      end
  end.

(* a cached answer handed to client c by writeCachedResponse (or the caller's SERVFAIL on error) *)
Definition cached_reply (wc nc : bool -> bool -> bool -> bool) (p : bool) (c : fclient) (e : centry) : list message :=
  match route wc nc (fc_w c) (fc_lc c) with
  | 2%N => [servfail (fc_q c)]
  | _ => [hit_reply p (fc_q c) e]
  end.

(* per-participant tail after singleflight returned *)
Definition post (wc nc : bool -> bool -> bool -> bool) (p : bool) (c : fclient) (r : sfres) (cache : option centry)
  : list message :=
  match r with
  | SFErr => [servfail (fc_q c)]
  | SFOk m =>
      match cache with
      | Some e => cached_reply wc nc p c e
      | None => if fc_w c || fc_lc c then [with_id m (cq_id (fc_q c))] else [servfail (fc_q c)]
      end
  end.

(* reply lists: the leader's first, then the waiters' *)
Definition flight (wc nc : bool -> bool -> bool -> bool) (p : bool) (L : fclient) (Ws : list fclient)
           (pb : pubpoint) (up : fres) : list (list message) :=
  match pb with
  | PBefore e => map (fun c => cached_reply wc nc p c e) (L :: Ws)
  | _ =>
      let '(r, direct, cache) := shared wc nc p L pb up in
      (direct ++ post wc nc p L r cache) :: map (fun c => post wc nc p c r cache) Ws
  end.

(* the rcode every participant must see: the available answer's, or SERVFAIL when there is none *)
Definition flight_rcode (L : fclient) (pb : pubpoint) (up : fres) : N :=
  match pb with
  | PWindow _ | PBefore _ => 0
  | PNever => match up with
              | FMsg m => if question_checked (cq_q (fc_q L)) m then m_rcode m else 2
              | _ => 2
              end
  end.

(* exactly one reply, own ID, own question, only answers to it, carrying the shared result *)
Definition flight_client_ok (rc : N) (c : fclient) (rs : list message) : bool :=
  match rs with
  | [m] => reply_ok (fc_q c) m && (m_rcode m =? rc)
  | _ => false
  end.

(* ------------------------------------------------------------------------------------------------ *)
(* Part T: message ownership on the pipelined DNS-over-TCP fast path (handleTCPDnsFastPath) and the     *)
(*         asynchronous cache refresh (backgroundRefresh)                                              *)
(* ------------------------------------------------------------------------------------------------ *)
(* The connection loop reads a query into a message object, handles it (a stale-but-servable cache entry
   is answered at once and `go backgroundRefresh(..., cacheKey, dnsMessage, ...)` is spawned with a POINTER
   to that message and the key of its question), then reads the next pipelined query.  [fresh] says whether
   the next read allocates a fresh message (gen/C09_TcpOwn.v, extracted from the source) or unpacks into
   the same object.  The refresh task first copies the message it points to, then resolves the copied
   question and stores the answer under the key it was spawned with. *)
Record tq := { tq_q : question; tq_stale : bool }.

Inductive trpc :=
| TRSpawned (obj : nat) (k : ckey)      (* holds the pointer; dnsMessage.Copy() still to come *)
| TRCopied (q : question) (k : ckey)    (* owns a copy; resolution and cache store still to come *)
| TRDone.

Record tstate := {
  t_heap : nat -> question;
  t_next : nat;                         (* next free object *)
  t_cur : nat;                          (* the object the loop's msg points to *)
  t_pending : option tq;                (* read, not yet handled *)
  t_todo : list tq;                     (* queries still on the wire *)
  t_refresh : list trpc;
  t_cache : list (ckey * question)      (* key -> the question its entry answers *)
}.

Inductive tev := TRead | THandle | TRefresh (j : nat).

Definition qupd (h : nat -> question) (o : nat) (q : question) : nat -> question :=
  fun o' => if Nat.eqb o' o then q else h o'.

Definition tinit (q0 : question) (todo : list tq) (cache : list (ckey * question)) : tstate :=
  {| t_heap := fun _ => q0; t_next := 0; t_cur := 0; t_pending := None; t_todo := todo;
     t_refresh := []; t_cache := cache |}.

Definition tstep (fresh : bool) (s : tstate) (e : tev) : tstate :=
  match e with
  | TRead =>
      match t_pending s, t_todo s with
      | None, x :: rest =>
          let o := if fresh then t_next s else 0%nat in
          {| t_heap := qupd (t_heap s) o (tq_q x); t_next := S (t_next s); t_cur := o;
             t_pending := Some x; t_todo := rest; t_refresh := t_refresh s; t_cache := t_cache s |}
      | _, _ => s
      end
  | THandle =>
      match t_pending s with
      | Some x =>
          {| t_heap := t_heap s; t_next := t_next s; t_cur := t_cur s; t_pending := None; t_todo := t_todo s;
             t_refresh := if tq_stale x then t_refresh s ++ [TRSpawned (t_cur s) (key_of (tq_q x))] else t_refresh s;
             t_cache := t_cache s |}
      | None => s
      end
  | TRefresh j =>
      match nth_error (t_refresh s) j with
      | Some (TRSpawned o k) =>
          {| t_heap := t_heap s; t_next := t_next s; t_cur := t_cur s; t_pending := t_pending s; t_todo := t_todo s;
             t_refresh := set_nth (t_refresh s) j (TRCopied (t_heap s o) k); t_cache := t_cache s |}
      | Some (TRCopied q k) =>
          (* the upstream answers the copied question (the question check passes for it); stored under k *)
          {| t_heap := t_heap s; t_next := t_next s; t_cur := t_cur s; t_pending := t_pending s; t_todo := t_todo s;
             t_refresh := set_nth (t_refresh s) j TRDone; t_cache := kset k q (t_cache s) |}
      | _ => s
      end
  end.

Definition trun (fresh : bool) (q0 : question) (todo : list tq) (cache : list (ckey * question)) (evs : list tev) : tstate :=
  fold_left (tstep fresh) evs (tinit q0 todo cache).

(* every cache entry answers the question of its key *)
Definition tcache_ok (cache : list (ckey * question)) : bool :=
  forallb (fun e => ckey_eqb (key_of (snd e)) (fst e)) cache.

(* ------------------------------------------------------------------------------------------------ *)
(* Part R: ip_version_prefer - the preference wait as a rendezvous between the two resolutions of a name *)
(* ------------------------------------------------------------------------------------------------ *)
(* N = the resolution of the non-preferred type, P = the resolution of the preferred type, both for one
   name and each with its own upstream response (already past the question check).  applyPreferenceWait
   parks N (bounded by the Resolution Delay) until P notifies; it only changes WHEN N releases its
   response, never WHICH message: [own_only] (gen/C09_Pref.v) says that every return of applyPreferenceWait
   returns the response it was given.  The variant returns the preferred response to N when that arrived
   in time and has answers. *)
Inductive pref_order :=
| NFirstInTime      (* N's answer first; P's arrives within the delay and releases the wait *)
| NFirstTimeout     (* N's answer first; the wait times out *)
| PFirst.           (* P's answer first: nothing to wait for *)

Definition pref_release (own_only : bool) (o : pref_order) (mN mP : message) : message :=
  if own_only then mN
  else match o with
       | NFirstInTime => match m_ans mP with [] => mN | _ => mP end
       | _ => mN
       end.

(* what dialSend then does with the released message for the leader c: stamp the ID, cache under the
   request's key when cacheable, hand it to the waiters (who are served from the cache if it was stored) *)
Definition pref_reply (c : client_query) (released : message) : message :=
  match cacheable released with
  | Some e => hit_reply true c e
  | None => with_id released (cq_id c)
  end.
