(* Link C10 (controller glue) + C11, and with C01 + C02: the last open interface of the datapath composition.

   Link_C02_Kernel_EndToEnd.v keeps ONE interface hypothesis: "every live cache entry listing the destination carries
   the matcher's bitmap of the packet's domain".  C10_Ctl_Model models where those bitmaps come from: NewCache stores
   DomainBitmap = MatchDomainBitmap(fqdn) (oracle `rules : fqdn -> bitmap`), RestoreReloadCache recomputes it with the
   new generation's matcher from GetFqdn().  Proved here (ctl_bitmap_inv): after EVERY history of controller operations
   every cache entry with at least one answer carries  c_rules st (ce_fqdn e)  — the CURRENT generation's matcher
   applied to the entry's own name.  With the oracle instantiated by C11's matcher (names are numbered in C10_Ctl;
   `name_of` is that numbering) the hypothesis becomes a statement about NAMES only: every live cache entry listing
   the destination is an entry for (a name normalising to) the packet's domain. *)
From Coq Require Import List Arith NArith Bool String Lia.
From Dae Require Import C11_Spec C11_Model C11_Louds C11_Proofs C11_Layer3 C11_Props.
From Dae Require Import Link_DomainAdapter.
From Dae Require Import C01_Spec C01_Model C01_Proofs C01_Props C02_Spec C02_Model C02_Props.
From Dae Require Import C10_Spec C10_Model C10_Cache C10_CacheProps C10_Ctl_Model C10_Ctl_Proofs C10_Ctl_Props.
From Dae Require Import Link_C01_C11 Link_C02_C10 Link_C02_C10_C11 Link_C01_C02 Link_C02_Kernel_EndToEnd.
Import ListNotations.
Open Scope N_scope.

(* ---------- 1. the bitmap invariant of the controller ---------- *)
Definition binv (rules : N -> N) (c : cache) : Prop :=
  forall k e, In (k, e) c -> e_answers (ce_e e) <> [] -> e_bitmap (ce_e e) = rules (ce_fqdn e).

Definition sub (c c' : cache) : Prop := forall x, In x c' -> In x c.   (* c' keeps only entries of c *)

Lemma sub_refl c : sub c c. Proof. intros x H; exact H. Qed.
Lemma sub_trans a b c : sub a b -> sub b c -> sub a c. Proof. intros H1 H2 x H. exact (H1 x (H2 x H)). Qed.
Lemma binv_sub rules c c' : sub c c' -> binv rules c -> binv rules c'.
Proof. intros Hs Hb k e Hin. exact (Hb k e (Hs _ Hin)). Qed.

Lemma c_delete_sub c k : sub c (c_delete c k).
Proof. intros x H. unfold c_delete in H. now apply filter_In in H as [H _]. Qed.

Lemma evict_if_same_sub w k id : sub (fst w) (fst (evict_if_same w k id)).
Proof.
  unfold evict_if_same. destruct (c_load (fst w) k) as [e|]; [|apply sub_refl].
  destruct (ce_id e =? id); [apply c_delete_sub | apply sub_refl].
Qed.

Lemma fold_sub {A} (f : work -> A -> work) (l : list A) :
  (forall w a, sub (fst w) (fst (f w a))) -> forall w, sub (fst w) (fst (fold_left f l w)).
Proof.
  intros Hf. induction l as [|a l IH]; intros w; [apply sub_refl|]. cbn [fold_left].
  eapply sub_trans; [apply Hf | apply IH].
Qed.

Lemma ctl_remove_sub c k : sub c (fst (ctl_remove c k)).
Proof. unfold ctl_remove. destruct (c_load c k); [apply c_delete_sub | apply sub_refl]. Qed.

Lemma ctl_family_sub c base : sub c (fst (ctl_family c base)).
Proof.
  unfold ctl_family. refine (fold_sub _ _ _ (c, [])). intros w ke. destruct (k_base (fst ke) =? base); [apply evict_if_same_sub | apply sub_refl].
Qed.

Lemma ctl_lookup_sub c k now resync : sub c (fst (ctl_lookup c k now resync)).
Proof.
  unfold ctl_lookup. destruct (c_load c k) as [e|]; [|apply sub_refl].
  destruct (now <? ce_deadline e); [apply sub_refl | apply (evict_if_same_sub (c, []))].
Qed.

Lemma lru_loop_sub : forall victims num evicted w, sub (fst w) (fst (lru_loop victims num evicted w)).
Proof.
  induction victims as [|k r IH]; intros num evicted w; cbn [lru_loop]; [apply sub_refl|].
  destruct (num <=? evicted); [apply sub_refl|].
  destruct (c_load (fst w) k) as [e|]; [|apply IH].
  eapply sub_trans; [apply evict_if_same_sub | apply IH].
Qed.

Lemma janitor_time_pass_sub cfg c now : sub c (fst (janitor_time_pass cfg c now)).
Proof.
  unfold janitor_time_pass. cbv zeta.
  match goal with |- sub c (fst (if ?b then _ else _)) => destruct b end; [|apply sub_refl].
  refine (fold_sub _ _ _ (c, [])). intros w ke.
  match goal with |- sub _ (fst (if ?b then _ else _)) => destruct b end; [apply sub_refl | apply evict_if_same_sub].
Qed.

Lemma ctl_janitor_sub cfg c now victims : sub c (fst (ctl_janitor cfg c now victims)).
Proof.
  unfold ctl_janitor. cbv zeta. destruct (0 <? cf_max (normalize cfg)); [|apply janitor_time_pass_sub].
  eapply sub_trans; [apply janitor_time_pass_sub|]. unfold evict_lru. cbv zeta.
  match goal with |- sub _ (fst (if ?b then _ else _)) => destruct b end; [apply sub_refl | apply lru_loop_sub].
Qed.

Lemma c_store_in c k e x : In x (c_store c k e) -> In x c \/ x = (k, e).
Proof.
  unfold c_store. intro H. apply in_app_or in H as [H|[H|[]]]; [left; now apply (c_delete_sub c k) | right; now symmetry].
Qed.

Lemma ctl_insert_binv rules tick c k fqdn answers now ttl :
  binv rules c -> binv rules (fst (ctl_insert rules tick c k fqdn answers now ttl)).
Proof.
  intros Hb k' e' Hin Hne. unfold ctl_insert in Hin. cbn [fst] in Hin.
  apply c_store_in in Hin as [Hin|Heq]; [now apply (Hb k')|].
  inversion Heq; subst. cbn [ce_e e_bitmap ce_fqdn e_answers] in *. destruct answers; [congruence | reflexivity].
Qed.

(* RestoreReloadCache: every restored entry carries the NEW matcher's bitmap of its own name *)
Lemma ctl_reload_binv rules' sent tick c : binv rules' (fst (ctl_reload rules' sent tick c)).
Proof.
  unfold ctl_reload.
  assert (G : forall l w, binv rules' (fst w) ->
              binv rules' (fst (fold_left (fun w ke => let v := clone_for_reload rules' tick (snd ke) in
                                     (c_store (fst w) (fst ke) v,
                                      snd w ++ (if sent (fst ke) then access_callback v else []))) l w))).
  { induction l as [|ke l IH]; intros w Hw; [exact Hw|]. cbn [fold_left]. apply IH. cbn [fst].
    intros k e Hin Hne. apply c_store_in in Hin as [Hin|Heq]; [now apply (Hw k)|].
    inversion Heq; subst. reflexivity. }
  apply G. intros k e [].
Qed.

Lemma ctl_step_binv cfg st o : binv (c_rules st) (c_cache st) -> binv (c_rules (ctl_step cfg st o)) (c_cache (ctl_step cfg st o)).
Proof.
  intros Hb. unfold ctl_step. cbv zeta. cbn [c_cache c_rules]. destruct o; cbn [ctl_effect ef_work ef_rules].
  - now apply ctl_insert_binv.
  - exact (binv_sub _ _ _ (ctl_remove_sub _ _) Hb).
  - exact (binv_sub _ _ _ (ctl_family_sub _ _) Hb).
  - exact (binv_sub _ _ _ (evict_if_same_sub (c_cache st, []) _ _) Hb).
  - exact (binv_sub _ _ _ (ctl_lookup_sub _ _ _ _) Hb).
  - exact (binv_sub _ _ _ (ctl_janitor_sub _ _ _ _) Hb).
  - apply ctl_reload_binv.
Qed.

(* after every history (no hypothesis: reloads, lost re-sync tasks, evictions, any clock) *)
Theorem ctl_bitmap_inv : forall cfg rules ops,
  let st := ctl_run cfg rules ops in binv (c_rules st) (c_cache st).
Proof.
  intros cfg rules ops. unfold ctl_run.
  assert (G : forall ops st, binv (c_rules st) (c_cache st) ->
              binv (c_rules (fold_left (ctl_step cfg) ops st)) (c_cache (fold_left (ctl_step cfg) ops st))).
  { induction ops0 as [|o ops0 IH]; intros st Hst; [exact Hst|]. cbn [fold_left]. apply IH. now apply ctl_step_binv. }
  apply G. intros k e [].
Qed.
Print Assumptions ctl_bitmap_inv.

Lemma lists_answers_nonempty e ip : lists e ip = true -> e_answers e <> [].
Proof. unfold lists. destruct (e_answers e); [discriminate | discriminate]. Qed.

(* ---------- 2. the oracle is C11's matcher ---------- *)
(* MatchDomainBitmap of this generation's matcher on the name numbered f, as C10's N-valued bitmap *)
Definition c11_rules (name_of : N -> string) (rx : str -> str -> bool) (m : C11_Model.matcher ptrie) : N -> N :=
  fun f => of_words (c01_dm rx m (name_of f)).

(* MatchDomainBitmap depends on the raw name only through its normal form *)
Lemma c11_bitmap_normalize : forall rx m raw raw',
  C11_Spec.normalize raw = C11_Spec.normalize raw' -> c11_bitmap rx m raw = c11_bitmap rx m raw'.
Proof.
  intros rx m raw raw' H.
  assert (E : forall i, c11_match_bit rx m raw i = c11_match_bit rx m raw' i).
  { intros i. unfold c11_match_bit, match_bit.
    rewrite <- !strip_dot_trim. fold (C11_Spec.normalize raw) (C11_Spec.normalize raw'). now rewrite H. }
  unfold c11_bitmap, bitmap_words. apply map_ext. intros w. unfold word_of, word_bits.
  induction (map N.of_nat (seq 0 32)) as [|b bs IH]; [reflexivity|]. cbn [fold_right]. now rewrite E, IH.
Qed.

(* THE C10 <-> C11 INTERFACE, as a theorem: after every controller history whose current generation uses C11's matcher
   m, every live cache entry that lists an address carries MatchDomainBitmap(m, its own name) *)
Theorem Link_cache_entry_bitmap_is_matcher_bitmap :
  forall cfg rules0 ops name_of rx m,
    let st := ctl_run cfg rules0 ops in
    (forall f, c_rules st f = c11_rules name_of rx m f) ->
    forall k ce ip, c_load (c_cache st) k = Some ce -> lists (ce_e ce) ip = true ->
      e_bitmap (ce_e ce) = of_words (c01_dm rx m (name_of (ce_fqdn ce))).
Proof.
  intros cfg rules0 ops name_of rx m st Hr k ce ip Hl Hls.
  change (of_words (c01_dm rx m (name_of (ce_fqdn ce)))) with (c11_rules name_of rx m (ce_fqdn ce)). rewrite <- (Hr (ce_fqdn ce)).
  apply (ctl_bitmap_inv cfg rules0 ops k ce (c_load_in _ _ _ Hl)). exact (lists_answers_nonempty _ _ Hls).
Qed.
Print Assumptions Link_cache_entry_bitmap_is_matcher_bitmap.

(* ---------- 3. the datapath end to end, over the controller's own cache ---------- *)
(* For a well-formed program, after every history of DNS-controller operations (re-sync tasks delivered): the eBPF
   routing function over the installed generation and over the kernel table the controller maintained answers
   dns_adjust of the first-matching-rule decision, provided the cache holds the destination under the packet's name. *)
Theorem Link_kernel_end_to_end_ctl :
  forall (p : program) (b : builder) (prev : kmaps) (alloc : N) (km : kmaps)
         (rx_ok : str -> bool) (rx : str -> str -> bool) (m : C11_Model.matcher ptrie)
         (name_of : N -> string) (cfg : config) (rules0 : N -> N) (ops : list ctl_op)
         (pk : packet) (wan : bool),
    wf_program p = true -> lower_program p = Ok b ->
    kw_nonempty (c01_sets p) = true -> sets_size_ok (c01_sets p) -> sets_ok rx_ok (c01_sets p) = true ->
    c11_build rx_ok (c01_sets p) = Some m -> c01_idx_ok p = true ->
    probe_ok pk wan = true ->
    p_domain pk <> ""%string -> p_domain pk <> "."%string ->
    c01_regex_oracles_agree p rx pk ->
    Forall resync_delivered ops ->                      (* C10_ctl's own premise (bounded task queue) *)
    let st := ctl_run cfg rules0 ops in
    (forall f, c_rules st f = c11_rules name_of rx m f) ->   (* this generation's matcher is the program's *)
    (* the cache: some live entry lists the destination, and every live entry listing it is an entry for a name
       that normalises to the packet's domain *)
    (exists k ce, c_load (c_cache st) k = Some ce /\ lists (ce_e ce) (p_dst pk) = true) ->
    (forall k ce, c_load (c_cache st) k = Some ce -> lists (ce_e ce) (p_dst pk) = true ->
                  C11_Spec.normalize (bytes (name_of (ce_fqdn ce))) = C11_Spec.normalize (bytes (p_domain pk))) ->
    install prev (b_rules b) (b_tries b) alloc = Ok km ->
    kernel_decides_table prev (b_rules b) (b_tries b) alloc (kernel_domain_map (c_kmap st)) pk wan
    = Ok (Some (dns_adjust (p_dport pk) (decide p pk))).
Proof.
  intros p b prev alloc km rx_ok rx m name_of cfg rules0 ops pk wan Hwf Hl Hk Hs Ho Hb Hidx Hprobe Hne Hroot Hrx
         Hdel st Hrules Hex Hall Hinst.
  (* C10_ctl_calls_track_cache, in the form its proof carries (C10_Ctl_Proofs.ctl_run_inv: owners are key ids) *)
  destruct (ctl_run_inv cfg rules0 ops Hdel) as [[_ [_ [Hlive Howner]]] Hrun]. fold st in Hlive, Howner, Hrun.
  assert (Hmap : kernel_domain_map (c_kmap st) = tracker_domain_map (c_calls st)).
  { unfold tracker_domain_map. now rewrite <- Hrun. }
  rewrite Hmap.
  apply (Link_kernel_end_to_end p b prev alloc km rx_ok rx m (c_calls st) pk wan); try assumption.
  - destruct Hex as [k [ce [Hc Hls]]]. exists (key_id k), (ce_e ce). split; [|exact Hls].
    rewrite Hlive, Hc. reflexivity.
  - intros o e Hlo Hls.
    destruct (Howner o e Hlo) as [k ->]. rewrite Hlive in Hlo.
    destruct (c_load (c_cache st) k) as [ce|] eqn:Hc; [|discriminate]. cbn [option_map] in Hlo. inversion Hlo; subst e.
    rewrite (Link_cache_entry_bitmap_is_matcher_bitmap cfg rules0 ops name_of rx m Hrules k ce (p_dst pk) Hc Hls).
    unfold c01_dm. f_equal. apply c11_bitmap_normalize. exact (Hall k ce Hc Hls).
Qed.
Print Assumptions Link_kernel_end_to_end_ctl.

(* Non-vacuity (computed): rule `domain(suffix: b.c) -> proxy`; the controller caches the name numbered 7 = "a.B.c"
   -> ::2 and the name 8 = "x.y" -> ::3 with this generation's matcher, then reloads (same matcher, tasks delivered).
   The packet carries the sniffed name "A.b.C." to ::2: the two names normalise alike, the cache entry carries the
   matcher's bitmap of "a.B.c" = that of "A.b.C.", and the kernel routes to proxy as `decide` says; a packet to ::3
   (cached under x.y, whose bitmap is empty) falls to the fallback although it carries the name A.b.C. — the kernel
   sees the cache's name, not the sniffed one. *)
Definition ctl_name_of (f : N) : string := if f =? 7 then "a.B.c"%string else "x.y"%string.

Example Link_kernel_end_to_end_ctl_nonvacuous :
  let p := lk_prog 2 DSuffix "b.c" in
  let cfg := {| cf_optimistic := false; cf_opt_ttl := 0; cf_max := 0 |} in
  C11_Spec.normalize (bytes "a.B.c") = C11_Spec.normalize (bytes "A.b.C.") /\
  decide p (e2e_pk 2) = (2, 0, false) /\
  exists b, lower_program p = Ok b /\
    exists m, c11_build lk_rx_ok (c01_sets p) = Some m /\
      let rules := c11_rules ctl_name_of lk_rx m in
      let ops := [ OInsert (response_cache_key 1 0) 7 [(false, 2)] 100 60;
                   OInsert (response_cache_key 2 0) 8 [(false, 3)] 101 60;
                   OReload rules (fun _ => true) ] in
      let st := ctl_run cfg rules ops in
      map (fun ke => e_bitmap (ce_e (snd ke))) (c_cache st) = [rules 7; rules 8] /\
      rules 7 <> 0 /\ rules 8 = 0 /\
      kernel_decides_table empty_kmaps (b_rules b) (b_tries b) 0 (kernel_domain_map (c_kmap st)) (e2e_pk 2) false
      = Ok (Some (2, 0, false)) /\
      kernel_decides_table empty_kmaps (b_rules b) (b_tries b) 0 (kernel_domain_map (c_kmap st)) (e2e_pk 3) false
      = Ok (Some (0, 0, false)).
Proof.
  cbv zeta. split; [vm_compute; reflexivity|]. split; [vm_compute; reflexivity|].
  eexists. split; [vm_compute; reflexivity|].
  apply with_build. vm_compute. repeat split; try reflexivity. discriminate.
Qed.

(* DISCHARGED: the last interface hypothesis of Link_C02_Kernel_EndToEnd ("every live cache entry listing the
     destination carries the matcher's bitmap of the packet's domain") is reduced, through C10_Ctl's model of
     NewCache / RestoreReloadCache (ctl_bitmap_inv, proved here for EVERY controller history) and
     C10_ctl_calls_track_cache (used in the form C10_Ctl_Proofs.ctl_run_inv, which also says that every live owner is
     a key id), to a statement about NAMES: every live cache entry listing the destination was cached for a name that
     normalises to the packet's domain, and there is one.
   REMAINING besides Link_kernel_end_to_end's other premises: `Forall resync_delivered ops` (C10_ctl's own: a re-sync
     task lost to the full queue leaves the kernel without the entry, C10_ctl_mirror_full_refuted); "this generation's
     rule oracle IS the program's matcher" (C10_Ctl takes `rules` as an oracle; that the controller's matchDomainBitmap
     is the routing matcher built from the same program is configuration wiring no property models); the numbering
     `name_of` of names is C10_Ctl's abstraction of strings.  What no property can discharge: that the DNS cache holds
     the destination under the packet's name at all (it depends on the client's DNS traffic). *)
