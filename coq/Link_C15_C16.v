(* Link C15 + C16 — the alive set a dialer group selects from IS the set of nodes C16's health model holds alive.

   C16 (health) proves, per node and network type, which alive / not-alive EDGES the connectivity checker reports
   (C16_edge_triggered: the callback log of every event is a walk of actual flips from the flags before to the
   flags after; after a reload relative to the fresh generation's all-alive dialers).  C15 (selection) proves, for
   ANY history of notifications, that a group's alive set of a type is the spec's VIEW of that history
   (C15_index_consistent) and that fixed / random / min-latency selections are judged correctly against the views
   (C15_select_random_ok, C15_select_min, C15_select_complete, C15_best_is_alive).  Neither development says that
   the view a group ends up with is the set of nodes that ARE alive.  This file composes them.

   The edges C16's model emits since the current generation of groups was created (= since the last reload) are
   replayed, per group, into C15's bookkeeping (`replay`: edge (n, d, b) of a member -> OAlive pos (nt d) b; ONotify
   pos (nt d) b), with arbitrary latency updates, run-time policy switches and truthful re-notifications
   (`extra`) in between.  Then, after ANY C16 history (reloads, suppression, forced reports, escalation included):
     Link_view_is_C16_alive         the C15 view of every type = {members C16 holds alive for it}
     Link_store_flags_are_C16       the members' own flags in C15's store = C16's flags
     Link_cands_are_C16_alive       the candidates of a selection = C16-alive non-excluded members
     Link_alive_set_is_C16_alive    aliveEntries / dialerToIndex of the C15 model of the Go set = the same set
     Link_sets_agree_three_way      ... = C16's own alive set of that group (C16_groups_agree), through pos_of / node_at
     Link_serving_type_C16          the type that serves a selection = first type of the documented chain (data-UDP ->
                                    DNS-UDP -> TCP, then the other family) with a C16-alive non-excluded member
     Link_select_never_dead         random / min-latency: a selected node is C16-alive for the serving type, not excluded
     Link_select_random_every_alive random: every C16-alive non-excluded member of the serving type can be selected
     Link_select_no_alive_iff       random / min: `no alive node` iff C16 holds no non-excluded member alive on the chain
     Link_best_is_C16_alive         min-latency: the standing choice is C16-alive; exists whenever a member is alive
     Link_best_iff_connectivity_bit min-latency: standing choice exists iff C16's kernel connectivity bit is 1
   Corners where "never selects a dead node" is FALSE are witnesses (vm_compute), and the matching condition is a
   named hypothesis of the theorems above:
     Link_fixed_selects_dead_witness        (hypothesis g_policy G = GSet _ : the `fixed` policy ignores health)
     Link_last_resort_selects_dead_witness  (no_last_resort: one-node group, strict caller)
     Link_duplicate_member_witness          (members_distinct: position vs identity)
     Link_untruthful_notification_witness   (extras_truthful)
     Link_reload_no_alive_witness           (no hypothesis: the models agree; the OPEN C16 finding
                                             reload-leaves-group-without-alive-member reaches selection as `no alive node`)

   Representations.  C16: node = N (global id), type = dom (6 constructors), group = member list (node, offset).
   C15: dialer = nat (position in DialerGroup.Dialers), type = ntype = dom * ipv, cfg = (n, offsets, tolerance).
   Adapters: nt / dom_of (types; inverse, same enumeration order and same fallback chains: nt_standard_order,
   nt_chain, nt_other_ver), pos_of / node_at (identities; inverse on a group without repeated members:
   pos_of_node_at, node_at_eq_iff), cfg15 / group_cfg (configuration; offset_adapter), pol_matches (policies),
   edge_ops / log_ops / replay / group_replay (notifications), last_generation (cut at the last reload).
   Existing theorems are USED, not restated: C16_edge_triggered, C16_groups_agree, C16_connectivity_bit,
   C16_reload_floor_refuted (C16_Props.v); C15_index_consistent, C15_select_random_ok, C15_select_min,
   C15_select_complete, C15_best_is_alive (C15_Props.v).  From Proofs files only: m_run_snoc, m_init_health (C16);
   view_mem_in, view_remove_fst, idx_ok_in, ntype_eqb_eq, find_app', and — for Link_select_random_every_alive,
   because C15_Props.v has no statement that the random selection reaches EVERY candidate — select_rand_spec,
   chain_selection_types (C15). *)
From Coq Require Import List ZArith NArith Bool Arith Lia.
From Dae Require Import C15_Spec C15_Model C15_Proofs C15_Props.
From Dae Require C16_Spec C16_Model C16_Proofs C16_ProofsEdges C16_ProofsHealth.
From Dae Require Import C16_Props.
From Dae.gen Require C16_Consts.
Import ListNotations.

Module H := C16_Spec.
Module HM := C16_Model.
Module HP := C16_Proofs.

(* ------------------------------------------------------------------------------------------------ *)
(* Part 1: adapters                                                                                   *)
(* ------------------------------------------------------------------------------------------------ *)

(* network types *)
Definition nt (d : H.dom) : ntype :=
  match d with
  | H.Tcp4 => (DTcp, V4) | H.Tcp6 => (DTcp, V6)
  | H.DnsUdp4 => (DDnsUdp, V4) | H.DnsUdp6 => (DDnsUdp, V6)
  | H.DataUdp4 => (DDataUdp, V4) | H.DataUdp6 => (DDataUdp, V6)
  end.
Definition dom_of (t : ntype) : H.dom :=
  match t with
  | (DTcp, V4) => H.Tcp4 | (DTcp, V6) => H.Tcp6
  | (DDnsUdp, V4) => H.DnsUdp4 | (DDnsUdp, V6) => H.DnsUdp6
  | (DDataUdp, V4) => H.DataUdp4 | (DDataUdp, V6) => H.DataUdp6
  end.

Lemma dom_of_nt : forall d, dom_of (nt d) = d.
Proof. destruct d; reflexivity. Qed.
Lemma nt_dom_of : forall t, nt (dom_of t) = t.
Proof. intros [[] []]; reflexivity. Qed.
Lemma nt_eqb : forall a b, ntype_eqb (nt a) (nt b) = H.dom_eqb a b.
Proof. destruct a, b; reflexivity. Qed.
Lemma nt_eqb_dom_of : forall t d, ntype_eqb t (nt d) = H.dom_eqb (dom_of t) d.
Proof. intros t d. rewrite <- (nt_dom_of t) at 1. apply nt_eqb. Qed.
(* the orders in which the two developments enumerate / try the types are the same *)
Lemma nt_standard_order : map nt C16_Consts.standard_order = all_types.
Proof. reflexivity. Qed.
Lemma nt_chain : forall d, map nt (HM.sel_chain d) = chain (nt d).
Proof. destruct d; reflexivity. Qed.
Lemma nt_other_ver : forall d, nt (HM.other_ver d) = flip_t (nt d).
Proof. destruct d; reflexivity. Qed.

(* dialer identities: C16 names a node by its global number, C15 by its position in the group *)
Fixpoint pos_of (n : N) (ms : list (N * Z)) : option nat :=
  match ms with
  | [] => None
  | m :: r => if N.eqb (fst m) n then Some O else option_map S (pos_of n r)
  end.
Definition node_at (ms : list (N * Z)) (k : nat) : N := fst (nth k ms (0%N, 0%Z)).

Lemma pos_of_some : forall n ms k, pos_of n ms = Some k -> (k < length ms)%nat /\ node_at ms k = n.
Proof.
  intros n ms. induction ms as [|m r IH]; intros k Hk; cbn [pos_of] in Hk; [discriminate|].
  destruct (N.eqb (fst m) n) eqn:E.
  - injection Hk as <-. apply N.eqb_eq in E. split; [cbn; lia | exact E].
  - destruct (pos_of n r) as [j|]; [|discriminate]. injection Hk as <-.
    destruct (IH j eq_refl) as [A B]. split; [cbn; lia | exact B].
Qed.

Lemma pos_of_none : forall n ms, pos_of n ms = None -> ~ In n (map fst ms).
Proof.
  intros n ms. induction ms as [|m r IH]; intros Hk; cbn [pos_of] in Hk; [intros []|].
  destruct (N.eqb (fst m) n) eqn:E; [discriminate|].
  destruct (pos_of n r); [discriminate|]. apply N.eqb_neq in E.
  cbn [map In]. intros [A|A]; [contradiction | exact (IH eq_refl A)].
Qed.

Lemma node_at_in : forall ms k, (k < length ms)%nat -> In (node_at ms k) (map fst ms).
Proof. intros ms k Hk. unfold node_at. apply in_map. apply nth_In. exact Hk. Qed.

Lemma pos_of_node_at : forall ms k, NoDup (map fst ms) -> (k < length ms)%nat -> pos_of (node_at ms k) ms = Some k.
Proof.
  induction ms as [|m r IH]; intros k Hnd Hk; [cbn in Hk; lia|].
  cbn [map] in Hnd. inversion Hnd as [|x l Hnin Hnd']; subst.
  destruct k as [|k]; unfold node_at; cbn [pos_of nth].
  - now rewrite N.eqb_refl.
  - assert (Hk' : (k < length r)%nat) by (cbn in Hk; lia).
    destruct (N.eqb (fst m) (fst (nth k r (0%N, 0%Z)))) eqn:E.
    + apply N.eqb_eq in E. exfalso. apply Hnin. rewrite E. exact (node_at_in r k Hk').
    + pose proof (IH k Hnd' Hk') as P. unfold node_at in P. rewrite P. reflexivity.
Qed.

(* positions and nodes are inverse on a group without repeated members *)
Lemma node_at_eq_iff : forall ms n k j, NoDup (map fst ms) -> pos_of n ms = Some k -> (j < length ms)%nat ->
  (node_at ms j = n <-> j = k).
Proof.
  intros ms n k j Hnd Hp Hj. split.
  - intros E. pose proof (pos_of_node_at ms j Hnd Hj) as P. rewrite E, Hp in P. congruence.
  - intros ->. exact (proj2 (pos_of_some n ms k Hp)).
Qed.

(* the C15 configuration of a C16 group *)
Definition cfg15 (tol : Z) (ms : list (N * Z)) : cfg :=
  {| c_n := length ms; c_off := fun k => snd (nth k ms (0%N, 0%Z)); c_tol := tol |}.

(* the offset C16's alive sets add for node n is the offset C15 adds for its position *)
Lemma offset_adapter : forall g n k tol, pos_of n (H.g_members g) = Some k ->
  HM.offset_of g n = c_off (cfg15 tol (H.g_members g)) k.
Proof.
  intros g n k tol. unfold HM.offset_of, cfg15; cbn [c_off]. generalize (H.g_members g). intros ms. revert k.
  induction ms as [|m r IH]; intros k Hk; cbn [pos_of] in Hk; [discriminate|].
  cbn [find]. destruct (N.eqb (fst m) n) eqn:E.
  - injection Hk as <-. reflexivity.
  - destruct (pos_of n r) as [j|]; [|discriminate]. injection Hk as <-. cbn [nth]. exact (IH j eq_refl).
Qed.

(* policies: C16 only distinguishes latency / random / fixed *)
Definition pol_matches (p16 : H.policy) (p : gpol) : Prop :=
  match p16, p with
  | H.PMin, GSet (SMin _) => True
  | H.PRandom, GSet SRandom => True
  | H.PFixed, GFixed _ => True
  | _, _ => False
  end.
Lemma pol_matches_keeps_sets : forall g p, pol_matches (H.g_policy g) p ->
  (H.keeps_sets g = true <-> exists sp, p = GSet sp).
Proof.
  intros g p. unfold H.keeps_sets, pol_matches. destruct (H.g_policy g); destruct p as [i|[|m]]; intros Hm; try contradiction;
  split; intros X; try reflexivity; try discriminate; try (eexists; reflexivity); destruct X as [sp X]; discriminate.
Qed.

(* ------------------------------------------------------------------------------------------------ *)
(* Part 2: replaying C16's edges into C15                                                             *)
(* ------------------------------------------------------------------------------------------------ *)

(* one edge (node, type, now alive?) as the group sees it: the member's own flag changes (OAlive) and the group's
   set of that type is told (ONotify, = informDialerGroupUpdate -> NotifyLatencyChange); edges of nodes outside the
   group do not reach it *)
Definition edge_ops (ms : list (N * Z)) (e : N * H.dom * bool) : list op :=
  match pos_of (fst (fst e)) ms with
  | Some k => [OAlive k (nt (snd (fst e))) (snd e); ONotify k (nt (snd (fst e))) (snd e)]
  | None => []
  end.
Definition log_ops (ms : list (N * Z)) (l : H.tlog) : list op := flat_map (edge_ops ms) l.

(* what may happen on the C15 side between two C16 events without touching health: new latency samples, a
   run-time policy switch (neutral), and TRUTHFUL re-notifications: informDialerGroupUpdate is called after every
   check result, not only on edges; a call that is not an edge repeats the member's current flag F (and makes the
   set re-read the member's latency) *)
Definition neutral (o : op) : bool := match o with OLat _ _ _ | OPolicy _ => true | _ => false end.
Definition ok_extra (ms : list (N * Z)) (F : N -> H.dom -> bool) (o : op) : bool :=
  match o with
  | OLat _ _ _ | OPolicy _ => true
  | OAlive k t b | ONotify k t b => Nat.ltb k (length ms) && Bool.eqb b (F (node_at ms k) (dom_of t))
  end.

(* the events of the current generation, from model state m on; extra i = the health-neutral C15 events that
   precede the i-th of them *)
Fixpoint replay_st (c16 : H.config) (ms : list (N * Z)) (extra : nat -> list op) (m : HM.mstate) (h : list H.ev) (i : nat)
  : list op :=
  match h with
  | [] => extra i
  | e :: r => let m' := HM.m_step c16 m e in
              extra i ++ log_ops ms (HM.m_tlog m') ++ replay_st c16 ms extra m' r (S i)
  end.

(* a reload creates the groups anew (fresh, all-alive dialers; NewDialerGroup), then hands health over: the
   history is cut at its last reload; `cut pre cur h`: pre ++ cur already seen, cur = the current generation *)
Fixpoint cut (pre cur h : list H.ev) : list H.ev * list H.ev :=
  match h with
  | [] => (pre, cur)
  | e :: r => if HP.no_reload e then cut pre (cur ++ [e]) r else cut (pre ++ cur) [e] r
  end.
Definition last_generation (h : list H.ev) : list H.ev * list H.ev := cut [] [] h.

Definition replay (c16 : H.config) (ms : list (N * Z)) (extra : nat -> list op) (h : list H.ev) : list op :=
  let '(pre, gen) := last_generation h in replay_st c16 ms extra (HM.m_run c16 pre) gen 0.

(* the extras are admissible: extra 0 against the all-alive flags of the fresh generation, extra (i+1) against the
   C16 flags after the i-th event of the generation *)
Fixpoint rest_ok (c16 : H.config) (ms : list (N * Z)) (extra : nat -> list op) (m : HM.mstate) (h : list H.ev) (i : nat) : bool :=
  match h with
  | [] => true
  | e :: r => let m' := HM.m_step c16 m e in
              forallb (ok_extra ms (fun n d => HM.d_alive (HM.m_d m' n) d)) (extra (S i)) && rest_ok c16 ms extra m' r (S i)
  end.
Definition extras_ok (c16 : H.config) (ms : list (N * Z)) (extra : nat -> list op) (h : list H.ev) : bool :=
  let '(pre, gen) := last_generation h in
  forallb (ok_extra ms (fun _ _ => true)) (extra 0%nat) && rest_ok c16 ms extra (HM.m_run c16 pre) gen 0.

Definition gen_shape (pre gen : list H.ev) : Prop :=
  (pre = [] /\ Forall (fun e => HP.no_reload e = true) gen)
  \/ (exists l suf, gen = H.EReload l :: suf /\ Forall (fun e => HP.no_reload e = true) suf).

Lemma cut_spec : forall h pre cur p g, cut pre cur h = (p, g) -> gen_shape pre cur ->
  pre ++ cur ++ h = p ++ g /\ gen_shape p g.
Proof.
  induction h as [|e r IH]; intros pre cur p g Hc Hs; cbn [cut] in Hc.
  - injection Hc as <- <-. rewrite app_nil_r. split; [reflexivity | exact Hs].
  - destruct (HP.no_reload e) eqn:En.
    + destruct (IH _ _ _ _ Hc) as [A B].
      * destruct Hs as [[-> F]|[l [suf [-> F]]]]; [left | right].
        -- split; [reflexivity|]. apply Forall_app. split; [exact F | constructor; [exact En | constructor]].
        -- exists l, (suf ++ [e]). split; [reflexivity|]. apply Forall_app. split; [exact F | constructor; [exact En | constructor]].
      * split; [|exact B]. rewrite <- A. rewrite <- !app_assoc. reflexivity.
    + destruct (IH _ _ _ _ Hc) as [A B].
      * right. destruct e; try discriminate. eexists _, []. split; [reflexivity | constructor].
      * split; [|exact B]. rewrite <- A. rewrite <- !app_assoc. reflexivity.
Qed.

Lemma last_generation_spec : forall h p g, last_generation h = (p, g) -> h = p ++ g /\ gen_shape p g.
Proof.
  intros h p g Hc. destruct (cut_spec h [] [] p g Hc) as [A B]; [left; split; [reflexivity | constructor]|].
  split; [exact A | exact B].
Qed.

(* ------------------------------------------------------------------------------------------------ *)
(* Part 3: C15 side — what a view contains, as a function of the notifications (lemmas about C15_Spec) *)
(* ------------------------------------------------------------------------------------------------ *)

Lemma view_mem_app : forall k v w, view_mem k (v ++ w) = view_mem k v || view_mem k w.
Proof. intros. unfold view_mem. apply existsb_app. Qed.

Lemma view_mem_set : forall k d m v, view_mem k (view_set d m v) = view_mem k v.
Proof.
  intros k d m v. unfold view_mem, view_set. induction v as [|x r IH]; [reflexivity|].
  cbn [map existsb]. rewrite IH. destruct (Nat.eqb (fst x) d) eqn:E; [|reflexivity].
  apply Nat.eqb_eq in E. cbn [fst]. now rewrite E.
Qed.

Lemma view_mem_remove : forall k d v, view_mem k (view_remove d v) = if Nat.eqb k d then false else view_mem k v.
Proof.
  intros k d v. unfold view_mem, view_remove. induction v as [|x r IH]; cbn [filter existsb].
  - now destruct (Nat.eqb k d).
  - destruct (Nat.eqb (fst x) d) eqn:E; cbn [negb existsb]; rewrite IH.
    + apply Nat.eqb_eq in E. rewrite E. rewrite (Nat.eqb_sym d k). now destruct (Nat.eqb k d).
    + destruct (Nat.eqb k d) eqn:E2; [|reflexivity]. apply Nat.eqb_eq in E2. subst k. now rewrite E.
Qed.

Lemma view_notify_mem : forall c p st t d b v k,
  view_mem k (view_notify c p st t d b v) = if Nat.eqb k d then b else view_mem k v.
Proof.
  intros c p st t d b v k. unfold view_notify. destruct b; [|apply view_mem_remove].
  assert (A : view_mem k (if view_mem d v then v else v ++ [(d, None)]) = if Nat.eqb k d then true else view_mem k v).
  { destruct (view_mem d v) eqn:E.
    - destruct (Nat.eqb k d) eqn:E2; [|reflexivity]. apply Nat.eqb_eq in E2. now subst k.
    - rewrite view_mem_app. unfold view_mem at 2. cbn [existsb fst]. rewrite Bool.orb_false_r, (Nat.eqb_sym d k).
      destruct (Nat.eqb k d) eqn:E2; [apply Bool.orb_true_r | apply Bool.orb_false_r]. }
  destruct (lat_of p (st_lat st d t)); [rewrite view_mem_set|]; exact A.
Qed.

Lemma view_repolicy_mem : forall c p st t v k, view_mem k (view_repolicy c p st t v) = view_mem k v.
Proof.
  intros c p st t v k. unfold view_mem, view_repolicy. induction v as [|x r IH]; [reflexivity|].
  cbn [map existsb fst]. now rewrite IH.
Qed.

Lemma view_build_fold_mem : forall c p st t ds v k,
  view_mem k (fold_left (fun v d => view_notify c p st t d (st_alive st d t) v) ds v)
  = if existsb (Nat.eqb k) ds then st_alive st k t else view_mem k v.
Proof.
  intros c p st t ds. induction ds as [|d r IH]; intros v k; cbn [fold_left existsb]; [reflexivity|].
  rewrite IH, view_notify_mem. destruct (Nat.eqb k d) eqn:E; cbn [orb].
  - apply Nat.eqb_eq in E. subst d. now destruct (existsb (Nat.eqb k) r).
  - reflexivity.
Qed.

Lemma existsb_seq : forall k n, existsb (Nat.eqb k) (seq 0 n) = Nat.ltb k n.
Proof.
  intros k n. destruct (Nat.ltb k n) eqn:E.
  - apply existsb_exists. exists k. split; [apply in_seq; apply Nat.ltb_lt in E; lia | apply Nat.eqb_refl].
  - destruct (existsb (Nat.eqb k) (seq 0 n)) eqn:E2; [|reflexivity].
    apply existsb_exists in E2. destruct E2 as [x [Hin Hx]]. apply Nat.eqb_eq in Hx. subst x.
    apply in_seq in Hin. apply Nat.ltb_ge in E. lia.
Qed.

Lemma view_build_mem : forall c p st t k,
  view_mem k (view_build c p st t) = Nat.ltb k (c_n c) && st_alive st k t.
Proof.
  intros. unfold view_build. rewrite view_build_fold_mem, existsb_seq. now destruct (Nat.ltb k (c_n c)).
Qed.

(* the link invariant: the members' own flags in the C15 store, and (when the group keeps sets) the membership
   of every view, are the C16 flags F read through the adapters *)
Definition wr16 (F : N -> H.dom -> bool) (n : N) (d : H.dom) (b : bool) : N -> H.dom -> bool :=
  fun n' d' => if N.eqb n' n && H.dom_eqb d' d then b else F n' d'.

Definition Inv15 (ms : list (N * Z)) (F : N -> H.dom -> bool) (s : sstate) : Prop :=
  (forall k t, (k < length ms)%nat -> st_alive (ss_store s) k t = F (node_at ms k) (dom_of t)) /\
  (forall p, ss_policy s = GSet p -> forall t k,
     view_mem k (ss_views s t) = Nat.ltb k (length ms) && F (node_at ms k) (dom_of t)).

Lemma Inv15_ext : forall ms F F' s, (forall n d, F' n d = F n d) -> Inv15 ms F s -> Inv15 ms F' s.
Proof.
  intros ms F F' s E [A B]. split.
  - intros k t Hk. rewrite E. now apply A.
  - intros p Hp t k. rewrite E. exact (B p Hp t k).
Qed.

Lemma Inv15_init : forall tol ms p0, Inv15 ms (fun _ _ => true) (spec_init (cfg15 tol ms) p0).
Proof.
  intros tol ms p0. split.
  - intros k t _. reflexivity.
  - intros p Hp t k. unfold spec_init in *. cbn [ss_policy] in Hp. subst p0. cbn [ss_views].
    rewrite view_build_mem. reflexivity.
Qed.

Lemma ok_extra_ext : forall ms F F' l, (forall n d, F' n d = F n d) ->
  forallb (ok_extra ms F) l = true -> forallb (ok_extra ms F') l = true.
Proof.
  intros ms F F' l E Hl. rewrite forallb_forall in *. intros o Ho. specialize (Hl o Ho).
  destruct o; cbn [ok_extra] in *; try exact Hl; now rewrite E.
Qed.

Lemma Inv15_extra : forall tol ms F s o, ok_extra ms F o = true -> Inv15 ms F s -> Inv15 ms F (spec_step (cfg15 tol ms) s o).
Proof.
  intros tol ms F s o Hn [A B]. destruct o as [d t l|d t b|d t b|np]; cbn [ok_extra] in Hn.
  - split; [exact A | exact B].
  - apply Bool.andb_true_iff in Hn. destruct Hn as [Hd Hb]. apply Nat.ltb_lt in Hd. apply Bool.eqb_prop in Hb.
    split; [|exact B]. intros k t' Hk. cbn [spec_step ss_store st_alive]. unfold upd2.
    destruct (Nat.eqb k d && ntype_eqb t' t) eqn:E; [|now apply A].
    apply Bool.andb_true_iff in E. destruct E as [E1 E2]. apply Nat.eqb_eq in E1. apply ntype_eqb_eq in E2. now subst.
  - apply Bool.andb_true_iff in Hn. destruct Hn as [Hd Hb]. apply Bool.eqb_prop in Hb.
    cbn [spec_step]. destruct (ss_policy s) as [i|p] eqn:Ep; [split; [exact A | intros q Hq; congruence]|].
    split; [exact A|]. cbn [ss_policy ss_views]. intros q Hq t' k.
    destruct (ntype_eqb t' t) eqn:Et; [|exact (B p eq_refl t' k)].
    apply ntype_eqb_eq in Et. subst t'. rewrite view_notify_mem.
    destruct (Nat.eqb k d) eqn:Ek; [|exact (B p eq_refl t k)].
    apply Nat.eqb_eq in Ek. subst k. rewrite Hd. exact Hb.
  - cbn [spec_step]. destruct (ss_policy s) as [i|p] eqn:Ep; destruct np as [i'|p'].
    + split; [exact A | intros q Hq; discriminate].
    + split; [exact A|]. cbn [ss_policy ss_views]. intros q Hq t k. rewrite view_build_mem. cbn [cfg15 c_n].
      destruct (Nat.ltb k (length ms)) eqn:E; [|reflexivity]. cbn [andb]. apply A. now apply Nat.ltb_lt.
    + split; [exact A | intros q Hq; discriminate].
    + split; [exact A|]. cbn [ss_policy ss_views]. intros q Hq t k.
      destruct (spol_eqb p p'); [|rewrite view_repolicy_mem]; exact (B p eq_refl t k).
Qed.

Lemma Inv15_extras : forall tol ms F l s, forallb (ok_extra ms F) l = true -> Inv15 ms F s ->
  Inv15 ms F (fold_left (spec_step (cfg15 tol ms)) l s).
Proof.
  intros tol ms F l. induction l as [|o r IH]; intros s Hf Hi; cbn [fold_left]; [exact Hi|].
  cbn [forallb] in Hf. apply Bool.andb_true_iff in Hf. destruct Hf as [Ho Hr].
  apply IH; [assumption|]. now apply Inv15_extra.
Qed.

(* one edge *)
Lemma Inv15_edge : forall tol ms F s n d b, NoDup (map fst ms) -> Inv15 ms F s ->
  Inv15 ms (wr16 F n d b) (fold_left (spec_step (cfg15 tol ms)) (edge_ops ms (n, d, b)) s).
Proof.
  intros tol ms F s n d b Hnd [A B]. unfold edge_ops. cbn [fst snd].
  destruct (pos_of n ms) as [k|] eqn:Ep.
  - destruct (pos_of_some n ms k Ep) as [Hk Hnode].
    assert (Hhit : forall j t, (j < length ms)%nat ->
              (Nat.eqb j k && ntype_eqb t (nt d)) = (N.eqb (node_at ms j) n && H.dom_eqb (dom_of t) d)).
    { intros j t Hj. rewrite nt_eqb_dom_of. f_equal.
      destruct (Nat.eqb j k) eqn:E1; destruct (N.eqb (node_at ms j) n) eqn:E2; try reflexivity.
      - apply Nat.eqb_eq in E1. apply N.eqb_neq in E2. exfalso. apply E2. now apply (node_at_eq_iff ms n k j Hnd Ep Hj).
      - apply Nat.eqb_neq in E1. apply N.eqb_eq in E2. exfalso. apply E1. now apply (node_at_eq_iff ms n k j Hnd Ep Hj). }
    cbn [fold_left spec_step ss_store ss_policy ss_views st_alive st_lat]. split.
    + intros j t Hj.
      assert (St : st_alive (ss_store (match ss_policy s with
                     | GFixed _ => {| ss_store := {| st_lat := st_lat (ss_store s); st_alive := upd2 (st_alive (ss_store s)) k (nt d) b |};
                                      ss_policy := ss_policy s; ss_views := ss_views s |}
                     | GSet p => {| ss_store := {| st_lat := st_lat (ss_store s); st_alive := upd2 (st_alive (ss_store s)) k (nt d) b |};
                                    ss_policy := ss_policy s;
                                    ss_views := fun t' => if ntype_eqb t' (nt d)
                                                          then view_notify (cfg15 tol ms) p {| st_lat := st_lat (ss_store s); st_alive := upd2 (st_alive (ss_store s)) k (nt d) b |} (nt d) k b (ss_views s (nt d))
                                                          else ss_views s t' |} end)) j t
                   = upd2 (st_alive (ss_store s)) k (nt d) b j t) by (destruct (ss_policy s); reflexivity).
      rewrite St. unfold upd2, wr16. rewrite (Hhit j t Hj).
      destruct (N.eqb (node_at ms j) n && H.dom_eqb (dom_of t) d); [reflexivity | now apply A].
    + intros p Hp t j. destruct (ss_policy s) as [i|q] eqn:Eq; cbn [ss_policy] in Hp; [discriminate|].
      cbn [ss_views]. unfold wr16.
      destruct (Nat.ltb j (length ms)) eqn:Ej.
      * apply Nat.ltb_lt in Ej. rewrite <- (Hhit j t Ej). cbn [andb].
        destruct (ntype_eqb t (nt d)) eqn:Et.
        -- apply ntype_eqb_eq in Et. subst t. rewrite view_notify_mem, Bool.andb_true_r.
           destruct (Nat.eqb j k); [reflexivity|]. rewrite (B q eq_refl (nt d) j).
           apply Nat.ltb_lt in Ej. now rewrite Ej.
        -- rewrite Bool.andb_false_r. rewrite (B q eq_refl t j). apply Nat.ltb_lt in Ej. now rewrite Ej.
      * cbn [andb]. destruct (ntype_eqb t (nt d)) eqn:Et.
        -- apply ntype_eqb_eq in Et. subst t. rewrite view_notify_mem.
           destruct (Nat.eqb j k) eqn:Ejk; [apply Nat.eqb_eq in Ejk; apply Nat.ltb_ge in Ej; lia|].
           rewrite (B q eq_refl (nt d) j), Ej. reflexivity.
        -- rewrite (B q eq_refl t j), Ej. reflexivity.
  - cbn [fold_left]. pose proof (pos_of_none n ms Ep) as Hnin.
    assert (Hmiss : forall j, (j < length ms)%nat -> N.eqb (node_at ms j) n = false).
    { intros j Hj. apply N.eqb_neq. intros E. apply Hnin. rewrite <- E. now apply node_at_in. }
    split.
    + intros j t Hj. unfold wr16. rewrite (Hmiss j Hj). cbn [andb]. now apply A.
    + intros p Hp t j. unfold wr16. destruct (Nat.ltb j (length ms)) eqn:Ej.
      * rewrite (Hmiss j (proj1 (Nat.ltb_lt _ _) Ej)). cbn [andb]. rewrite (B p Hp t j), Ej. reflexivity.
      * rewrite (B p Hp t j), Ej. reflexivity.
Qed.

Fixpoint apply_log (F : N -> H.dom -> bool) (l : H.tlog) : N -> H.dom -> bool :=
  match l with
  | [] => F
  | e :: r => apply_log (wr16 F (fst (fst e)) (snd (fst e)) (snd e)) r
  end.

Lemma Inv15_log : forall tol ms l F s, NoDup (map fst ms) -> Inv15 ms F s ->
  Inv15 ms (apply_log F l) (fold_left (spec_step (cfg15 tol ms)) (log_ops ms l) s).
Proof.
  intros tol ms l. induction l as [|[[n d] b] r IH]; intros F s Hnd Hi; cbn [log_ops flat_map fold_left apply_log]; [exact Hi|].
  rewrite fold_left_app. apply IH; [exact Hnd|]. cbn [fst snd]. now apply Inv15_edge.
Qed.

(* a valid C16 callback log ends in the flags obtained by applying its entries *)
Lemma walk_apply : forall l F f, HP.walk_log F l = Some f -> f = apply_log F l.
Proof.
  induction l as [|[[n d] b] r IH]; intros F f Hw; cbn [HP.walk_log apply_log] in *.
  - now injection Hw as <-.
  - destruct (Bool.eqb (F n d) b); [discriminate|]. exact (IH _ _ Hw).
Qed.

Lemma valid_log_apply : forall a0 l a1, HP.valid_log a0 l a1 -> forall n d, apply_log a0 l n d = a1 n d.
Proof. intros a0 l a1 [f [Hw Hf]] n d. rewrite <- (walk_apply l a0 f Hw). apply Hf. Qed.

(* ------------------------------------------------------------------------------------------------ *)
(* Part 4: the composition                                                                            *)
(* ------------------------------------------------------------------------------------------------ *)

(* interface conditions that REMAIN (each has a witness in Part 6 showing it cannot be dropped) *)
Definition members_distinct (g : H.group) : Prop := NoDup (map fst (H.g_members g)).
Definition extras_neutral (extra : nat -> list op) : Prop := forall i, Forall (fun o => neutral o = true) (extra i).
Definition extras_truthful (c16 : H.config) (g : H.group) (extra : nat -> list op) (h : list H.ev) : Prop :=
  extras_ok c16 (H.g_members g) extra h = true.
Definition no_last_resort (c : cfg) (strict : bool) : Prop := Nat.eqb (c_n c) 1 && strict = false.

Definition group_cfg (c16 : H.config) (g : H.group) : cfg := cfg15 (H.c_tol c16) (H.g_members g).
Definition group_replay (c16 : H.config) (g : H.group) (extra : nat -> list op) (h : list H.ev) : list op :=
  replay c16 (H.g_members g) extra h.
Definition alive16 (c16 : H.config) (h : list H.ev) (g : H.group) (k : nat) (t : ntype) : bool :=
  HM.model_alive c16 h (node_at (H.g_members g) k) (dom_of t).

Lemma model_alive_nil : forall c16 n d, HM.model_alive c16 [] n d = true.
Proof.
  intros. unfold HM.model_alive, HM.m_run. cbn [fold_left].
  destruct (C16_ProofsHealth.m_init_health c16) as [E _]. rewrite E. reflexivity.
Qed.

Lemma replay_st_inv : forall tol c16 ms extra gen hp i s,
  NoDup (map fst ms) ->
  Forall (fun e => HP.no_reload e = true) gen ->
  Inv15 ms (HM.model_alive c16 hp) s ->
  forallb (ok_extra ms (HM.model_alive c16 hp)) (extra i) = true ->
  rest_ok c16 ms extra (HM.m_run c16 hp) gen i = true ->
  Inv15 ms (HM.model_alive c16 (hp ++ gen))
        (fold_left (spec_step (cfg15 tol ms)) (replay_st c16 ms extra (HM.m_run c16 hp) gen i) s).
Proof.
  intros tol c16 ms extra gen. induction gen as [|e r IH]; intros hp i s Hnd Hnr Hi Hex Hrest; cbn [replay_st].
  - rewrite app_nil_r. now apply Inv15_extras.
  - inversion Hnr as [|x y He Hr]; subst. rewrite !fold_left_app.
    cbn [rest_ok] in Hrest. apply Bool.andb_true_iff in Hrest. destruct Hrest as [Hex' Hrest].
    rewrite <- HP.m_run_snoc in *.
    replace (hp ++ e :: r) with ((hp ++ [e]) ++ r) by (rewrite <- app_assoc; reflexivity).
    apply IH; [exact Hnd | exact Hr | | exact Hex' | exact Hrest].
    pose proof (C16_edge_triggered c16 hp e) as V. rewrite He in V.
    apply (Inv15_ext ms (apply_log (HM.model_alive c16 hp) (HM.m_tlog (HM.m_run c16 (hp ++ [e]))))).
    + intros n d. symmetry. exact (valid_log_apply _ _ _ V n d).
    + apply Inv15_log; [exact Hnd|]. now apply Inv15_extras.
Qed.

(* THE LINK INVARIANT, after any C16 history (reloads, suppression scopes, forced reports, escalations included),
   whatever C15 policy the group started with, whatever latency updates / policy switches / truthful
   re-notifications happen in between *)
Lemma replay_invariant : forall c16 ms extra tol p0 h,
  NoDup (map fst ms) -> extras_ok c16 ms extra h = true ->
  Inv15 ms (HM.model_alive c16 h) (spec_run (cfg15 tol ms) p0 (replay c16 ms extra h)).
Proof.
  intros c16 ms extra tol p0 h Hnd Hex. unfold replay. unfold extras_ok in Hex.
  destruct (last_generation h) as [p g] eqn:Ec. destruct (last_generation_spec h p g Ec) as [-> Sh].
  apply Bool.andb_true_iff in Hex. destruct Hex as [Hex0 Hrest].
  unfold spec_run. destruct Sh as [[-> Hnr]|[l [suf [-> Hnr]]]].
  - cbn [app]. change g with ([] ++ g) at 1. apply replay_st_inv; try assumption.
    + apply (Inv15_ext ms (fun _ _ => true)); [intros; apply model_alive_nil | apply Inv15_init].
    + apply (ok_extra_ext ms (fun _ _ => true)); [intros; apply model_alive_nil | exact Hex0].
  - cbn [replay_st]. rewrite !fold_left_app.
    cbn [rest_ok] in Hrest. apply Bool.andb_true_iff in Hrest. destruct Hrest as [Hex1 Hrest].
    rewrite <- HP.m_run_snoc in *.
    replace (p ++ H.EReload l :: suf) with ((p ++ [H.EReload l]) ++ suf) by (rewrite <- app_assoc; reflexivity).
    apply replay_st_inv; [exact Hnd | exact Hnr | | exact Hex1 | exact Hrest].
    pose proof (C16_edge_triggered c16 p (H.EReload l)) as V. cbn [HP.no_reload] in V.
    apply (Inv15_ext ms (apply_log (fun _ _ => true) (HM.m_tlog (HM.m_run c16 (p ++ [H.EReload l]))))).
    + intros n d. symmetry. exact (valid_log_apply _ _ _ V n d).
    + apply Inv15_log; [exact Hnd|]. apply Inv15_extras; [exact Hex0 | apply Inv15_init].
Qed.

(* latency updates and policy switches alone are always admissible *)
Lemma neutral_ok_extra : forall ms F l, Forall (fun o => neutral o = true) l -> forallb (ok_extra ms F) l = true.
Proof.
  intros ms F l Hl. apply forallb_forall. intros o Ho. rewrite Forall_forall in Hl. specialize (Hl o Ho).
  destruct o; try discriminate; reflexivity.
Qed.
Lemma neutral_rest_ok : forall c16 ms extra, (forall i, Forall (fun o => neutral o = true) (extra i)) ->
  forall h m i, rest_ok c16 ms extra m h i = true.
Proof.
  intros c16 ms extra Hx h. induction h as [|e r IH]; intros m i; cbn [rest_ok]; [reflexivity|].
  rewrite IH, Bool.andb_true_r. now apply neutral_ok_extra.
Qed.
Theorem neutral_extras_truthful : forall c16 g extra h, extras_neutral extra -> extras_truthful c16 g extra h.
Proof.
  intros c16 g extra h Hx. unfold extras_truthful, extras_ok. destruct (last_generation h) as [p gen].
  rewrite (neutral_rest_ok c16 _ extra Hx), Bool.andb_true_r. now apply neutral_ok_extra.
Qed.

(* ---- headline 1: the view ---- *)
Theorem Link_view_is_C16_alive :
  forall (c16 : H.config) (g : H.group) (extra : nat -> list op) (p0 : gpol) (h : list H.ev) (sp : spol) (t : ntype) (k : nat),
    members_distinct g -> extras_truthful c16 g extra h ->
    let st15 := spec_run (group_cfg c16 g) p0 (group_replay c16 g extra h) in
    ss_policy st15 = GSet sp ->
    view_mem k (ss_views st15 t) = Nat.ltb k (length (H.g_members g)) && alive16 c16 h g k t.
Proof.
  intros c16 g extra p0 h sp t k Hd Hx st15 Hp.
  destruct (replay_invariant c16 (H.g_members g) extra (H.c_tol c16) p0 h Hd Hx) as [_ B].
  exact (B sp Hp t k).
Qed.
Print Assumptions Link_view_is_C16_alive.

(* the members' own flags as C15's store holds them (read by preferAlternateSelectionNetworkType and by a
   fixed -> set policy switch) are C16's flags too *)
Theorem Link_store_flags_are_C16 :
  forall (c16 : H.config) (g : H.group) (extra : nat -> list op) (p0 : gpol) (h : list H.ev) (t : ntype) (k : nat),
    members_distinct g -> extras_truthful c16 g extra h -> (k < length (H.g_members g))%nat ->
    st_alive (g_store (run (group_cfg c16 g) p0 (group_replay c16 g extra h))) k t = alive16 c16 h g k t.
Proof.
  intros c16 g extra p0 h t k Hd Hx Hk.
  destruct (replay_invariant c16 (H.g_members g) extra (H.c_tol c16) p0 h Hd Hx) as [A _].
  destruct (C15_index_consistent (group_cfg c16 g) p0 (group_replay c16 g extra h)) as [E _].
  rewrite E. exact (A k t Hk).
Qed.
Print Assumptions Link_store_flags_are_C16.

(* the candidates of a selection (C15_Spec.cands: the non-excluded nodes of a view) in C16's terms *)
Theorem Link_cands_are_C16_alive :
  forall (c16 : H.config) (g : H.group) (extra : nat -> list op) (p0 : gpol) (h : list H.ev) (sp : spol)
         (excl : option nat) (t : ntype) (k : nat),
    members_distinct g -> extras_truthful c16 g extra h ->
    let st15 := spec_run (group_cfg c16 g) p0 (group_replay c16 g extra h) in
    ss_policy st15 = GSet sp ->
    (In k (cands excl (ss_views st15 t)) <->
     (k < length (H.g_members g))%nat /\ alive16 c16 h g k t = true /\ excl <> Some k).
Proof.
  intros c16 g extra p0 h sp excl t k Hd Hx st15 Hp.
  pose proof (Link_view_is_C16_alive c16 g extra p0 h sp t k Hd Hx Hp) as V. fold st15 in V.
  unfold cands. destruct excl as [e|]; cbn [view_drop].
  - rewrite view_remove_fst, <- view_mem_in, V, Bool.andb_true_iff, Nat.ltb_lt.
    split; [intros [[A B] C]; repeat split; try assumption; congruence
           | intros [A [B C]]; repeat split; try assumption; congruence].
  - rewrite <- view_mem_in, V, Bool.andb_true_iff, Nat.ltb_lt.
    split; [intros [A B]; repeat split; try assumption; discriminate | intros [A [B _]]; now split].
Qed.
Print Assumptions Link_cands_are_C16_alive.

(* ---- headline 2: aliveEntries / dialerToIndex of the C15 model of the Go set ---- *)
Theorem Link_alive_set_is_C16_alive :
  forall (c16 : H.config) (g : H.group) (extra : nat -> list op) (p0 : gpol) (h : list H.ev)
         (sets : ntype -> aset) (t : ntype) (k : nat),
    members_distinct g -> extras_truthful c16 g extra h ->
    g_sets (run (group_cfg c16 g) p0 (group_replay c16 g extra h)) = Some sets ->
    (In k (map fst (a_entries (sets t))) <-> (k < length (H.g_members g))%nat /\ alive16 c16 h g k t = true)
    /\ ((exists i, a_idx (sets t) k = SAt i) <-> (k < length (H.g_members g))%nat /\ alive16 c16 h g k t = true).
Proof.
  intros c16 g extra p0 h sets t k Hd Hx Hs.
  destruct (C15_index_consistent (group_cfg c16 g) p0 (group_replay c16 g extra h)) as (_ & Hpol & Hm).
  destruct (g_policy (run (group_cfg c16 g) p0 (group_replay c16 g extra h))) as [i|sp] eqn:Ep; [congruence|].
  destruct Hm as (sets' & Hs' & Hall). rewrite Hs in Hs'. injection Hs' as <-.
  destruct (Hall t) as (_ & [Hidx (_ & Hmem & _)] & _).
  pose proof (Link_view_is_C16_alive c16 g extra p0 h sp t k Hd Hx (eq_sym Hpol)) as V. cbn zeta in V.
  assert (M : In k (map fst (a_entries (sets t))) <-> (k < length (H.g_members g))%nat /\ alive16 c16 h g k t = true).
  { rewrite Hmem, <- view_mem_in, V, Bool.andb_true_iff, Nat.ltb_lt. tauto. }
  split; [exact M|]. rewrite <- M. symmetry. apply (idx_ok_in _ _ k Hidx).
Qed.
Print Assumptions Link_alive_set_is_C16_alive.

(* ---- headline 3: the same set three ways: C15's model under replay of the EDGES, C16's own alive set (driven by
   every informDialerGroupUpdate call, edge or not), C16's flags ---- *)
Theorem Link_sets_agree_three_way :
  forall (c16 : H.config) (gi : N) (g : H.group) (extra : nat -> list op) (p0 : gpol) (h : list H.ev)
         (sets : ntype -> aset) (d : H.dom),
    nth_error (H.c_groups c16) (N.to_nat gi) = Some g -> H.keeps_sets g = true ->
    members_distinct g -> extras_truthful c16 g extra h ->
    g_sets (run (group_cfg c16 g) p0 (group_replay c16 g extra h)) = Some sets ->
    let a16 := HM.m_sets (HM.m_run c16 h) gi d in
    (forall k, (k < length (H.g_members g))%nat ->
       (In k (map fst (a_entries (sets (nt d)))) <-> HM.is_member (node_at (H.g_members g) k) (HM.as_entries a16) = true))
    /\ (forall k, In k (map fst (a_entries (sets (nt d)))) -> (k < length (H.g_members g))%nat)
    /\ (forall n, HM.is_member n (HM.as_entries a16) = true ->
          exists k, pos_of n (H.g_members g) = Some k /\ In k (map fst (a_entries (sets (nt d))))).
Proof.
  intros c16 gi g extra p0 h sets d Hg Hk Hd Hx Hs a16.
  destruct (C16_groups_agree c16 h gi g d Hg Hk) as (_ & Hin & Hal). fold a16 in Hin, Hal.
  assert (M : forall k, In k (map fst (a_entries (sets (nt d)))) <->
                        (k < length (H.g_members g))%nat /\ alive16 c16 h g k (nt d) = true)
    by (intros k; apply (Link_alive_set_is_C16_alive c16 g extra p0 h sets (nt d) k Hd Hx Hs)).
  unfold alive16 in M. split; [|split].
  - intros k H0. split.
    + intros Hi. rewrite (Hal _ (node_at_in _ k H0)). apply M in Hi. rewrite dom_of_nt in Hi. tauto.
    + intros Hi. apply M. split; [assumption|]. rewrite dom_of_nt, <- (Hal _ (node_at_in _ k H0)). exact Hi.
  - intros k Hi. apply M in Hi. tauto.
  - intros n Hn. pose proof (Hin n Hn) as Hmem.
    destruct (pos_of n (H.g_members g)) as [k|] eqn:Ep; [|exfalso; exact (pos_of_none _ _ Ep Hmem)].
    exists k. split; [reflexivity|]. destruct (pos_of_some _ _ _ Ep) as [Hlt Hnode].
    apply M. split; [exact Hlt|]. rewrite dom_of_nt, Hnode, <- (Hal n Hmem). exact Hn.
Qed.
Print Assumptions Link_sets_agree_three_way.

(* ------------------------------------------------------------------------------------------------ *)
(* Part 5: selection, in C16's terms                                                                  *)
(* ------------------------------------------------------------------------------------------------ *)

(* does C16 hold some non-excluded member of the group alive for type t ? *)
Definition cand16b (c16 : H.config) (h : list H.ev) (g : H.group) (excl : option nat) (t : ntype) : bool :=
  existsb (fun k => alive16 c16 h g k t && negb (onat_eqb (Some k) excl)) (seq 0 (length (H.g_members g))).

Lemma onat_neq : forall k excl, negb (onat_eqb (Some k) excl) = true <-> excl <> Some k.
Proof.
  intros k [e|]; cbn [onat_eqb negb]; [|split; [discriminate | reflexivity]].
  rewrite Bool.negb_true_iff, Nat.eqb_neq. split; [congruence | intros A B; apply A; now subst].
Qed.

Lemma cand16b_true : forall c16 h g excl t,
  cand16b c16 h g excl t = true <->
  exists k, (k < length (H.g_members g))%nat /\ alive16 c16 h g k t = true /\ excl <> Some k.
Proof.
  intros. unfold cand16b. rewrite existsb_exists. split.
  - intros [k [Hin Hk]]. apply in_seq in Hin. apply Bool.andb_true_iff in Hk. destruct Hk as [A B].
    exists k. repeat split; [lia | exact A | now apply onat_neq].
  - intros [k [A [B C]]]. exists k. split; [apply in_seq; lia|]. rewrite B. now apply onat_neq.
Qed.

(* the type that serves a selection (C15_Spec.first_nonempty over the views) is the first type of the documented
   chain for which C16 holds a non-excluded member alive *)
Theorem Link_serving_type_C16 :
  forall (c16 : H.config) (g : H.group) (extra : nat -> list op) (p0 : gpol) (h : list H.ev) (sp : spol)
         (excl : option nat) (ts : list ntype),
    members_distinct g -> extras_truthful c16 g extra h ->
    let st15 := spec_run (group_cfg c16 g) p0 (group_replay c16 g extra h) in
    ss_policy st15 = GSet sp ->
    first_nonempty (ss_views st15) excl ts = find (cand16b c16 h g excl) ts.
Proof.
  intros c16 g extra p0 h sp excl ts Hd Hx st15 Hp. unfold first_nonempty.
  induction ts as [|t r IH]; [reflexivity|]. cbn [find]. rewrite IH.
  assert (E : match cands excl (ss_views st15 t) with [] => false | _ :: _ => true end = cand16b c16 h g excl t).
  { destruct (cand16b c16 h g excl t) eqn:Ec.
    - apply cand16b_true in Ec. destruct Ec as [k Hk].
      apply (Link_cands_are_C16_alive c16 g extra p0 h sp excl t k Hd Hx Hp) in Hk. fold st15 in Hk.
      destruct (cands excl (ss_views st15 t)); [destruct Hk | reflexivity].
    - destruct (cands excl (ss_views st15 t)) as [|k ks] eqn:Ek; [reflexivity|].
      assert (Hin : In k (cands excl (ss_views st15 t))) by (rewrite Ek; now left).
      apply (Link_cands_are_C16_alive c16 g extra p0 h sp excl t k Hd Hx Hp) in Hin.
      assert (X : cand16b c16 h g excl t = true) by (apply cand16b_true; now exists k). congruence. }
  now rewrite E.
Qed.
Print Assumptions Link_serving_type_C16.

Lemma select_empty_group : forall c G rq strict excl, c_n c = O -> select c G rq strict excl = MErr ENoDialer 0.
Proof. intros c G rq strict excl E. unfold select, select1. rewrite E. reflexivity. Qed.

(* ---- headline 4: a group never selects a node C16 holds dead (random and the three min-latency policies) ---- *)
Theorem Link_select_never_dead :
  forall (c16 : H.config) (g : H.group) (extra : nat -> list op) (p0 : gpol) (h : list H.ev) (sp : spol)
         (rq : reqtype) (strict : bool) (excl : option nat) (k : nat) (l : Z),
    members_distinct g -> extras_truthful c16 g extra h ->
    let c := group_cfg c16 g in
    let G := run c p0 (group_replay c16 g extra h) in
    g_policy G = GSet sp ->                 (* set_policy: the group keeps alive sets (not `fixed`) *)
    no_last_resort c strict ->              (* not the one-node strict last resort *)
    In (ROk k l) (results_of (select c G rq strict excl)) ->
    exists t', find (cand16b c16 h g excl) (tried (key_of rq) strict) = Some t'
               /\ (k < length (H.g_members g))%nat /\ alive16 c16 h g k t' = true /\ excl <> Some k.
Proof.
  intros c16 g extra p0 h sp rq strict excl k l Hd Hx c G Hp Hlr Hin.
  destruct (C15_index_consistent c p0 (group_replay c16 g extra h)) as (_ & Hpol & _). fold G in Hpol.
  destruct (c_n c) as [|n] eqn:En.
  - rewrite (select_empty_group c G rq strict excl En) in Hin. cbn in Hin. destruct Hin as [X|[]]; discriminate.
  - assert (Hn : c_n c <> O) by congruence.
    assert (Hok : select_ok c (spec_run c p0 (group_replay c16 g extra h)) (key_of rq) strict excl (ROk k l) = true).
    { destruct sp as [|m]; [exact (C15_select_random_ok c p0 _ rq strict excl _ Hn Hp Hin)
                           | exact (C15_select_min c p0 _ rq strict excl m _ Hn Hp Hin)]. }
    unfold select_ok in Hok. rewrite En, <- Hpol, Hp in Hok.
    assert (Hsp : ss_policy (spec_run c p0 (group_replay c16 g extra h)) = GSet sp) by congruence.
    rewrite (Link_serving_type_C16 c16 g extra p0 h sp excl _ Hd Hx Hsp) in Hok.
    destruct (find (cand16b c16 h g excl) (tried (key_of rq) strict)) as [t'|] eqn:Ef.
    + exists t'. split; [reflexivity|]. apply Bool.andb_true_iff in Hok. destruct Hok as [Hm _].
      apply view_mem_in in Hm.
      exact (proj1 (Link_cands_are_C16_alive c16 g extra p0 h sp excl t' k Hd Hx Hsp) Hm).
    + unfold no_last_resort in Hlr. rewrite En in Hlr. rewrite Hlr in Hok. discriminate.
Qed.
Print Assumptions Link_select_never_dead.

(* ---- headline 5: random policy: every member C16 holds alive for the serving type (and not excluded) can be
   selected.  (Uses select_rand_spec / chain_selection_types of C15_Proofs.v: C15_Props.v has no statement that
   the random selection reaches EVERY candidate.) ---- *)
Theorem Link_select_random_every_alive :
  forall (c16 : H.config) (g : H.group) (extra : nat -> list op) (p0 : gpol) (h : list H.ev)
         (rq : reqtype) (strict : bool) (excl : option nat) (t' : ntype) (k : nat),
    members_distinct g -> extras_truthful c16 g extra h ->
    let c := group_cfg c16 g in
    let G := run c p0 (group_replay c16 g extra h) in
    g_policy G = GSet SRandom ->
    find (cand16b c16 h g excl) (tried (key_of rq) strict) = Some t' ->
    (k < length (H.g_members g))%nat -> alive16 c16 h g k t' = true -> excl <> Some k ->
    In (ROk k 0) (results_of (select c G rq strict excl)).
Proof.
  intros c16 g extra p0 h rq strict excl t' k Hd Hx c G Hp Hf Hk Ha He.
  destruct (C15_index_consistent c p0 (group_replay c16 g extra h)) as (_ & Hpol & Hm). fold G in Hpol, Hm.
  set (st15 := spec_run c p0 (group_replay c16 g extra h)) in *.
  rewrite Hp in Hm. destruct Hm as (sets & Hs & Hall).
  assert (Hok : forall t, set_ok (sets t) (ss_views st15 t)) by (intros t; apply (Hall t)).
  assert (Hsp : ss_policy st15 = GSet SRandom) by congruence.
  assert (Hc : In k (cands excl (ss_views st15 t'))).
  { apply (Link_cands_are_C16_alive c16 g extra p0 h SRandom excl t' k Hd Hx Hsp). tauto. }
  assert (Hff : forall ts, first_nonempty (ss_views st15) excl ts = find (cand16b c16 h g excl) ts)
    by (intros ts; exact (Link_serving_type_C16 c16 g extra p0 h SRandom excl ts Hd Hx Hsp)).
  assert (Hn : c_n c <> O) by (unfold c, group_cfg, cfg15; cbn [c_n]; lia).
  clearbody st15 G c.
  unfold select, select1. rewrite Hp, Hs. destruct (c_n c) as [|n] eqn:En; [congruence|].
  rewrite !chain_selection_types. set (t := key_of rq) in *.
  pose proof (select_rand_spec (g_store G) sets (ss_views st15) excl (chain t) Hok) as H1.
  unfold tried in Hf. rewrite (Hff (chain t)) in H1.
  destruct (find (cand16b c16 h g excl) (chain t)) as [t1|] eqn:E1.
  - assert (t1 = t') by (destruct strict; [congruence | rewrite find_app', E1 in Hf; congruence]). subst t1.
    destruct H1 as (ds & sel & Hsel & Hds). rewrite Hsel. cbn [results_of].
    apply in_map_iff. exists k. split; [reflexivity|]. apply Hds. exact Hc.
  - rewrite H1. destruct strict; [congruence|]. cbn [negb].
    rewrite find_app', E1 in Hf.
    pose proof (select_rand_spec (g_store G) sets (ss_views st15) excl (chain (flip_t t)) Hok) as H2.
    rewrite (Hff (chain (flip_t t))), Hf in H2. rewrite chain_selection_types.
    destruct H2 as (ds & sel & Hsel & Hds). rewrite Hsel. cbn [results_of].
    apply in_map_iff. exists k. split; [reflexivity|]. apply Hds. exact Hc.
Qed.
Print Assumptions Link_select_random_every_alive.

(* ---- headline 6: random / min-latency: `no alive node` is reported iff C16 holds no non-excluded member alive for
   any type of the documented chain (so: whenever C16 holds one alive, a node IS selected) ---- *)
Theorem Link_select_no_alive_iff :
  forall (c16 : H.config) (g : H.group) (extra : nat -> list op) (p0 : gpol) (h : list H.ev) (sp : spol)
         (rq : reqtype) (strict : bool) (excl : option nat),
    members_distinct g -> extras_truthful c16 g extra h -> H.g_members g <> [] ->
    let c := group_cfg c16 g in
    let G := run c p0 (group_replay c16 g extra h) in
    g_policy G = GSet sp ->
    ((exists l, In (RErr ENoAlive l) (results_of (select c G rq strict excl))) <->
     (forall t', In t' (tried (key_of rq) strict) -> cand16b c16 h g excl t' = false) /\ no_last_resort c strict).
Proof.
  intros c16 g extra p0 h sp rq strict excl Hd Hx Hne c G Hp. subst G.
  destruct (C15_index_consistent c p0 (group_replay c16 g extra h)) as (_ & Hpol & _).
  assert (Hsp : ss_policy (spec_run c p0 (group_replay c16 g extra h)) = GSet sp) by congruence.
  assert (Hn : c_n c <> O).
  { unfold c, group_cfg, cfg15; cbn [c_n]. destruct (H.g_members g); [congruence | discriminate]. }
  rewrite (C15_select_complete c p0 (group_replay c16 g extra h) rq strict excl sp Hn Hp).
  unfold no_last_resort.
  assert (E : forall t', cands excl (ss_views (spec_run c p0 (group_replay c16 g extra h)) t') = [] <->
                         cand16b c16 h g excl t' = false).
  { intros t'. pose proof (Link_serving_type_C16 c16 g extra p0 h sp excl [t'] Hd Hx Hsp) as A.
    unfold first_nonempty in A. cbn [find] in A.
    destruct (cands excl (ss_views (spec_run (group_cfg c16 g) p0 (group_replay c16 g extra h)) t')) eqn:Ec;
      fold c in Ec; rewrite Ec; destruct (cand16b c16 h g excl t'); try discriminate; split; congruence. }
  split; intros [A B]; (split; [|exact B]); intros t' Ht; apply E; now apply A.
Qed.
Print Assumptions Link_select_no_alive_iff.

(* ---- headline 7: min-latency: the standing choice (minLatency.dialer) is a node C16 holds alive, and exists
   whenever C16 holds a member alive ---- *)
Theorem Link_best_is_C16_alive :
  forall (c16 : H.config) (g : H.group) (extra : nat -> list op) (p0 : gpol) (h : list H.ev) (m : mpol)
         (sets : ntype -> aset) (t : ntype),
    members_distinct g -> extras_truthful c16 g extra h ->
    let G := run (group_cfg c16 g) p0 (group_replay c16 g extra h) in
    g_policy G = GSet (SMin m) -> g_sets G = Some sets ->
    (forall b, a_best (sets t) = Some b -> (b < length (H.g_members g))%nat /\ alive16 c16 h g b t = true)
    /\ ((exists k, (k < length (H.g_members g))%nat /\ alive16 c16 h g k t = true) -> a_best (sets t) <> None).
Proof.
  intros c16 g extra p0 h m sets t Hd Hx G Hp Hs.
  destruct (C15_index_consistent (group_cfg c16 g) p0 (group_replay c16 g extra h)) as (_ & Hpol & _). fold G in Hpol.
  assert (Hsp : ss_policy (spec_run (group_cfg c16 g) p0 (group_replay c16 g extra h)) = GSet (SMin m)) by congruence.
  destruct (C15_best_is_alive (group_cfg c16 g) p0 (group_replay c16 g extra h) m sets t Hp Hs) as [A B].
  split.
  - intros b Hb. destruct (A b Hb) as [Hv _].
    rewrite (Link_view_is_C16_alive c16 g extra p0 h (SMin m) t b Hd Hx Hsp) in Hv.
    apply Bool.andb_true_iff in Hv. destruct Hv as [X Y]. apply Nat.ltb_lt in X. now split.
  - intros [k [Hk Ha]]. apply B. intros Hnil.
    pose proof (Link_view_is_C16_alive c16 g extra p0 h (SMin m) t k Hd Hx Hsp) as V. cbn zeta in V.
    rewrite Hnil, Ha in V. apply Nat.ltb_lt in Hk. rewrite Hk in V. discriminate.
Qed.
Print Assumptions Link_best_is_C16_alive.

(* ---- headline 8: latency-policy group: C15's standing choice exists exactly when C16's connectivity bit of
   the group (the value the kernel reads, C16_connectivity_bit) is 1 ---- *)
Theorem Link_best_iff_connectivity_bit :
  forall (c16 : H.config) (gi : N) (g : H.group) (extra : nat -> list op) (p0 : gpol) (h : list H.ev) (m : mpol)
         (sets : ntype -> aset) (d : H.dom),
    nth_error (H.c_groups c16) (N.to_nat gi) = Some g -> H.g_policy g = H.PMin -> H.g_members g <> [] ->
    members_distinct g -> extras_truthful c16 g extra h ->
    let G := run (group_cfg c16 g) p0 (group_replay c16 g extra h) in
    g_policy G = GSet (SMin m) -> g_sets G = Some sets ->
    (a_best (sets (nt d)) <> None <-> HM.m_bits (HM.m_run c16 h) gi d = true).
Proof.
  intros c16 gi g extra p0 h m sets d Hg Hpm Hne Hd Hx G Hp Hs.
  rewrite (C16_connectivity_bit c16 h gi g d Hg Hpm). unfold HP.bit_of_alive.
  destruct (Link_best_is_C16_alive c16 g extra p0 h m sets (nt d) Hd Hx Hp Hs) as [A B].
  unfold alive16 in A, B. rewrite dom_of_nt in *.
  assert (L0 : Nat.eqb (length (H.g_members g)) 0 = false) by (destruct (H.g_members g); [congruence | reflexivity]).
  rewrite L0. cbn [orb]. rewrite existsb_exists. split.
  - intros Hb. destruct (a_best (sets (nt d))) as [b|] eqn:Eb; [|congruence].
    destruct (A b eq_refl) as [Hlt Hal]. exists (node_at (H.g_members g) b). split; [now apply node_at_in | exact Hal].
  - intros [x [Hin Hal]]. apply B. apply in_map_iff in Hin. destruct Hin as [mm [<- Hin]].
    destruct (In_nth _ _ (0%N, 0%Z) Hin) as [k [Hk Hnth]]. exists k. split; [exact Hk|]. unfold node_at. now rewrite Hnth.
Qed.
Print Assumptions Link_best_iff_connectivity_bit.

(* ------------------------------------------------------------------------------------------------ *)
(* Part 6: the corners — witnesses that the named conditions cannot be dropped                         *)
(* ------------------------------------------------------------------------------------------------ *)

Definition no_extra : nat -> list op := fun _ => [].
Definition rq_tcp (v : ipv) : reqtype := {| rq_l4 := TCP; rq_ipv := v; rq_isdns := false; rq_udpdom := UUnset |}.
Definition wit_cfg (gs : list H.group) : H.config := {| H.c_addr := fun n => (n + 1)%N; H.c_groups := gs; H.c_tol := 0%Z |}.
Definition fail (n : N) (d : H.dom) : H.ev := H.EFail n d H.KCheck false [].
(* the composed pipeline: C16 history -> edges -> C15 group -> selection *)
Definition pipeline (c16 : H.config) (g : H.group) (extra : nat -> list op) (p0 : gpol) (h : list H.ev)
           (rq : reqtype) (strict : bool) (excl : option nat) : list sel_res :=
  results_of (select (group_cfg c16 g) (run (group_cfg c16 g) p0 (group_replay c16 g extra h)) rq strict excl).

(* FINDING 1 (by design, C15_fixed_ith): a `fixed` group keeps no alive set (C16: keeps_sets = false, C15: g_sets =
   None) and hands out its node whatever C16 says: "never selects a dead node" needs `g_policy G = GSet _`. *)
Definition wF_g : H.group := {| H.g_policy := H.PFixed; H.g_members := [(7%N, 0%Z); (9%N, 0%Z)] |}.
Theorem Link_fixed_selects_dead_witness :
  members_distinct wF_g /\ pol_matches (H.g_policy wF_g) (GFixed 0)
  /\ alive16 (wit_cfg [wF_g]) [fail 7 H.Tcp4] wF_g 0 (DTcp, V4) = false
  /\ pipeline (wit_cfg [wF_g]) wF_g no_extra (GFixed 0) [fail 7 H.Tcp4] (rq_tcp V4) true None = [ROk 0 0].
Proof.
  split; [unfold members_distinct; cbn [wF_g H.g_members map fst]; repeat constructor; cbn [In]; intuition discriminate|].
  split; [exact I|]. split; vm_compute; reflexivity.
Qed.
Print Assumptions Link_fixed_selects_dead_witness.

(* FINDING 2: the one-node last resort of SelectWithExclusionResult (strict callers): a group whose only node C16
   holds dead still hands it out (latency = the 10 s timeout) — C15's fallback when the alive set is empty.
   A non-strict caller is served from the other IP family instead.  Hence `no_last_resort`. *)
Definition wL_g : H.group := {| H.g_policy := H.PRandom; H.g_members := [(7%N, 0%Z)] |}.
Theorem Link_last_resort_selects_dead_witness :
  members_distinct wL_g /\ extras_truthful (wit_cfg [wL_g]) wL_g no_extra [fail 7 H.Tcp4]
  /\ alive16 (wit_cfg [wL_g]) [fail 7 H.Tcp4] wL_g 0 (DTcp, V4) = false
  /\ pipeline (wit_cfg [wL_g]) wL_g no_extra (GSet SRandom) [fail 7 H.Tcp4] (rq_tcp V4) true None = [ROk 0 timeout]
  /\ pipeline (wit_cfg [wL_g]) wL_g no_extra (GSet SRandom) [fail 7 H.Tcp4] (rq_tcp V4) false None = [ROk 0 0]
  /\ alive16 (wit_cfg [wL_g]) [fail 7 H.Tcp4] wL_g 0 (DTcp, V6) = true.
Proof.
  split; [unfold members_distinct; cbn [wL_g H.g_members map fst]; repeat constructor; cbn [In]; intuition discriminate|].
  split; [vm_compute; reflexivity|]. split; [vm_compute; reflexivity|]. split; [vm_compute; reflexivity|].
  split; vm_compute; reflexivity.
Qed.
Print Assumptions Link_last_resort_selects_dead_witness.

(* FINDING 3 (adapter): C15 numbers dialers by position, C16 (and the Go alive set, keyed by *Dialer) by identity.
   A member listed twice has two C15 positions but one health state; the second position is never notified and
   stays "alive" in C15 while the node is dead: hence `members_distinct`. *)
Definition wD_g : H.group := {| H.g_policy := H.PRandom; H.g_members := [(7%N, 0%Z); (7%N, 0%Z)] |}.
Theorem Link_duplicate_member_witness :
  ~ members_distinct wD_g
  /\ alive16 (wit_cfg [wD_g]) [fail 7 H.Tcp4] wD_g 1 (DTcp, V4) = false
  /\ pipeline (wit_cfg [wD_g]) wD_g no_extra (GSet SRandom) [fail 7 H.Tcp4] (rq_tcp V4) true None = [ROk 1 0].
Proof.
  split; [|split; vm_compute; reflexivity].
  unfold members_distinct. cbn [wD_g H.g_members map fst]. intros Hn. inversion Hn as [|x l Hnin _]; subst. apply Hnin. now left.
Qed.
Print Assumptions Link_duplicate_member_witness.

(* FINDING 4: a notification that is not C16's flag (here: "alive" for a node C16 holds dead) puts a dead node
   into the set; nothing in C15 checks it.  Hence `extras_truthful` (every non-edge notification repeats the
   current C16 flag). *)
Definition wU_g : H.group := {| H.g_policy := H.PRandom; H.g_members := [(3%N, 0%Z); (5%N, 0%Z)] |}.
Definition wU_extra : nat -> list op := fun i => match i with 1%nat => [ONotify 1 (DTcp, V4) true] | _ => [] end.
Theorem Link_untruthful_notification_witness :
  members_distinct wU_g /\ extras_ok (wit_cfg [wU_g]) (H.g_members wU_g) wU_extra [fail 5 H.Tcp4] = false
  /\ alive16 (wit_cfg [wU_g]) [fail 5 H.Tcp4] wU_g 1 (DTcp, V4) = false
  /\ pipeline (wit_cfg [wU_g]) wU_g wU_extra (GSet SRandom) [fail 5 H.Tcp4] (rq_tcp V4) true None = [ROk 0 0; ROk 1 0].
Proof.
  split; [unfold members_distinct; cbn [wU_g H.g_members map fst]; repeat constructor; cbn [In]; intuition discriminate|].
  split; [vm_compute; reflexivity|]. split; vm_compute; reflexivity.
Qed.
Print Assumptions Link_untruthful_notification_witness.

(* FINDING 5 (consequence of the OPEN C16 finding reload-leaves-group-without-alive-member, C16_reload_floor_refuted):
   groups A = {n0, n1}, B = {n0, n2}, n0 and n1 dead on tcp6, reload.  The two models AGREE (the link theorems
   hold: C15's set = C16's flags = C16's set = empty), so the composition transports the defect: the non-empty
   latency group A answers `no alive node` to a strict tcp6 caller right after the reload, although
   EnsureReloadSelectionFloor had revived n0 for it (edge 3 of the replay) before group B's restore killed it
   again (edge 4). *)
Definition wR_g : H.group := {| H.g_policy := H.PMin; H.g_members := [(0%N, 0%Z); (1%N, 0%Z)] |}.
Theorem Link_reload_no_alive_witness :
  nth_error (H.c_groups HP.wit_cfg2) 0 = Some wR_g /\ members_distinct wR_g
  /\ extras_truthful HP.wit_cfg2 wR_g no_extra HP.wit_h_floor
  /\ group_replay HP.wit_cfg2 wR_g no_extra HP.wit_h_floor
     = [OAlive 0 (DTcp, V6) false; ONotify 0 (DTcp, V6) false; OAlive 1 (DTcp, V6) false; ONotify 1 (DTcp, V6) false;
        OAlive 0 (DTcp, V6) true; ONotify 0 (DTcp, V6) true; OAlive 0 (DTcp, V6) false; ONotify 0 (DTcp, V6) false]
  /\ map (fun k => alive16 HP.wit_cfg2 HP.wit_h_floor wR_g k (DTcp, V6)) [0; 1]%nat = [false; false]
  /\ HM.as_entries (HM.m_sets (HM.m_run HP.wit_cfg2 HP.wit_h_floor) 0 H.Tcp6) = []
  /\ pipeline HP.wit_cfg2 wR_g no_extra (GSet (SMin MLast)) HP.wit_h_floor (rq_tcp V6) true None = [RErr ENoAlive hour].
Proof.
  split; [reflexivity|].
  split; [unfold members_distinct; cbn [wR_g H.g_members map fst]; repeat constructor; cbn [In]; intuition discriminate|].
  split; [vm_compute; reflexivity|]. split; [vm_compute; reflexivity|]. split; [vm_compute; reflexivity|].
  split; [exact (proj1 C16_reload_floor_refuted) | vm_compute; reflexivity].
Qed.
Print Assumptions Link_reload_no_alive_witness.

(* ------------------------------------------------------------------------------------------------ *)
(* Part 7: non-vacuity                                                                                *)
(* ------------------------------------------------------------------------------------------------ *)
(* two groups sharing node 5; history: 5 dies on tcp4, one (uncounted-to-death) DNS probe failure of 3, 8 dies and
   is revived, RELOAD (5 inherits "dead"), 3 dies on tcp4.
   Group 0 (random; positions 0,1,2 = nodes 3,5,8) with a latency update and two run-time policy switches in
   between: only position 2 is offered for tcp4; excluding it: `no alive node` for a strict caller, positions
   {0,1} from tcp6 for a non-strict one.
   Group 1 (min latency; positions 0,1 = nodes 5,9; offsets 0,5) with a latency sample and a truthful
   re-notification of node 9: position 1 is selected with 100 + 5; its standing choice is position 1 and C16's
   connectivity bit of the group is 1. *)
Definition ex_g0 : H.group := {| H.g_policy := H.PRandom; H.g_members := [(3%N, 0%Z); (5%N, 10%Z); (8%N, 0%Z)] |}.
Definition ex_g1 : H.group := {| H.g_policy := H.PMin; H.g_members := [(5%N, 0%Z); (9%N, 5%Z)] |}.
Definition ex_cfg : H.config := wit_cfg [ex_g0; ex_g1].
Definition ex_h : list H.ev :=
  [fail 5 H.Tcp4; fail 3 H.DnsUdp4; fail 8 H.Tcp4; H.EProbeOk 8 H.Tcp4 []; H.EReload []; fail 3 H.Tcp4].
Definition ex_extra0 : nat -> list op := fun i =>
  match i with
  | 1%nat => [OLat 2 (DTcp, V4) (Some 5%Z, Some 5%Z, Some 5%Z); OPolicy (GSet (SMin MLast))]
  | 2%nat => [OPolicy (GSet SRandom)]
  | _ => []
  end.
Definition ex_extra1 : nat -> list op := fun i =>
  match i with
  | 2%nat => [OLat 1 (DTcp, V4) (Some 100%Z, Some 100%Z, Some 100%Z); ONotify 1 (DTcp, V4) true]
  | _ => []
  end.

Example Link_C15_C16_nonvacuous :
  (* hypotheses of the composed theorems hold *)
  members_distinct ex_g0 /\ members_distinct ex_g1
  /\ extras_truthful ex_cfg ex_g0 ex_extra0 ex_h /\ extras_truthful ex_cfg ex_g1 ex_extra1 ex_h
  /\ g_policy (run (group_cfg ex_cfg ex_g0) (GSet SRandom) (group_replay ex_cfg ex_g0 ex_extra0 ex_h)) = GSet SRandom
  /\ no_last_resort (group_cfg ex_cfg ex_g0) true
  (* the replay is not trivial *)
  /\ group_replay ex_cfg ex_g0 ex_extra0 ex_h
     = [OAlive 1 (DTcp, V4) false; ONotify 1 (DTcp, V4) false;
        OLat 2 (DTcp, V4) (Some 5%Z, Some 5%Z, Some 5%Z); OPolicy (GSet (SMin MLast));
        OAlive 0 (DTcp, V4) false; ONotify 0 (DTcp, V4) false; OPolicy (GSet SRandom)]
  /\ map (fun k => alive16 ex_cfg ex_h ex_g0 k (DTcp, V4)) [0; 1; 2]%nat = [false; false; true]
  /\ pipeline ex_cfg ex_g0 ex_extra0 (GSet SRandom) ex_h (rq_tcp V4) true None = [ROk 2 0]
  /\ pipeline ex_cfg ex_g0 ex_extra0 (GSet SRandom) ex_h (rq_tcp V4) true (Some 2%nat) = [RErr ENoAlive hour]
  /\ pipeline ex_cfg ex_g0 ex_extra0 (GSet SRandom) ex_h (rq_tcp V4) false (Some 2%nat) = [ROk 0 0; ROk 1 0]
  /\ pipeline ex_cfg ex_g1 ex_extra1 (GSet (SMin MLast)) ex_h (rq_tcp V4) true None = [ROk 1 105]
  /\ match g_sets (run (group_cfg ex_cfg ex_g1) (GSet (SMin MLast)) (group_replay ex_cfg ex_g1 ex_extra1 ex_h)) with
     | Some s => a_best (s (DTcp, V4)) = Some 1%nat /\ a_entries (s (DTcp, V4)) = [(1%nat, 105%Z)]
     | None => False
     end
  /\ HM.m_bits (HM.m_run ex_cfg ex_h) 1 H.Tcp4 = true
  /\ HM.as_entries (HM.m_sets (HM.m_run ex_cfg ex_h) 1 H.Tcp4) = [(9%N, 0%Z)].
Proof.
  split; [unfold members_distinct; cbn [ex_g0 H.g_members map fst]; repeat constructor; cbn [In]; intuition discriminate|].
  split; [unfold members_distinct; cbn [ex_g1 H.g_members map fst]; repeat constructor; cbn [In]; intuition discriminate|].
  do 10 (split; [vm_compute; reflexivity|]).
  split; [vm_compute; split; reflexivity|]. split; vm_compute; reflexivity.
Qed.
Print Assumptions Link_C15_C16_nonvacuous.

(* and the composed theorems apply to it: e.g. Link_select_never_dead on the example *)
Example Link_C15_C16_nonvacuous_applied :
  forall k l, In (ROk k l) (pipeline ex_cfg ex_g0 ex_extra0 (GSet SRandom) ex_h (rq_tcp V4) true None) ->
    exists t', find (cand16b ex_cfg ex_h ex_g0 None) (tried (key_of (rq_tcp V4)) true) = Some t'
               /\ (k < 3)%nat /\ alive16 ex_cfg ex_h ex_g0 k t' = true /\ None <> Some k.
Proof.
  intros k l Hin. destruct Link_C15_C16_nonvacuous as (D0 & _ & X0 & _ & P0 & L0 & _).
  exact (Link_select_never_dead ex_cfg ex_g0 ex_extra0 (GSet SRandom) ex_h SRandom (rq_tcp V4) true None k l D0 X0 P0 L0 Hin).
Qed.
Print Assumptions Link_C15_C16_nonvacuous_applied.

(* ------------------------------------------------------------------------------------------------ *)
(* Summary of the interface                                                                           *)
(* ------------------------------------------------------------------------------------------------ *)
(* DISCHARGED (no longer hypotheses of the composed statements):
   - "the view / alive set C15's selection theorems quantify over is the set of alive nodes": proved from
     C16_edge_triggered for every C16 history (Link_view_is_C16_alive, Link_alive_set_is_C16_alive);
   - initial state: C16's fresh dialers (all alive) = C15's store0 / view_build (all alive) (model_alive_nil, Inv15_init);
   - reload / inherited health: the new generation starts all-alive on both sides and the reload's own edge log
     (relative to all-alive, as C16_edge_triggered states it) is replayed first (last_generation, replay_invariant);
   - forced reports, escalation, suppression, ignorable errors: nothing to assume, they only shape the edge log;
   - notifications for nodes outside the group: not delivered (edge_ops), and harmless (Inv15_edge, second case);
   - type encodings, enumeration order, fallback chains, offsets: adapter lemmas of Part 1;
   - C15's c_n <> 0 side condition: discharged in Link_select_never_dead (an empty group selects nothing);
   - the `first dialer without latency` branch / kernel bit: both sides agree (Link_best_iff_connectivity_bit).
   REMAIN (explicit, each with a witness that it cannot be dropped):
   - members_distinct g        : no node listed twice in a group (C15 numbers positions, C16 / Go key by identity);
   - g_policy G = GSet sp      : random or a min-latency policy at selection time; `fixed` hands out dead nodes by design;
   - no_last_resort c strict   : not (one-node group and strict caller);
   - extras_truthful           : what reaches the C15 set besides C16's edges is latency updates, policy switches and
                                 notifications that repeat the CURRENT C16 flag.  C16's model does not expose the list
                                 of informDialerGroupUpdate calls (only the edge log m_tlog and its own sets m_sets),
                                 so "every non-edge call is truthful" is not proved here; Link_sets_agree_three_way
                                 shows the membership reached through all calls (C16's m_sets) is the one reached
                                 through the edges alone.
   NOT LINKED: the callback logs (C15 cblog vs C16 m_blog) and the latency the set caches for a member (C16 passes
   it through an oracle latmap keyed by (node, group, type); C15 reads a per-node summary lat3): only membership,
   the standing choice's aliveness and the connectivity bit are composed. *)
